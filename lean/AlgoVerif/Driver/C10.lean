import AlgoVerif.Model.C10
import AlgoVerif.Model.C08
/-!
Line-protocol component for C10 and C12 (shared; `Driver/C12.lean` delegates here).

A case is a grammar description (`terms …`, `nonterms …`, `start S`, `prod H : body`, see
`Model/GrammarCore.lean`; each answers `ok`) followed by query ops.  Description lines may also come
between queries — the harness then changes the SAME `*CFG` object in place (`Productions.Add`, …) — and
`unprod H : body` removes a production in place; later queries see the changed grammar.

```
nullable            -> ok {A,B}
first X Y …         -> ok {a,b} eps=false            (panic: a symbol reached is not declared)
follow A            -> ok {a} end=true               (panic: A is not declared)
ll1                 -> ok true | ok false [ff A: α | β; ef A: eps=α other=β]
table               -> ok conflicts=[A/a …] cells=[A/a:{p|q} A/$:sync …]
                       (conflicts in the order `Conflicts()` reports them: rows as `OrderNonTerminals`
                        lists them, columns sorted with `$` last; cells sorted, productions of a cell sorted)
parse a b c         -> ok accept p₁; p₂; … | ok reject terminal|noentry|trailing | ok table-error
ast a b c           -> ok <tree> yield=[a b c]   | as parse
unchanged           -> ok true                       (the caller's grammar still equals its clone)
```
On a grammar that fails `Verify()` every query answers `ok invalid`.
-/
namespace AlgoVerif.C10.Driver
open AlgoVerif AlgoVerif.Gram AlgoVerif.C10

def showSet (l : List String) : String := "{" ++ ",".intercalate (sortDedup l) ++ "}"

def prodKey (p : SProd) : String := p.head ++ "→" ++ showBody p.body

def colName : Option String → String
  | some a => a
  | none => "$"

def toSym (g : SGrammar) (w : String) : SSym :=
  if g.nonterms.contains w then Sym.nonterm w else Sym.term w

/-- `NewCFG`: the three components are sets -/
def normalise (g : SGrammar) : SGrammar :=
  { g with terms := dedup g.terms, nonterms := dedup g.nonterms, prods := dedup g.prods }

def showLL1Err : LL1Err String String → String
  | .firstFirst A α β =>
    let a := showBody α
    let b := showBody β
    if a < b then s!"ff {A}: {a} | {b}" else s!"ff {A}: {b} | {a}"
  | .epsFollow A e o => s!"ef {A}: eps={showBody e} other={showBody o}"

/-- the rows in the order `OrderNonTerminals` returns them (`Model/C08.lean: orderNT`) -/
def tableRows (g : SGrammar) : List String :=
  match AlgoVerif.C08.orderNT g with
  | .ok nts => nts
  | _ => g.nonterms

def showTable (g : SGrammar) (an : Analysis String String) : String :=
  let fi := firstStr an.first
  let rows := tableRows g
  let cols := (sortDedup g.terms).map some ++ [none]
  let t := buildTable fi an.follow g.prods rows
  let confl := (tconflicts t rows cols).map fun c => c.1 ++ "/" ++ colName c.2
  let nts := sortDedup g.nonterms
  let cells := nts.flatMap fun A => cols.filterMap fun a =>
    let ps := tcell t A a
    if !ps.isEmpty then some (A ++ "/" ++ colName a ++ ":{" ++ "|".intercalate (sortDedup (ps.map prodKey)) ++ "}")
    else if tsync t A a then some (A ++ "/" ++ colName a ++ ":sync")
    else none
  s!"ok conflicts=[{" ".intercalate confl}] cells=[{" ".intercalate cells}]"

def showReject : Reject → String
  | .terminal => "terminal"
  | .noEntry => "noentry"
  | .trailing => "trailing"

def prodsOf (evs : List (Event String String)) : List SProd :=
  evs.filterMap fun e => match e with
    | .prod p => some p
    | .tok _ _ => none

mutual
def showTree : Tree String String → String
  | .leaf t (some k) => s!"{t}@{k}"
  | .leaf t none => s!"{t}@?"
  | .node A none _ => s!"({A}?)"
  | .node _ (some p) kids => "(" ++ prodKey p ++ showKids kids ++ ")"
def showKids : List (Tree String String) → String
  | [] => ""
  | k :: ks => " " ++ showTree k ++ showKids ks
end

def parseFuel : Nat := 1000000

def showOutcome {α : Type} (f : α → String) : Outcome α → String
  | .ok a => f a
  | .panic => "panic"
  | .diverge => "hang"

def runQuery (g : SGrammar) (valid : Bool) (an : Outcome (Analysis String String)) (line : String) : String :=
  let o : IterOrder String String := IterOrder.canon
  match words line with
  | ["unchanged"] => "ok true"
  | cmd :: args =>
    if !valid then "ok invalid" else
    match cmd, args with
    | "nullable", [] => showOutcome (fun l => "ok " ++ showSet l) (nullable g o)
    | "first", xs =>
      showOutcome id (an.bind fun an =>
        (firstStrO g an.first (xs.map (toSym g)) []).map fun f => s!"ok {showSet f.terms} eps={showBool f.eps}")
    | "follow", [A] =>
      showOutcome id (an.bind fun an =>
        if g.nonterms.contains A then
          let f := an.follow A
          Outcome.ok s!"ok {showSet f.terms} end={showBool f.endm}"
        else Outcome.panic)
    | "ll1", [] =>
      showOutcome id (an.map fun an =>
        let errs := ll1Errors g (firstStr an.first) an.follow
        if errs.isEmpty then "ok true"
        else s!"ok false [{"; ".intercalate (sortDedup (errs.map showLL1Err))}]")
    | "table", [] => showOutcome id (an.map fun an => showTable g an)
    | "parse", w =>
      showOutcome id (an.bind fun an =>
        (parseWith g an parseFuel w).map fun r =>
          match r with
          | .tableError => "ok table-error"
          | .done (.reject why) => "ok reject " ++ showReject why
          | .done (.accept evs) => ("ok accept " ++ "; ".intercalate ((prodsOf evs).map prodKey)))
    | "ast", w =>
      showOutcome id (an.bind fun an =>
        (parseWith g an parseFuel w).bind fun r =>
          match r with
          | .tableError => Outcome.ok "ok table-error"
          | .done (.reject why) => Outcome.ok ("ok reject " ++ showReject why)
          | .done (.accept evs) =>
            (buildASTStack g.start evs).map fun t =>
              s!"ok {showTree t} yield=[{" ".intercalate t.yield}]")
    | _, _ => "bad-op"
  | [] => "bad-op"

/-- `unprod H : body` -/
def parseUnprod (g : SGrammar) (line : String) : Option SProd :=
  match words line with
  | "unprod" :: h :: ":" :: body =>
    some { head := h, body := body.map fun w => if g.nonterms.contains w then Sym.nonterm w else Sym.term w }
  | _ => none

def runCase (_hdr : List String) (ops : List String) : List String := Id.run do
  let mut raw : SGrammar := SGrammar.empty
  -- the normalised grammar with its validity and analyses, recomputed after a description line
  let mut cur : Option (SGrammar × Bool × Outcome (Analysis String String)) := none
  let mut out : Array String := #[]
  for l in ops do
    let (raw', isDesc) := parseGrammarLine raw l
    if isDesc then
      raw := raw'
      cur := none
      out := out.push "ok"
    else
      match parseUnprod raw l with
      | some p =>
        raw := { raw with prods := raw.prods.filter (· ≠ p) }
        cur := none
        out := out.push "ok"
      | none =>
        let st := match cur with
          | some st => st
          | none =>
            let g := normalise raw
            let valid := validB g
            (g, valid, if valid then analyse g IterOrder.canon IterOrder.canon else Outcome.panic)
        cur := some st
        out := out.push (runQuery st.1 st.2.1 st.2.2 l)
  return out.toList

end AlgoVerif.C10.Driver
