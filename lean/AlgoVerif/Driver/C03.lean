import AlgoVerif.Driver.C02
import AlgoVerif.Model.C03
/-!
Line-protocol component for C03: the same Models, operations and rendering as C02 (the C03 streams
add `probes k` observations and long churn histories; `hang` is the rendering of `Outcome.diverge`),
plus the two library-internal users of the quadratic table named by the property:

* `comp=productions shuffle=<seed>` — `grammar.Productions`: `add <head> <body>`, `get <head>`,
  `removeall <head>`, `probes <head>`; heads are byte strings `x<hex>`, a body is a number;
* `comp=lrtable shuffle=<seed>` — `lr.ParsingTable`: `addaction <s> <a> <id>`, `setgoto <s> <A> <next>`,
  `action <s> <a>`, `goto <s> <A>`, `probes <s>`.

Mutating ops print `| ` and a summary of the internal table(s): `m n u` and a digest of every occupied slot
(index, key, size of the stored set / row, tombstone flag).  Both Models are built with the options of their
constructor call sites in /repo (`Generated/C03CallSites.lean`).
-/
namespace AlgoVerif.C03.Driver
open AlgoVerif AlgoVerif.C02 AlgoVerif.C02.Driver AlgoVerif.C03

/-- digest of an open-addressing table whose values are summarised by `size` -/
def digestWith {K V : Type} (dig : K → UInt64) (size : V → Int) (t : OATable K V) : UInt64 := Id.run do
  let mut d : UInt64 := 14695981039346656037
  let mut i := 0
  for s in t.slots do
    match s with
    | some e =>
      d := fnvStep (fnvStep (fnvStep (fnvStep d (UInt64.ofNat i)) (dig e.key)) (toU64 (size e.val))) (if e.deleted then 1 else 0)
    | none => pure ()
    i := i + 1
  return d

def summaryWith {K V : Type} (dig : K → UInt64) (size : V → Int) (t : OATable K V) : String :=
  s!"m={t.m} n={t.n} u={t.u} h={hex16 (digestWith dig size t)}"

def probesStr {K V : Type} [DecidableEq K] (hash : K → UInt64) (t : OATable K V) (k : K) : String :=
  let sh := fun (o : Option Nat) => match o with | some c => toString c | none => "-1"
  s!"get={sh (OA.probesGet t (mix (hash k)) k (4 * t.m + 4) 0)} find={sh (OA.probesFind t (mix (hash k)) k (4 * t.m + 4) 0)}"

def setSize (l : List Nat) : Int := l.length

/-! ### `grammar.Productions` -/

def prodSummary (p : Productions) : String := summaryWith bytesDig setSize p.table

def runProductions (g0 : Rng) (ops : List String) : List String := Id.run do
  match Productions.new with
  | .ok p0 =>
    let mut p := p0
    let mut g := g0
    let mut dead := false
    let mut out : Array String := #[]
    for line in ops do
      if dead then out := out.push "skip"; continue
      match words line with
      | ["add", h, b] =>
        match parseBytes h, b.toNat? with
        | some h, some b =>
          match Productions.add shuffle p g h b with
          | .ok (p', g') => p := p'; g := g'; out := out.push s!"ok | {prodSummary p'}"
          | .panic => dead := true; out := out.push "panic"
          | .diverge => dead := true; out := out.push "hang"
        | _, _ => out := out.push "bad-op"
      | ["get", h] =>
        match parseBytes h with
        | some h =>
          match Productions.get p h with
          | .ok (some l) => out := out.push s!"ok some {l.length}"
          | .ok none => out := out.push "ok none"
          | .panic => dead := true; out := out.push "panic"
          | .diverge => dead := true; out := out.push "hang"
        | none => out := out.push "bad-op"
      | ["removeall", h] =>
        match parseBytes h with
        | some h =>
          match Productions.removeAll shuffle p g h with
          | .ok (p', g') => p := p'; g := g'; out := out.push s!"ok | {prodSummary p'}"
          | .panic => dead := true; out := out.push "panic"
          | .diverge => dead := true; out := out.push "hang"
        | none => out := out.push "bad-op"
      | ["probes", h] =>
        match parseBytes h with
        | some h => out := out.push s!"ok {probesStr hashString p.table h}"
        | none => out := out.push "bad-op"
      | _ => out := out.push "bad-op"
    return out.toList
  | _ => return ops.map fun _ => "panic"

/-! ### `lr.ParsingTable` -/

def rowSize {W : Type} (r : OATable Bytes W) : Int := r.n

def rowStr {W : Type} (outer : OATable Int (OATable Bytes W)) (s : Int) : String :=
  match OA.get hashState outer s with
  | .ok (some r) => s!"m={r.m} n={r.n} u={r.u}"
  | _ => "-"

def runLRTable (g0 : Rng) (ops : List String) : List String := Id.run do
  match LRTable.new with
  | .ok t0 =>
    let mut t := t0
    let mut g := g0
    let mut dead := false
    let mut out : Array String := #[]
    for line in ops do
      if dead then out := out.push "skip"; continue
      match words line with
      | ["addaction", s, a, id] =>
        match s.toInt?, parseBytes a, id.toNat? with
        | some s, some a, some id =>
          match LRTable.addAction shuffle t g s a id with
          | .ok (t', g', r) =>
            t := t'; g := g'
            out := out.push s!"ok {showBool r} | {summaryWith toU64 rowSize t'.actions} row:{rowStr t'.actions s}"
          | .panic => dead := true; out := out.push "panic"
          | .diverge => dead := true; out := out.push "hang"
        | _, _, _ => out := out.push "bad-op"
      | ["setgoto", s, a, nx] =>
        match s.toInt?, parseBytes a, nx.toInt? with
        | some s, some a, some nx =>
          match LRTable.setGoto shuffle t g s a nx with
          | .ok (t', g') =>
            t := t'; g := g'
            out := out.push s!"ok | {summaryWith toU64 rowSize t'.gotos} row:{rowStr t'.gotos s}"
          | .panic => dead := true; out := out.push "panic"
          | .diverge => dead := true; out := out.push "hang"
        | _, _, _ => out := out.push "bad-op"
      | ["action", s, a] =>
        match s.toInt?, parseBytes a with
        | some s, some a =>
          match LRTable.actionSet t s a with
          | .ok (some [x]) => out := out.push s!"ok some {x}"
          | .ok (some []) => out := out.push "ok none"
          | .ok (some l) => out := out.push s!"ok conflict {l.length}"
          | .ok none => out := out.push "ok none"
          | .panic => dead := true; out := out.push "panic"
          | .diverge => dead := true; out := out.push "hang"
        | _, _ => out := out.push "bad-op"
      | ["goto", s, a] =>
        match s.toInt?, parseBytes a with
        | some s, some a =>
          match LRTable.goto t s a with
          | .ok (some x) => out := out.push s!"ok some {x}"
          | .ok none => out := out.push "ok none"
          | .panic => dead := true; out := out.push "panic"
          | .diverge => dead := true; out := out.push "hang"
        | _, _ => out := out.push "bad-op"
      | ["probes", s] =>
        match s.toInt? with
        | some s => out := out.push s!"ok A:{probesStr hashState t.actions s} G:{probesStr hashState t.gotos s}"
        | none => out := out.push "bad-op"
      | _ => out := out.push "bad-op"
    return out.toList
  | _ => return ops.map fun _ => "panic"

def runCase (hdr : List String) (ops : List String) : List String :=
  let g := Rng.ofSeed (headerInt hdr "shuffle" 0)
  match headerGet hdr "comp" with
  | some "productions" => runProductions g ops
  | some "lrtable" => runLRTable g ops
  | _ => AlgoVerif.C02.Driver.runCase hdr ops

end AlgoVerif.C03.Driver
