import AlgoVerif.Driver.C02
/-!
Line-protocol component for C03: the same Models, operations and rendering as C02 (the C03 streams
add `probes k` observations and long churn histories; `hang` is the rendering of `Outcome.diverge`).
-/
namespace AlgoVerif.C03.Driver

def runCase (hdr : List String) (ops : List String) : List String :=
  AlgoVerif.C02.Driver.runCase hdr ops

end AlgoVerif.C03.Driver
