import AlgoVerif.Common
/-! Line-protocol component for C03 — not built yet. -/
namespace AlgoVerif.C03.Driver

def runCase (_hdr : List String) (ops : List String) : List String :=
  ops.map fun _ => "bad-case"

end AlgoVerif.C03.Driver
