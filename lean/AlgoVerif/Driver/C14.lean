import AlgoVerif.Model.C14
import AlgoVerif.Model.C14W
import AlgoVerif.Spec.C14
/-!
Line-protocol component for C14.  A case builds one graph and queries it:

    graph directed|undirected|wdirected|wundirected <n>
    edge <u> <v> [<w>]
    paths dfs|dfsi|bfs <s>        all `To(v)`, v = 0 … n-1
    path  dfs|dfsi|bfs <s> <v>    one `To(v)`
    orders dfs|dfsi|bfs           pre/post orders and ranks
    cc | scc | cycle | topo | mst | spt <s> | sptto <s> <v>
    adj                           the adjacency lists `Adj(v)` of the graph as it is now
    reverse                       the adjacency lists of `Reverse()` (directed kinds)

`edge` lines may follow queries: the graph value grows and every query is answered on the graph as it is at
that point (the harness keeps ONE Go graph object per case, so caches that `AddEdge` fails to invalidate
show up).  A case header may carry `wexp=k`: the harness then hands the library the weights scaled by 2^k
and divides what it reads back; the Model keeps the integer weights, so the lines are the same.

`scc`, `mst`, `spt`, `sptto` additionally print `cert=<b>`: the Spec certificate evaluated on the Model's
result (the harness prints `cert=true`, so a failing certificate is a difference).
-/
namespace AlgoVerif.C14.Driver
open AlgoVerif AlgoVerif.C14

inductive Kind | directed | undirected | wdirected | wundirected
  deriving DecidableEq

structure S where
  kind : Kind
  g : Graph
  neg : Bool := false

def parseKind : String → Option Kind
  | "directed" => some .directed
  | "undirected" => some .undirected
  | "wdirected" => some .wdirected
  | "wundirected" => some .wundirected
  | _ => none

def parseStrat : String → Option Strategy
  | "dfs" => some .dfs
  | "dfsi" => some .dfsi
  | "bfs" => some .bfs
  | _ => none

def Kind.isDirected : Kind → Bool
  | .directed | .wdirected => true
  | _ => false

def Kind.isWeighted : Kind → Bool
  | .wdirected | .wundirected => true
  | _ => false

def showOptPath : Option (List Nat) → String
  | some p => showNatList p
  | none => "-"

def showEdgeD (e : Edge) : String := s!"{e.a}>{e.b}:{e.w}"
def showEdgeU (e : Edge) : String := s!"{e.a}-{e.b}:{e.w}"

def showSptAns : Option (List Edge × Int) → String
  | some (p, d) => s!"{d}[" ++ " ".intercalate (p.map showEdgeD) ++ "]"
  | none => "-"

def showAdj (weighted : Bool) (g : Graph) : String :=
  " ".intercalate ((List.range g.n).map fun v =>
    s!"{v}:[" ++ " ".intercalate ((g.adj.getD v []).map fun x =>
      if weighted then s!"{x.to}:{x.e.w}" else s!"{x.to}") ++ "]")

def outcomeLine {α : Type} (o : Outcome α) (f : α → String) : String × Bool :=
  match o with
  | .ok a => ("ok " ++ f a, false)
  | .panic => ("panic", true)
  | .diverge => ("hang", true)

/-- all `To(v)` of one `Paths` value -/
def allTo (p : Paths) (n : Nat) : Outcome (List (Nat × Option (List Nat))) :=
  (List.range n).foldlM (fun acc (v : Nat) => do
    let r ← p.to (Int.ofNat v)
    pure (acc ++ [(v, r)])) []

def showComponents (c : Components) (comps : Array (List Nat)) : String :=
  s!"count={c.count} id={showNatList c.id.toList} comps=[" ++
    " ".intercalate (comps.toList.map showNatList) ++ "]"

def runOp (st : S) (f : List String) : String × Bool × S :=
  let g := st.g
  let bad : String × Bool × S := ("bad-op", false, st)
  match f with
  | ["edge", u, v] =>
    match parseInt? u, parseInt? v with
    | some u, some v =>
      if st.kind.isWeighted then bad
      else
        let g' := if st.kind.isDirected then g.addEdgeDirected u v 0 else g.addEdgeUndirected u v 0
        ("ok", false, { st with g := g' })
    | _, _ => bad
  | ["edge", u, v, w] =>
    match parseInt? u, parseInt? v, parseInt? w with
    | some u, some v, some w =>
      if !st.kind.isWeighted then bad
      else
        let g' := if st.kind.isDirected then g.addEdgeDirected u v w else g.addEdgeUndirected u v w
        ("ok", false, { st with g := g', neg := st.neg || (decide (w < 0) && g.isVertexValid u && g.isVertexValid v) })
    | _, _, _ => bad
  | ["paths", strat, s] =>
    match parseStrat strat, parseInt? s with
    | some strat, some s =>
      let r := do
        let p ← g.paths s strat
        allTo p g.n
      let (l, dead) := outcomeLine r fun l => " ".intercalate (l.map fun (v, p) => s!"{v}:{showOptPath p}")
      (l, dead, st)
    | _, _ => bad
  | ["path", strat, s, v] =>
    match parseStrat strat, parseInt? s, parseInt? v with
    | some strat, some s, some v =>
      let r := do
        let p ← g.paths s strat
        p.to v
      let (l, dead) := outcomeLine r showOptPath
      (l, dead, st)
    | _, _, _ => bad
  | ["orders", strat] =>
    match parseStrat strat with
    | some strat =>
      let (l, dead) := outcomeLine (g.orders strat) fun o =>
        s!"pre={showNatList o.preOrder.toList} post={showNatList o.postOrder.toList} prerank={showNatList o.preRank.toList} postrank={showNatList o.postRank.toList}"
      (l, dead, st)
    | none => bad
  | ["adj"] => ("ok " ++ showAdj st.kind.isWeighted g, false, st)
  | ["reverse"] =>
    if !st.kind.isDirected then bad
    else ("ok " ++ showAdj st.kind.isWeighted g.reverse, false, st)
  | ["cc"] =>
    if st.kind.isDirected then bad
    else
      let r := do
        let c ← g.connectedComponents
        let comps ← c.components
        pure (c, comps)
      let (l, dead) := outcomeLine r fun (c, comps) => showComponents c comps
      (l, dead, st)
  | ["scc"] =>
    if !st.kind.isDirected then bad
    else
      let r := do
        let c ← g.stronglyConnectedComponents
        let comps ← c.components
        pure (c, comps)
      let (l, dead) := outcomeLine r fun (c, comps) =>
        showComponents c comps ++ s!" cert={showBool (sccCertificate g c)}"
      (l, dead, st)
  | ["cycle"] =>
    if st.kind != .directed then bad
    else
      let (l, dead) := outcomeLine g.directedCycle fun c =>
        match c.cycleList with
        | some cyc => showNatList cyc
        | none => "none"
      (l, dead, st)
  | ["topo"] =>
    if st.kind != .directed then bad
    else
      let (l, dead) := outcomeLine g.topological fun t =>
        match t.order, t.rank with
        | some o, some r => s!"order={showNatList o} rank={showNatList r.toList}"
        | _, _ => "none"
      (l, dead, st)
  | ["mst"] =>
    if st.kind != .wundirected then bad
    else
      let (l, dead) := outcomeLine g.minimumSpanningTree fun m =>
        s!"weight={m.weight} edges=[" ++ " ".intercalate (m.edges.map showEdgeU) ++ s!"] cert={showBool (mstCertificate g m)}"
      (l, dead, st)
  | ["spt", s] =>
    match parseInt? s with
    | some s =>
      if st.kind != .wdirected then bad
      else if st.neg then ("ok unsupported-negative-weight", false, st)
      else
        let r := do
          let t ← g.shortestPathTree s
          let answers ← (List.range g.n).foldlM (fun acc (v : Nat) => do
            let a ← t.pathTo (Int.ofNat v)
            pure (acc ++ [(v, a)])) []
          pure (t, answers)
        let (l, dead) := outcomeLine r fun (t, answers) =>
          " ".intercalate (answers.map fun (v, a) => s!"{v}:{showSptAns a}") ++
            s!" cert={showBool (sptCertificate g s.toNat t answers)}"
        (l, dead, st)
    | none => bad
  | ["sptto", s, v] =>
    match parseInt? s, parseInt? v with
    | some s, some v =>
      if st.kind != .wdirected then bad
      else if st.neg then ("ok unsupported-negative-weight", false, st)
      else
        let r := do
          let t ← g.shortestPathTree s
          let a ← t.pathTo v
          pure (t, a)
        let (l, dead) := outcomeLine r fun (t, a) =>
          showSptAns a ++ s!" cert={showBool (sptCertificate g s.toNat t [(v.toNat, a)])}"
        (l, dead, st)
    | _, _ => bad
  | _ => bad

def runCase (_hdr : List String) (ops : List String) : List String := Id.run do
  let mut st : Option S := none
  let mut dead := false
  let mut out : Array String := #[]
  for line in ops do
    if dead then out := out.push "skip"; continue
    match words line, st with
    | ["graph", kind, n], none =>
      match parseKind kind, parseNat? n with
      | some k, some n => st := some { kind := k, g := Graph.new n }; out := out.push "ok"
      | _, _ => out := out.push "bad-op"
    | f, some s =>
      let (l, d, s') := runOp s f
      st := some s'
      dead := d
      out := out.push l
    | _, none => out := out.push "bad-op"
  return out.toList

end AlgoVerif.C14.Driver
