import AlgoVerif.Model.C14
import AlgoVerif.Model.C14W
import AlgoVerif.Model.C14S
import AlgoVerif.Model.C14R
import AlgoVerif.Spec.C14
/-!
Line-protocol component for C14.  A case is a history on graph objects (`Model/C14S.lean`, `World`) and on the
result objects the client keeps (`Model/C14R.lean`, `Session`):

    graph directed|undirected|wdirected|wundirected <n> [<u> <v> [<w>]]…
                                  object 0, current: `NewX(n, edges…)` with the edges listed (weighted kinds: three
                                  numbers per edge)
    edge <u> <v> [<w>]            `AddEdge` on the current object
    paths dfs|dfsi|bfs <s>        all `To(v)`, v = 0 … n-1
    path  dfs|dfsi|bfs <s> <v>    one `To(v)`
    orders dfs|dfsi|bfs           pre/post orders and ranks
    cc | scc | cycle | topo | mst | spt <s> | sptto <s> <v>
    dump                          `V()`, `E()`, `Adj(v)` (and `InDegree(v)`) of the current object as it is now
    reverse                       the same of `Reverse()` (directed kinds), the result is thrown away
    indeg <v> | outdeg <v> | degree <v> | adjof <v> | edges
    traverse dfs|dfsi|bfs <s> all|<k>   `Traverse` with visitors that log every callback; callback number k
                                  (from 0) answers `false`
    mkrev                         `Reverse()` of the current object is kept as a further object (answer: its index)
    new <n> [<u> <v> [<w>]]…      `NewX(n, edges…)` of the same kind: a further, unrelated object (answer: its index)
    use <i>                       object `i` becomes the current one
    keep paths <strat> <s> | orders <strat> | cc | scc | cycle | topo | mst | spt <s> | adjof <v>
                                  the call is made on the current object and the result OBJECT (`*Paths`, `*Orders`, …,
                                  the slice `Adj(v)`) is kept; answer: its number `res=<k>` (0, 1, … in the order of the
                                  `keep` lines of the case)
    ask <k>                       everything result `k` can be asked (the line the query itself prints)
    ask <k> <v>                   `To(v)` / `PathTo(v)` of result `k` (a `*Paths` or `*ShortestPathTree`)
    adjappend <v>                 the caller appends to the slice `Adj(v)` returned: nothing changes (`ROp.callerWrite`; the
                                  harness also overwrites the edge list it passed to the constructor and every slice a
                                  query returned as a copy, without a line of its own)

`edge` lines and queries interleave freely: every query is answered on the object as it is at that point (the
harness keeps the Go objects alive for the whole case, so caches that `AddEdge` fails to invalidate and
objects that share storage show up).  A case header may carry `wexp=k`: the harness then hands the library
the weights scaled by 2^k (exactly) and divides what it reads back; the Model keeps the integer weights, so
the lines are the same.

`scc`, `mst`, `spt`, `sptto` additionally print `cert=<b>`: the Spec certificate evaluated on the Model's
result (the harness prints `cert=true`, so a failing certificate is a difference); for `scc` and `mst` on graphs
with more than 4096 vertices `cert=n/a` (`certLimit`).
-/
namespace AlgoVerif.C14.Driver
open AlgoVerif AlgoVerif.C14

def parseKind : String → Option Kind
  | "directed" => some .directed
  | "undirected" => some .undirected
  | "wdirected" => some .wdirected
  | "wundirected" => some .wundirected
  | _ => none

def parseStrat : String → Option Strategy
  | "dfs" => some .dfs
  | "dfsi" => some .dfsi
  | "bfs" => some .bfs
  | _ => none

def showOptPath : Option (List Nat) → String
  | some p => showNatList p
  | none => "-"

def showEdgeD (e : Edge) : String := s!"{e.a}>{e.b}:{e.w}"
def showEdgeU (e : Edge) : String := s!"{e.a}-{e.b}:{e.w}"

def showSptAns : Option (List Edge × Int) → String
  | some (p, d) => s!"{d}[" ++ " ".intercalate (p.map showEdgeD) ++ "]"
  | none => "-"

/-- one adjacency entry: the neighbour for the unweighted kinds, the stored edge for the weighted ones -/
def showArc (k : Kind) (x : Arc) : String :=
  match k with
  | .directed | .undirected => s!"{x.to}"
  | .wdirected => showEdgeD x.e
  | .wundirected => s!"{x.to}:" ++ showEdgeU x.e

def showArcs (k : Kind) (l : List Arc) : String := "[" ++ " ".intercalate (l.map (showArc k)) ++ "]"

/-- `V()`, `E()`, `Adj(v)` for every vertex, `InDegree(v)` for every vertex of a directed kind -/
def showObj (o : GObj) : String :=
  s!"v={o.V} e={o.E} adj=" ++
    " ".intercalate ((List.range o.g.n).map fun v => s!"{v}:" ++ showArcs o.kind (o.g.adj.getD v [])) ++
    (if o.kind.isDirected then " ins=" ++ showNatList ((List.range o.g.n).map fun v => o.ins.getD v 0) else "")

/-- first `panic`/`diverge` of a list of outcomes, else the values -/
def sequence {α : Type} : List (Outcome α) → Outcome (List α)
  | [] => .ok []
  | .ok a :: r => (sequence r).map (a :: ·)
  | .panic :: _ => .panic
  | .diverge :: _ => .diverge

def showComponents (c : Components) (comps : Array (List Nat)) : String :=
  s!"count={c.count} id={showNatList c.id.toList} comps=[" ++
    " ".intercalate (comps.toList.map showNatList) ++ "]"

/-- some stored edge has a negative weight (then `spt`/`sptto` are outside the property) -/
def hasNeg (g : Graph) : Bool := g.adj.any fun l => l.any fun x => decide (x.e.w < 0)

def parseQuery (k : Kind) (f : List String) : Option Query :=
  let q : Option Query :=
    match f with
    | ["paths", strat, s] => (parseStrat strat).bind fun st => (parseInt? s).map fun s => .paths st s
    | ["path", strat, s, v] =>
      (parseStrat strat).bind fun st => (parseInt? s).bind fun s => (parseInt? v).map fun v => .path st s v
    | ["orders", strat] => (parseStrat strat).map .orders
    | ["cc"] => some .cc
    | ["scc"] => some .scc
    | ["cycle"] => some .cycle
    | ["topo"] => some .topo
    | ["mst"] => some .mst
    | ["spt", s] => (parseInt? s).map .spt
    | ["sptto", s, v] => (parseInt? s).bind fun s => (parseInt? v).map fun v => .sptto s v
    | ["dump"] => some .dump
    | ["reverse"] => some .reverse
    | ["indeg", v] => (parseInt? v).map .indeg
    | ["outdeg", v] => if k.isDirected then (parseInt? v).map .outdeg else none
    | ["degree", v] => if k.isDirected then none else (parseInt? v).map .outdeg
    | ["adjof", v] => (parseInt? v).map .adjOf
    | ["edges"] => some .edges
    | ["traverse", strat, s, stop] =>
      (parseStrat strat).bind fun st => (parseInt? s).bind fun s =>
        if stop == "all" then some (.traverse st s none) else (parseNat? stop).map fun k => .traverse st s (some k)
    | _ => none
  q.bind fun q => if q.applies k then some q else none

/-- the edge list of a `graph` line: two numbers per edge, three for the weighted kinds -/
def parseEdges (k : Kind) : List String → Option (List EdgeIn)
  | [] => some []
  | u :: v :: rest =>
    if k.isWeighted then
      match rest with
      | w :: rest' =>
        (parseInt? u).bind fun u => (parseInt? v).bind fun v => (parseInt? w).bind fun w =>
          (parseEdges k rest').map (⟨u, v, w⟩ :: ·)
      | [] => none
    else
      (parseInt? u).bind fun u => (parseInt? v).bind fun v => (parseEdges k rest).map (⟨u, v, 0⟩ :: ·)
  | [_] => none

def parseOp (k : Kind) (f : List String) : Option Op :=
  match f with
  | ["edge", u, v] =>
    if k.isWeighted then none
    else (parseInt? u).bind fun u => (parseInt? v).map fun v => .edge u v 0
  | ["edge", u, v, w] =>
    if !k.isWeighted then none
    else (parseInt? u).bind fun u => (parseInt? v).bind fun v => (parseInt? w).map fun w => .edge u v w
  | ["mkrev"] => if k.isDirected then some .mkrev else none
  | "new" :: n :: rest => (parseNat? n).bind fun n => (parseEdges k rest).map fun es => .mknew n es
  | ["use", i] => (parseNat? i).map .use
  | _ => (parseQuery k f).map .query

/-- The SCC and MST certificates of `Spec/C14.lean` cost (number of classes) × n steps (they were written to be
proved sound, not to be fast): they are evaluated for graphs with at most 4096 vertices; above, the line says
`cert=n/a` (the harness prints the same). -/
def certLimit : Nat := 4096

def certText (n : Nat) (cert : Unit → Bool) : String :=
  if n ≤ certLimit then s!"cert={showBool (cert ())}" else "cert=n/a"

/-- the output line of a query answered with `a` on the object `o` -/
def showAnswer (o : GObj) (q : Query) (a : Answer) : Outcome String :=
  let g := o.g
  match q, a with
  | _, .paths l =>
    (sequence l).map fun rs =>
      " ".intercalate (((List.range rs.length).zip rs).map fun (v, p) => s!"{v}:{showOptPath p}")
  | _, .path r => .ok (showOptPath r)
  | _, .orders o =>
    .ok s!"pre={showNatList o.preOrder.toList} post={showNatList o.postOrder.toList} prerank={showNatList o.preRank.toList} postrank={showNatList o.postRank.toList}"
  | .scc, .comps c =>
    c.components.map fun comps => showComponents c comps ++ " " ++ certText g.n fun _ => sccCertificate g c
  | _, .comps c => c.components.map fun comps => showComponents c comps
  | _, .cycle (some cyc) => .ok (showNatList cyc)
  | _, .cycle none => .ok "none"
  | _, .topo t =>
    match t.order, t.rank with
    | some o, some r => .ok s!"order={showNatList o} rank={showNatList r.toList}"
    | _, _ => .ok "none"
  | _, .mst m =>
    .ok (s!"weight={m.weight} edges=[" ++ " ".intercalate (m.edges.map showEdgeU) ++
      "] " ++ certText g.n fun _ => mstCertificate g m)
  | .spt s, .spt t l =>
    (sequence l).map fun rs =>
      let answers := (List.range rs.length).zip rs
      " ".intercalate (answers.map fun (v, a) => s!"{v}:{showSptAns a}") ++
        s!" cert={showBool (sptCertificate g s.toNat t answers)}"
  | .sptto s v, .sptto t r =>
    .ok (showSptAns r ++ s!" cert={showBool (sptCertificate g s.toNat t [(v.toNat, r)])}")
  | _, .obj o' => .ok (showObj o')
  | _, .int i => .ok s!"{i}"
  | _, .arcs (some l) => .ok (showArcs o.kind l)
  | _, .arcs none => .ok "nil"
  | _, .edges l =>
    .ok ("[" ++ " ".intercalate (l.map (if o.kind.isDirected then showEdgeD else showEdgeU)) ++ "]")
  | _, .events l =>
    .ok (" ".intercalate (l.map fun
      | .pre v => s!"pre:{v}"
      | .post v => s!"post:{v}"
      | .edge v w wt => s!"edge:{v}>{w}:{wt}"))
  | _, _ => .ok "?"

def outcomeLine (o : Outcome String) : String × Bool :=
  match o with
  | .ok a => ("ok " ++ a, false)
  | .panic => ("panic", true)
  | .diverge => ("hang", true)

def runOp (w : World) (f : List String) : String × Bool × World :=
  match parseOp w.obj.kind f with
  | none => ("bad-op", false, w)
  | some op =>
    match op with
    | .query q =>
      let negSpt := (match q with | .spt _ | .sptto .. => true | _ => false) && hasNeg w.obj.g
      if negSpt then ("ok unsupported-negative-weight", false, w)
      else
        let r := w.step op
        let (l, dead) := outcomeLine (r.2.bind (showAnswer w.obj q))
        (l, dead, r.1)
    | .mkrev | .mknew .. =>
      let r := w.step op
      (s!"ok obj={w.objs.size}", false, r.1)
    | .use i => if i < w.objs.size then ("ok", false, (w.step op).1) else ("bad-op", false, w)
    | .edge .. => ("ok", false, (w.step op).1)

/-- `keep`, `ask` and everything `runOp` knows -/
def runROp (s : Session) (f : List String) : String × Bool × Session :=
  let kind := s.w.obj.kind
  match f with
  | "keep" :: rest =>
    match parseQuery kind rest with
    | none => ("bad-op", false, s)
    | some q =>
      if !q.keepable then ("bad-op", false, s)
      else if (match q with | .spt _ => true | _ => false) && hasNeg s.w.obj.g then
        ("ok unsupported-negative-weight", false, (s.step .hole).1)
      else
        let r := s.step (.keep q)
        match r.2 with
        | .ok _ => (s!"ok res={s.kept.size}", false, r.1)
        | .panic => ("panic", true, r.1)
        | .diverge => ("hang", true, r.1)
  | "ask" :: i :: rest =>
    let sel : Option (Option Int) :=
      match rest with
      | [] => some none
      | [v] => (parseInt? v).map some
      | _ => none
    match (parseNat? i).bind (s.kept[·]?), sel with
    | some k, some sel =>
      match k.r with
      | .none => ("ok unsupported-negative-weight", false, s)
      | _ =>
        if sel.isSome && !(match k.q with | .paths .. | .spt _ => true | _ => false) then ("bad-op", false, s)
        else
          let i := (parseNat? i).getD 0
          let r := s.step (.ask i sel)
          let (l, dead) := outcomeLine (r.2.bind (showAnswer k.o (k.q.at sel)))
          (l, dead, r.1)
    | _, _ => ("bad-op", false, s)
  | ["adjappend", v] =>
    match parseInt? v with
    | some _ => ("ok", false, (s.step .callerWrite).1)
    | none => ("bad-op", false, s)
  | _ =>
    let (l, d, w') := runOp s.w f
    (l, d, { s with w := w' })

def runCase (_hdr : List String) (ops : List String) : List String := Id.run do
  let mut st : Option Session := none
  let mut dead := false
  let mut out : Array String := #[]
  for line in ops do
    if dead then out := out.push "skip"; continue
    match words line, st with
    | "graph" :: kind :: n :: rest, none =>
      match parseKind kind, parseNat? n with
      | some k, some n =>
        match parseEdges k rest with
        | some es => st := some (Session.init k n es); out := out.push "ok"
        | none => out := out.push "bad-op"
      | _, _ => out := out.push "bad-op"
    | f, some s =>
      let (l, d, s') := runROp s f
      st := some s'
      dead := d
      out := out.push l
    | _, none => out := out.push "bad-op"
  return out.toList

end AlgoVerif.C14.Driver
