import AlgoVerif.Model.C02Run
import AlgoVerif.Model.C02Hash
/-!
Line-protocol component for C02 (also used by C03).  Values are `Int`; keys are `Int`, or byte strings
written `x<hex>` when the header says `keys=str` (Go `string` keys).

Header: `comp=chain|linear|quadratic|double hash=fnv|id|const|mod3|modm cap=<n> minlf=<a>/<b>
maxlf=<a>/<b> shuffle=<seed>` (`cap=0` / missing load factors select the defaults); with `keys=str`:
`hash=fnvstr|const|len|first`.  `hash=fnv` is the library's default `hash.HashFuncForInt[int](nil)`,
`hash=fnvstr` its default `hash.HashFuncForString[string](nil)` — both from `Model/C02Hash.lean`.

Component `comp=hashfn fam=<F>`: a call history of `hash.HashFuncFor<F>(nil)` closures (two instances, the
op prefix `b.` selects the second): `h <arg>` prints the hash the Model's pure function assigns to `<arg>`.

Ops (`b.` prefix = second table): `put k v`, `get k`, `delete k`, `deleteall`, `size`, `isempty`,
`all`, `equal`, `dump`, `probes k`.  Mutating ops print the result followed by ` | ` and a summary
of the internal state (`m n u p` and a 64-bit digest of every occupied slot).

The shuffle is the replica of Go's `math/rand.(*Rand).Shuffle` driven by the splitmix64 source that
the hook `symboltable.VerifSetShuffleSeed` installs (seed 0: identity).
-/
namespace AlgoVerif.C02.Driver
open AlgoVerif AlgoVerif.C02

/-! ### hash functions of the harness -/

def toU64 (k : Int) : UInt64 := UInt64.ofNat (k % (18446744073709551616 : Int)).toNat

/-- `hash.HashFuncForInt[int](nil)`: the Model's pure function (FNV-1 of the 8 little-endian bytes) -/
def fnv1 (k : Int) : UInt64 := Hash.forInt k

def emod (k : Int) (q : Nat) : UInt64 := UInt64.ofNat (k % (q : Int)).toNat

def hashOf (name : String) (cap0 : Nat) : Int → UInt64 :=
  match name with
  | "fnv" => fnv1
  | "id" => toU64
  | "const" => fun _ => 5
  | "mod3" => fun k => emod k 3
  | "modm" => fun k => emod k cap0
  | _ => fnv1

/-! ### replica of `rand.Shuffle` over the hook's source -/

structure Rng where
  s : UInt64
  identity : Bool

def Rng.ofSeed (seed : Int) : Rng := ⟨toU64 seed, seed == 0⟩

/-- `Uint32()` = `uint32(Int63() >> 31)`; `Int63()` = `splitmix64() >> 1` (or `1<<63-1` for the identity) -/
def Rng.uint32 (g : Rng) : UInt64 × Rng :=
  if g.identity then (4294967295, g)
  else
    let s := g.s + 0x9E3779B97F4A7C15
    let z := s
    let z := (z ^^^ (z >>> 30)) * 0xBF58476D1CE4E5B9
    let z := (z ^^^ (z >>> 27)) * 0x94D049BB133111EB
    let z := z ^^^ (z >>> 31)
    (z >>> 32, { g with s := s })

/-- the rejection loop of `int31n` -/
def int31nLoop (n thresh : UInt64) : Nat → UInt64 → Rng → UInt64 × Rng
  | 0, prod, g => (prod, g)
  | fuel + 1, prod, g =>
    if (prod &&& 4294967295) < thresh then
      let (v, g') := g.uint32
      int31nLoop n thresh fuel (v * n) g'
    else (prod, g)

/-- `int31n(n)` -/
def int31n (g : Rng) (n : UInt64) : UInt64 × Rng :=
  let (v, g1) := g.uint32
  let prod := v * n
  let low := prod &&& 4294967295
  if low < n then
    let thresh := (4294967296 - n) % n
    let (prod', g2) := int31nLoop n thresh 100000 prod g1
    (prod' >>> 32, g2)
  else (prod >>> 32, g1)

/-- `for i := n-1; i > 0; i-- { j := int31n(i+1); swap(i, j) }` on `indices = [0 … n-1]` -/
def shuffleLoop : Nat → Array Nat → Rng → Array Nat × Rng
  | 0, a, g => (a, g)
  | i + 1, a, g =>
    let (j, g') := int31n g (UInt64.ofNat (i + 2))
    shuffleLoop i (a.swapIfInBounds (i + 1) j.toNat) g'

def shuffle : Shuffle Rng := fun g n =>
  if g.identity then (List.range n, g)
  else
    let (a, g') := shuffleLoop (n - 1) (Array.range n) g
    (a.toList, g')

/-! ### rendering -/

def fnvStep (d : UInt64) (x : UInt64) : UInt64 := (d ^^^ x) * 1099511628211

def hex16 (x : UInt64) : String :=
  let ds := (Nat.toDigits 16 x.toNat)
  String.ofList (List.replicate (16 - ds.length) '0' ++ ds)

def showPairs (l : List (Int × Int)) : String :=
  let sorted := l.mergeSort (fun a b => a.1 < b.1 || (a.1 == b.1 && a.2 ≤ b.2))
  "[" ++ " ".intercalate (sorted.map fun e => s!"({e.1},{e.2})") ++ "]"

/-- how keys of type `K` are read, printed and folded into the state digest -/
structure KeyIO (K : Type) where
  parse : String → Option K
  render : K → String
  dig : K → UInt64
  showPairs : List (K × Int) → String

def intKeys : KeyIO Int where
  parse := parseInt?
  render := toString
  dig := toU64
  showPairs := showPairs

def hexDigit (n : Nat) : Char := if n < 10 then Char.ofNat (48 + n) else Char.ofNat (87 + n)

/-- `x` followed by two lower-case hex digits per byte (`x` alone: the empty string) -/
def renderBytes (b : Hash.Bytes) : String :=
  String.ofList ('x' :: b.flatMap fun c => [hexDigit (c.toNat / 16), hexDigit (c.toNat % 16)])

def hexVal (c : Char) : Option Nat :=
  if '0' ≤ c && c ≤ '9' then some (c.toNat - 48)
  else if 'a' ≤ c && c ≤ 'f' then some (c.toNat - 87)
  else none

def parseHexPairs : List Char → Option Hash.Bytes
  | [] => some []
  | a :: b :: r =>
    match hexVal a, hexVal b, parseHexPairs r with
    | some x, some y, some t => some (UInt8.ofNat (16 * x + y) :: t)
    | _, _, _ => none
  | _ => none

def parseBytes (s : String) : Option Hash.Bytes :=
  match s.toList with
  | 'x' :: r => parseHexPairs r
  | _ => none

/-- digest of a byte-string key: FNV-1a over its bytes (only used to fold keys into the state digest) -/
def bytesDig (b : Hash.Bytes) : UInt64 := b.foldl (fun d c => fnvStep d c.toUInt64) 14695981039346656037

def showPairsB (l : List (Hash.Bytes × Int)) : String :=
  let r := l.map fun e => (renderBytes e.1, e.2)
  let sorted := r.mergeSort (fun a b => a.1 < b.1 || (a.1 == b.1 && a.2 ≤ b.2))
  "[" ++ " ".intercalate (sorted.map fun e => s!"({e.1},{e.2})") ++ "]"

def strKeys : KeyIO Hash.Bytes where
  parse := parseBytes
  render := renderBytes
  dig := bytesDig
  showPairs := showPairsB

/-- hash functions of the harness for string keys -/
def hashOfBytes (name : String) : Hash.Bytes → UInt64 :=
  match name with
  | "fnvstr" => Hash.forString
  | "const" => fun _ => 5
  | "len" => fun b => UInt64.ofNat b.length
  | "first" => fun b => match b with | c :: _ => c.toUInt64 | [] => 0
  | _ => Hash.forString

/-- what the driver needs to print about a table of type `T` with keys of type `K` -/
structure Describe (K T : Type) where
  summary : T → String
  dump : T → String
  probes : T → K → String

section
variable {K : Type} [DecidableEq K]

def oaDigest (io : KeyIO K) (t : OATable K Int) : UInt64 := Id.run do
  let mut d : UInt64 := 14695981039346656037
  let mut i := 0
  for s in t.slots do
    match s with
    | some e =>
      d := fnvStep (fnvStep (fnvStep (fnvStep d (UInt64.ofNat i)) (io.dig e.key)) (toU64 e.val)) (if e.deleted then 1 else 0)
    | none => pure ()
    i := i + 1
  return d

def oaName : Kind → String
  | .quad => "quadratic"
  | .dbl => "double"

def oaDescribe (io : KeyIO K) (hash : K → UInt64) : Describe K (OATable K Int) where
  summary t := s!"m={t.m} n={t.n} u={t.u} p={t.p} h={hex16 (oaDigest io t)}"
  dump t := Id.run do
    let mut parts : Array String := #[]
    let mut i := 0
    for s in t.slots do
      match s with
      | some e => parts := parts.push s!"{i}:({io.render e.key},{e.val},{if e.deleted then "D" else "L"})"
      | none => pure ()
      i := i + 1
    return s!"{oaName t.kind} m={t.m} n={t.n} u={t.u} p={t.p} [" ++ " ".intercalate parts.toList ++ "]"
  probes t k :=
    let sh := fun (o : Option Nat) => match o with | some c => toString c | none => "-1"
    s!"get={sh (OA.probesGet t (mix (hash k)) k (4 * t.m + 4) 0)} find={sh (OA.probesFind t (mix (hash k)) k (4 * t.m + 4) 0)}"

def linDigest (io : KeyIO K) (t : LinTable K Int) : UInt64 := Id.run do
  let mut d : UInt64 := 14695981039346656037
  let mut i := 0
  for s in t.slots do
    match s with
    | some e => d := fnvStep (fnvStep (fnvStep (fnvStep d (UInt64.ofNat i)) (io.dig e.1)) (toU64 e.2)) 0
    | none => pure ()
    i := i + 1
  return d

def linDescribe (io : KeyIO K) (hash : K → UInt64) : Describe K (LinTable K Int) where
  summary t := s!"m={t.m} n={t.n} u={t.n} p=0 h={hex16 (linDigest io t)}"
  dump t := Id.run do
    let mut parts : Array String := #[]
    let mut i := 0
    for s in t.slots do
      match s with
      | some e => parts := parts.push s!"{i}:({io.render e.1},{e.2},L)"
      | none => pure ()
      i := i + 1
    return s!"linear m={t.m} n={t.n} u={t.n} p=0 [" ++ " ".intercalate parts.toList ++ "]"
  probes t k :=
    let sh := fun (o : Option Nat) => match o with | some c => toString c | none => "-1"
    let c := sh (Lin.probes t (mix (hash k)) k (4 * t.m + 4) 0)
    s!"get={c} find={c}"

def chainDigest (io : KeyIO K) (t : ChainTable K Int) : UInt64 := Id.run do
  let mut d : UInt64 := 14695981039346656037
  let mut i := 0
  for b in t.buckets do
    for e in b do
      d := fnvStep (fnvStep (fnvStep (fnvStep d (UInt64.ofNat i)) (io.dig e.1)) (toU64 e.2)) 0
    i := i + 1
  return d

def chainDescribe (io : KeyIO K) (hash : K → UInt64) : Describe K (ChainTable K Int) where
  summary t := s!"m={t.m} n={t.n} u={t.n} p=0 h={hex16 (chainDigest io t)}"
  dump t := Id.run do
    let mut parts : Array String := #[]
    let mut i := 0
    for b in t.buckets do
      for e in b do
        parts := parts.push s!"{i}:({io.render e.1},{e.2},L)"
      i := i + 1
    return s!"chain m={t.m} n={t.n} u={t.n} p=0 [" ++ " ".intercalate parts.toList ++ "]"
  probes t k :=
    let c := Chain.nodesVisited k (t.buckets[Chain.hashIdx t.m (mix (hash k))]?.getD [])
    s!"get={c} find={c}"

end

def showOpt : Option Int → String
  | some v => s!"some {v}"
  | none => "none"

/-! ### the op loop -/

section
variable {K : Type} [DecidableEq K]

def parseOp (io : KeyIO K) (ws : List String) : Option (Op K Int ⊕ (Bool × String × Option K)) :=
  -- `inl`: an operation of the Model; `inr (b, "dump"|"probes", arg)`: an observation of the driver
  let (b, ws) : Bool × List String :=
    match ws with
    | w :: rest => if w.startsWith "b." then (true, (w.drop 2).toString :: rest) else (false, ws)
    | [] => (false, [])
  match ws with
  | ["put", k, v] => match io.parse k, parseInt? v with
    | some k, some v => some (.inl (.put b k v))
    | _, _ => none
  | ["get", k] => (io.parse k).map fun k => .inl (.get b k)
  | ["delete", k] => (io.parse k).map fun k => .inl (.delete b k)
  | ["deleteall"] => some (.inl (.deleteAll b))
  | ["size"] => some (.inl (.size b))
  | ["isempty"] => some (.inl (.isEmpty b))
  | ["all"] => some (.inl (.all b))
  | ["equal"] => some (.inl .equal)
  | ["dump"] => some (.inr (b, "dump", none))
  | ["probes", k] => (io.parse k).map fun k => .inr (b, "probes", some k)
  | _ => none

def renderOut {T : Type} (io : KeyIO K) (D : Describe K T) (s : State T Rng) (op : Op K Int) (o : Out K Int) : String :=
  match op, o with
  | .put b _ _, _ => s!"ok | {D.summary (s.sel b)}"
  | .delete b _, .val r => s!"ok {showOpt r} | {D.summary (s.sel b)}"
  | .deleteAll b, _ => s!"ok | {D.summary (s.sel b)}"
  | _, .unit => "ok"
  | _, .val r => s!"ok {showOpt r}"
  | _, .bool r => s!"ok {showBool r}"
  | _, .int r => s!"ok {r}"
  | _, .list l => s!"ok {io.showPairs l}"

def runWith {T : Type} (io : KeyIO K) (I : Impl K Int Rng T) (D : Describe K T) (init : Outcome (State T Rng))
    (ops : List String) : List String := Id.run do
  match init with
  | .ok s0 =>
    let mut s := s0
    let mut dead := false
    let mut out : Array String := #[]
    for line in ops do
      if dead then out := out.push "skip"; continue
      match parseOp io (words line) with
      | none => out := out.push "bad-op"
      | some (.inr (b, what, arg)) =>
        if what == "dump" then out := out.push s!"ok {D.dump (s.sel b)}"
        else match arg with
          | some k => out := out.push s!"ok {D.probes (s.sel b) k}"
          | none => out := out.push "bad-op"
      | some (.inl op) =>
        match step I s op with
        | .ok (s', o) => s := s'; out := out.push (renderOut io D s' op o)
        | .panic => dead := true; out := out.push "panic"
        | .diverge => dead := true; out := out.push "hang"
    return out.toList
  | _ => return ops.map fun _ => "panic"

end

def parseLF (s : Option String) : LF :=
  match s with
  | some t => match t.splitOn "/" with
    | [a, b] => ⟨a.toNat?.getD 0, b.toNat?.getD 1⟩
    | [a] => ⟨a.toNat?.getD 0, 1⟩
    | _ => ⟨0, 1⟩
  | none => ⟨0, 1⟩

def eqI (a b : Int) : Bool := a == b

/-! ### component `hashfn`: call histories of the `HashFuncFor*` closures -/

def splitList (s : String) : List String := if s == "-" then [] else s.splitOn ","

def parsePair (s : String) : Option (Nat × Nat) :=
  match s.splitOn ":" with
  | [a, b] => match a.toNat?, b.toNat? with
    | some x, some y => some (x, y)
    | _, _ => none
  | _ => none

def parseBoolTok (s : String) : Option Bool :=
  if s == "true" then some true else if s == "false" then some false else none

def parseArg (sh : Hash.Shape) (s : String) : Option Hash.Arg :=
  match sh with
  | .bool => (parseBoolTok s).map .bool
  | .int => s.toInt?.map .int
  | .nat => s.toNat?.map .nat
  | .pair => (parsePair s).map .pair
  | .bytes => (parseBytes s).map .bytes
  | .bools => ((splitList s).mapM parseBoolTok).map .bools
  | .ints => ((splitList s).mapM String.toInt?).map .ints
  | .nats => ((splitList s).mapM String.toNat?).map .nats
  | .pairs => ((splitList s).mapM parsePair).map .pairs
  | .strs => ((splitList s).mapM parseBytes).map .strs

/-- the Model has no instance state: `h x` and `b.h x` print the same pure function of `x` -/
def runHashFn (fam : String) (ops : List String) : List String :=
  match Hash.families.lookup fam with
  | none => ops.map fun _ => "bad-case"
  | some shape =>
    ops.map fun line =>
      match words line with
      | [op, a] =>
        if op == "h" || op == "b.h" then
          match (parseArg shape a).bind (Hash.hashOf fam) with
          | some v => s!"ok {hex16 v}"
          | none => "bad-op"
        else "bad-op"
      | _ => "bad-op"

def runTables {K : Type} [DecidableEq K] (io : KeyIO K) (hashFor : Nat → K → UInt64) (hdr : List String)
    (ops : List String) : List String :=
  let cap := headerNat hdr "cap" 0
  let opts : Opts := ⟨cap, parseLF (headerGet hdr "minlf"), parseLF (headerGet hdr "maxlf")⟩
  let g := Rng.ofSeed (headerInt hdr "shuffle" 0)
  match headerGet hdr "comp" with
  | some "quadratic" =>
    let hash := hashFor (if cap = 0 then Kind.quad.minM else cap)
    runWith io (OA.impl shuffle hash eqI) (oaDescribe io hash) (initState (OA.new .quad opts) g) ops
  | some "double" =>
    let hash := hashFor (if cap = 0 then Kind.dbl.minM else cap)
    runWith io (OA.impl shuffle hash eqI) (oaDescribe io hash) (initState (OA.new .dbl opts) g) ops
  | some "linear" =>
    let hash := hashFor (if cap = 0 then AlgoVerif.Generated.symboltable_lpMinM else cap)
    runWith io (Lin.impl shuffle hash eqI) (linDescribe io hash) (initState (Lin.new opts) g) ops
  | some "chain" =>
    let hash := hashFor (if cap = 0 then AlgoVerif.Generated.symboltable_scMinM else cap)
    runWith io (Chain.impl shuffle hash eqI) (chainDescribe io hash) (initState (Chain.new opts) g) ops
  | _ => ops.map fun _ => "bad-case"

def runCase (hdr : List String) (ops : List String) : List String :=
  if headerGet hdr "comp" == some "hashfn" then
    runHashFn ((headerGet hdr "fam").getD "") ops
  else if headerGet hdr "keys" == some "str" then
    runTables strKeys (fun _ => hashOfBytes ((headerGet hdr "hash").getD "fnvstr")) hdr ops
  else
    runTables intKeys (fun cap0 => hashOf ((headerGet hdr "hash").getD "fnv") cap0) hdr ops

end AlgoVerif.C02.Driver
