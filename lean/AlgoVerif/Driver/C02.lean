import AlgoVerif.Model.C02Pool
import AlgoVerif.Model.C02Hash
/-!
Line-protocol component for C02 (also used by C03).  Values are `Int`; keys are `Int`, or byte strings
written `x<hex>` when the header says `keys=str` (Go `string` keys).

Header: `comp=chain|linear|quadratic|double hash=fnv|id|const|mod3|modm cap=<n> minlf=<a>/<b>
maxlf=<a>/<b> shuffle=<seed>` (`cap=0` / missing load factors select the defaults); with `keys=str`:
`hash=fnvstr|const|len|first`.  `hash=fnv` is the library's default `hash.HashFuncForInt[int](nil)`,
`hash=fnvstr` its default `hash.HashFuncForString[string](nil)` — both from `Model/C02Hash.lean`.

Component `comp=hashfn fam=<F>`: a call history of `hash.HashFuncFor<F>(nil)` closures (two instances, the
op prefix `b.` selects the second): `h <arg>` prints the hash the Model's pure function assigns to `<arg>`.

A case runs on a **pool** of tables (`Model/C02Pool.lean`).  Tables 0 and 1 are built with the case-wide keys above;
`t<i>=comp,hash,cap,minlf,maxlf,eqval` (i < 8, an empty field = the case-wide value) gives table `i` its own
implementation, hash function, options and value equality (`eq`, `mod8`, or the asymmetric `le`), so that tables which differ in their
parameters meet in `equal`.  Further hash functions for `Int` keys: `zero one top max` (constants 0, 1, 2^63,
2^64-1), `mulm` (k times the initial capacity), `neg` (2^64-1-k), `hi` (k shifted left by 32), `pow` (2^(k mod 64)).

Type instantiation: the harness may represent the integer keys / values of a case by other Go types (header `ktype=slice |
struct | string | pointer`, `vtype=slice`; see harness/c02/types.go) and maps everything back to the integers on the way
out, so the Model is unaffected — except for the hash function when it is the LIBRARY's function for that type:
`libslice` = `hash.HashFuncForIntSlice` of `[]int{k, …}` (1 + k mod 3 copies of k), `libstruct` = `HashFuncForInt(k)` xor
`HashFuncForString(decimal k)`, `libstr` = `HashFuncForString(decimal k)` (`Model/C02Hash.lean`).

Ops (`<i>.` prefix = table i, `b.` = table 1, none = table 0): `put k v`, `get k`, `delete k`, `deleteall`, `size`,
`isempty`, `all`, `dump`, `probes k`; `equal` (= `equal 0 1`), `equal i j` = `tables[i].Equal(tables[j])`.
Mutating ops print the result followed by ` | ` and a summary of the internal state (`m n u p` and a 64-bit digest
of every occupied slot).

Iterator values: `seq` (`tables[i].All()`, prints `seq=<id>`; a sequence is a handle on its table, nothing is listed
yet), `pull <seq>` (`iter.Pull2`, prints `pull=<id>`), `next <pull>` (the first `next` lists the table as it is then and
draws the shuffle; prints the pair, `done`, or `invalid` once the table has been changed while the traversal was
half-way), `stop <pull>`; `range <seq> <limit>` = a `for range` over the sequence that breaks after `limit` pairs (-1:
runs to the end), pairs in the order yielded; `nested i j <limit>` = `for range tables[i].All() { for range
tables[j].All() { … } }` with the inner loop broken after `limit` pairs: the outer pairs in order, the number of inner
pairs and a digest of their sequence.  Both are loops over `pull`/`next`/`stop`/`seq` steps of the Model.

Bulk ops (one output line; loops over `put`/`delete`/`get` steps of the Model, so that large tables do not pay for a
state digest per operation): `putn a n st v` = `Put(a+c*st, v+c)` for c < n, prints `caps=` the capacity after every
resize, then the state summary; `deln a n st` (prints `hit=` the number of keys found, `caps=`, summary); `getn a n st`
(`hit=`, `sum=` of the values found); `probesn a n st` (maximum and sum of the probe counts of the keys).  With
`keys=str` the key of a bulk op is the decimal numeral.

The shuffle is the replica of Go's `math/rand.(*Rand).Shuffle` driven by the splitmix64 source that
the hook `symboltable.VerifSetShuffleSeed` installs (seed 0: identity).
-/
namespace AlgoVerif.C02.Driver
open AlgoVerif AlgoVerif.C02

/-! ### hash functions of the harness -/

def toU64 (k : Int) : UInt64 := UInt64.ofNat (k % (18446744073709551616 : Int)).toNat

/-- `hash.HashFuncForInt[int](nil)`: the Model's pure function (FNV-1 of the 8 little-endian bytes) -/
def fnv1 (k : Int) : UInt64 := Hash.forInt k

def emod (k : Int) (q : Nat) : UInt64 := UInt64.ofNat (k % (q : Int)).toNat

/-- the bytes of the decimal numeral of `k` (Go `strconv.Itoa`) -/
def decimalBytes (k : Int) : Hash.Bytes := (toString k).toList.map fun c => UInt8.ofNat c.toNat

def hashOf (name : String) (cap0 : Nat) : Int → UInt64 :=
  match name with
  | "fnv" => fnv1
  | "id" => toU64
  | "const" => fun _ => 5
  | "mod3" => fun k => emod k 3
  | "modm" => fun k => emod k cap0
  | "zero" => fun _ => 0
  | "one" => fun _ => 1
  | "top" => fun _ => 9223372036854775808
  | "max" => fun _ => 18446744073709551615
  | "mulm" => fun k => toU64 (k * cap0)
  | "neg" => fun k => 18446744073709551615 - toU64 k
  | "hi" => fun k => toU64 k <<< 32
  | "pow" => fun k => (1 : UInt64) <<< UInt64.ofNat (k % 64).toNat
  | "libslice" => fun k => Hash.forIntSlice (List.replicate (1 + (k % 3).toNat) k)
  | "libstruct" => fun k => Hash.forInt k ^^^ Hash.forString (decimalBytes k)
  | "libstr" => fun k => Hash.forString (decimalBytes k)
  | _ => fnv1

/-! ### replica of `rand.Shuffle` over the hook's source -/

structure Rng where
  s : UInt64
  identity : Bool

def Rng.ofSeed (seed : Int) : Rng := ⟨toU64 seed, seed == 0⟩

/-- `Uint32()` = `uint32(Int63() >> 31)`; `Int63()` = `splitmix64() >> 1` (or `1<<63-1` for the identity) -/
def Rng.uint32 (g : Rng) : UInt64 × Rng :=
  if g.identity then (4294967295, g)
  else
    let s := g.s + 0x9E3779B97F4A7C15
    let z := s
    let z := (z ^^^ (z >>> 30)) * 0xBF58476D1CE4E5B9
    let z := (z ^^^ (z >>> 27)) * 0x94D049BB133111EB
    let z := z ^^^ (z >>> 31)
    (z >>> 32, { g with s := s })

/-- the rejection loop of `int31n` -/
def int31nLoop (n thresh : UInt64) : Nat → UInt64 → Rng → UInt64 × Rng
  | 0, prod, g => (prod, g)
  | fuel + 1, prod, g =>
    if (prod &&& 4294967295) < thresh then
      let (v, g') := g.uint32
      int31nLoop n thresh fuel (v * n) g'
    else (prod, g)

/-- `int31n(n)` -/
def int31n (g : Rng) (n : UInt64) : UInt64 × Rng :=
  let (v, g1) := g.uint32
  let prod := v * n
  let low := prod &&& 4294967295
  if low < n then
    let thresh := (4294967296 - n) % n
    let (prod', g2) := int31nLoop n thresh 100000 prod g1
    (prod' >>> 32, g2)
  else (prod >>> 32, g1)

/-- `for i := n-1; i > 0; i-- { j := int31n(i+1); swap(i, j) }` on `indices = [0 … n-1]` -/
def shuffleLoop : Nat → Array Nat → Rng → Array Nat × Rng
  | 0, a, g => (a, g)
  | i + 1, a, g =>
    let (j, g') := int31n g (UInt64.ofNat (i + 2))
    shuffleLoop i (a.swapIfInBounds (i + 1) j.toNat) g'

def shuffle : Shuffle Rng := fun g n =>
  if g.identity then (List.range n, g)
  else
    let (a, g') := shuffleLoop (n - 1) (Array.range n) g
    (a.toList, g')

/-! ### rendering -/

def fnvStep (d : UInt64) (x : UInt64) : UInt64 := (d ^^^ x) * 1099511628211

def hex16 (x : UInt64) : String :=
  let ds := (Nat.toDigits 16 x.toNat)
  String.ofList (List.replicate (16 - ds.length) '0' ++ ds)

def showPairs (l : List (Int × Int)) : String :=
  let sorted := l.mergeSort (fun a b => a.1 < b.1 || (a.1 == b.1 && a.2 ≤ b.2))
  "[" ++ " ".intercalate (sorted.map fun e => s!"({e.1},{e.2})") ++ "]"

/-- how keys of type `K` are read, printed and folded into the state digest -/
structure KeyIO (K : Type) where
  parse : String → Option K
  render : K → String
  dig : K → UInt64
  showPairs : List (K × Int) → String
  /-- the key a bulk op uses for the number `n` -/
  ofInt : Int → Option K

def intKeys : KeyIO Int where
  ofInt := some
  parse := parseInt?
  render := toString
  dig := toU64
  showPairs := showPairs

def hexDigit (n : Nat) : Char := if n < 10 then Char.ofNat (48 + n) else Char.ofNat (87 + n)

/-- `x` followed by two lower-case hex digits per byte (`x` alone: the empty string) -/
def renderBytes (b : Hash.Bytes) : String :=
  String.ofList ('x' :: b.flatMap fun c => [hexDigit (c.toNat / 16), hexDigit (c.toNat % 16)])

def hexVal (c : Char) : Option Nat :=
  if '0' ≤ c && c ≤ '9' then some (c.toNat - 48)
  else if 'a' ≤ c && c ≤ 'f' then some (c.toNat - 87)
  else none

def parseHexPairs : List Char → Option Hash.Bytes
  | [] => some []
  | a :: b :: r =>
    match hexVal a, hexVal b, parseHexPairs r with
    | some x, some y, some t => some (UInt8.ofNat (16 * x + y) :: t)
    | _, _, _ => none
  | _ => none

def parseBytes (s : String) : Option Hash.Bytes :=
  match s.toList with
  | 'x' :: r => parseHexPairs r
  | _ => none

/-- digest of a byte-string key: FNV-1a over its bytes (only used to fold keys into the state digest) -/
def bytesDig (b : Hash.Bytes) : UInt64 := b.foldl (fun d c => fnvStep d c.toUInt64) 14695981039346656037

def showPairsB (l : List (Hash.Bytes × Int)) : String :=
  let r := l.map fun e => (renderBytes e.1, e.2)
  let sorted := r.mergeSort (fun a b => a.1 < b.1 || (a.1 == b.1 && a.2 ≤ b.2))
  "[" ++ " ".intercalate (sorted.map fun e => s!"({e.1},{e.2})") ++ "]"

def strKeys : KeyIO Hash.Bytes where
  ofInt := fun n => some ((toString n).toList.map fun c => UInt8.ofNat c.toNat)
  parse := parseBytes
  render := renderBytes
  dig := bytesDig
  showPairs := showPairsB

/-- hash functions of the harness for string keys -/
def hashOfBytes (name : String) : Hash.Bytes → UInt64 :=
  match name with
  | "fnvstr" => Hash.forString
  | "const" => fun _ => 5
  | "len" => fun b => UInt64.ofNat b.length
  | "first" => fun b => match b with | c :: _ => c.toUInt64 | [] => 0
  | _ => Hash.forString

/-- what the driver needs to print about a table of type `T` with keys of type `K` -/
structure Describe (K T : Type) where
  summary : T → String
  dump : T → String
  probes : T → K → String

section
variable {K : Type} [DecidableEq K]

def oaDigest (io : KeyIO K) (t : OATable K Int) : UInt64 := Id.run do
  let mut d : UInt64 := 14695981039346656037
  let mut i := 0
  for s in t.slots do
    match s with
    | some e =>
      d := fnvStep (fnvStep (fnvStep (fnvStep d (UInt64.ofNat i)) (io.dig e.key)) (toU64 e.val)) (if e.deleted then 1 else 0)
    | none => pure ()
    i := i + 1
  return d

def oaName : Kind → String
  | .quad => "quadratic"
  | .dbl => "double"

def oaDescribe (io : KeyIO K) (hash : K → UInt64) : Describe K (OATable K Int) where
  summary t := s!"m={t.m} n={t.n} u={t.u} p={t.p} h={hex16 (oaDigest io t)}"
  dump t := Id.run do
    let mut parts : Array String := #[]
    let mut i := 0
    for s in t.slots do
      match s with
      | some e => parts := parts.push s!"{i}:({io.render e.key},{e.val},{if e.deleted then "D" else "L"})"
      | none => pure ()
      i := i + 1
    return s!"{oaName t.kind} m={t.m} n={t.n} u={t.u} p={t.p} [" ++ " ".intercalate parts.toList ++ "]"
  probes t k :=
    let sh := fun (o : Option Nat) => match o with | some c => toString c | none => "-1"
    s!"get={sh (OA.probesGet t (mix (hash k)) k (4 * t.m + 4) 0)} find={sh (OA.probesFind t (mix (hash k)) k (4 * t.m + 4) 0)}"

def linDigest (io : KeyIO K) (t : LinTable K Int) : UInt64 := Id.run do
  let mut d : UInt64 := 14695981039346656037
  let mut i := 0
  for s in t.slots do
    match s with
    | some e => d := fnvStep (fnvStep (fnvStep (fnvStep d (UInt64.ofNat i)) (io.dig e.1)) (toU64 e.2)) 0
    | none => pure ()
    i := i + 1
  return d

def linDescribe (io : KeyIO K) (hash : K → UInt64) : Describe K (LinTable K Int) where
  summary t := s!"m={t.m} n={t.n} u={t.n} p=0 h={hex16 (linDigest io t)}"
  dump t := Id.run do
    let mut parts : Array String := #[]
    let mut i := 0
    for s in t.slots do
      match s with
      | some e => parts := parts.push s!"{i}:({io.render e.1},{e.2},L)"
      | none => pure ()
      i := i + 1
    return s!"linear m={t.m} n={t.n} u={t.n} p=0 [" ++ " ".intercalate parts.toList ++ "]"
  probes t k :=
    let sh := fun (o : Option Nat) => match o with | some c => toString c | none => "-1"
    let c := sh (Lin.probes t (mix (hash k)) k (4 * t.m + 4) 0)
    s!"get={c} find={c}"

def chainDigest (io : KeyIO K) (t : ChainTable K Int) : UInt64 := Id.run do
  let mut d : UInt64 := 14695981039346656037
  let mut i := 0
  for b in t.buckets do
    for e in b do
      d := fnvStep (fnvStep (fnvStep (fnvStep d (UInt64.ofNat i)) (io.dig e.1)) (toU64 e.2)) 0
    i := i + 1
  return d

def chainDescribe (io : KeyIO K) (hash : K → UInt64) : Describe K (ChainTable K Int) where
  summary t := s!"m={t.m} n={t.n} u={t.n} p=0 h={hex16 (chainDigest io t)}"
  dump t := Id.run do
    let mut parts : Array String := #[]
    let mut i := 0
    for b in t.buckets do
      for e in b do
        parts := parts.push s!"{i}:({io.render e.1},{e.2},L)"
      i := i + 1
    return s!"chain m={t.m} n={t.n} u={t.n} p=0 [" ++ " ".intercalate parts.toList ++ "]"
  probes t k :=
    let c := Chain.nodesVisited k (t.buckets[Chain.hashIdx t.m (mix (hash k))]?.getD [])
    s!"get={c} find={c}"

end

def showOpt : Option Int → String
  | some v => s!"some {v}"
  | none => "none"

/-! ### the op loop (a pool of tables) -/

section
variable {K : Type} [DecidableEq K]

def describeTab (io : KeyIO K) (hash : K → UInt64) : Describe K (Tab K Int) where
  summary t := match t with
    | .chain t => (chainDescribe io hash).summary t
    | .lin t => (linDescribe io hash).summary t
    | .oa t => (oaDescribe io hash).summary t
  dump t := match t with
    | .chain t => (chainDescribe io hash).dump t
    | .lin t => (linDescribe io hash).dump t
    | .oa t => (oaDescribe io hash).dump t
  probes t k := match t with
    | .chain t => (chainDescribe io hash).probes t k
    | .lin t => (linDescribe io hash).probes t k
    | .oa t => (oaDescribe io hash).probes t k

def tabM : Tab K Int → Nat
  | .chain t => t.m
  | .lin t => t.m
  | .oa t => t.m

/-- probe counts of `Get` and of the search loop of `Put`/`Delete` (`none`: more than `4m+4`) -/
def tabProbes (hash : K → UInt64) (t : Tab K Int) (k : K) : Option Nat × Option Nat :=
  match t with
  | .chain t =>
    let c := Chain.nodesVisited k (t.buckets[Chain.hashIdx t.m (mix (hash k))]?.getD [])
    (some c, some c)
  | .lin t =>
    let c := Lin.probes t (mix (hash k)) k (4 * t.m + 4) 0
    (c, c)
  | .oa t => (OA.probesGet t (mix (hash k)) k (4 * t.m + 4) 0, OA.probesFind t (mix (hash k)) k (4 * t.m + 4) 0)

/-- `<n>.op` selects table `n` (`b.` = table 1, no prefix = table 0) -/
def splitPrefix (w : String) : Nat × String :=
  if w.startsWith "b." then (1, (w.drop 2).toString)
  else match w.splitOn "." with
    | [a, b] => match a.toNat? with
      | some n => (n, b)
      | none => (0, w)
    | _ => (0, w)

/-- what one op line asks for: an operation of the Model, an observation, or a loop over operations of the Model -/
inductive DOp (K : Type) where
  | prim (op : POp K Int)
  | dump (i : Nat)
  | probes (i : Nat) (k : K)
  | range (s : Nat) (limit : Int)
  | nested (i j : Nat) (limit : Int)
  | putn (i : Nat) (a n st v : Int)
  | deln (i : Nat) (a n st : Int)
  | getn (i : Nat) (a n st : Int)
  | probesn (i : Nat) (a n st : Int)

def parseOp (io : KeyIO K) (ws : List String) : Option (DOp K) :=
  match ws with
  | [] => none
  | w :: rest =>
    let (i, w) := splitPrefix w
    match w :: rest with
    | ["put", k, v] => match io.parse k, parseInt? v with
      | some k, some v => some (.prim (.put i k v))
      | _, _ => none
    | ["get", k] => (io.parse k).map fun k => .prim (.get i k)
    | ["delete", k] => (io.parse k).map fun k => .prim (.delete i k)
    | ["deleteall"] => some (.prim (.deleteAll i))
    | ["size"] => some (.prim (.size i))
    | ["isempty"] => some (.prim (.isEmpty i))
    | ["all"] => some (.prim (.all i))
    | ["equal"] => some (.prim (.equal 0 1))
    | ["equal", a, b] => match a.toNat?, b.toNat? with
      | some a, some b => some (.prim (.equal a b))
      | _, _ => none
    | ["seq"] => some (.prim (.seq i))
    | ["pull", s] => s.toNat?.map fun s => .prim (.pull s)
    | ["next", p] => p.toNat?.map fun p => .prim (.next p)
    | ["stop", p] => p.toNat?.map fun p => .prim (.stop p)
    | ["range", s, l] => match s.toNat?, l.toInt? with
      | some s, some l => some (.range s l)
      | _, _ => none
    | ["nested", a, b, l] => match a.toNat?, b.toNat?, l.toInt? with
      | some a, some b, some l => some (.nested a b l)
      | _, _, _ => none
    | ["dump"] => some (.dump i)
    | ["probes", k] => (io.parse k).map fun k => .probes i k
    | ["putn", a, n, st, v] => match a.toInt?, n.toInt?, st.toInt?, v.toInt? with
      | some a, some n, some st, some v => some (.putn i a n st v)
      | _, _, _, _ => none
    | ["deln", a, n, st] => match a.toInt?, n.toInt?, st.toInt? with
      | some a, some n, some st => some (.deln i a n st)
      | _, _, _ => none
    | ["getn", a, n, st] => match a.toInt?, n.toInt?, st.toInt? with
      | some a, some n, some st => some (.getn i a n st)
      | _, _, _ => none
    | ["probesn", a, n, st] => match a.toInt?, n.toInt?, st.toInt? with
      | some a, some n, some st => some (.probesn i a n st)
      | _, _, _ => none
    | _ => none

def summaryOf (io : KeyIO K) (s : PState K Int Rng) (i : Nat) : String :=
  match s.objs[i]? with
  | some o => (describeTab io o.hash).summary o.tab
  | none => "-"

def mOf (s : PState K Int Rng) (i : Nat) : Nat :=
  match s.objs[i]? with
  | some o => tabM o.tab
  | none => 0

def showPair (io : KeyIO K) (e : K × Int) : String := s!"({io.render e.1},{e.2})"

def renderPrim (io : KeyIO K) (s : PState K Int Rng) (op : POp K Int) (o : POut K Int) : String :=
  match op, o with
  | _, .invalid => "ok invalid"
  | .put i _ _, _ => s!"ok | {summaryOf io s i}"
  | .delete i _, .val r => s!"ok {showOpt r} | {summaryOf io s i}"
  | .deleteAll i, _ => s!"ok | {summaryOf io s i}"
  | .seq _, .id n => s!"ok seq={n}"
  | .pull _, .id n => s!"ok pull={n}"
  | _, .unit => "ok"
  | _, .val r => s!"ok {showOpt r}"
  | _, .bool r => s!"ok {showBool r}"
  | _, .int r => s!"ok {r}"
  | _, .list l => s!"ok {io.showPairs l}"
  | _, .id n => s!"ok {n}"
  | _, .pair e => s!"ok {showPair io e}"
  | _, .done => "ok done"

def showCaps (caps : Array Nat) : String := ",".intercalate (caps.toList.map toString)

/-- result of a loop over Model operations: the state, and the line (or the failure that ended the case) -/
inductive LoopRes (K : Type) where
  | ok (s : PState K Int Rng) (line : String)
  | fail (line : String)

/-- the state of a failed case (never looked at: the rest of the case prints `skip`).  Every branch of the loops
below assigns the state variable — the new state, or this one — so that the compiled code never holds a second
reference to the tables across a call of `Pool.step`, and the slot arrays are updated in place. -/
def gone : PState K Int Rng := ⟨[], Rng.ofSeed 0, {}⟩

def failLine {α : Type} : Outcome α → String
  | .diverge => "hang"
  | _ => "panic"

/-- `for k, v := range seqs[sid] { …; if count == limit { break } }` -/
def runRange (io : KeyIO K) (s0 : PState K Int Rng) (sid : Nat) (limit : Int) : LoopRes K := Id.run do
  match Pool.step shuffle s0 (.pull sid) with
  | .ok (s1, .id p) =>
    let mut s := s1
    let mut got : Array String := #[]
    let mut fail : Option String := none
    for _ in [0:100000000] do
      -- the loop body is entered with the pair (the sequence has run: the table is listed by this first `next`
      -- even when `limit` is 0), and breaks when `limit` pairs have been collected
      match Pool.step shuffle s (.next p) with
      | .ok (s', .pair e) =>
        s := s'
        if limit ≥ 0 && (got.size : Int) ≥ limit then break
        got := got.push (showPair io e)
      | .ok (s', _) => s := s'; break
      | r => s := gone; fail := some (failLine r); break
    match fail with
    | some l => return .fail l
    | none =>
      match Pool.step shuffle s (.stop p) with
      | .ok (s', _) => return .ok s' ("ok [" ++ " ".intercalate got.toList ++ "]")
      | r => return .fail (failLine r)
  | .ok (s1, _) => return .ok s1 "ok invalid"
  | r => return .fail (failLine r)

/-- the inner loop of `nested`: one traversal of table `j`, broken after `limit` pairs -/
def runInner (io : KeyIO K) (s0 : PState K Int Rng) (j : Nat) (limit : Int) (inner0 : Nat) (d0 : UInt64) :
    PState K Int Rng × Nat × UInt64 × Option String := Id.run do
  match Pool.step shuffle s0 (.seq j) with
  | .ok (sb, .id sid2) =>
    match Pool.step shuffle sb (.pull sid2) with
    | .ok (sc, .id p2) =>
      let mut s := sc
      let mut inner := inner0
      let mut d := d0
      let mut cnt : Int := 0
      let mut fail : Option String := none
      for _ in [0:100000000] do
        match Pool.step shuffle s (.next p2) with
        | .ok (sd, .pair e2) =>
          s := sd
          inner := inner + 1
          cnt := cnt + 1
          d := fnvStep (fnvStep d (io.dig e2.1)) (toU64 e2.2)
          if limit ≥ 0 && cnt ≥ limit then break
        | .ok (sd, _) => s := sd; break
        | r => s := gone; fail := some (failLine r); break
      match fail with
      | some l => return (s, inner, d, some l)
      | none =>
        match Pool.step shuffle s (.stop p2) with
        | .ok (se, _) => return (se, inner, d, none)
        | r => return (gone, inner, d, some (failLine r))
    | .ok (sc, _) => return (sc, inner0, d0, none)
    | r => return (gone, inner0, d0, some (failLine r))
  | .ok (sb, _) => return (sb, inner0, d0, none)
  | r => return (gone, inner0, d0, some (failLine r))

/-- `for k, v := range tables[i].All() { for k2, v2 := range tables[j].All() { …; if count == limit { break } } }` -/
def runNested (io : KeyIO K) (s0 : PState K Int Rng) (i j : Nat) (limit : Int) : LoopRes K := Id.run do
  if (s0.objs[i]?).isNone || (s0.objs[j]?).isNone then return .ok s0 "ok invalid"
  match Pool.step shuffle s0 (.seq i) with
  | .ok (s1, .id sid) =>
    match Pool.step shuffle s1 (.pull sid) with
    | .ok (s2, .id p) =>
      let mut s := s2
      let mut outer : Array String := #[]
      let mut inner : Nat := 0
      let mut d : UInt64 := 14695981039346656037
      let mut fail : Option String := none
      for _ in [0:100000000] do
        match Pool.step shuffle s (.next p) with
        | .ok (sa, .pair e) =>
          outer := outer.push (showPair io e)
          let (sb, inner', d', f) := runInner io sa j limit inner d
          s := sb
          inner := inner'
          d := d'
          if f.isSome then fail := f; break
        | .ok (sa, _) => s := sa; break
        | r => s := gone; fail := some (failLine r); break
      match fail with
      | some l => return .fail l
      | none => return .ok s (s!"ok outer=[" ++ " ".intercalate outer.toList ++ s!"] inner={inner} h={hex16 d}")
    | .ok (s2, _) => return .ok s2 "ok invalid"
    | r => return .fail (failLine r)
  | .ok (s1, _) => return .ok s1 "ok invalid"
  | r => return .fail (failLine r)

/-- `for c := 0; c < n; c++ { tables[i].Put(a + c*st, v + c) }`, recording the capacity after every resize -/
def runPutN (io : KeyIO K) (s0 : PState K Int Rng) (i : Nat) (a n st v : Int) : LoopRes K := Id.run do
  if (s0.objs[i]?).isNone then return .ok s0 "ok invalid"
  let mut s := s0
  let mut caps : Array Nat := #[]
  let mut m := mOf s i
  let mut fail : Option String := none
  for c in [0:n.toNat] do
    match io.ofInt (a + c * st) with
    | none => fail := some "bad-op"; break
    | some k =>
      match Pool.step shuffle s (.put i k (v + c)) with
      | .ok (s', _) =>
        s := s'
        let m' := mOf s i
        if m' != m then caps := caps.push m'; m := m'
      | r => s := gone; fail := some (failLine r); break
  match fail with
  | some l => return .fail l
  | none => return .ok s s!"ok caps={showCaps caps} | {summaryOf io s i}"

def runDelN (io : KeyIO K) (s0 : PState K Int Rng) (i : Nat) (a n st : Int) : LoopRes K := Id.run do
  if (s0.objs[i]?).isNone then return .ok s0 "ok invalid"
  let mut s := s0
  let mut caps : Array Nat := #[]
  let mut m := mOf s i
  let mut hit : Nat := 0
  let mut fail : Option String := none
  for c in [0:n.toNat] do
    match io.ofInt (a + c * st) with
    | none => fail := some "bad-op"; break
    | some k =>
      match Pool.step shuffle s (.delete i k) with
      | .ok (s', o) =>
        s := s'
        match o with
        | .val (some _) => hit := hit + 1
        | _ => pure ()
        let m' := mOf s i
        if m' != m then caps := caps.push m'; m := m'
      | r => s := gone; fail := some (failLine r); break
  match fail with
  | some l => return .fail l
  | none => return .ok s s!"ok hit={hit} caps={showCaps caps} | {summaryOf io s i}"

def runGetN (io : KeyIO K) (s0 : PState K Int Rng) (i : Nat) (a n st : Int) : LoopRes K := Id.run do
  if (s0.objs[i]?).isNone then return .ok s0 "ok invalid"
  let mut s := s0
  let mut hit : Nat := 0
  let mut sum : Int := 0
  let mut fail : Option String := none
  for c in [0:n.toNat] do
    match io.ofInt (a + c * st) with
    | none => fail := some "bad-op"; break
    | some k =>
      match Pool.step shuffle s (.get i k) with
      | .ok (s', o) =>
        s := s'
        match o with
        | .val (some x) => hit := hit + 1; sum := sum + x
        | _ => pure ()
      | r => s := gone; fail := some (failLine r); break
  match fail with
  | some l => return .fail l
  | none => return .ok s s!"ok hit={hit} sum={sum}"

def runProbesN (io : KeyIO K) (s : PState K Int Rng) (i : Nat) (a n st : Int) : String := Id.run do
  match s.objs[i]? with
  | none => return "ok invalid"
  | some o =>
    let mut mg : Int := 0
    let mut mf : Int := 0
    let mut sg : Int := 0
    let mut sf : Int := 0
    let mut bad := false
    for c in [0:n.toNat] do
      match io.ofInt (a + c * st) with
      | none => return "bad-op"
      | some k =>
        match tabProbes o.hash o.tab k with
        | (some g, some f) =>
          if (g : Int) > mg then mg := g
          if (f : Int) > mf then mf := f
          sg := sg + g
          sf := sf + f
        | _ => bad := true
    if bad then return "ok maxget=-1 maxfind=-1 sumget=-1 sumfind=-1"
    return s!"ok maxget={mg} maxfind={mf} sumget={sg} sumfind={sf}"

def runPool (io : KeyIO K) (init : Outcome (PState K Int Rng)) (ops : List String) : List String := Id.run do
  match init with
  | .ok s0 =>
    let mut s := s0
    let mut dead := false
    let mut out : Array String := #[]
    for line in ops do
      if dead then out := out.push "skip"; continue
      match parseOp io (words line) with
      | none => out := out.push "bad-op"
      | some (.dump i) =>
        match s.objs[i]? with
        | some o => out := out.push s!"ok {(describeTab io o.hash).dump o.tab}"
        | none => out := out.push "ok invalid"
      | some (.probes i k) =>
        match s.objs[i]? with
        | some o => out := out.push s!"ok {(describeTab io o.hash).probes o.tab k}"
        | none => out := out.push "ok invalid"
      | some (.probesn i a n st) => out := out.push (runProbesN io s i a n st)
      | some (.prim op) =>
        match Pool.step shuffle s op with
        | .ok (s', o) => s := s'; out := out.push (renderPrim io s' op o)
        | .panic => dead := true; s := gone; out := out.push "panic"
        | .diverge => dead := true; s := gone; out := out.push "hang"
      | some (.range sid l) =>
        match runRange io s sid l with
        | .ok s' line => s := s'; out := out.push line
        | .fail line => dead := true; s := gone; out := out.push line
      | some (.nested i j l) =>
        match runNested io s i j l with
        | .ok s' line => s := s'; out := out.push line
        | .fail line => dead := true; s := gone; out := out.push line
      | some (.putn i a n st v) =>
        match runPutN io s i a n st v with
        | .ok s' line => s := s'; out := out.push line
        | .fail line => dead := true; s := gone; out := out.push line
      | some (.deln i a n st) =>
        match runDelN io s i a n st with
        | .ok s' line => s := s'; out := out.push line
        | .fail line => dead := true; s := gone; out := out.push line
      | some (.getn i a n st) =>
        match runGetN io s i a n st with
        | .ok s' line => s := s'; out := out.push line
        | .fail line => dead := true; s := gone; out := out.push line
    return out.toList
  | _ => return ops.map fun _ => "panic"

end

def parseLF (s : Option String) : LF :=
  match s with
  | some t => match t.splitOn "/" with
    | [a, b] => ⟨a.toNat?.getD 0, b.toNat?.getD 1⟩
    | [a] => ⟨a.toNat?.getD 0, 1⟩
    | _ => ⟨0, 1⟩
  | none => ⟨0, 1⟩

def eqI (a b : Int) : Bool := a == b

/-! ### component `hashfn`: call histories of the `HashFuncFor*` closures -/

def splitList (s : String) : List String := if s == "-" then [] else s.splitOn ","

def parsePair (s : String) : Option (Nat × Nat) :=
  match s.splitOn ":" with
  | [a, b] => match a.toNat?, b.toNat? with
    | some x, some y => some (x, y)
    | _, _ => none
  | _ => none

def parseBoolTok (s : String) : Option Bool :=
  if s == "true" then some true else if s == "false" then some false else none

def parseArg (sh : Hash.Shape) (s : String) : Option Hash.Arg :=
  match sh with
  | .bool => (parseBoolTok s).map .bool
  | .int => s.toInt?.map .int
  | .nat => s.toNat?.map .nat
  | .pair => (parsePair s).map .pair
  | .bytes => (parseBytes s).map .bytes
  | .bools => ((splitList s).mapM parseBoolTok).map .bools
  | .ints => ((splitList s).mapM String.toInt?).map .ints
  | .nats => ((splitList s).mapM String.toNat?).map .nats
  | .pairs => ((splitList s).mapM parsePair).map .pairs
  | .strs => ((splitList s).mapM parseBytes).map .strs

/-- the Model has no instance state: `h x` and `b.h x` print the same pure function of `x` -/
def runHashFn (fam : String) (ops : List String) : List String :=
  match Hash.families.lookup fam with
  | none => ops.map fun _ => "bad-case"
  | some shape =>
    ops.map fun line =>
      match words line with
      | [op, a] =>
        if op == "h" || op == "b.h" then
          match (parseArg shape a).bind (Hash.hashOf fam) with
          | some v => s!"ok {hex16 v}"
          | none => "bad-op"
        else "bad-op"
      | _ => "bad-op"

/-- the `HashOpts` and functions of one table, as named in the header -/
structure TCfg where
  comp : String
  hash : String
  cap : Nat
  minlf : Option String
  maxlf : Option String
  eqv : String

/-- `t<i>=comp,hash,cap,minlf,maxlf,eqval`; an empty field takes the value of the case-wide key -/
def parseT (base : TCfg) (v : String) : TCfg :=
  let f := v.splitOn ","
  let get := fun (i : Nat) => match f[i]? with
    | some x => if x == "" then none else some x
    | none => none
  { comp := (get 0).getD base.comp
    hash := (get 1).getD base.hash
    cap := match get 2 with
      | some x => x.toNat?.getD 0
      | none => base.cap
    minlf := match get 3 with
      | some x => some x
      | none => base.minlf
    maxlf := match get 4 with
      | some x => some x
      | none => base.maxlf
    eqv := (get 5).getD base.eqv }

def tableCfgs (hdr : List String) (dfltHash : String) : List TCfg :=
  let base : TCfg := ⟨(headerGet hdr "comp").getD "", (headerGet hdr "hash").getD dfltHash, headerNat hdr "cap" 0,
    headerGet hdr "minlf", headerGet hdr "maxlf", (headerGet hdr "eqval").getD "eq"⟩
  let n := (List.range 8).foldl (fun a i => if (headerGet hdr s!"t{i}").isSome then i + 1 else a) 2
  (List.range n).map fun i =>
    match headerGet hdr s!"t{i}" with
    | some v => parseT base v
    | none => base

def goTypeOf (comp : String) : Option GoType :=
  match comp with
  | "chain" => some .chain
  | "linear" => some .linear
  | "quadratic" => some .quadratic
  | "double" => some .double
  | _ => none

def minCapOf : GoType → Nat
  | .chain => AlgoVerif.Generated.symboltable_scMinM
  | .linear => AlgoVerif.Generated.symboltable_lpMinM
  | .quadratic => Kind.quad.minM
  | .double => Kind.dbl.minM

def eqValOf (name : String) : Int → Int → Bool :=
  match name with
  | "mod8" => fun a b => a % 8 == b % 8
  | "le" => fun a b => decide (a ≤ b)
  | _ => eqI

def runTables {K : Type} [DecidableEq K] (io : KeyIO K) (hashFor : String → Nat → K → UInt64) (dfltHash : String)
    (hdr : List String) (ops : List String) : List String :=
  let g := Rng.ofSeed (headerInt hdr "shuffle" 0)
  let cfgs := (tableCfgs hdr dfltHash).map fun c =>
    (goTypeOf c.comp).map fun ty =>
      ({ ty := ty, hash := hashFor c.hash (if c.cap = 0 then minCapOf ty else c.cap), eqVal := eqValOf c.eqv,
         opts := ⟨c.cap, parseLF c.minlf, parseLF c.maxlf⟩ } : Cfg K Int)
  if cfgs.any Option.isNone then ops.map fun _ => "bad-case"
  else
    let init : Outcome (PState K Int Rng) :=
      match Pool.new (cfgs.filterMap id) with
      | .ok objs => .ok ⟨objs, g, {}⟩
      | .panic => .panic
      | .diverge => .diverge
    runPool io init ops

def runCase (hdr : List String) (ops : List String) : List String :=
  if headerGet hdr "comp" == some "hashfn" then
    runHashFn ((headerGet hdr "fam").getD "") ops
  else if headerGet hdr "keys" == some "str" then
    runTables strKeys (fun name _ => hashOfBytes name) "fnvstr" hdr ops
  else
    runTables intKeys hashOf "fnv" hdr ops

end AlgoVerif.C02.Driver
