/-
Shared, core-only helpers for Models, Specs and the line-protocol driver.
No Mathlib import here or in anything the driver imports (the `driver` executable must link).
-/
namespace AlgoVerif

/-- Result of one modelled operation.  `panic` = the Go code would index out of range,
dereference nil or call `panic`; `diverge` = a loop's fuel ran out (the Go loop would not return). -/
inductive Outcome (α : Type) where
  | ok (a : α)
  | panic
  | diverge
  deriving Repr, DecidableEq, Inhabited

namespace Outcome
def map {α β} (f : α → β) : Outcome α → Outcome β
  | ok a => ok (f a)
  | panic => panic
  | diverge => diverge

def bind {α β} (x : Outcome α) (f : α → Outcome β) : Outcome β :=
  match x with
  | ok a => f a
  | panic => panic
  | diverge => diverge

instance : Monad Outcome where
  pure := ok
  bind := bind

def isOk {α} : Outcome α → Bool
  | ok _ => true
  | _ => false
end Outcome

/-! ### rendering / parsing used by every driver component -/

def words (s : String) : List String :=
  (s.splitOn " ").filter (· ≠ "")

def parseInt? (s : String) : Option Int := s.toInt?

def parseNat? (s : String) : Option Nat := s.toNat?

def showOptInt : Option Int → String
  | some v => s!"some {v}"
  | none => "none"

def showBool (b : Bool) : String := if b then "true" else "false"

def showIntList (l : List Int) : String :=
  "[" ++ " ".intercalate (l.map toString) ++ "]"

def showNatList (l : List Nat) : String :=
  "[" ++ " ".intercalate (l.map toString) ++ "]"

/-- `key=value` lookup in a case header such as `# case 3 queue block=2`. -/
def headerGet (hdr : List String) (key : String) : Option String :=
  hdr.findSome? fun w =>
    match w.splitOn "=" with
    | [k, v] => if k = key then some v else none
    | _ => none

def headerNat (hdr : List String) (key : String) (dflt : Nat) : Nat :=
  match headerGet hdr key with
  | some v => v.toNat?.getD dflt
  | none => dflt

def headerInt (hdr : List String) (key : String) (dflt : Int) : Int :=
  match headerGet hdr key with
  | some v => v.toInt?.getD dflt
  | none => dflt

end AlgoVerif
