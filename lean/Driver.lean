import AlgoVerif.Driver.C18
/-!
`driver <property>` — reads an operation stream on stdin:

    # case <n> key=value …
    <op> <args…>
    …

and prints `# case <n>` followed by one output line per op, produced by the *Model* of the property.
Core-only imports, so that this links as a native executable.
-/
open AlgoVerif

def dispatch (prop : String) : Option (List String → List String → List String) :=
  match prop with
  | "C18" => some C18.Driver.runCase
  | _ => none

partial def loop (h : IO.FS.Stream) (out : IO.FS.Stream) (run : List String → List String → List String)
    (hdr : Option (List String)) (ops : Array String) : IO Unit := do
  let line ← h.getLine
  let flush : IO Unit := do
    match hdr with
    | some hd =>
      out.putStrLn ("# case " ++ (hd.getD 2 "?"))
      for l in run hd ops.toList do out.putStrLn l
    | none => pure ()
  if line.isEmpty then
    flush
    out.flush
    return
  let line := (line.dropRightWhile (fun c => c == '\n' || c == '\r'))
  if line.startsWith "# case" then
    flush
    loop h out run (some (words line)) #[]
  else if line.startsWith "#" || line.isEmpty then
    loop h out run hdr ops
  else
    loop h out run hdr (ops.push line)

def main (args : List String) : IO UInt32 := do
  match args with
  | [prop] =>
    match dispatch prop with
    | some run =>
      loop (← IO.getStdin) (← IO.getStdout) run none #[]
      return 0
    | none => IO.eprintln s!"unknown property {prop}"; return 2
  | _ => IO.eprintln "usage: driver <property> < ops"; return 2
