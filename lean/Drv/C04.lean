import AlgoVerif.DriverMain
import AlgoVerif.Driver.C04

def main : IO UInt32 := AlgoVerif.driverMain AlgoVerif.C04.Driver.runCase
