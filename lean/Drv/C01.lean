import AlgoVerif.DriverMain
import AlgoVerif.Driver.C01

def main : IO UInt32 := AlgoVerif.driverMain AlgoVerif.C01.Driver.runCase
