import AlgoVerif.DriverMain
import AlgoVerif.Driver.C06

def main : IO UInt32 := AlgoVerif.driverMain AlgoVerif.C06.Driver.runCase
