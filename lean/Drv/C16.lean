import AlgoVerif.DriverMain
import AlgoVerif.Driver.C16

def main : IO UInt32 := AlgoVerif.driverMain AlgoVerif.C16.Driver.runCase
