import AlgoVerif.DriverMain
import AlgoVerif.Driver.C03

def main : IO UInt32 := AlgoVerif.driverMain AlgoVerif.C03.Driver.runCase
