import AlgoVerif.DriverMain
import AlgoVerif.Driver.C10

def main : IO UInt32 := AlgoVerif.driverMain AlgoVerif.C10.Driver.runCase
