import AlgoVerif.DriverMain
import AlgoVerif.Driver.C08

def main : IO UInt32 := AlgoVerif.driverMain AlgoVerif.C08.Driver.runCase
