import AlgoVerif.DriverMain
import AlgoVerif.Driver.C02

def main : IO UInt32 := AlgoVerif.driverMain AlgoVerif.C02.Driver.runCase
