import AlgoVerif.DriverMain
import AlgoVerif.Driver.C15

def main : IO UInt32 := AlgoVerif.driverMain AlgoVerif.C15.Driver.runCase
