import AlgoVerif.DriverMain
import AlgoVerif.Driver.C17

def main : IO UInt32 := AlgoVerif.driverMain AlgoVerif.C17.Driver.runCase
