import AlgoVerif.DriverMain
import AlgoVerif.Driver.C13

def main : IO UInt32 := AlgoVerif.driverMain AlgoVerif.C13.Driver.runCase
