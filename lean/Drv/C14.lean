import AlgoVerif.DriverMain
import AlgoVerif.Driver.C14

def main : IO UInt32 := AlgoVerif.driverMain AlgoVerif.C14.Driver.runCase
