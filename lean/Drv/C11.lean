import AlgoVerif.DriverMain
import AlgoVerif.Driver.C11

def main : IO UInt32 := AlgoVerif.driverMain AlgoVerif.C11.Driver.runCase
