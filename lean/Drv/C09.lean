import AlgoVerif.DriverMain
import AlgoVerif.Driver.C09

def main : IO UInt32 := AlgoVerif.driverMain AlgoVerif.C09.Driver.runCase
