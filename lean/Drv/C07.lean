import AlgoVerif.DriverMain
import AlgoVerif.Driver.C07

def main : IO UInt32 := AlgoVerif.driverMain AlgoVerif.C07.Driver.runCase
