import AlgoVerif.DriverMain
import AlgoVerif.Driver.C12

def main : IO UInt32 := AlgoVerif.driverMain AlgoVerif.C12.Driver.runCase
