import AlgoVerif.DriverMain
import AlgoVerif.Driver.C05

def main : IO UInt32 := AlgoVerif.driverMain AlgoVerif.C05.Driver.runCase
