import AlgoVerif.DriverMain
import AlgoVerif.Driver.C19

def main : IO UInt32 := AlgoVerif.driverMain AlgoVerif.C19.Driver.runCase
