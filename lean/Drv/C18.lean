import AlgoVerif.DriverMain
import AlgoVerif.Driver.C18

def main : IO UInt32 := AlgoVerif.driverMain AlgoVerif.C18.Driver.runCase
