import AlgoVerif.DriverMain
import AlgoVerif.Driver.C20

def main : IO UInt32 := AlgoVerif.driverMain AlgoVerif.C20.Driver.runCase
