// Package gx is shared by the grammar properties (C08–C12): a plain grammar value, conversion to and
// from the library's *grammar.CFG, the line-protocol description, canonical rendering, generators and an
// exact bounded-language oracle (independent of the library).
package gx

import (
	"fmt"
	"sort"
	"strings"

	"github.com/moorara/algo/grammar"

	"verifharness/hx"
)

type P struct {
	Head string
	Body []string
}

type G struct {
	Terms    []string
	NonTerms []string
	Prods    []P
	Start    string
}

func (g G) IsNonTerm(s string) bool {
	for _, n := range g.NonTerms {
		if n == s {
			return true
		}
	}
	return false
}

// ntSet is the set of declared non-terminals (for the analyses, which ask many times).
func (g G) ntSet() map[string]bool {
	m := make(map[string]bool, len(g.NonTerms))
	for _, n := range g.NonTerms {
		m[n] = true
	}
	return m
}

// ToCFG builds the library grammar.
func (g G) ToCFG() *grammar.CFG {
	ts := make([]grammar.Terminal, len(g.Terms))
	for i, t := range g.Terms {
		ts[i] = grammar.Terminal(t)
	}
	ns := make([]grammar.NonTerminal, len(g.NonTerms))
	for i, n := range g.NonTerms {
		ns[i] = grammar.NonTerminal(n)
	}
	ps := make([]*grammar.Production, len(g.Prods))
	for i, p := range g.Prods {
		body := grammar.String[grammar.Symbol]{}
		for _, s := range p.Body {
			if g.IsNonTerm(s) {
				body = append(body, grammar.NonTerminal(s))
			} else {
				body = append(body, grammar.Terminal(s))
			}
		}
		ps[i] = &grammar.Production{Head: grammar.NonTerminal(p.Head), Body: body}
	}
	return grammar.NewCFG(ts, ns, ps, grammar.NonTerminal(g.Start))
}

// FromCFG reads a library grammar back (sorted, so the result is canonical).
func FromCFG(c *grammar.CFG) G {
	var g G
	for t := range c.Terminals.All() {
		g.Terms = append(g.Terms, string(t))
	}
	for n := range c.NonTerminals.All() {
		g.NonTerms = append(g.NonTerms, string(n))
	}
	sort.Strings(g.Terms)
	sort.Strings(g.NonTerms)
	for p := range c.Productions.All() {
		q := P{Head: string(p.Head)}
		for _, s := range p.Body {
			q.Body = append(q.Body, s.Name())
		}
		g.Prods = append(g.Prods, q)
	}
	sort.Slice(g.Prods, func(i, j int) bool { return prodKey(g.Prods[i]) < prodKey(g.Prods[j]) })
	g.Start = string(c.Start)
	return g
}

func prodKey(p P) string {
	if len(p.Body) == 0 {
		return p.Head + "→ε"
	}
	return p.Head + "→" + strings.Join(p.Body, " ")
}

// Lines is the protocol description of the grammar (see lean/AlgoVerif/Model/GrammarCore.lean).
func (g G) Lines() []string {
	ls := []string{"terms " + strings.Join(g.Terms, " "), "nonterms " + strings.Join(g.NonTerms, " "), "start " + g.Start}
	for _, p := range g.Prods {
		ls = append(ls, strings.TrimRight("prod "+p.Head+" : "+strings.Join(p.Body, " "), " "))
	}
	return ls
}

// ParseLines is the inverse of Lines; unknown lines are returned untouched.
func ParseLines(lines []string) (G, []string) {
	var g G
	var rest []string
	for _, l := range lines {
		f := strings.Fields(l)
		switch {
		case len(f) >= 1 && f[0] == "terms":
			g.Terms = append(g.Terms, f[1:]...)
		case len(f) >= 1 && f[0] == "nonterms":
			g.NonTerms = append(g.NonTerms, f[1:]...)
		case len(f) == 2 && f[0] == "start":
			g.Start = f[1]
		case len(f) >= 3 && f[0] == "prod" && f[2] == ":":
			g.Prods = append(g.Prods, P{Head: f[1], Body: append([]string{}, f[3:]...)})
		default:
			rest = append(rest, l)
		}
	}
	return g, rest
}

func dedupSorted(xs []string) []string {
	ys := append([]string{}, xs...)
	sort.Strings(ys)
	out := ys[:0]
	for i, y := range ys {
		if i == 0 || y != ys[i-1] {
			out = append(out, y)
		}
	}
	return out
}

// Show is the canonical one-line rendering, byte-identical to Lean's `showGrammar`.
func (g G) Show() string {
	ps := make([]string, len(g.Prods))
	for i, p := range g.Prods {
		ps[i] = prodKey(p)
	}
	return fmt.Sprintf("start=%s T={%s} N={%s} P={%s}", g.Start, strings.Join(dedupSorted(g.Terms), ","),
		strings.Join(dedupSorted(g.NonTerms), ","), strings.Join(dedupSorted(ps), "; "))
}

// ---------------------------------------------------------------- independent analyses

// LangK returns every sentence of length ≤ k (words joined by a single space; "" is ε) by the
// least-fixpoint of L_k(A) = ∪_{A→X1…Xn} L_k(X1)·…·L_k(Xn) truncated at length k.
func (g G) LangK(k int) map[string]bool {
	isNT := g.ntSet()
	type set = map[string]bool
	env := map[string]set{}
	for _, n := range g.NonTerms {
		env[n] = set{}
	}
	wlen := func(w string) int {
		if w == "" {
			return 0
		}
		return strings.Count(w, " ") + 1
	}
	cat := func(a, b string) string {
		if a == "" {
			return b
		}
		if b == "" {
			return a
		}
		return a + " " + b
	}
	for pass, changed := 0, true; changed; pass++ {
		changed = false
		for pi := range g.Prods {
			p := g.Prods[pi]
			if pass%2 == 1 { // every other pass back to front: a chain converges in two passes whichever way it is listed
				p = g.Prods[len(g.Prods)-1-pi]
			}
			cur := set{"": true}
			for _, s := range p.Body {
				next := set{}
				var opts set
				if isNT[s] {
					opts = env[s]
				} else {
					opts = set{s: true}
				}
				for a := range cur {
					for b := range opts {
						if wlen(a)+wlen(b) <= k {
							next[cat(a, b)] = true
						}
					}
				}
				cur = next
				if len(cur) == 0 {
					break
				}
			}
			for w := range cur {
				if !env[p.Head][w] {
					if env[p.Head] == nil {
						env[p.Head] = set{}
					}
					env[p.Head][w] = true
					changed = true
				}
			}
		}
	}
	if env[g.Start] == nil {
		return set{}
	}
	return env[g.Start]
}

// LangKCap is LangK that gives up (ok=false) as soon as some non-terminal has more than cap sentences of length ≤ k: for
// large k on grammars whose language is sparse (long bodies, long chains).
func (g G) LangKCap(k, cap int) (map[string]bool, bool) {
	env := map[string]map[string]int{} // sentence -> its length
	isNT := map[string]bool{}
	for _, n := range g.NonTerms {
		env[n] = map[string]int{}
		isNT[n] = true
	}
	// bound[X]: a string of X longer than this cannot be part of a sentence of length ≤ k (exact pruning): k minus the least
	// number of terminals that surround X in a sentential form derived from the start symbol
	ml := g.MinLen()
	const inf = 1 << 30
	ctx := map[string]int{g.Start: 0}
	for changed := true; changed; {
		changed = false
		for _, p := range g.Prods {
			c, ok := ctx[p.Head]
			if !ok {
				continue
			}
			total, fin := 0, true
			lens := make([]int, len(p.Body))
			for i, s := range p.Body {
				lens[i] = 1
				if isNT[s] {
					l, has := ml[s]
					if !has {
						fin = false
						break
					}
					lens[i] = l
				}
				total += lens[i]
			}
			if !fin {
				continue
			}
			for i, s := range p.Body {
				if isNT[s] {
					if v := c + total - lens[i]; v < inf {
						if old, has := ctx[s]; !has || v < old {
							ctx[s] = v
							changed = true
						}
					}
				}
			}
		}
	}
	bound := func(n string) int {
		if c, ok := ctx[n]; ok {
			return k - c
		}
		return -1 // not reachable in a terminating derivation: nothing of it matters
	}
	cat := func(a, b string) string {
		if a == "" {
			return b
		}
		if b == "" {
			return a
		}
		return a + " " + b
	}
	for pass, changed := 0, true; changed; pass++ {
		changed = false
		for pi := range g.Prods {
			p := g.Prods[pi]
			if pass%2 == 1 {
				p = g.Prods[len(g.Prods)-1-pi]
			}
			kk := bound(p.Head)
			if kk < 0 {
				continue
			}
			cur := map[string]int{"": 0}
			for _, s := range p.Body {
				next := make(map[string]int, len(cur))
				if isNT[s] {
					for a, la := range cur {
						for b, lb := range env[s] {
							if la+lb <= kk {
								next[cat(a, b)] = la + lb
							}
						}
					}
				} else {
					for a, la := range cur {
						if la+1 <= kk {
							next[cat(a, s)] = la + 1
						}
					}
				}
				cur = next
				if len(cur) == 0 {
					break
				}
				if len(cur) > cap {
					return nil, false
				}
			}
			if env[p.Head] == nil {
				env[p.Head] = map[string]int{}
			}
			for w, l := range cur {
				if _, ok := env[p.Head][w]; !ok {
					env[p.Head][w] = l
					changed = true
				}
			}
			if len(env[p.Head]) > cap {
				return nil, false
			}
		}
	}
	out := map[string]bool{}
	for w := range env[g.Start] {
		out[w] = true
	}
	return out, true
}

// MinLen returns, for every non-terminal that derives a terminal string, the length of a shortest one.
func (g G) MinLen() map[string]int {
	isNT := map[string]bool{}
	for _, n := range g.NonTerms {
		isNT[n] = true
	}
	ml := map[string]int{}
	for changed := true; changed; {
		changed = false
		for _, p := range g.Prods {
			total, ok := 0, true
			for _, s := range p.Body {
				if isNT[s] {
					l, has := ml[s]
					if !has {
						ok = false
						break
					}
					total += l
				} else {
					total++
				}
			}
			if !ok {
				continue
			}
			if l, has := ml[p.Head]; !has || total < l {
				ml[p.Head] = total
				changed = true
			}
		}
	}
	return ml
}

// Nullable returns the non-terminals deriving ε.
func (g G) Nullable() map[string]bool {
	isNT := g.ntSet()
	nul := map[string]bool{}
	for changed := true; changed; {
		changed = false
		for _, p := range g.Prods {
			if nul[p.Head] {
				continue
			}
			all := true
			for _, s := range p.Body {
				if !isNT[s] || !nul[s] {
					all = false
					break
				}
			}
			if all {
				nul[p.Head] = true
				changed = true
			}
		}
	}
	return nul
}

// Reachable returns the non-terminals reachable from the start symbol.
func (g G) Reachable() map[string]bool {
	isNT := g.ntSet()
	r := map[string]bool{g.Start: true}
	for changed := true; changed; {
		changed = false
		for _, p := range g.Prods {
			if r[p.Head] {
				for _, s := range p.Body {
					if isNT[s] && !r[s] {
						r[s] = true
						changed = true
					}
				}
			}
		}
	}
	return r
}

// Productive returns the non-terminals deriving some terminal string.
func (g G) Productive() map[string]bool {
	isNT := g.ntSet()
	pr := map[string]bool{}
	for changed := true; changed; {
		changed = false
		for _, p := range g.Prods {
			if pr[p.Head] {
				continue
			}
			ok := true
			for _, s := range p.Body {
				if isNT[s] && !pr[s] {
					ok = false
					break
				}
			}
			if ok {
				pr[p.Head] = true
				changed = true
			}
		}
	}
	return pr
}

// Reduced: every non-terminal reachable and productive.
func (g G) Reduced() bool {
	r, p := g.Reachable(), g.Productive()
	for _, n := range g.NonTerms {
		if !r[n] || !p[n] {
			return false
		}
	}
	return true
}

// ---------------------------------------------------------------- generators

type GenOpts struct {
	MaxNonTerms int // ≥1
	MaxTerms    int // ≥1
	MaxAlts     int // alternatives per non-terminal
	MaxBody     int // symbols per body
	EpsChance   int // percent of alternatives that are ε
	UnitChance  int // percent of alternatives that are a single non-terminal
	LeftRec     int // percent of alternatives forced to start with a non-terminal of index ≤ own
	CommonPref  int // percent of alternatives that copy a prefix of the previous alternative
}

var ntNames = []string{"S", "A", "B", "C", "D", "E"}
var tNames = []string{"a", "b", "c", "d"}

// Random draws a grammar that satisfies the library's Verify(): every non-terminal has a
// production, every body symbol is declared, start is declared.
func Random(r *hx.Rand, o GenOpts) G {
	nn := r.Range(1, o.MaxNonTerms)
	nt := r.Range(1, o.MaxTerms)
	g := G{NonTerms: append([]string{}, ntNames[:nn]...), Terms: append([]string{}, tNames[:nt]...), Start: "S"}
	seen := map[string]bool{}
	for i, n := range g.NonTerms {
		alts := r.Range(1, o.MaxAlts)
		var prev []string
		for a := 0; a < alts; a++ {
			var body []string
			x := r.Intn(100)
			switch {
			case x < o.EpsChance:
				// ε
			case x < o.EpsChance+o.UnitChance:
				body = []string{hx.Pick(r, g.NonTerms)}
			default:
				l := r.Range(1, o.MaxBody)
				if len(prev) > 0 && r.Intn(100) < o.CommonPref {
					k := r.Range(1, len(prev))
					body = append(body, prev[:k]...)
				}
				for len(body) < l {
					if r.Intn(100) < 45 {
						body = append(body, hx.Pick(r, g.NonTerms))
					} else {
						body = append(body, hx.Pick(r, g.Terms))
					}
				}
				if r.Intn(100) < o.LeftRec {
					body[0] = g.NonTerms[r.Intn(i+1)]
				}
			}
			p := P{Head: n, Body: body}
			if !seen[prodKey(p)] {
				seen[prodKey(p)] = true
				g.Prods = append(g.Prods, p)
			}
			if len(body) > 0 {
				prev = body
			}
		}
	}
	// every declared terminal must be used by some production for some library checks to be happy?
	// (Verify() does not require it; leave unused terminals in: they exercise "unreachable terminal" paths.)
	return g
}

// DefaultOpts is a mix that produces nullable symbols, unit cycles, left recursion and common prefixes.
func DefaultOpts() GenOpts {
	return GenOpts{MaxNonTerms: 4, MaxTerms: 3, MaxAlts: 3, MaxBody: 4, EpsChance: 15, UnitChance: 12, LeftRec: 15, CommonPref: 20}
}

// Words enumerates all terminal strings of length ≤ k over the grammar's terminals (space-joined).
func (g G) Words(k int) []string {
	out := []string{""}
	level := []string{""}
	for i := 0; i < k; i++ {
		var next []string
		for _, w := range level {
			for _, t := range g.Terms {
				if w == "" {
					next = append(next, t)
				} else {
					next = append(next, w+" "+t)
				}
			}
		}
		out = append(out, next...)
		level = next
	}
	return out
}
