package gx

// names.go: names ⇄ words of the grammar line protocol and name schemes (the same codec as harness/c10: EncName / DecName
// and Lean's Model/NameCodec.lean; kept here so that the grammar properties do not have to import each other).

import (
	"fmt"
	"strings"

	"github.com/moorara/algo/grammar"

	"verifharness/hx"
)

// EncName is the canonical word of a name: the empty name is %, and %XX (upper-case hex, byte by byte) stands for every byte
// <= 0x20, 0x7F, '%', the arrow → (it separates head and body in rendered productions), a leading ' or ^ (the markers),
// and all bytes of the names "$" and "ε"; everything else is written as it is.
func EncName(s string) string {
	if s == "" {
		return "%"
	}
	all := s == "$" || s == "ε"
	var b strings.Builder
	for i := 0; i < len(s); {
		if strings.HasPrefix(s[i:], "→") {
			b.WriteString("%E2%86%92")
			i += len("→")
			continue
		}
		c := s[i]
		if all || c <= 0x20 || c == 0x7f || c == '%' || (i == 0 && (c == '\'' || c == '^')) {
			fmt.Fprintf(&b, "%%%02X", c)
		} else {
			b.WriteByte(c)
		}
		i++
	}
	return b.String()
}

func hexVal(c byte) int {
	switch {
	case c >= '0' && c <= '9':
		return int(c - '0')
	case c >= 'A' && c <= 'F':
		return int(c-'A') + 10
	case c >= 'a' && c <= 'f':
		return int(c-'a') + 10
	}
	return -1
}

// DecName is the name a word (without marker) stands for.
func DecName(w string) string {
	if w == "%" {
		return ""
	}
	if !strings.Contains(w, "%") {
		return w
	}
	b := make([]byte, 0, len(w))
	for i := 0; i < len(w); i++ {
		if w[i] == '%' && i+2 < len(w) && hexVal(w[i+1]) >= 0 && hexVal(w[i+2]) >= 0 {
			b = append(b, byte(hexVal(w[i+1])*16+hexVal(w[i+2])))
			i += 2
			continue
		}
		b = append(b, w[i])
	}
	return string(b)
}

// A NameScheme is a pool of raw names.  The library accepts any Go string as the name of a symbol, renders symbols and
// strings of symbols with String() (non-terminals bare, terminals %q, joined by a blank — not injective), hashes those
// renderings, orders by them and makes new names by appending reserved suffixes; so names are a dimension of the input.
type NameScheme struct {
	Name string
	NT   []string
	T    []string // no double quote, backslash or control character (the Models render terminals as "name" for such names only)
}

var NameSchemes = []NameScheme{
	// names that are concatenations of other names
	{"concatenations", []string{"A", "B", "AB", "BA", "AA", "ABA", "BB", "BAB", "AAB"}, []string{"a", "b", "ab", "ba"}},
	// identifiers with shared prefixes and suffixes
	{"words", []string{"expr", "list", "exprlist", "ex", "pr", "term", "listterm", "exprterm", "prlist"}, []string{"x", ",", "id", "idx"}},
	// non-terminals named like the rendering of terminals ("a" with the quotes) and like terminals (a)
	{"like-terminals", []string{`"a"`, `"b"`, `"a" "b"`, "a", `"ab"`, "b", `"c"`, `"`, `""`, "ab"}, []string{"a", "b", "ab", "c"}},
	// the suffixes AddNewNonTerminal appends
	{"reserved-suffixes", []string{"S", "′", "S′", "S″", "S′′", "S₁", "S₂", "₁", "S′₁"}, []string{"a", "a′", "′", "₁"}},
	// the empty name, names that look like ε, the endmarker, the protocol's own markers and separators
	{"odd", []string{"", "ε", "εε", "$", " ", "A B", "→", "'", "^A", "%", "A→a", "\t", "%41", "S'"},
		[]string{"", "ε", "$", " ", "a b", "'", "^", "%", "%61", "→"}},
	// names with blanks: [A, B] and ["A B"] are rendered alike
	{"spaces", []string{"A", "B", "A B", "B A", "A B A", " ", "A  B", `"a" "b"`, "B  A"}, []string{"a", "b", "a b", " b"}},
	// terminals in upper case: named like the non-terminals, and sorted among them
	{"upper-case-terminals", []string{"S", "A", "B", "C", "D", "E", "U", "V", "N"}, []string{"A", "S", "B", "a", "Z0"}},
	// names that embed what a home-made key might put between two symbols (a kind letter, a separator): with a key such as
	// kind letter + name + blank per symbol, [A, B] and the single non-terminal "A nB" are written alike
	{"embedded-keys", []string{"A", "B", "A nB", "A tb", "A,nB", "A|B", "A,B", "nA", "A NB"}, []string{"b", "a", "b nA", "a,b", "tb"}},
}

func pickNames(r *hx.Rand, pool []string, k int, prefix bool) []string {
	p := append([]string{}, pool...)
	if !prefix || k > len(p) {
		for i := len(p) - 1; i > 0; i-- {
			j := r.Intn(i + 1)
			p[i], p[j] = p[j], p[i]
		}
	}
	for i := len(p); i < k; i++ { // pool too small: make more names out of it
		p = append(p, pool[i%len(pool)]+strings.Repeat("x", i/len(pool)))
	}
	p = p[:k]
	for i := len(p) - 1; i > 0; i-- { // which symbol gets which name
		j := r.Intn(i + 1)
		p[i], p[j] = p[j], p[i]
	}
	return p
}

// Rename maps the non-terminals and terminals of g (plain words) injectively to names of the scheme and returns the
// grammar in canonical words (a terminal whose word is also a non-terminal's carries the quote ').  prefix: take the first
// names of the pool (the colliding ones) instead of a random subset.
func Rename(r *hx.Rand, g G, sc NameScheme, prefix bool) G {
	nts := pickNames(r, sc.NT, len(g.NonTerms), prefix)
	ts := pickNames(r, sc.T, len(g.Terms), false)
	ntw, tw, isNT := map[string]string{}, map[string]string{}, map[string]bool{}
	for i, n := range g.NonTerms {
		ntw[n] = EncName(nts[i])
		isNT[ntw[n]] = true
	}
	for i, t := range g.Terms {
		w := EncName(ts[i])
		if isNT[w] {
			w = "'" + w
		}
		tw[t] = w
	}
	h := G{Start: ntw[g.Start]}
	for _, n := range g.NonTerms {
		h.NonTerms = append(h.NonTerms, ntw[n])
	}
	for _, t := range g.Terms {
		h.Terms = append(h.Terms, tw[t])
	}
	seen := map[string]bool{}
	for _, p := range g.Prods {
		q := P{Head: ntw[p.Head]}
		for _, x := range p.Body {
			if g.IsNonTerm(x) {
				q.Body = append(q.Body, ntw[x])
			} else {
				q.Body = append(q.Body, tw[x])
			}
		}
		if k := prodKey(q); !seen[k] {
			seen[k] = true
			h.Prods = append(h.Prods, q)
		}
	}
	return h
}

// ---------------------------------------------------------------- names that share a hash bucket

// mixQP is the bit mixing symboltable's open-addressing tables apply to a key's hash before reducing it modulo the table
// size (quadratic_hash_table.go: probe).
func mixQP(h uint64) uint64 { return h ^ (h >> 20) ^ (h >> 12) ^ (h >> 7) ^ (h >> 4) }

var bucketCache = map[string][]string{}

// SameBucketNames returns n different names prefix+<number> whose hash — computed by CALLING the library's own hash function
// for that kind of symbol ("nonterm": grammar.HashNonTerminal, "term": grammar.HashTerminal, "symbol-nonterm" /
// "symbol-term": grammar.HashSymbol of the non-terminal / terminal) and mixed the way the quadratic-probing table mixes it —
// has the same residue modulo every m in moduli.  With moduli = {31} the names start on one slot of the 31-slot table that
// grammar.NewProductions (heads), the FIRST / FOLLOW tables and the LR automata start from, i.e. they share one probe path,
// which visits only 16 different slots: 17 or more such keys fit only because the table grows at load factor 1/2.  {31, 67}
// keeps them together after the first growth as well.  The search is brute force over the numbers 0, 1, 2, …
// (about n·Πm hash calls) and memoised.
func SameBucketNames(kind, prefix string, moduli []int, n int) []string {
	key := fmt.Sprintf("%s|%s|%v", kind, prefix, moduli)
	have := bucketCache[key]
	if len(have) >= n {
		return append([]string{}, have[:n]...)
	}
	hash := func(s string) uint64 {
		switch kind {
		case "term":
			return grammar.HashTerminal(grammar.Terminal(s))
		case "symbol-term":
			return grammar.HashSymbol(grammar.Terminal(s))
		case "symbol-nonterm":
			return grammar.HashSymbol(grammar.NonTerminal(s))
		}
		return grammar.HashNonTerminal(grammar.NonTerminal(s))
	}
	same := func(a, b uint64) bool {
		for _, m := range moduli {
			if a%uint64(m) != b%uint64(m) {
				return false
			}
		}
		return true
	}
	var out []string
	var target uint64
	for i := 0; len(out) < n && i < 50_000_000; i++ {
		name := fmt.Sprintf("%s%d", prefix, i)
		h := mixQP(hash(name))
		if len(out) == 0 {
			target = h
			out = append(out, name)
		} else if same(h, target) {
			out = append(out, name)
		}
	}
	bucketCache[key] = out
	return append([]string{}, out...)
}
