package c02

// Component `hashfn` (property C02, file hash/hash.go): call HISTORIES of the closures returned by
// hash.HashFuncFor<F>(nil). One case creates two closures of one family once and calls them on a history of
// arguments (`h <arg>` = first instance, `b.h <arg>` = second). Every returned value is printed, so the Lean
// Model — a pure function of the argument's bytes — is compared with it on every call; any memoisation, buffer
// reuse or hasher reuse that leaks from one call into another shows up as a difference.
//
// Independent oracle (never the code under test): FNV-1 (64 bit) written out here, over the documented
// little-endian encoding written out here with encoding/binary; plus history independence: an argument hashed
// before (by either instance) must hash to the same value again. For the three slice variants whose element
// width comes from unsafe.Sizeof of the slice type (IntSlice, UintSlice, UintptrSlice) only history
// independence is demanded (the property asks for a deterministic function, not for a particular encoding).

import (
	"encoding/binary"
	"encoding/hex"
	"fmt"
	"math"
	"sort"
	"strconv"
	"strings"

	"github.com/moorara/algo/hash"

	"verifharness/hx"
)

type hashInst func(arg string) (uint64, bool)

type family struct {
	name  string
	shape string // bool int nat pair bytes bools ints nats pairs strs
	bits  int    // width of an integer element in bits (0: not an integer)
	mk    func() hashInst
	enc   func(arg string) ([]byte, bool) // independent encoding; nil: history independence only
}

func splitList(s string) []string {
	if s == "-" {
		return nil
	}
	return strings.Split(s, ",")
}

func pInt(s string) (int64, bool)   { v, err := strconv.ParseInt(s, 10, 64); return v, err == nil }
func pUint(s string) (uint64, bool) { v, err := strconv.ParseUint(s, 10, 64); return v, err == nil }
func pBool(s string) (bool, bool)   { return s == "true", s == "true" || s == "false" }
func pPair(s string) (a, b uint64, ok bool) {
	p := strings.Split(s, ":")
	if len(p) != 2 {
		return 0, 0, false
	}
	a, ok1 := pUint(p[0])
	b, ok2 := pUint(p[1])
	return a, b, ok1 && ok2
}
func pBytes(s string) (string, bool) {
	if !strings.HasPrefix(s, "x") {
		return "", false
	}
	b, err := hex.DecodeString(s[1:])
	return string(b), err == nil
}

func scalarOf[T any](f hash.HashFunc[T], parse func(string) (T, bool)) hashInst {
	return func(a string) (uint64, bool) {
		v, ok := parse(a)
		if !ok {
			return 0, false
		}
		return f(v), true
	}
}

func sliceOf[T any](f hash.HashFunc[[]T], parse func(string) (T, bool)) hashInst {
	return func(a string) (uint64, bool) {
		parts := splitList(a)
		vs := make([]T, 0, len(parts))
		for _, p := range parts {
			v, ok := parse(p)
			if !ok {
				return 0, false
			}
			vs = append(vs, v)
		}
		return f(vs), true
	}
}

func sint[T ~int | ~int8 | ~int16 | ~int32 | ~int64](s string) (T, bool) {
	v, ok := pInt(s)
	return T(v), ok
}
func uint_[T ~uint | ~uint8 | ~uint16 | ~uint32 | ~uint64 | ~uintptr](s string) (T, bool) {
	v, ok := pUint(s)
	return T(v), ok
}
func f32(s string) (float32, bool) { v, ok := pUint(s); return math.Float32frombits(uint32(v)), ok }
func f64(s string) (float64, bool) { v, ok := pUint(s); return math.Float64frombits(v), ok }
func c64(s string) (complex64, bool) {
	a, b, ok := pPair(s)
	return complex(math.Float32frombits(uint32(a)), math.Float32frombits(uint32(b))), ok
}
func c128(s string) (complex128, bool) {
	a, b, ok := pPair(s)
	return complex(math.Float64frombits(a), math.Float64frombits(b)), ok
}

// independent encodings -----------------------------------------------------------------

func le(v uint64, w int) []byte {
	var b [8]byte
	binary.LittleEndian.PutUint64(b[:], v)
	return append([]byte{}, b[:w]...)
}

func encElems(arg string, slice bool, one func(string) ([]byte, bool)) ([]byte, bool) {
	parts := []string{arg}
	if slice {
		parts = splitList(arg)
	}
	var out []byte
	for _, p := range parts {
		b, ok := one(p)
		if !ok {
			return nil, false
		}
		out = append(out, b...)
	}
	return out, true
}

func encInt(w int, slice bool) func(string) ([]byte, bool) {
	return func(a string) ([]byte, bool) {
		return encElems(a, slice, func(s string) ([]byte, bool) { v, ok := pInt(s); return le(uint64(v), w), ok })
	}
}
func encUint(w int, slice bool) func(string) ([]byte, bool) {
	return func(a string) ([]byte, bool) {
		return encElems(a, slice, func(s string) ([]byte, bool) { v, ok := pUint(s); return le(v, w), ok })
	}
}
func encPair(w int, slice bool) func(string) ([]byte, bool) {
	return func(a string) ([]byte, bool) {
		return encElems(a, slice, func(s string) ([]byte, bool) {
			x, y, ok := pPair(s)
			return append(le(x, w), le(y, w)...), ok
		})
	}
}
func encBools(slice bool) func(string) ([]byte, bool) {
	return func(a string) ([]byte, bool) {
		return encElems(a, slice, func(s string) ([]byte, bool) {
			v, ok := pBool(s)
			if v {
				return []byte{1}, ok
			}
			return []byte{0}, ok
		})
	}
}
func encStrs(slice bool) func(string) ([]byte, bool) {
	return func(a string) ([]byte, bool) {
		return encElems(a, slice, func(s string) ([]byte, bool) { v, ok := pBytes(s); return []byte(v), ok })
	}
}

// fnv1 is FNV-1, 64 bit: multiply, then xor.
func fnv1(bs []byte) uint64 {
	h := uint64(fnvOffset)
	for _, b := range bs {
		h *= fnvPrime
		h ^= uint64(b)
	}
	return h
}

// Families lists every HashFuncFor* constructor of package hash.
var Families = []family{
	{"Bool", "bool", 0, func() hashInst { return scalarOf(hash.HashFuncForBool[bool](nil), pBool) }, encBools(false)},
	{"BoolSlice", "bools", 0, func() hashInst { return sliceOf(hash.HashFuncForBoolSlice[[]bool](nil), pBool) }, encBools(true)},
	{"Int8", "int", 8, func() hashInst { return scalarOf(hash.HashFuncForInt8[int8](nil), sint[int8]) }, encInt(1, false)},
	{"Int8Slice", "ints", 8, func() hashInst { return sliceOf(hash.HashFuncForInt8Slice[[]int8](nil), sint[int8]) }, encInt(1, true)},
	{"Int16", "int", 16, func() hashInst { return scalarOf(hash.HashFuncForInt16[int16](nil), sint[int16]) }, encInt(2, false)},
	{"Int16Slice", "ints", 16, func() hashInst { return sliceOf(hash.HashFuncForInt16Slice[[]int16](nil), sint[int16]) }, encInt(2, true)},
	{"Int32", "int", 32, func() hashInst { return scalarOf(hash.HashFuncForInt32[int32](nil), sint[int32]) }, encInt(4, false)},
	{"Int32Slice", "ints", 32, func() hashInst { return sliceOf(hash.HashFuncForInt32Slice[[]int32](nil), sint[int32]) }, encInt(4, true)},
	{"Int64", "int", 64, func() hashInst { return scalarOf(hash.HashFuncForInt64[int64](nil), sint[int64]) }, encInt(8, false)},
	{"Int64Slice", "ints", 64, func() hashInst { return sliceOf(hash.HashFuncForInt64Slice[[]int64](nil), sint[int64]) }, encInt(8, true)},
	{"Int", "int", 64, func() hashInst { return scalarOf(hash.HashFuncForInt[int](nil), sint[int]) }, encInt(8, false)},
	{"IntSlice", "ints", 64, func() hashInst { return sliceOf(hash.HashFuncForIntSlice[[]int](nil), sint[int]) }, nil},
	{"Uint8", "nat", 8, func() hashInst { return scalarOf(hash.HashFuncForUint8[uint8](nil), uint_[uint8]) }, encUint(1, false)},
	{"Uint8Slice", "nats", 8, func() hashInst { return sliceOf(hash.HashFuncForUint8Slice[[]uint8](nil), uint_[uint8]) }, encUint(1, true)},
	{"Uint16", "nat", 16, func() hashInst { return scalarOf(hash.HashFuncForUint16[uint16](nil), uint_[uint16]) }, encUint(2, false)},
	{"Uint16Slice", "nats", 16, func() hashInst { return sliceOf(hash.HashFuncForUint16Slice[[]uint16](nil), uint_[uint16]) }, encUint(2, true)},
	{"Uint32", "nat", 32, func() hashInst { return scalarOf(hash.HashFuncForUint32[uint32](nil), uint_[uint32]) }, encUint(4, false)},
	{"Uint32Slice", "nats", 32, func() hashInst { return sliceOf(hash.HashFuncForUint32Slice[[]uint32](nil), uint_[uint32]) }, encUint(4, true)},
	{"Uint64", "nat", 64, func() hashInst { return scalarOf(hash.HashFuncForUint64[uint64](nil), uint_[uint64]) }, encUint(8, false)},
	{"Uint64Slice", "nats", 64, func() hashInst { return sliceOf(hash.HashFuncForUint64Slice[[]uint64](nil), uint_[uint64]) }, encUint(8, true)},
	{"Uintptr", "nat", 64, func() hashInst { return scalarOf(hash.HashFuncForUintptr[uintptr](nil), uint_[uintptr]) }, encUint(8, false)},
	{"UintptrSlice", "nats", 64, func() hashInst { return sliceOf(hash.HashFuncForUintptrSlice[[]uintptr](nil), uint_[uintptr]) }, nil},
	{"Uint", "nat", 64, func() hashInst { return scalarOf(hash.HashFuncForUint[uint](nil), uint_[uint]) }, encUint(8, false)},
	{"UintSlice", "nats", 64, func() hashInst { return sliceOf(hash.HashFuncForUintSlice[[]uint](nil), uint_[uint]) }, nil},
	{"Float32", "nat", 32, func() hashInst { return scalarOf(hash.HashFuncForFloat32[float32](nil), f32) }, encUint(4, false)},
	{"Float32Slice", "nats", 32, func() hashInst { return sliceOf(hash.HashFuncForFloat32Slice[[]float32](nil), f32) }, encUint(4, true)},
	{"Float64", "nat", 64, func() hashInst { return scalarOf(hash.HashFuncForFloat64[float64](nil), f64) }, encUint(8, false)},
	{"Float64Slice", "nats", 64, func() hashInst { return sliceOf(hash.HashFuncForFloat64Slice[[]float64](nil), f64) }, encUint(8, true)},
	{"Complex64", "pair", 32, func() hashInst { return scalarOf(hash.HashFuncForComplex64[complex64](nil), c64) }, encPair(4, false)},
	{"Complex64Slice", "pairs", 32, func() hashInst { return sliceOf(hash.HashFuncForComplex64Slice[[]complex64](nil), c64) }, encPair(4, true)},
	{"Complex128", "pair", 64, func() hashInst { return scalarOf(hash.HashFuncForComplex128[complex128](nil), c128) }, encPair(8, false)},
	{"Complex128Slice", "pairs", 64, func() hashInst { return sliceOf(hash.HashFuncForComplex128Slice[[]complex128](nil), c128) }, encPair(8, true)},
	{"String", "bytes", 0, func() hashInst { return scalarOf(hash.HashFuncForString[string](nil), pBytes) }, encStrs(false)},
	{"StringSlice", "strs", 0, func() hashInst { return sliceOf(hash.HashFuncForStringSlice[[]string](nil), pBytes) }, encStrs(true)},
}

func familyByName(n string) *family {
	for i := range Families {
		if Families[i].name == n {
			return &Families[i]
		}
	}
	return nil
}

// execHashFn runs one call history of two closures of one family.
func execHashFn(c hx.Case) hx.Result {
	res := hx.Result{BadOp: -1}
	bad := func(i int, format string, a ...any) {
		if res.BadOp < 0 {
			res.BadOp = i
			res.What = fmt.Sprintf(format, a...)
		}
	}
	fam := familyByName(hx.HeaderGet(c.Header, "fam"))
	if fam == nil {
		for range c.Ops {
			res.Outs = append(res.Outs, "bad-case")
		}
		return res
	}
	tags := map[string]bool{"comp=hashfn": true, "fam=" + fam.name: true}
	var inst [2]hashInst
	if kind := hx.Try(func() { inst[0], inst[1] = fam.mk(), fam.mk() }); kind != "" {
		if len(c.Ops) > 0 {
			res.Outs = append(res.Outs, "panic")
			bad(0, "HashFuncFor%s(nil) panicked (%s)", fam.name, kind)
		}
		return res
	}
	first := map[string]uint64{} // argument -> value of its first call in this case
	var last [2]string           // previous argument per instance
	var calls [2]int             // calls per instance
	seenBy := [2]map[string]bool{{}, {}}
	zero := map[string]bool{"x": true, "0": true, "false": true, "-": true, "0:0": true}
	for i, op := range c.Ops {
		f := strings.Fields(op)
		if len(f) != 2 || (f[0] != "h" && f[0] != "b.h") {
			res.Outs = append(res.Outs, "bad-op")
			continue
		}
		b := 0
		if f[0] == "b.h" {
			b = 1
		}
		arg := f[1]
		var v uint64
		var parsed bool
		kind := hx.Try(func() { v, parsed = inst[b](arg) })
		if kind != "" {
			res.Outs = append(res.Outs, "panic")
			bad(i, "HashFuncFor%s(nil)(%s) panicked (%s)", fam.name, arg, kind)
			break
		}
		if !parsed {
			res.Outs = append(res.Outs, "bad-op")
			continue
		}
		res.Outs = append(res.Outs, fmt.Sprintf("ok %016x", v))
		if fam.enc != nil {
			if bs, ok := fam.enc(arg); ok {
				if want := fnv1(bs); v != want {
					bad(i, "HashFuncFor%s(nil)(%s) = %016x on call %d of this closure, FNV-1 of the argument's %d bytes is %016x",
						fam.name, arg, v, calls[b]+1, len(bs), want)
				}
			}
		}
		if w, ok := first[arg]; ok && w != v {
			bad(i, "HashFuncFor%s(nil)(%s) = %016x, the same argument hashed to %016x earlier in this history: not a function of the key",
				fam.name, arg, v, w)
		} else if !ok {
			first[arg] = v
		}
		if calls[b] == 0 && zero[arg] {
			tags["zero-value-first"] = true
		}
		if seenBy[b][arg] && last[b] != arg {
			tags["repeat-after-other-key"] = true
		}
		if seenBy[1-b][arg] {
			tags["same-key-both-instances"] = true
		}
		seenBy[b][arg] = true
		last[b] = arg
		calls[b]++
	}
	res.Nontrivial = tags["zero-value-first"] || tags["repeat-after-other-key"]
	for t := range tags {
		res.Tags = append(res.Tags, t)
	}
	sort.Strings(res.Tags)
	return res
}

// ---------------------------------------------------------------- generators

func genScalar(r *hx.Rand, fam *family) string {
	switch fam.shape {
	case "bool", "bools":
		return strconv.FormatBool(r.Bool())
	case "int", "ints":
		w := uint(fam.bits)
		min, max := -(int64(1) << (w - 1)), int64(1)<<(w-1)-1
		switch r.Intn(8) {
		case 0:
			return "0"
		case 1:
			return "-1"
		case 2:
			return strconv.FormatInt(min, 10)
		case 3:
			return strconv.FormatInt(max, 10)
		case 4, 5:
			return strconv.Itoa(r.Range(-3, 3))
		default:
			v := int64(r.U64())
			if w < 64 {
				v = v >> (64 - w)
			}
			return strconv.FormatInt(v, 10)
		}
	case "nat", "nats":
		w := uint(fam.bits)
		switch r.Intn(6) {
		case 0:
			return "0"
		case 1:
			return strconv.FormatUint(^uint64(0)>>(64-w), 10)
		case 2, 3:
			return strconv.Itoa(r.Intn(4))
		default:
			return strconv.FormatUint(r.U64()>>(64-w), 10)
		}
	case "pair", "pairs":
		w := uint(fam.bits)
		one := func() string {
			if r.Chance(1, 3) {
				return "0"
			}
			return strconv.FormatUint(r.U64()>>(64-w), 10)
		}
		return one() + ":" + one()
	default: // bytes, strs
		switch r.Intn(6) {
		case 0:
			return "x"
		case 1:
			return ShowBytes(string([]byte{byte(r.Intn(256))}))
		case 2:
			return ShowBytes([]string{"a", "ab", "abc", "b", "\x00", "\xff", "a\x00"}[r.Intn(7)])
		default:
			n := r.Range(0, 12)
			if r.Chance(1, 6) {
				n = r.Range(20, 70)
			}
			bs := make([]byte, n)
			for i := range bs {
				bs[i] = byte(r.Intn(256))
			}
			return ShowBytes(string(bs))
		}
	}
}

func genArg(r *hx.Rand, fam *family) string {
	if !strings.HasSuffix(fam.shape, "s") || fam.shape == "bytes" {
		return genScalar(r, fam)
	}
	n := r.Intn(5)
	if n == 0 {
		return "-"
	}
	parts := make([]string, n)
	for i := range parts {
		parts[i] = genScalar(r, fam)
	}
	return strings.Join(parts, ",")
}

func zeroArg(fam *family) string {
	switch fam.shape {
	case "bool":
		return "false"
	case "int", "nat":
		return "0"
	case "pair":
		return "0:0"
	case "bytes":
		return "x"
	}
	return "-"
}

// genHashHistory: a call history over a small pool of arguments (so that repeats, repeats after other keys and
// keys shared by the two instances are dense); with zeroFirst the zero value (""/0/false/empty slice) is the
// very first argument a closure sees.
func genHashHistory(r *hx.Rand, fam *family, n int, zeroFirst bool) []string {
	pool := []string{zeroArg(fam)}
	for len(pool) < r.Range(3, 9) {
		pool = append(pool, genArg(r, fam))
	}
	var ops []string
	if zeroFirst {
		ops = append(ops, "h "+zeroArg(fam))
		if r.Bool() {
			ops = append(ops, "h "+zeroArg(fam))
		}
	} else {
		ops = append(ops, "h "+pool[1+r.Intn(len(pool)-1)], "h "+zeroArg(fam))
	}
	for len(ops) < n {
		p := ""
		if r.Chance(1, 3) {
			p = "b."
		}
		a := hx.Pick(r, pool)
		if r.Chance(1, 5) {
			a = genArg(r, fam)
		}
		ops = append(ops, p+"h "+a)
		if r.Chance(1, 4) { // the same key again, at once and on the other instance
			ops = append(ops, p+"h "+a)
			ops = append(ops, map[string]string{"": "b.", "b.": ""}[p]+"h "+a)
		}
	}
	ops = append(ops, "h "+zeroArg(fam), "b.h "+zeroArg(fam))
	return ops
}

// genStrTable: a table history over string keys with the empty string as the FIRST key ever hashed by the
// (single) hash function of the case, then other keys, then the empty string again.
func genStrTable(r *hx.Rand, n int, emptyFirst bool) []string {
	pool := []string{"x"}
	for len(pool) < r.Range(3, 14) {
		pool = append(pool, genScalar(r, familyByName("String")))
	}
	var ops []string
	if emptyFirst {
		ops = append(ops, "put x 1")
	} else {
		ops = append(ops, "put "+pool[1]+" 1", "put x 2")
	}
	ops = append(ops, "put "+pool[len(pool)-1]+" 3", "get x", "size")
	for len(ops) < n {
		p := tab(r, 25)
		k := hx.Pick(r, pool)
		switch x := r.Intn(100); {
		case x < 40:
			ops = append(ops, fmt.Sprintf("%sput %s %d", p, k, r.Intn(50)))
		case x < 60:
			ops = append(ops, fmt.Sprintf("%sdelete %s", p, k))
		case x < 80:
			ops = append(ops, fmt.Sprintf("%sget %s", p, k))
		case x < 85:
			ops = append(ops, p+"size")
		case x < 90:
			ops = append(ops, p+"all")
		case x < 94:
			ops = append(ops, "equal")
		case x < 97:
			ops = append(ops, fmt.Sprintf("%sprobes %s", p, k))
		default:
			ops = append(ops, p+"dump")
		}
	}
	ops = append(ops, "get x", "put x 9", "get x", "size", "all", "delete x", "get x", "size")
	return ops
}

// genZeroFirstInt: int keys under the library's default int hash, 0 being the first key ever hashed.
func genZeroFirstInt(r *hx.Rand, n int) []string {
	ops := []string{"put 0 1", fmt.Sprintf("put %d 2", r.Range(1, 50)), "get 0", "size"}
	ops = append(ops, genMixed(r, n, r.Range(3, 20))...)
	ops = append(ops, "get 0", "put 0 9", "get 0", "size", "all")
	return ops
}

// mainHash generates the cases of the hash-function components (called from Main).
func mainHash(run *hx.Run, lim *Limiter) bool {
	r := run.R.Fork("hashfn")
	for i := range Families {
		fam := &Families[i]
		n := run.Scale(4)
		if fam.name == "String" || fam.name == "Int" {
			n = run.Scale(16)
		}
		for k := 0; k < n; k++ {
			c := hx.Case{Header: "comp=hashfn fam=" + fam.name, Ops: genHashHistory(r, fam, r.Range(8, 40), k%2 == 0)}
			run.Do("hashfn", c, Exec)
			if lim.Stop(run) {
				return true
			}
		}
	}
	// the library's default hash functions inside table histories, ""/0 as the first key
	rt := run.R.Fork("default-hash-tables")
	for _, comp := range Comps {
		for k, n := 0, run.Scale(8); k < n; k++ {
			hdr := Header(rt, comp, "fnvstr") + " keys=str"
			run.Do(comp, hx.Case{Header: hdr, Ops: genStrTable(rt, rt.Range(12, 90), k%4 != 3)}, Exec)
			if lim.Stop(run) {
				return true
			}
		}
		for k, n := 0, run.Scale(3); k < n; k++ {
			hdr := Header(rt, comp, []string{"const", "len", "first"}[k%3]) + " keys=str"
			run.Do(comp, hx.Case{Header: hdr, Ops: genStrTable(rt, rt.Range(12, 90), true)}, Exec)
			if lim.Stop(run) {
				return true
			}
		}
		for k, n := 0, run.Scale(4); k < n; k++ {
			run.Do(comp, hx.Case{Header: Header(rt, comp, "fnv"), Ops: genZeroFirstInt(rt, rt.Range(10, 60))}, Exec)
			if lim.Stop(run) {
				return true
			}
		}
	}
	return false
}
