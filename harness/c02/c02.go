// Package c02: the four hash tables of symboltable against a builtin map (property C02).
// The executor is shared with C03 (package c03 adds the probe bound and churn generators).
package c02

import (
	"encoding/hex"
	"fmt"
	"sort"
	"strconv"
	"strings"
	"time"

	"github.com/moorara/algo/hash"
	"github.com/moorara/algo/symboltable"

	"verifharness/hx"
)

const Rule = "cases = (implementation, hash function, HashOpts, shuffle seed, op sequence on two tables) drawn from VERIF_SEED: " +
	"hash in {fnv, identity, constant, mod 3, mod initial capacity}; options = defaults or a larger prime / power of two with dyadic " +
	"load-factor bounds no looser than the defaults; small key universes (collisions, re-insertion of deleted keys), growth and " +
	"shrink sweeps across every resize boundary, churn with fresh keys, fill / DeleteAll cycles with fresh keys below the grow threshold, " +
	"grow / DeleteAll / reuse; every mutating op (put, delete, deleteall) is compared with the Model on m, n, u, p and a " +
	"digest of all occupied slots; non-trivial = the history had a probe/chain walk of length >= 3 or at least one resize; " +
	"distinct = distinct (header, op list)"

// Mode selects what Exec checks beyond the map oracle.
type Mode struct {
	ProbeBound bool          // C03: before every put/get/delete, the probe counts must be within the capacity
	Watchdog   time.Duration // every implementation call runs under this watchdog (0 = 2s)
}



func eqInt(a, b int) bool { return a == b }

// HashFor returns the hash function named in the header (cap0 = effective initial capacity).
func HashFor(name string, cap0 int) hash.HashFunc[int] {
	emod := func(k, q int) uint64 { return uint64(((k % q) + q) % q) }
	switch name {
	case "id":
		return func(k int) uint64 { return uint64(k) }
	case "const":
		return func(int) uint64 { return 5 }
	case "mod3":
		return func(k int) uint64 { return emod(k, 3) }
	case "modm":
		return func(k int) uint64 { return emod(k, cap0) }
	default:
		return hash.HashFuncForInt[int](nil)
	}
}

// hashForStr returns the hash function for string keys named in the header; "fnvstr" is the library's default
// string hash — ONE instance per case, shared by both tables and by every call of the case.
func hashForStr(name string, _ int) hash.HashFunc[string] {
	switch name {
	case "const":
		return func(string) uint64 { return 5 }
	case "len":
		return func(s string) uint64 { return uint64(len(s)) }
	case "first":
		return func(s string) uint64 {
			if len(s) == 0 {
				return 0
			}
			return uint64(s[0])
		}
	default:
		return hash.HashFuncForString[string](nil)
	}
}

// keyCodec: how keys of type K are read from an op line, printed, and folded into the state digest.
type keyCodec[K comparable] struct {
	parse   func(string) K
	show    func(K) string
	dig     func(K) uint64
	hashFor func(name string, cap0 int) hash.HashFunc[K]
	dump    func(t symboltable.SymbolTable[K, int]) string
}

var intCodec = keyCodec[int]{
	parse:   func(s string) int { v, _ := strconv.Atoi(s); return v },
	show:    strconv.Itoa,
	dig:     func(k int) uint64 { return uint64(k) },
	hashFor: HashFor,
	dump:    func(t symboltable.SymbolTable[int, int]) string { return symboltable.VerifHashDump(t) },
}

// ShowBytes renders a string key as `x` + two lower-case hex digits per byte.
func ShowBytes(s string) string { return "x" + hex.EncodeToString([]byte(s)) }

// ParseBytes is the inverse of ShowBytes (malformed input reads as the empty string).
func ParseBytes(s string) string {
	if !strings.HasPrefix(s, "x") {
		return ""
	}
	b, err := hex.DecodeString(s[1:])
	if err != nil {
		return ""
	}
	return string(b)
}

// BytesDig is FNV-1a over the bytes of a string key (used only to fold keys into the state digest).
func BytesDig(s string) uint64 {
	d := uint64(fnvOffset)
	for i := 0; i < len(s); i++ {
		d = (d ^ uint64(s[i])) * fnvPrime
	}
	return d
}

var strCodec = keyCodec[string]{
	parse:   ParseBytes,
	show:    ShowBytes,
	dig:     BytesDig,
	hashFor: hashForStr,
	dump: func(t symboltable.SymbolTable[string, int]) string {
		s, ok := symboltable.VerifHashSlots(t)
		if !ok {
			return "not-a-hash-table"
		}
		var b strings.Builder
		fmt.Fprintf(&b, "%s m=%d n=%d u=%d p=%d [", s.Kind, s.M, s.N, s.U, s.P)
		for i, e := range s.Slots {
			if i > 0 {
				b.WriteByte(' ')
			}
			flag := "L"
			if e.Deleted {
				flag = "D"
			}
			fmt.Fprintf(&b, "%d:(%s,%d,%s)", e.Index, ShowBytes(e.Key), e.Val, flag)
		}
		b.WriteByte(']')
		return b.String()
	},
}

func parseLF(s string) float32 {
	if s == "" {
		return 0
	}
	parts := strings.SplitN(s, "/", 2)
	a, _ := strconv.Atoi(parts[0])
	b := 1
	if len(parts) == 2 {
		b, _ = strconv.Atoi(parts[1])
	}
	return float32(a) / float32(b)
}

// validCap is the independent reading of the documented constructor contract.
func validCap(comp string, c int) bool {
	if c < MinCap(comp) {
		return false
	}
	if comp == "chain" || comp == "linear" {
		for c%2 == 0 {
			c /= 2
		}
		return c == 1
	}
	for d := 2; d*d <= c; d++ {
		if c%d == 0 {
			return false
		}
	}
	return true
}

func MinCap(comp string) int {
	switch comp {
	case "chain":
		return 4
	case "linear":
		return 32
	}
	return 31
}

func newTable[K comparable](comp string, h hash.HashFunc[K], o symboltable.HashOpts) symboltable.SymbolTable[K, int] {
	eqK := func(a, b K) bool { return a == b }
	switch comp {
	case "chain":
		return symboltable.NewChainHashTable[K, int](h, eqK, eqInt, o)
	case "linear":
		return symboltable.NewLinearHashTable[K, int](h, eqK, eqInt, o)
	case "quadratic":
		return symboltable.NewQuadraticHashTable[K, int](h, eqK, eqInt, o)
	case "double":
		return symboltable.NewDoubleHashTable[K, int](h, eqK, eqInt, o)
	}
	panic("unknown component " + comp)
}

const (
	fnvOffset = 14695981039346656037
	fnvPrime  = 1099511628211
)

type snapshot struct {
	m, n, u, p  int
	live, used  int
	digest      uint64
	consistent  string // "" or what is inconsistent inside the snapshot
	slotsLenOK  bool
	longestWalk int
}

func snap[K comparable](t symboltable.SymbolTable[K, int], kc *keyCodec[K]) snapshot {
	s, _ := symboltable.VerifHashSlots(t)
	d := uint64(fnvOffset)
	step := func(x uint64) { d = (d ^ x) * fnvPrime }
	sn := snapshot{m: s.M, n: s.N, u: s.U, p: s.P, slotsLenOK: s.Len == s.M}
	seen := map[K]bool{}
	for _, e := range s.Slots {
		step(uint64(e.Index))
		step(kc.dig(e.Key))
		step(uint64(e.Val))
		if e.Deleted {
			step(1)
		} else {
			step(0)
			sn.live++
		}
		sn.used++
		if seen[e.Key] {
			sn.consistent = fmt.Sprintf("key %s occupies two slots", kc.show(e.Key))
		}
		seen[e.Key] = true
	}
	sn.digest = d
	if sn.consistent == "" {
		switch {
		case sn.live != s.N:
			sn.consistent = fmt.Sprintf("n=%d but %d live slots", s.N, sn.live)
		case sn.used != s.U:
			sn.consistent = fmt.Sprintf("u=%d but %d used slots", s.U, sn.used)
		case !sn.slotsLenOK:
			sn.consistent = fmt.Sprintf("m=%d but %d slots allocated", s.M, s.Len)
		}
	}
	return sn
}

func (s snapshot) String() string {
	return fmt.Sprintf("m=%d n=%d u=%d p=%d h=%016x", s.m, s.n, s.u, s.p, s.digest)
}

type pair struct {
	k string // rendered key
	v int
}

func showPairs(got []pair, numeric bool) string {
	sort.Slice(got, func(i, j int) bool {
		if got[i].k != got[j].k {
			if numeric {
				a, _ := strconv.Atoi(got[i].k)
				b, _ := strconv.Atoi(got[j].k)
				return a < b
			}
			return got[i].k < got[j].k
		}
		return got[i].v < got[j].v
	})
	ss := make([]string, len(got))
	for i, e := range got {
		ss[i] = fmt.Sprintf("(%s,%d)", e.k, e.v)
	}
	return "[" + strings.Join(ss, " ") + "]"
}

func optInt(v int, ok bool) string {
	if ok {
		return "some " + strconv.Itoa(v)
	}
	return "none"
}

// Exec runs one case with the C02 checks.
func Exec(c hx.Case) hx.Result { return ExecMode(c, Mode{}) }

// ExecMode runs one case: a call history of hash functions (comp=hashfn), or a history on the real tables
// with int keys or (keys=str) string keys, each against its oracle.
func ExecMode(c hx.Case, mode Mode) hx.Result {
	if hx.HeaderGet(c.Header, "comp") == "hashfn" {
		return execHashFn(c)
	}
	if hx.HeaderGet(c.Header, "keys") == "str" {
		return execTables(c, mode, &strCodec)
	}
	return execTables(c, mode, &intCodec)
}

// execTables runs one case on the real tables and on a builtin-map oracle.
func execTables[K comparable](c hx.Case, mode Mode, kc *keyCodec[K]) hx.Result {
	if mode.Watchdog == 0 {
		mode.Watchdog = 2 * time.Second
	}
	comp := hx.HeaderGet(c.Header, "comp")
	hname := hx.HeaderGet(c.Header, "hash")
	cap0, _ := strconv.Atoi(hx.HeaderGet(c.Header, "cap"))
	seed, _ := strconv.ParseInt(hx.HeaderGet(c.Header, "shuffle"), 10, 64)
	opts := symboltable.HashOpts{InitialCap: cap0, MinLoadFactor: parseLF(hx.HeaderGet(c.Header, "minlf")),
		MaxLoadFactor: parseLF(hx.HeaderGet(c.Header, "maxlf"))}
	effCap := cap0
	if effCap == 0 {
		effCap = MinCap(comp)
	}
	h := kc.hashFor(hname, effCap)
	_, numeric := any(*new(K)).(int)

	res := hx.Result{BadOp: -1}
	bad := func(i int, format string, a ...any) {
		if res.BadOp < 0 {
			res.BadOp = i
			res.What = fmt.Sprintf(format, a...)
		}
	}
	tags := map[string]bool{"comp=" + comp: true, "hash=" + hname: true}
	if !numeric {
		tags["keys=str"] = true
	}

	symboltable.VerifSetShuffleSeed(seed)
	var tabs [2]symboltable.SymbolTable[K, int]
	if kind := hx.Try(func() { tabs[0] = newTable(comp, h, opts); tabs[1] = newTable(comp, h, opts) }); kind != "" {
		// the constructor rejected the options: every op prints panic (the Model does the same)
		// (documented behaviour for a capacity below the minimum / not prime / not a power of two;
		// inadmissible only if the options were valid)
		if len(c.Ops) > 0 {
			res.Outs = append(res.Outs, "panic")
			if validCap(comp, effCap) {
				bad(0, "constructor panicked (%s) for valid options %s", kind, c.Header)
			}
		}
		res.Tags = []string{"constructor-rejects-options"}
		return res
	}
	oracle := [2]map[K]int{{}, {}}
	deleted := [2]map[K]bool{{}, {}} // keys deleted at least once and currently absent
	longWalk, resized := false, false
	var zeroKeyFirst, putSeen bool

	for i, op := range c.Ops {
		f := strings.Fields(op)
		if len(f) == 0 {
			res.Outs = append(res.Outs, "bad-op")
			continue
		}
		b := 0
		if strings.HasPrefix(f[0], "b.") {
			b = 1
			f[0] = f[0][2:]
		}
		t, orc := tabs[b], oracle[b]
		key := func() K {
			if len(f) > 1 {
				return kc.parse(f[1])
			}
			var z K
			return z
		}
		arg := func(j int) int {
			if j < len(f) {
				v, _ := strconv.Atoi(f[j])
				return v
			}
			return 0
		}
		out := "bad-op"
		before := snapshot{}
		mutating := f[0] == "put" || f[0] == "delete" || f[0] == "deleteall"
		if mutating {
			before = snap(t, kc)
		}
		if f[0] == "put" && !putSeen {
			putSeen = true
			var z K
			zeroKeyFirst = key() == z
		}
		// probe bound (C03) and walk-length tag
		if f[0] == "put" || f[0] == "get" || f[0] == "delete" {
			g, fd := safeProbes(t, key(), mode.Watchdog)
			if g >= 3 || fd >= 3 {
				longWalk = true
			}
			// After one hang has been observed for real in this process, further lookups whose probe walk
			// (the same closure, the same stop conditions, 4m+4 steps: more than four periods) does not stop are
			// reported as hangs without being executed: every executed one leaks a goroutine that spins forever.
			// Put is always executed (it may re-hash before it probes).
			if HangsObserved > 0 && ((f[0] == "get" && g == -1) || (f[0] == "delete" && fd == -1)) {
				res.Outs = append(res.Outs, "hang")
				bad(i, "%s would not return: its probe walk does not stop within %d steps", op, 4*mOr(before, t)+4)
				tags["hang"] = true
				tags["hang-predicted"] = true
				break
			}
			if mode.ProbeBound {
				st, _ := symboltable.VerifHashSlots(t)
				bound := st.M
				if comp == "chain" {
					bound = st.N
				}
				if g < 0 || fd < 0 || g > bound || fd > bound {
					bad(i, "%s %s: probe walk get=%d find=%d exceeds the bound %d (m=%d n=%d u=%d)", f[0], kc.show(key()), g, fd, bound, st.M, st.N, st.U)
				}
			}
		}
		var kind string
		returned := hx.WithTimeout(mode.Watchdog, func() {
			kind = hx.Try(func() {
				switch f[0] {
				case "put":
					k, v := key(), arg(2)
					t.Put(k, v)
					if deleted[b][k] {
						tags["reinsert-deleted-key"] = true
						delete(deleted[b], k)
					}
					orc[k] = v
					out = "ok"
				case "get":
					k := key()
					v, ok := t.Get(k)
					out = "ok " + optInt(v, ok)
					want, wok := orc[k]
					if ok != wok || (ok && v != want) {
						bad(i, "get %s = (%d,%v), the map holds (%d,%v)", kc.show(k), v, ok, want, wok)
					}
				case "delete":
					k := key()
					v, ok := t.Delete(k)
					out = "ok " + optInt(v, ok)
					want, wok := orc[k]
					if ok != wok || (ok && v != want) {
						bad(i, "delete %s = (%d,%v), the map holds (%d,%v)", kc.show(k), v, ok, want, wok)
					}
					if wok {
						deleted[b][k] = true
					}
					delete(orc, k)
				case "deleteall":
					t.DeleteAll()
					for k := range orc {
						delete(orc, k)
					}
					out = "ok"
				case "size":
					n := t.Size()
					out = "ok " + strconv.Itoa(n)
					if n != len(orc) {
						bad(i, "size = %d, the map holds %d pairs", n, len(orc))
					}
				case "isempty":
					e := t.IsEmpty()
					out = "ok " + strconv.FormatBool(e)
					if e != (len(orc) == 0) {
						bad(i, "isempty = %v, the map holds %d pairs", e, len(orc))
					}
				case "all":
					var got []pair
					var keys []K
					for k, v := range t.All() {
						got = append(got, pair{kc.show(k), v})
						keys = append(keys, k)
					}
					if len(got) != len(orc) {
						bad(i, "all yields %d pairs, the map holds %d", len(got), len(orc))
					} else {
						seen := map[K]bool{}
						for j, e := range got {
							if w, ok := orc[keys[j]]; !ok || w != e.v || seen[keys[j]] {
								bad(i, "all yields (%s,%d) which the map does not hold (or yields it twice)", e.k, e.v)
							}
							seen[keys[j]] = true
						}
					}
					out = "ok " + showPairs(got, numeric)
				case "equal":
					e := tabs[0].Equal(tabs[1])
					out = "ok " + strconv.FormatBool(e)
					want := len(oracle[0]) == len(oracle[1])
					for k, v := range oracle[0] {
						if w, ok := oracle[1][k]; !ok || w != v {
							want = false
						}
					}
					if e != want {
						bad(i, "equal = %v, the two maps say %v", e, want)
					}
				case "dump":
					out = "ok " + kc.dump(t)
				case "probes":
					g, fd := safeProbes(t, key(), mode.Watchdog)
					out = fmt.Sprintf("ok get=%d find=%d", g, fd)
				}
			})
		})
		if !returned {
			res.Outs = append(res.Outs, "hang")
			bad(i, "%s did not return within %v", op, mode.Watchdog)
			tags["hang"] = true
			HangsObserved++
			break
		}
		if kind != "" {
			res.Outs = append(res.Outs, "panic")
			bad(i, "%s panicked (%s)", op, kind)
			tags["panic"] = true
			break
		}
		if mutating {
			after := snap(t, kc)
			out += " | " + after.String()
			if after.consistent != "" {
				bad(i, "after %s: %s", op, after.consistent)
			}
			if after.n != len(orc) {
				bad(i, "after %s: n=%d, the map holds %d pairs", op, after.n, len(orc))
			}
			switch {
			case after.m > before.m:
				tags["resize-grow"] = true
				resized = true
			case after.m < before.m:
				tags["resize-shrink"] = true
				resized = true
			case f[0] == "put" && after.u < before.u:
				tags["rehash-same-size"] = true
				resized = true
			}
			if after.u > after.n {
				tags["tombstones-present"] = true
			}
			if f[0] == "put" && after.u == before.u && after.n == before.n+1 && after.m == before.m {
				tags["tombstone-revived"] = true
			}
		}
		res.Outs = append(res.Outs, out)
	}
	// final sweep: everything the map holds is found with its value
	if res.BadOp < 0 && len(res.Outs) == len(c.Ops) {
		okSweep := hx.WithTimeout(5*mode.Watchdog, func() {
			hx.Try(func() {
				for b := 0; b < 2; b++ {
					for k, v := range oracle[b] {
						if got, ok := tabs[b].Get(k); !ok || got != v {
							bad(len(c.Ops)-1, "final sweep: get %s = (%d,%v), the map holds %d", kc.show(k), got, ok, v)
							return
						}
					}
					for k := range deleted[b] {
						if got, ok := tabs[b].Get(k); ok {
							bad(len(c.Ops)-1, "final sweep: deleted key %s is found again with value %d", kc.show(k), got)
							return
						}
					}
				}
			})
		})
		if !okSweep {
			bad(len(c.Ops)-1, "final sweep did not return")
		}
	}
	if longWalk {
		tags["walk>=3"] = true
	}
	if zeroKeyFirst && (hname == "fnv" || hname == "fnvstr") {
		tags["default-hash-zero-key-first"] = true
	}
	res.Nontrivial = longWalk || resized
	for t := range tags {
		res.Tags = append(res.Tags, t)
	}
	sort.Strings(res.Tags)
	return res
}

// HangsObserved counts the implementation calls of this process that did not return.
var HangsObserved int

// safeProbes measures the probe walks of key through the hook; a walk that panics (an index outside the
// allocated slots) or does not come back counts as -1.
func safeProbes[K comparable](t symboltable.SymbolTable[K, int], key K, watchdog time.Duration) (g, fd int) {
	g, fd = -1, -1
	hx.WithTimeout(watchdog, func() {
		hx.Try(func() {
			st, _ := symboltable.VerifHashSlots(t)
			a, b := symboltable.VerifProbes(t, key, 4*st.M+4)
			g, fd = a, b
		})
	})
	return
}

// mOr returns the capacity recorded in a snapshot, or reads it from the table when the snapshot is empty.
func mOr[K comparable](s snapshot, t symboltable.SymbolTable[K, int]) int {
	if s.m > 0 {
		return s.m
	}
	st, _ := symboltable.VerifHashSlots(t)
	return st.M
}

// Limiter bounds a run: wall-clock budget per tier (much shorter when bin/check is searching for a witness
// after something broke: its output directory ends in "-search"), stop after the first observed hang that has
// produced a replay, stop after a handful of replays.
type Limiter struct {
	start time.Time
	limit time.Duration
}

func NewLimiter(run *hx.Run) *Limiter {
	l := &Limiter{start: time.Now(), limit: 50 * time.Second}
	if run.Thorough() {
		l.limit = 8 * time.Minute
	}
	if strings.HasSuffix(strings.TrimRight(run.Out, "/"), "-search") {
		l.limit = 20 * time.Second
	}
	return l
}

func (l *Limiter) Search() bool { return l.limit <= 20*time.Second }

func (l *Limiter) Stop(run *hx.Run) bool {
	v := len(run.Stats.Violations)
	return time.Since(l.start) > l.limit || (HangsObserved > 0 && v > 0) || v >= 6
}

// ---------------------------------------------------------------- generators

var Comps = []string{"chain", "linear", "quadratic", "double"}
var Hashes = []string{"fnv", "id", "const", "mod3", "modm"}

func capsFor(comp string) []int {
	switch comp {
	case "chain":
		return []int{0, 0, 4, 8, 16, 64}
	case "linear":
		return []int{0, 0, 32, 64, 128, 256}
	}
	return []int{0, 0, 31, 37, 59, 61, 127, 131, 257, 263} // 59, 131, 263: doubling lands just below 11^2 resp. 23^2
}

// lfFor returns dyadic (min, max) bounds no looser than the defaults ("" = default).
func lfFor(r *hx.Rand, comp string) (string, string) {
	if r.Chance(1, 2) {
		return "", ""
	}
	if comp == "chain" {
		mins := []string{"2", "3", "4", "6", "5/2"}
		maxs := []string{"10", "8", "5", "7", "13/2"}
		for {
			a, b := hx.Pick(r, mins), hx.Pick(r, maxs)
			if parseLF(a) < parseLF(b) {
				return a, b
			}
		}
	}
	mins := []string{"1/8", "1/4", "3/8", "3/16", "5/32"}
	maxs := []string{"1/2", "3/8", "1/4", "7/16", "5/16"}
	for {
		a, b := hx.Pick(r, mins), hx.Pick(r, maxs)
		if parseLF(a) < parseLF(b) {
			return a, b
		}
	}
}

func Header(r *hx.Rand, comp, hname string) string {
	cp := hx.Pick(r, capsFor(comp))
	mn, mx := lfFor(r, comp)
	h := fmt.Sprintf("comp=%s hash=%s cap=%d shuffle=%d", comp, hname, cp, r.Intn(1000))
	if mn != "" {
		h += " minlf=" + mn + " maxlf=" + mx
	}
	return h
}

func tab(r *hx.Rand, pB int) string {
	if r.Intn(100) < pB {
		return "b."
	}
	return ""
}

// genMixed: small universe, all operations, both tables.
func genMixed(r *hx.Rand, n, universe int) []string {
	var ops []string
	for len(ops) < n {
		x := r.Intn(100)
		p := tab(r, 25)
		k := r.Intn(universe)
		switch {
		case x < 40:
			ops = append(ops, fmt.Sprintf("%sput %d %d", p, k, r.Intn(50)))
		case x < 62:
			ops = append(ops, fmt.Sprintf("%sdelete %d", p, k))
		case x < 76:
			ops = append(ops, fmt.Sprintf("%sget %d", p, r.Intn(universe+2)))
		case x < 82:
			ops = append(ops, p+"size")
		case x < 85:
			ops = append(ops, p+"isempty")
		case x < 90:
			ops = append(ops, p+"all")
		case x < 95:
			ops = append(ops, "equal")
		case x < 97:
			ops = append(ops, fmt.Sprintf("%sprobes %d", p, r.Intn(universe+2)))
		case x < 99:
			ops = append(ops, p+"dump")
		default:
			ops = append(ops, p+"deleteall")
		}
	}
	return ops
}

// genSweep: grow to `peak` keys, shrink back, with re-insertions and oscillation around the current size.
func genSweep(r *hx.Rand, peak int) []string {
	var ops []string
	keys := make([]int, peak)
	for i := range keys {
		keys[i] = i*7 + r.Intn(3)
	}
	for i, k := range keys {
		ops = append(ops, fmt.Sprintf("put %d %d", k, i))
		if r.Chance(1, 10) {
			// oscillate: delete and re-insert the last few keys
			for j := 0; j < 3 && j <= i; j++ {
				ops = append(ops, fmt.Sprintf("delete %d", keys[i-j]))
			}
			for j := 0; j < 3 && j <= i; j++ {
				ops = append(ops, fmt.Sprintf("put %d %d", keys[i-j], i+j))
			}
		}
		if r.Chance(1, 16) {
			ops = append(ops, fmt.Sprintf("get %d", keys[r.Intn(i+1)]), fmt.Sprintf("get %d", -1-r.Intn(5)))
		}
	}
	ops = append(ops, "size", "all")
	perm := make([]int, peak)
	for i := range perm {
		perm[i] = i
	}
	for i := peak - 1; i > 0; i-- {
		j := r.Intn(i + 1)
		perm[i], perm[j] = perm[j], perm[i]
	}
	for c, i := range perm {
		ops = append(ops, fmt.Sprintf("delete %d", keys[i]))
		if r.Chance(1, 12) {
			ops = append(ops, fmt.Sprintf("put %d %d", keys[i], c), fmt.Sprintf("delete %d", keys[i]))
		}
		if r.Chance(1, 16) {
			ops = append(ops, fmt.Sprintf("get %d", keys[perm[r.Intn(peak)]]))
		}
	}
	ops = append(ops, "size", "isempty", "all")
	return ops
}

// GenChurn: `base` resident keys, then `cycles` × (put fresh, delete fresh), probing an absent key on the way.
func GenChurn(r *hx.Rand, base, cycles int, probes bool) []string {
	var ops []string
	for i := 0; i < base; i++ {
		ops = append(ops, fmt.Sprintf("put %d %d", i, i))
	}
	for i := 0; i < cycles; i++ {
		k := 1000000 + i
		ops = append(ops, fmt.Sprintf("put %d %d", k, i))
		if probes && r.Chance(1, 8) {
			ops = append(ops, fmt.Sprintf("probes %d", k), fmt.Sprintf("probes %d", -7))
		}
		ops = append(ops, fmt.Sprintf("delete %d", k))
		if r.Chance(1, 8) {
			ops = append(ops, "get -7")
		}
		if r.Chance(1, 20) && i > 0 {
			old := 1000000 + r.Intn(i)
			ops = append(ops, fmt.Sprintf("put %d %d", old, i), fmt.Sprintf("get %d", old), fmt.Sprintf("delete %d", old))
		}
	}
	ops = append(ops, "size", "all")
	return ops
}

// effective capacity and the number of keys Put accepts before it grows the table, read from a header
func growThreshold(hdr string) int {
	comp := hx.HeaderGet(hdr, "comp")
	cp, _ := strconv.Atoi(hx.HeaderGet(hdr, "cap"))
	if cp == 0 {
		cp = MinCap(comp)
	}
	mx := parseLF(hx.HeaderGet(hdr, "maxlf"))
	if mx == 0 {
		mx = 0.5
		if comp == "chain" {
			mx = 10
		}
	}
	return int(mx * float32(cp))
}

// GenDeleteAllCycles: `cycles` x (put a batch of FRESH keys, look up absent keys, DeleteAll), the batches staying
// below the grow threshold of the table most of the time so that no resize wipes the slots in between; then
// the table is used again.
func GenDeleteAllCycles(r *hx.Rand, hdr string, cycles int, probes bool) []string {
	thr := growThreshold(hdr)
	var ops []string
	fresh := 2000000
	for c := 0; c < cycles; c++ {
		per := r.Range(2, 13)
		if thr > 3 && r.Chance(3, 4) {
			per = r.Range(thr/2+1, thr-1) // close to, but below, the threshold
		}
		if per > 600 {
			per = 600
		}
		first := fresh
		for j := 0; j < per; j++ {
			ops = append(ops, fmt.Sprintf("put %d %d", fresh, c))
			fresh++
		}
		if probes {
			ops = append(ops, "probes -5", fmt.Sprintf("probes %d", first))
		}
		ops = append(ops, "get -5", fmt.Sprintf("get %d", first), "size", "deleteall", "size", "isempty",
			fmt.Sprintf("get %d", first), "get -5")
		if r.Chance(1, 3) {
			ops = append(ops, "all", "dump")
		}
		if r.Chance(1, 4) { // DeleteAll of an empty table, and a key of an earlier cycle coming back
			ops = append(ops, "deleteall", fmt.Sprintf("put %d 7", 2000000+r.Intn(fresh-2000000)))
		}
	}
	ops = append(ops, "put 1 1", "put 2 2", "get 1", "get -5", "delete 1", "size", "all")
	return ops
}

// GenGrowClearReuse: grow the table by n keys (several resizes), DeleteAll, then touch keys all over the table
// (every bucket / home slot of the grown table), refill, DeleteAll again.
func GenGrowClearReuse(r *hx.Rand, n int) []string {
	var ops []string
	for i := 0; i < n; i++ {
		ops = append(ops, fmt.Sprintf("put %d %d", i, i))
	}
	ops = append(ops, "size", "deleteall", "size", "isempty")
	for i := 0; i < n; i += 1 + r.Intn(3) {
		switch r.Intn(3) {
		case 0:
			ops = append(ops, fmt.Sprintf("get %d", i))
		case 1:
			ops = append(ops, fmt.Sprintf("put %d %d", i, -i))
		default:
			ops = append(ops, fmt.Sprintf("delete %d", i))
		}
	}
	ops = append(ops, "size", "all")
	for i := 0; i < n/2; i++ {
		ops = append(ops, fmt.Sprintf("put %d %d", 5000+i, i))
	}
	ops = append(ops, "deleteall", "put 3 3", "get 3", fmt.Sprintf("get %d", 5000), "size", "all", "dump")
	return ops
}

// exhaustive enumerates every op sequence of the given length over the alphabet.
func exhaustive(alpha []string, n int, f func([]string)) {
	idx := make([]int, n)
	for {
		ops := make([]string, n)
		for i, k := range idx {
			ops[i] = alpha[k]
		}
		f(ops)
		i := n - 1
		for i >= 0 {
			idx[i]++
			if idx[i] < len(alpha) {
				break
			}
			idx[i] = 0
			i--
		}
		if i < 0 {
			return
		}
	}
}

func runCorpus(run *hx.Run, prop string, exec hx.Exec) {
	for _, f := range hx.CorpusFiles(prop) {
		cs, _ := hx.ReadReplay(f)
		for _, c := range cs {
			run.Do(hx.HeaderGet(c.Header, "comp"), c, exec)
		}
	}
}

func Main(run *hx.Run) {
	run.Stats.Rule = Rule
	lim := NewLimiter(run)
	runCorpus(run, "C02", Exec)
	if mainHash(run, lim) {
		return
	}
	for _, comp := range Comps {
		r := run.R.Fork(comp)
		do := func(c hx.Case) bool {
			run.Do(comp, c, Exec)
			return lim.Stop(run)
		}
		// DeleteAll cycles with fresh keys, every hash function
		for k, n := 0, run.Scale(15); k < n; k++ {
			hdr := Header(r, comp, Hashes[k%len(Hashes)])
			if do(hx.Case{Header: hdr, Ops: GenDeleteAllCycles(r, hdr, r.Range(3, 8), false)}) {
				return
			}
		}
		// grow, DeleteAll, reuse
		for k, n := 0, run.Scale(8); k < n; k++ {
			hdr := Header(r, comp, Hashes[k%len(Hashes)])
			if do(hx.Case{Header: hdr, Ops: GenGrowClearReuse(r, r.Range(45, 260))}) {
				return
			}
		}
		// small universes, every hash function
		for k, n := 0, run.Scale(200); k < n; k++ {
			hname := Hashes[k%len(Hashes)]
			if do(hx.Case{Header: Header(r, comp, hname), Ops: genMixed(r, r.Range(10, 120), r.Range(3, 40))}) {
				return
			}
		}
		// dense collisions with many keys: the probe walks get long, tombstones accumulate
		for k, n := 0, run.Scale(40); k < n; k++ {
			hname := []string{"const", "mod3", "modm"}[k%3]
			if do(hx.Case{Header: Header(r, comp, hname), Ops: genMixed(r, r.Range(100, 400), r.Range(20, 120))}) {
				return
			}
		}
		// growth / shrink sweeps across the resize boundaries
		for k, n := 0, run.Scale(16); k < n; k++ {
			peak := r.Range(40, 300)
			if run.Thorough() && !lim.Search() && k%16 == 0 {
				peak = r.Range(1100, 2300) // m reaches 2^12
			}
			if do(hx.Case{Header: Header(r, comp, Hashes[r.Intn(len(Hashes))]), Ops: genSweep(r, peak)}) {
				return
			}
		}
		// churn
		for k, n := 0, run.Scale(16); k < n; k++ {
			if do(hx.Case{Header: Header(r, comp, Hashes[r.Intn(len(Hashes))]), Ops: GenChurn(r, r.Intn(12), r.Range(20, 150), false)}) {
				return
			}
		}
	}
	if run.Thorough() && !lim.Search() {
		// every history of 5 put/delete operations over 4 keys, per implementation and hash function
		// (each op line carries the state digest, so every shorter history is covered as a prefix)
		alpha := []string{"put 0 1", "put 1 2", "put 2 3", "put 35 4", "delete 0", "delete 1", "delete 2", "delete 35"}
		for _, comp := range Comps {
			for _, hname := range []string{"const", "mod3", "id"} {
				exhaustive(alpha, 5, func(ops []string) {
					if lim.Stop(run) {
						return
					}
					run.Do(comp, hx.Case{Header: fmt.Sprintf("comp=%s hash=%s cap=0 shuffle=0", comp, hname),
						Ops: append(ops, "size", "all")}, Exec)
				})
			}
		}
		run.Stats.Extra["exhaustive_part"] = "all 8^5 histories of put/delete over keys {0,1,2,35} x 4 implementations x {const, mod3, id}"
	}
}
