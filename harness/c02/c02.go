// Package c02: the four hash tables of symboltable against a builtin map (property C02).
// The executor is shared with C03 (package c03 adds the probe bound and churn generators).
package c02

import (
	"encoding/hex"
	"fmt"
	"sort"
	"strconv"
	"strings"
	"time"

	"github.com/moorara/algo/hash"
	"github.com/moorara/algo/symboltable"

	"verifharness/hx"
)

const Rule = "cases = (a pool of tables: implementation, hash function, HashOpts, value equality and shuffle seed per table; op sequence) drawn from VERIF_SEED: " +
	"hash in {fnv, identity, constant, mod 3, mod initial capacity, constants 0 / 1 / 2^63 / 2^64-1, multiples of the capacity, 2^64-1-k, high bits only, single bits}; " +
	"options = defaults or a larger prime / power of two with dyadic load-factor bounds no looser than the defaults, bounds at the edges (min = default min, max = default max, " +
	"max barely above min, one bound only); small key universes (collisions, re-insertion of deleted keys), growth and " +
	"shrink sweeps across every resize boundary, churn with fresh keys, fill / DeleteAll cycles with fresh keys below the grow threshold, " +
	"grow / DeleteAll / reuse; threshold sweeps of the number of entries (0 1 2 63 64 65 255 256 257 1023 1024 1025 4482 9409 65535 65536 65537 70000: grow to n, all queries, " +
	"step over n and back, a second table with the same contents, walk back to empty, reuse; quick tier: every n <= 257, one of 1023..1025, 4482 or 9409 per implementation and " +
	"one n around 2^16 for two of the four implementations, rotating with the seed; thorough: all), long grow / shrink walks through many capacities (bulk ops print the " +
	"capacity after every resize), InitialCap at every valid capacity up to 130 and next to every power of two up to 2^17 and every prime square up to 101^2 plus a sample " +
	"(thorough: every valid capacity up to 2^13, every 16th beyond - which ones rotates with the seed - and next to every prime square up to 2^17) and every invalid capacity " +
	"up to 130 (thorough 3000) and next to those (must be rejected), thousands of operations over a small universe, keys 0 / -1 / MinInt / MaxInt / 2^k +- 1; " +
	"pools of 2-5 tables that differ in implementation / hash function / options / value equality (eq, mod 8, the asymmetric <=) meeting in Equal, a table compared with itself; " +
	"iterator values: sequences returned by All() kept, two traversals of one table advanced alternately, nested loops over one table and over two, loops broken off half-way, a " +
	"sequence run twice, tables read and OTHER tables changed meanwhile, sequences and not-yet-started traversals obtained BEFORE their table grew / shrank / was emptied and run " +
	"AFTERWARDS (D29: they must list the table as it is when they are run; only a traversal that is half-way when its own table changes is outside the property and ends as `invalid`); " +
	"second round - type instantiation: the integer keys / values of a case represented by []int (not comparable, slices.Equal), struct{int; string}, string and *int keys - hashed by the library's " +
	"own hash.HashFuncForIntSlice / HashFuncForInt xor HashFuncForString / HashFuncForString, one closure per table, or by a user function - and by []int values with an eqVal, everything mapped back " +
	"to the integers on the way out (mixed histories, traversals, grow / shrink walks, a second table with another hash function and value equality); EVERY pair of load-factor bounds of a 6 x 5 grid " +
	"inside the defaults (20 pairs, those with min > max/2 included) x {fnv, mod 3, constant} x a grow-then-shrink walk of 30-200 entries with look-ups after every step of the shrink; every entry count " +
	"from 0 to 200 and back one key at a time with all keys looked up after every step; every capacity 0..200 as InitialCap; walks through the capacity graph m -> nextPrime(2m) | nextPrime(m/2) of the " +
	"quadratic / double tables whose last resize asks for a capacity just below the square of a prime (11^2 .. 101^2) with no prime in between, every key colliding, then the table filled to its load limit " +
	"(quick: the walks below 1200 slots from the capacities 31, 61, 131, 263; when run.Huge(): one walk per square, the cheapest over the starts 31 37 61 131 263 839 3343, and every walk from 31 - the " +
	"19-resize rhythm to 3481 = 59^2 among them -, ORACLE ONLY above 2000 slots) and, when run.Huge(), a table of 10^6 entries per implementation (ORACLE ONLY); " +
	"every mutating op (put, delete, deleteall, bulk putn / deln) is compared with the Model on m, n, u, p and a " +
	"digest of all occupied slots; every case of the quick tier is also run on the Model (oracle-only cases exist under run.Huge() only and are counted as oracle_only_cases); non-trivial = the history had a probe/chain walk of length >= 3 or at least one resize; " +
	"distinct = distinct (header, op list)"

// Mode selects what Exec checks beyond the map oracle.
type Mode struct {
	ProbeBound bool          // C03: before every put/get/delete, the probe counts must be within the capacity
	Watchdog   time.Duration // every implementation call runs under this watchdog (0 = 2s)
}

func eqInt(a, b int) bool { return a == b }

// HashFor returns the hash function named in the header (cap0 = effective initial capacity).
func HashFor(name string, cap0 int) hash.HashFunc[int] {
	emod := func(k, q int) uint64 { return uint64(((k % q) + q) % q) }
	switch name {
	case "id":
		return func(k int) uint64 { return uint64(k) }
	case "const":
		return func(int) uint64 { return 5 }
	case "mod3":
		return func(k int) uint64 { return emod(k, 3) }
	case "modm":
		return func(k int) uint64 { return emod(k, cap0) }
	case "zero": // the hash values 0, 1, 2^63, 2^64-1 for every key
		return func(int) uint64 { return 0 }
	case "one":
		return func(int) uint64 { return 1 }
	case "top":
		return func(int) uint64 { return 1 << 63 }
	case "max":
		return func(int) uint64 { return ^uint64(0) }
	case "mulm": // multiples of the initial capacity
		return func(k int) uint64 { return uint64(k) * uint64(cap0) }
	case "neg": // huge values: 2^64-1-k
		return func(k int) uint64 { return ^uint64(k) }
	case "hi": // all the entropy in the high half
		return func(k int) uint64 { return uint64(k) << 32 }
	case "libslice": // the library's hash functions on the representations of types.go (also usable with ktype=int)
		h := hash.HashFuncForIntSlice[[]int](nil)
		return func(k int) uint64 { return h(sliceKey(k)) }
	case "libstruct":
		hi, hs := hash.HashFuncForInt[int](nil), hash.HashFuncForString[string](nil)
		return func(k int) uint64 { return hi(k) ^ hs(strconv.Itoa(k)) }
	case "libstr":
		hs := hash.HashFuncForString[string](nil)
		return func(k int) uint64 { return hs(strconv.Itoa(k)) }
	case "pow": // one bit set
		return func(k int) uint64 { return uint64(1) << uint(((k%64)+64)%64) }
	default:
		return hash.HashFuncForInt[int](nil)
	}
}

// hashForStr returns the hash function for string keys named in the header; "fnvstr" is the library's default
// string hash — ONE instance per case, shared by both tables and by every call of the case.
func hashForStr(name string, _ int) hash.HashFunc[string] {
	switch name {
	case "const":
		return func(string) uint64 { return 5 }
	case "len":
		return func(s string) uint64 { return uint64(len(s)) }
	case "first":
		return func(s string) uint64 {
			if len(s) == 0 {
				return 0
			}
			return uint64(s[0])
		}
	default:
		return hash.HashFuncForString[string](nil)
	}
}

// keyCodec: how keys of type K are read from an op line, printed, and folded into the state digest.
type keyCodec[K comparable] struct {
	parse   func(string) K
	show    func(K) string
	dig     func(K) uint64
	hashFor func(name string, cap0 int) hash.HashFunc[K]
	ofInt   func(n int) K // the key a bulk op uses for the number n
	// newTable builds a table (ktype / vtype: how keys and values are represented in Go, see types.go)
	newTable func(comp, ktype, vtype, hname string, cap0 int, eqv func(a, b int) bool, o symboltable.HashOpts, pp *ptrPool) tbl[K]
}

var intCodec = keyCodec[int]{
	parse:   func(s string) int { v, _ := strconv.Atoi(s); return v },
	show:    strconv.Itoa,
	dig:     func(k int) uint64 { return uint64(k) },
	hashFor: HashFor,
	ofInt:   func(n int) int { return n },
	newTable: func(comp, ktype, vtype, hname string, cap0 int, eqv func(a, b int) bool, o symboltable.HashOpts, pp *ptrPool) tbl[int] {
		return newIntTable(comp, ktype, vtype, hname, HashFor(hname, cap0), eqv, o, pp)
	},
}

// ShowBytes renders a string key as `x` + two lower-case hex digits per byte.
func ShowBytes(s string) string { return "x" + hex.EncodeToString([]byte(s)) }

// ParseBytes is the inverse of ShowBytes (malformed input reads as the empty string).
func ParseBytes(s string) string {
	if !strings.HasPrefix(s, "x") {
		return ""
	}
	b, err := hex.DecodeString(s[1:])
	if err != nil {
		return ""
	}
	return string(b)
}

// BytesDig is FNV-1a over the bytes of a string key (used only to fold keys into the state digest).
func BytesDig(s string) uint64 {
	d := uint64(fnvOffset)
	for i := 0; i < len(s); i++ {
		d = (d ^ uint64(s[i])) * fnvPrime
	}
	return d
}

var strCodec = keyCodec[string]{
	parse:   ParseBytes,
	show:    ShowBytes,
	dig:     BytesDig,
	hashFor: hashForStr,
	ofInt:   strconv.Itoa,
	newTable: func(comp, ktype, vtype, hname string, cap0 int, eqv func(a, b int) bool, o symboltable.HashOpts, pp *ptrPool) tbl[string] {
		return newStrTable(comp, hashForStr(hname, cap0), eqv, o)
	},
}

// dumpOf renders the internal state of a table: `quadratic m=31 n=1 u=2 p=0 [12:(3,7,L) 15:(4,1,D)]`.
func dumpOf[K comparable](t tbl[K], kc *keyCodec[K]) string {
	s := t.State()
	if s.Kind == "" {
		return "not-a-hash-table"
	}
	var b strings.Builder
	fmt.Fprintf(&b, "%s m=%d n=%d u=%d p=%d [", s.Kind, s.M, s.N, s.U, s.P)
	for i, e := range s.Slots {
		if i > 0 {
			b.WriteByte(' ')
		}
		flag := "L"
		if e.Deleted {
			flag = "D"
		}
		fmt.Fprintf(&b, "%d:(%s,%d,%s)", e.Index, kc.show(e.Key), e.Val, flag)
	}
	b.WriteByte(']')
	return b.String()
}

func parseLF(s string) float32 {
	if s == "" {
		return 0
	}
	parts := strings.SplitN(s, "/", 2)
	a, _ := strconv.Atoi(parts[0])
	b := 1
	if len(parts) == 2 {
		b, _ = strconv.Atoi(parts[1])
	}
	return float32(a) / float32(b)
}

// validCap is the independent reading of the documented constructor contract.
func validCap(comp string, c int) bool {
	if c < MinCap(comp) {
		return false
	}
	if comp == "chain" || comp == "linear" {
		for c%2 == 0 {
			c /= 2
		}
		return c == 1
	}
	for d := 2; d*d <= c; d++ {
		if c%d == 0 {
			return false
		}
	}
	return true
}

func MinCap(comp string) int {
	switch comp {
	case "chain":
		return 4
	case "linear":
		return 32
	}
	return 31
}

const (
	fnvOffset = 14695981039346656037
	fnvPrime  = 1099511628211
)

type snapshot struct {
	m, n, u, p  int
	live, used  int
	digest      uint64
	consistent  string // "" or what is inconsistent inside the snapshot
	slotsLenOK  bool
	longestWalk int
}

func snap[K comparable](t tbl[K], kc *keyCodec[K]) snapshot {
	s := t.State()
	d := uint64(fnvOffset)
	step := func(x uint64) { d = (d ^ x) * fnvPrime }
	sn := snapshot{m: s.M, n: s.N, u: s.U, p: s.P, slotsLenOK: s.Len == s.M}
	seen := make(map[K]bool, len(s.Slots))
	for _, e := range s.Slots {
		step(uint64(e.Index))
		step(kc.dig(e.Key))
		step(uint64(e.Val))
		if e.Deleted {
			step(1)
		} else {
			step(0)
			sn.live++
		}
		sn.used++
		if seen[e.Key] {
			sn.consistent = fmt.Sprintf("key %s occupies two slots", kc.show(e.Key))
		}
		seen[e.Key] = true
	}
	sn.digest = d
	if sn.consistent == "" {
		switch {
		case sn.live != s.N:
			sn.consistent = fmt.Sprintf("n=%d but %d live slots", s.N, sn.live)
		case sn.used != s.U:
			sn.consistent = fmt.Sprintf("u=%d but %d used slots", s.U, sn.used)
		case !sn.slotsLenOK:
			sn.consistent = fmt.Sprintf("m=%d but %d slots allocated", s.M, s.Len)
		}
	}
	return sn
}

func (s snapshot) String() string {
	return fmt.Sprintf("m=%d n=%d u=%d p=%d h=%016x", s.m, s.n, s.u, s.p, s.digest)
}

type pair struct {
	k string // rendered key
	v int
}

func showPairs(got []pair, numeric bool) string {
	sort.Slice(got, func(i, j int) bool {
		if got[i].k != got[j].k {
			if numeric {
				a, _ := strconv.Atoi(got[i].k)
				b, _ := strconv.Atoi(got[j].k)
				return a < b
			}
			return got[i].k < got[j].k
		}
		return got[i].v < got[j].v
	})
	ss := make([]string, len(got))
	for i, e := range got {
		ss[i] = fmt.Sprintf("(%s,%d)", e.k, e.v)
	}
	return "[" + strings.Join(ss, " ") + "]"
}

func optInt(v int, ok bool) string {
	if ok {
		return "some " + strconv.Itoa(v)
	}
	return "none"
}

// Exec runs one case with the C02 checks.
func Exec(c hx.Case) hx.Result { return ExecMode(c, Mode{}) }

// ExecMode runs one case: a call history of hash functions (comp=hashfn), or a history on the real tables
// with int keys or (keys=str) string keys, each against its oracle.
func ExecMode(c hx.Case, mode Mode) hx.Result {
	if hx.HeaderGet(c.Header, "comp") == "hashfn" {
		return execHashFn(c)
	}
	if hx.HeaderGet(c.Header, "keys") == "str" {
		return execTables(c, mode, &strCodec)
	}
	return execTables(c, mode, &intCodec)
}

// Limiter bounds a run: wall-clock budget per tier (much shorter when bin/check is searching for a witness
// after something broke: its output directory ends in "-search"), stop after the first observed hang that has
// produced a replay, stop after a handful of replays.
type Limiter struct {
	start time.Time
	limit time.Duration
}

func NewLimiter(run *hx.Run) *Limiter {
	l := &Limiter{start: time.Now(), limit: 50 * time.Second}
	if run.Thorough() {
		l.limit = 8 * time.Minute
	}
	if strings.HasSuffix(strings.TrimRight(run.Out, "/"), "-search") {
		l.limit = 20 * time.Second
	}
	return l
}

func (l *Limiter) Search() bool { return l.limit <= 20*time.Second }

func (l *Limiter) Stop(run *hx.Run) bool {
	v := len(run.Stats.Violations)
	return time.Since(l.start) > l.limit || (HangsObserved > 0 && v > 0) || v >= 6
}

// ---------------------------------------------------------------- generators

var Comps = []string{"chain", "linear", "quadratic", "double"}
var Hashes = []string{"fnv", "id", "const", "mod3", "modm"}

func capsFor(comp string) []int {
	switch comp {
	case "chain":
		return []int{0, 0, 4, 8, 16, 64}
	case "linear":
		return []int{0, 0, 32, 64, 128, 256}
	}
	return []int{0, 0, 31, 37, 59, 61, 127, 131, 257, 263} // 59, 131, 263: doubling lands just below 11^2 resp. 23^2
}

// lfFor returns dyadic (min, max) bounds no looser than the defaults ("" = default).
func lfFor(r *hx.Rand, comp string) (string, string) {
	if r.Chance(1, 2) {
		return "", ""
	}
	if comp == "chain" {
		mins := []string{"2", "3", "4", "6", "5/2"}
		maxs := []string{"10", "8", "5", "7", "13/2"}
		for {
			a, b := hx.Pick(r, mins), hx.Pick(r, maxs)
			if parseLF(a) < parseLF(b) {
				return a, b
			}
		}
	}
	mins := []string{"1/8", "1/4", "3/8", "3/16", "5/32"}
	maxs := []string{"1/2", "3/8", "1/4", "7/16", "5/16"}
	for {
		a, b := hx.Pick(r, mins), hx.Pick(r, maxs)
		if parseLF(a) < parseLF(b) {
			return a, b
		}
	}
}

func Header(r *hx.Rand, comp, hname string) string {
	cp := hx.Pick(r, capsFor(comp))
	mn, mx := lfFor(r, comp)
	h := fmt.Sprintf("comp=%s hash=%s cap=%d shuffle=%d", comp, hname, cp, r.Intn(1000))
	if mn != "" {
		h += " minlf=" + mn + " maxlf=" + mx
	}
	return h
}

func tab(r *hx.Rand, pB int) string {
	if r.Intn(100) < pB {
		return "b."
	}
	return ""
}

// genMixed: small universe, all operations, both tables.
func genMixed(r *hx.Rand, n, universe int) []string {
	var ops []string
	for len(ops) < n {
		x := r.Intn(100)
		p := tab(r, 25)
		k := r.Intn(universe)
		switch {
		case x < 40:
			ops = append(ops, fmt.Sprintf("%sput %d %d", p, k, r.Intn(50)))
		case x < 62:
			ops = append(ops, fmt.Sprintf("%sdelete %d", p, k))
		case x < 76:
			ops = append(ops, fmt.Sprintf("%sget %d", p, r.Intn(universe+2)))
		case x < 82:
			ops = append(ops, p+"size")
		case x < 85:
			ops = append(ops, p+"isempty")
		case x < 90:
			ops = append(ops, p+"all")
		case x < 95:
			ops = append(ops, "equal")
		case x < 97:
			ops = append(ops, fmt.Sprintf("%sprobes %d", p, r.Intn(universe+2)))
		case x < 99:
			ops = append(ops, p+"dump")
		default:
			ops = append(ops, p+"deleteall")
		}
	}
	return ops
}

// genSweep: grow to `peak` keys, shrink back, with re-insertions and oscillation around the current size.
func genSweep(r *hx.Rand, peak int) []string {
	var ops []string
	keys := make([]int, peak)
	for i := range keys {
		keys[i] = i*7 + r.Intn(3)
	}
	for i, k := range keys {
		ops = append(ops, fmt.Sprintf("put %d %d", k, i))
		if r.Chance(1, 10) {
			// oscillate: delete and re-insert the last few keys
			for j := 0; j < 3 && j <= i; j++ {
				ops = append(ops, fmt.Sprintf("delete %d", keys[i-j]))
			}
			for j := 0; j < 3 && j <= i; j++ {
				ops = append(ops, fmt.Sprintf("put %d %d", keys[i-j], i+j))
			}
		}
		if r.Chance(1, 16) {
			ops = append(ops, fmt.Sprintf("get %d", keys[r.Intn(i+1)]), fmt.Sprintf("get %d", -1-r.Intn(5)))
		}
	}
	ops = append(ops, "size", "all")
	perm := make([]int, peak)
	for i := range perm {
		perm[i] = i
	}
	for i := peak - 1; i > 0; i-- {
		j := r.Intn(i + 1)
		perm[i], perm[j] = perm[j], perm[i]
	}
	for c, i := range perm {
		ops = append(ops, fmt.Sprintf("delete %d", keys[i]))
		if r.Chance(1, 12) {
			ops = append(ops, fmt.Sprintf("put %d %d", keys[i], c), fmt.Sprintf("delete %d", keys[i]))
		}
		if r.Chance(1, 16) {
			ops = append(ops, fmt.Sprintf("get %d", keys[perm[r.Intn(peak)]]))
		}
	}
	ops = append(ops, "size", "isempty", "all")
	return ops
}

// GenChurn: `base` resident keys, then `cycles` × (put fresh, delete fresh), probing an absent key on the way.
func GenChurn(r *hx.Rand, base, cycles int, probes bool) []string {
	var ops []string
	for i := 0; i < base; i++ {
		ops = append(ops, fmt.Sprintf("put %d %d", i, i))
	}
	for i := 0; i < cycles; i++ {
		k := 1000000 + i
		ops = append(ops, fmt.Sprintf("put %d %d", k, i))
		if probes && r.Chance(1, 8) {
			ops = append(ops, fmt.Sprintf("probes %d", k), fmt.Sprintf("probes %d", -7))
		}
		ops = append(ops, fmt.Sprintf("delete %d", k))
		if r.Chance(1, 8) {
			ops = append(ops, "get -7")
		}
		if r.Chance(1, 20) && i > 0 {
			old := 1000000 + r.Intn(i)
			ops = append(ops, fmt.Sprintf("put %d %d", old, i), fmt.Sprintf("get %d", old), fmt.Sprintf("delete %d", old))
		}
	}
	ops = append(ops, "size", "all")
	return ops
}

// effective capacity and the number of keys Put accepts before it grows the table, read from a header
func growThreshold(hdr string) int {
	comp := hx.HeaderGet(hdr, "comp")
	cp, _ := strconv.Atoi(hx.HeaderGet(hdr, "cap"))
	if cp == 0 {
		cp = MinCap(comp)
	}
	mx := parseLF(hx.HeaderGet(hdr, "maxlf"))
	if mx == 0 {
		mx = 0.5
		if comp == "chain" {
			mx = 10
		}
	}
	return int(mx * float32(cp))
}

// GenDeleteAllCycles: `cycles` x (put a batch of FRESH keys, look up absent keys, DeleteAll), the batches staying
// below the grow threshold of the table most of the time so that no resize wipes the slots in between; then
// the table is used again.
func GenDeleteAllCycles(r *hx.Rand, hdr string, cycles int, probes bool) []string {
	thr := growThreshold(hdr)
	var ops []string
	fresh := 2000000
	for c := 0; c < cycles; c++ {
		per := r.Range(2, 13)
		if thr > 3 && r.Chance(3, 4) {
			per = r.Range(thr/2+1, thr-1) // close to, but below, the threshold
		}
		if per > 600 {
			per = 600
		}
		first := fresh
		for j := 0; j < per; j++ {
			ops = append(ops, fmt.Sprintf("put %d %d", fresh, c))
			fresh++
		}
		if probes {
			ops = append(ops, "probes -5", fmt.Sprintf("probes %d", first))
		}
		ops = append(ops, "get -5", fmt.Sprintf("get %d", first), "size", "deleteall", "size", "isempty",
			fmt.Sprintf("get %d", first), "get -5")
		if r.Chance(1, 3) {
			ops = append(ops, "all", "dump")
		}
		if r.Chance(1, 4) { // DeleteAll of an empty table, and a key of an earlier cycle coming back
			ops = append(ops, "deleteall", fmt.Sprintf("put %d 7", 2000000+r.Intn(fresh-2000000)))
		}
	}
	ops = append(ops, "put 1 1", "put 2 2", "get 1", "get -5", "delete 1", "size", "all")
	return ops
}

// GenGrowClearReuse: grow the table by n keys (several resizes), DeleteAll, then touch keys all over the table
// (every bucket / home slot of the grown table), refill, DeleteAll again.
func GenGrowClearReuse(r *hx.Rand, n int) []string {
	var ops []string
	for i := 0; i < n; i++ {
		ops = append(ops, fmt.Sprintf("put %d %d", i, i))
	}
	ops = append(ops, "size", "deleteall", "size", "isempty")
	for i := 0; i < n; i += 1 + r.Intn(3) {
		switch r.Intn(3) {
		case 0:
			ops = append(ops, fmt.Sprintf("get %d", i))
		case 1:
			ops = append(ops, fmt.Sprintf("put %d %d", i, -i))
		default:
			ops = append(ops, fmt.Sprintf("delete %d", i))
		}
	}
	ops = append(ops, "size", "all")
	for i := 0; i < n/2; i++ {
		ops = append(ops, fmt.Sprintf("put %d %d", 5000+i, i))
	}
	ops = append(ops, "deleteall", "put 3 3", "get 3", fmt.Sprintf("get %d", 5000), "size", "all", "dump")
	return ops
}

// exhaustive enumerates every op sequence of the given length over the alphabet.
func exhaustive(alpha []string, n int, f func([]string)) {
	idx := make([]int, n)
	for {
		ops := make([]string, n)
		for i, k := range idx {
			ops[i] = alpha[k]
		}
		f(ops)
		i := n - 1
		for i >= 0 {
			idx[i]++
			if idx[i] < len(alpha) {
				break
			}
			idx[i] = 0
			i--
		}
		if i < 0 {
			return
		}
	}
}

func runCorpus(run *hx.Run, prop string, exec hx.Exec) {
	for _, f := range hx.CorpusFiles(prop) {
		cs, _ := hx.ReadReplay(f)
		for _, c := range cs {
			run.Do(hx.HeaderGet(c.Header, "comp"), c, exec)
		}
	}
}

func Main(run *hx.Run) {
	run.Stats.Rule = Rule
	lim := NewLimiter(run)
	runCorpus(run, "C02", Exec)
	if mainHash(run, lim) {
		return
	}
	if MainHarden(run, lim, Exec, false) {
		return
	}
	for _, comp := range Comps {
		r := run.R.Fork(comp)
		do := func(c hx.Case) bool {
			run.Do(comp, c, Exec)
			return lim.Stop(run)
		}
		// DeleteAll cycles with fresh keys, every hash function
		for k, n := 0, run.Scale(15); k < n; k++ {
			hdr := Header(r, comp, Hashes[k%len(Hashes)])
			if do(hx.Case{Header: hdr, Ops: GenDeleteAllCycles(r, hdr, r.Range(3, 8), false)}) {
				return
			}
		}
		// grow, DeleteAll, reuse
		for k, n := 0, run.Scale(8); k < n; k++ {
			hdr := Header(r, comp, Hashes[k%len(Hashes)])
			if do(hx.Case{Header: hdr, Ops: GenGrowClearReuse(r, r.Range(45, 260))}) {
				return
			}
		}
		// small universes, every hash function
		for k, n := 0, run.Scale(200); k < n; k++ {
			hname := Hashes[k%len(Hashes)]
			if do(hx.Case{Header: Header(r, comp, hname), Ops: genMixed(r, r.Range(10, 120), r.Range(3, 40))}) {
				return
			}
		}
		// dense collisions with many keys: the probe walks get long, tombstones accumulate
		for k, n := 0, run.Scale(40); k < n; k++ {
			hname := []string{"const", "mod3", "modm"}[k%3]
			if do(hx.Case{Header: Header(r, comp, hname), Ops: genMixed(r, r.Range(100, 400), r.Range(20, 120))}) {
				return
			}
		}
		// growth / shrink sweeps across the resize boundaries
		for k, n := 0, run.Scale(16); k < n; k++ {
			peak := r.Range(40, 300)
			if run.Thorough() && !lim.Search() && k%16 == 0 {
				peak = r.Range(1100, 2300) // m reaches 2^12
			}
			hname := Hashes[r.Intn(len(Hashes))]
			if peak >= 1100 && comp == "linear" && hname != "fnv" && hname != "id" {
				// one cluster of > 1000 keys: every Delete re-inserts the rest of the cluster (quadratic in the Model and in
				// the code); colliding keys at smaller sizes are the business of GenWalk / GenSizeSweep
				hname = "fnv"
			}
			if do(hx.Case{Header: Header(r, comp, hname), Ops: genSweep(r, peak)}) {
				return
			}
		}
		// churn
		for k, n := 0, run.Scale(16); k < n; k++ {
			if do(hx.Case{Header: Header(r, comp, Hashes[r.Intn(len(Hashes))]), Ops: GenChurn(r, r.Intn(12), r.Range(20, 150), false)}) {
				return
			}
		}
	}
	if run.Thorough() && !lim.Search() {
		// every history of 5 put/delete operations over 4 keys, per implementation and hash function
		// (each op line carries the state digest, so every shorter history is covered as a prefix)
		alpha := []string{"put 0 1", "put 1 2", "put 2 3", "put 35 4", "delete 0", "delete 1", "delete 2", "delete 35"}
		for _, comp := range Comps {
			for _, hname := range []string{"const", "mod3", "id"} {
				exhaustive(alpha, 5, func(ops []string) {
					if lim.Stop(run) {
						return
					}
					run.Do(comp, hx.Case{Header: fmt.Sprintf("comp=%s hash=%s cap=0 shuffle=0", comp, hname),
						Ops: append(ops, "size", "all")}, Exec)
				})
			}
		}
		run.Stats.Extra["exhaustive_part"] = "all 8^5 histories of put/delete over keys {0,1,2,35} x 4 implementations x {const, mod3, id}"
	}
}
