package c02

// Axis 4 of the hardening round: the type parameters K and V of the tables are instantiated with more than `int`.
// The line protocol, the oracle and the Lean Model keep speaking about integers: `ktype=` / `vtype=` in the header
// select how an integer key k / value v is REPRESENTED in the Go table, and everything that comes out of the table is
// mapped back to the integer it stands for, so that the output lines do not depend on the representation.
//
//	ktype=slice    []int, not comparable: k is {k} repeated 1 + (k mod 3) times; eqKey = slices.Equal;
//	               hash=libslice is the library's hash.HashFuncForIntSlice[[]int](nil) - ONE closure per table
//	ktype=struct   struct{ A int; B string }{k, decimal(k)}; hash=libstruct = HashFuncForInt(A) XOR HashFuncForString(B)
//	ktype=string   decimal(k); hash=libstr = hash.HashFuncForString[string](nil)
//	ktype=pointer  *int, one pointer per integer (interned by the harness); eqKey compares the pointers
//	vtype=slice    []int{v, v, v} resp. {v} (length depends on v), not comparable; eqVal compares the integers they stand for
//
// Any other hash name is a user hash function applied to the integer the key stands for.

import (
	"iter"
	"reflect"
	"slices"
	"strconv"

	"github.com/moorara/algo/hash"
	"github.com/moorara/algo/symboltable"
)

// tbl is what the executor needs from a table whose protocol keys are K and whose values are ints.
type tbl[K comparable] interface {
	Put(K, int)
	Get(K) (int, bool)
	Delete(K) (int, bool)
	DeleteAll()
	Size() int
	IsEmpty() bool
	All() iter.Seq2[K, int]
	EqualTo(o tbl[K]) bool
	State() symboltable.VerifHashState[K, int]
	Probes(k K, limit int) (int, int)
	Cap() int
	Len() int
}

// readIntField reads an int field of the struct behind a table without building a snapshot of its slots (-1: none).
func readIntField(t any, name string) (m int) {
	m = -1
	defer func() {
		if recover() != nil {
			m = -1
		}
	}()
	v := reflect.ValueOf(t)
	if v.Kind() != reflect.Pointer || v.IsNil() {
		return -1
	}
	f := v.Elem().FieldByName(name)
	if !f.IsValid() || !f.CanInt() {
		return -1
	}
	return int(f.Int())
}

// rep: a table SymbolTable[RK, RV] seen through the integers (protocol keys K) its keys and values stand for.
type rep[K comparable, RK, RV any] struct {
	t  symboltable.SymbolTable[RK, RV]
	ek func(K) RK
	dk func(RK) K
	ev func(int) RV
	dv func(RV) int
}

func (r *rep[K, RK, RV]) Put(k K, v int) { r.t.Put(r.ek(k), r.ev(v)) }
func (r *rep[K, RK, RV]) Get(k K) (int, bool) {
	v, ok := r.t.Get(r.ek(k))
	if !ok {
		return 0, false
	}
	return r.dv(v), true
}
func (r *rep[K, RK, RV]) Delete(k K) (int, bool) {
	v, ok := r.t.Delete(r.ek(k))
	if !ok {
		return 0, false
	}
	return r.dv(v), true
}
func (r *rep[K, RK, RV]) DeleteAll()    { r.t.DeleteAll() }
func (r *rep[K, RK, RV]) Size() int     { return r.t.Size() }
func (r *rep[K, RK, RV]) IsEmpty() bool { return r.t.IsEmpty() }
func (r *rep[K, RK, RV]) All() iter.Seq2[K, int] {
	seq := r.t.All()
	return func(yield func(K, int) bool) {
		for k, v := range seq {
			if !yield(r.dk(k), r.dv(v)) {
				return
			}
		}
	}
}
func (r *rep[K, RK, RV]) EqualTo(o tbl[K]) bool {
	if o2, ok := o.(*rep[K, RK, RV]); ok {
		return r.t.Equal(o2.t)
	}
	return false
}
func (r *rep[K, RK, RV]) State() symboltable.VerifHashState[K, int] {
	s, _ := symboltable.VerifHashSlots(r.t)
	out := symboltable.VerifHashState[K, int]{Kind: s.Kind, M: s.M, N: s.N, U: s.U, P: s.P, Len: s.Len}
	if len(s.Slots) > 0 {
		out.Slots = make([]symboltable.VerifSlot[K, int], len(s.Slots))
		for i, e := range s.Slots {
			out.Slots[i] = symboltable.VerifSlot[K, int]{Index: e.Index, Key: r.dk(e.Key), Val: r.dv(e.Val), Deleted: e.Deleted}
		}
	}
	return out
}
func (r *rep[K, RK, RV]) Probes(k K, limit int) (int, int) {
	return symboltable.VerifProbes(r.t, r.ek(k), limit)
}
func (r *rep[K, RK, RV]) Cap() int {
	if m := readIntField(r.t, "m"); m >= 0 {
		return m
	}
	s, _ := symboltable.VerifHashSlots(r.t)
	return s.M
}
func (r *rep[K, RK, RV]) Len() int {
	if n := readIntField(r.t, "n"); n >= 0 {
		return n
	}
	s, _ := symboltable.VerifHashSlots(r.t)
	return s.N
}

// newRep builds one table of implementation comp over the representation types RK, RV.
func newRep[K comparable, RK, RV any](comp string, h hash.HashFunc[RK], eqK func(a, b RK) bool, eqV func(a, b RV) bool, o symboltable.HashOpts,
	ek func(K) RK, dk func(RK) K, ev func(int) RV, dv func(RV) int) tbl[K] {
	var t symboltable.SymbolTable[RK, RV]
	switch comp {
	case "chain":
		t = symboltable.NewChainHashTable[RK, RV](h, eqK, eqV, o)
	case "linear":
		t = symboltable.NewLinearHashTable[RK, RV](h, eqK, eqV, o)
	case "quadratic":
		t = symboltable.NewQuadraticHashTable[RK, RV](h, eqK, eqV, o)
	default:
		t = symboltable.NewDoubleHashTable[RK, RV](h, eqK, eqV, o)
	}
	return &rep[K, RK, RV]{t: t, ek: ek, dk: dk, ev: ev, dv: dv}
}

// ---------------------------------------------------------------- representations of int keys / int values

type skey struct {
	A int
	B string
}

func sliceKey(k int) []int {
	n := 1 + ((k%3)+3)%3
	s := make([]int, n)
	for i := range s {
		s[i] = k
	}
	return s
}

func sliceVal(v int) []int {
	if v%2 == 0 {
		return []int{v}
	}
	return []int{v, v, v}
}

// pointer keys: one *int per integer of a case
type ptrPool struct{ m map[int]*int }

func (p *ptrPool) of(k int) *int {
	if q, ok := p.m[k]; ok {
		return q
	}
	q := new(int)
	*q = k
	p.m[k] = q
	return q
}

// newIntTable builds a table for int protocol keys with the key / value representation the header asks for.
// userHash is the protocol's hash function on integers (used unless the hash name selects a library function).
func newIntTable(comp, ktype, vtype, hname string, userHash hash.HashFunc[int], eqv func(a, b int) bool, o symboltable.HashOpts, pp *ptrPool) tbl[int] {
	id := func(x int) int { return x }
	switch vtype {
	case "slice":
		dv := func(s []int) int { return s[0] }
		eqV := func(a, b []int) bool { return eqv(a[0], b[0]) }
		return newIntTableK[[]int](comp, ktype, hname, userHash, eqV, o, pp, sliceVal, dv)
	}
	return newIntTableK[int](comp, ktype, hname, userHash, eqv, o, pp, id, id)
}

func newIntTableK[RV any](comp, ktype, hname string, userHash hash.HashFunc[int], eqV func(a, b RV) bool, o symboltable.HashOpts, pp *ptrPool,
	ev func(int) RV, dv func(RV) int) tbl[int] {
	switch ktype {
	case "slice":
		dk := func(s []int) int { return s[0] }
		h := hash.HashFunc[[]int](func(s []int) uint64 { return userHash(s[0]) })
		if hname == "libslice" {
			h = hash.HashFuncForIntSlice[[]int](nil)
		}
		return newRep[int, []int, RV](comp, h, slices.Equal[[]int], eqV, o, sliceKey, dk, ev, dv)
	case "struct":
		ek := func(k int) skey { return skey{k, strconv.Itoa(k)} }
		dk := func(s skey) int { return s.A }
		h := hash.HashFunc[skey](func(s skey) uint64 { return userHash(s.A) })
		if hname == "libstruct" {
			hi, hs := hash.HashFuncForInt[int](nil), hash.HashFuncForString[string](nil)
			h = func(s skey) uint64 { return hi(s.A) ^ hs(s.B) }
		}
		return newRep[int, skey, RV](comp, h, func(a, b skey) bool { return a == b }, eqV, o, ek, dk, ev, dv)
	case "string":
		dk := func(s string) int { v, _ := strconv.Atoi(s); return v }
		h := hash.HashFunc[string](func(s string) uint64 { return userHash(dk(s)) })
		if hname == "libstr" {
			h = hash.HashFuncForString[string](nil)
		}
		return newRep[int, string, RV](comp, h, func(a, b string) bool { return a == b }, eqV, o, strconv.Itoa, dk, ev, dv)
	case "pointer":
		dk := func(p *int) int { return *p }
		h := hash.HashFunc[*int](func(p *int) uint64 { return userHash(*p) })
		return newRep[int, *int, RV](comp, h, func(a, b *int) bool { return a == b }, eqV, o, pp.of, dk, ev, dv)
	}
	id := func(x int) int { return x }
	return newRep[int, int, RV](comp, userHash, func(a, b int) bool { return a == b }, eqV, o, id, id, ev, dv)
}

// newStrTable: string protocol keys (keys=str), int values.
func newStrTable(comp string, h hash.HashFunc[string], eqv func(a, b int) bool, o symboltable.HashOpts) tbl[string] {
	id := func(x int) int { return x }
	ids := func(x string) string { return x }
	return newRep[string, string, int](comp, h, func(a, b string) bool { return a == b }, eqv, o, ids, ids, id, id)
}
