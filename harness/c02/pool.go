package c02

// The executor of C02/C03: one case = a POOL of hash tables (tables 0 and 1 built from the case-wide header keys,
// `t<i>=comp,hash,cap,minlf,maxlf,eqval` gives table i its own implementation / hash function / options / value
// equality), the iterator values a program can hold on to (iter.Seq2 values returned by All(), iter.Pull2
// traversals of them), and per table a builtin-map oracle. See lean/AlgoVerif/Driver/C02.lean for the line protocol
// and lean/AlgoVerif/Model/C02Pool.lean for what the Model says.

import (
	"fmt"
	"iter"
	"sort"
	"strconv"
	"strings"
	"time"

	"github.com/moorara/algo/symboltable"

	"verifharness/hx"
)

// tcfg is what a header says about one table.
type tcfg struct {
	comp, hash   string
	cap          int
	minlf, maxlf string
	eqv          string
}

// TableCfgs reads the table configurations of a header (at least two tables; see the package comment).
func tableCfgs(hdr, dfltHash string) []tcfg {
	base := tcfg{comp: hx.HeaderGet(hdr, "comp"), hash: hx.HeaderGet(hdr, "hash"), minlf: hx.HeaderGet(hdr, "minlf"),
		maxlf: hx.HeaderGet(hdr, "maxlf"), eqv: hx.HeaderGet(hdr, "eqval")}
	if base.hash == "" {
		base.hash = dfltHash
	}
	if base.eqv == "" {
		base.eqv = "eq"
	}
	if c, err := strconv.Atoi(hx.HeaderGet(hdr, "cap")); err == nil && c >= 0 {
		base.cap = c
	}
	n := 2
	for i := 0; i < 8; i++ {
		if hx.HeaderGet(hdr, "t"+strconv.Itoa(i)) != "" {
			n = i + 1
		}
	}
	out := make([]tcfg, n)
	for i := range out {
		out[i] = base
		v := hx.HeaderGet(hdr, "t"+strconv.Itoa(i))
		if v == "" {
			continue
		}
		f := strings.Split(v, ",")
		get := func(j int) string {
			if j < len(f) {
				return f[j]
			}
			return ""
		}
		if x := get(0); x != "" {
			out[i].comp = x
		}
		if x := get(1); x != "" {
			out[i].hash = x
		}
		if x := get(2); x != "" {
			out[i].cap = 0
			if c, err := strconv.Atoi(x); err == nil && c >= 0 {
				out[i].cap = c
			}
		}
		if x := get(3); x != "" {
			out[i].minlf = x
		}
		if x := get(4); x != "" {
			out[i].maxlf = x
		}
		if x := get(5); x != "" {
			out[i].eqv = x
		}
	}
	return out
}

// number of words of every op but `equal` (1 or 3), and the ops that act on the table named by the prefix
var opWords = map[string]int{"put": 3, "get": 2, "delete": 2, "deleteall": 1, "size": 1, "isempty": 1, "all": 1, "dump": 1,
	"probes": 2, "seq": 1, "pull": 2, "next": 2, "stop": 2, "range": 3, "nested": 4, "putn": 5, "deln": 4, "getn": 4, "probesn": 4}
var tableOps = map[string]bool{"put": true, "get": true, "delete": true, "deleteall": true, "size": true, "isempty": true,
	"all": true, "dump": true, "probes": true, "seq": true, "putn": true, "deln": true, "getn": true, "probesn": true}

func knownComp(c string) bool {
	return c == "chain" || c == "linear" || c == "quadratic" || c == "double"
}

func emod(a, q int) int { return ((a % q) + q) % q }

// eqValFor: the value equalities of the protocol. `le` is deliberately not symmetric: it shows which operand of
// eqVal comes from which table.
func eqValFor(name string) func(a, b int) bool {
	switch name {
	case "mod8":
		return func(a, b int) bool { return emod(a, 8) == emod(b, 8) }
	case "le":
		return func(a, b int) bool { return a <= b }
	}
	return eqInt
}

type tabObj[K comparable] struct {
	cfg tcfg
	t   tbl[K]
	eq  func(a, b int) bool
	orc map[K]int
	del map[K]bool // keys deleted at least once and currently absent
}

// seqObj: an iter.Seq2 returned by All(): a handle on its table (every run lists the table as it is then).
type seqObj[K comparable] struct {
	tid     int
	seq     iter.Seq2[K, int]
	changed bool // the table has been changed since the sequence was obtained
}

// pullObj: a traversal iter.Pull2(seq). phase: 0 not started (nothing listed yet), 1 running, 2 over, 3 broken (its
// table was changed while it was running).
type pullObj[K comparable] struct {
	tid   int
	phase int
	next  func() (K, int, bool)
	stop  func()
	seen  map[K]bool
	snap  map[K]int // what the table held when the traversal started
	sq    *seqObj[K]
}

const (
	phFresh = iota
	phRunning
	phDone
	phBroken
)

func joinInts(xs []int) string {
	ss := make([]string, len(xs))
	for i, x := range xs {
		ss[i] = strconv.Itoa(x)
	}
	return strings.Join(ss, ",")
}

// execTables runs one case on the real tables and on builtin-map oracles.
func execTables[K comparable](c hx.Case, mode Mode, kc *keyCodec[K]) hx.Result {
	if mode.Watchdog == 0 {
		mode.Watchdog = 10 * time.Second
	}
	_, numeric := any(*new(K)).(int)
	dflt := "fnv"
	if !numeric {
		dflt = "fnvstr"
	}
	cfgs := tableCfgs(c.Header, dflt)
	seed, _ := strconv.ParseInt(hx.HeaderGet(c.Header, "shuffle"), 10, 64)

	res := hx.Result{BadOp: -1}
	bad := func(i int, format string, a ...any) {
		if res.BadOp < 0 {
			res.BadOp = i
			res.What = fmt.Sprintf(format, a...)
		}
	}
	tags := map[string]bool{}
	if !numeric {
		tags["keys=str"] = true
	}
	for _, cf := range cfgs {
		if !knownComp(cf.comp) {
			for range c.Ops {
				res.Outs = append(res.Outs, "bad-case")
			}
			return res
		}
		tags["comp="+cf.comp] = true
		tags["hash="+cf.hash] = true
	}
	if len(cfgs) > 2 {
		tags["tables>2"] = true
	}
	for _, cf := range cfgs[1:] {
		if cf != cfgs[0] {
			tags["tables-differ-in-parameters"] = true
		}
		if cf.comp != cfgs[0].comp {
			tags["tables-differ-in-implementation"] = true
		}
	}

	symboltable.VerifSetShuffleSeed(seed)
	ktype, vtype := hx.HeaderGet(c.Header, "ktype"), hx.HeaderGet(c.Header, "vtype")
	if ktype != "" {
		tags["ktype="+ktype] = true
	}
	if vtype != "" {
		tags["vtype="+vtype] = true
	}
	pp := &ptrPool{m: map[int]*int{}}
	tabs := make([]*tabObj[K], len(cfgs))
	allValid := true
	kind := hx.Try(func() {
		for i, cf := range cfgs {
			eff := cf.cap
			if eff == 0 {
				eff = MinCap(cf.comp)
			}
			if !validCap(cf.comp, eff) {
				allValid = false
			}
			opts := symboltable.HashOpts{InitialCap: cf.cap, MinLoadFactor: parseLF(cf.minlf), MaxLoadFactor: parseLF(cf.maxlf)}
			eq := eqValFor(cf.eqv)
			t := kc.newTable(cf.comp, ktype, vtype, cf.hash, eff, eq, opts, pp)
			tabs[i] = &tabObj[K]{cfg: cf, t: t, eq: eq, orc: map[K]int{}, del: map[K]bool{}}
		}
	})
	if kind != "" {
		// a constructor rejected its options: the first op prints panic and the case ends (the Model does the same);
		// documented behaviour for a capacity below the minimum / not prime / not a power of two, inadmissible
		// only if all options were valid
		if len(c.Ops) > 0 {
			res.Outs = append(res.Outs, "panic")
			if allValid {
				bad(0, "constructor panicked (%s) for valid options %s", kind, c.Header)
			}
		}
		res.Tags = []string{"constructor-rejects-options"}
		return res
	}
	if !allValid {
		// a constructor accepted a capacity its documentation excludes
		if len(c.Ops) > 0 {
			bad(0, "a constructor accepted options outside its documented contract: %s", c.Header)
		}
	}

	var seqs []*seqObj[K]
	var pulls []*pullObj[K]
	defer func() {
		for _, p := range pulls {
			if p.stop != nil {
				stop := p.stop
				p.stop = nil
				hx.WithTimeout(time.Second, func() { hx.Try(stop) })
			}
		}
	}()
	// a change of table i breaks the traversals of table i that are half-way (started, not over); sequences and
	// traversals that have not started are unaffected: they list the table when they are run
	invalidate := func(i int) {
		for _, q := range seqs {
			if q.tid == i {
				q.changed = true
			}
		}
		for _, p := range pulls {
			if p.tid == i && p.phase == phRunning {
				p.phase = phBroken
				if p.stop != nil {
					stop := p.stop
					p.stop, p.next = nil, nil
					hx.Try(stop)
				}
			}
		}
	}
	copyMap := func(m map[K]int) map[K]int {
		o := make(map[K]int, len(m))
		for k, v := range m {
			o[k] = v
		}
		return o
	}
	newSeq := func(i int) *seqObj[K] {
		s := &seqObj[K]{tid: i, seq: tabs[i].t.All()}
		seqs = append(seqs, s)
		return s
	}
	showPair := func(k K, v int) string { return fmt.Sprintf("(%s,%d)", kc.show(k), v) }

	longWalk, resized := false, false
	var zeroKeyFirst, putSeen bool
	// the snapshot taken after the last mutating op of a table is the snapshot before its next one
	lastSnap := make([]*snapshot, len(tabs))

	// probe walk of key in table tb before put/get/delete: tag, C03 bound, and whether the call would spin
	// (inWatchdog: the caller already runs under the watchdog of its op, as the bulk ops do)
	probeCheck := func(i int, op string, tb *tabObj[K], key K, inWatchdog bool) (g, fd int) {
		if inWatchdog {
			g, fd = -1, -1
			hx.Try(func() { g, fd = tb.t.Probes(key, 4*tb.t.Cap()+4) })
		} else {
			g, fd = safeProbesM(tb.t, key, tb.t.Cap(), mode.Watchdog)
		}
		if g >= 3 || fd >= 3 {
			longWalk = true
		}
		if mode.ProbeBound {
			bound := tb.t.Cap()
			if tb.cfg.comp == "chain" {
				bound = tb.t.Len()
			}
			if g < 0 || fd < 0 || g > bound || fd > bound {
				bad(i, "%s: probe walk of %s get=%d find=%d exceeds the bound %d (m=%d n=%d)", op, kc.show(key), g, fd, bound, tb.t.Cap(), tb.t.Len())
			}
		}
		return
	}
	noteMutation := func(i int, op string, verb string, tb *tabObj[K], before, after snapshot) {
		if after.consistent != "" {
			bad(i, "after %s: %s", op, after.consistent)
		}
		if after.n != len(tb.orc) {
			bad(i, "after %s: n=%d, the map holds %d pairs", op, after.n, len(tb.orc))
		}
		switch {
		case after.m > before.m:
			tags["resize-grow"] = true
			resized = true
		case after.m < before.m:
			tags["resize-shrink"] = true
			resized = true
		case verb == "put" && after.u < before.u:
			tags["rehash-same-size"] = true
			resized = true
		}
		if after.u > after.n {
			tags["tombstones-present"] = true
		}
		if verb == "put" && after.u == before.u && after.n == before.n+1 && after.m == before.m {
			tags["tombstone-revived"] = true
		}
	}
	sizeTag := func(n int) {
		for _, th := range []int{64, 256, 1024, 4482, 65536} {
			if n >= th {
				tags[fmt.Sprintf("entries>=%d", th)] = true
			}
		}
	}

	for i, op := range c.Ops {
		f := strings.Fields(op)
		if len(f) == 0 {
			res.Outs = append(res.Outs, "bad-op")
			continue
		}
		b := 0
		if strings.HasPrefix(f[0], "b.") {
			b = 1
			f[0] = f[0][2:]
		} else if j := strings.IndexByte(f[0], '.'); j > 0 {
			if n, err := strconv.Atoi(f[0][:j]); err == nil && n >= 0 && strings.Count(f[0], ".") == 1 {
				b = n
				f[0] = f[0][j+1:]
			}
		}
		var tb *tabObj[K]
		if b < len(tabs) {
			tb = tabs[b]
		}
		key := func() K {
			if len(f) > 1 {
				return kc.parse(f[1])
			}
			var z K
			return z
		}
		arg := func(j int) int {
			if j < len(f) {
				v, _ := strconv.Atoi(f[j])
				return v
			}
			return 0
		}
		// shape check (the Lean driver prints bad-op for anything else)
		if f[0] == "equal" {
			if len(f) != 1 && len(f) != 3 {
				res.Outs = append(res.Outs, "bad-op")
				continue
			}
		} else if n, ok := opWords[f[0]]; !ok || n != len(f) {
			res.Outs = append(res.Outs, "bad-op")
			continue
		}
		if tableOps[f[0]] && tb == nil {
			res.Outs = append(res.Outs, "ok invalid")
			continue
		}
		out := "bad-op"
		before := snapshot{}
		mutating := f[0] == "put" || f[0] == "delete" || f[0] == "deleteall"
		if mutating {
			if lastSnap[b] != nil {
				before = *lastSnap[b]
			} else {
				before = snap(tb.t, kc)
			}
			lastSnap[b] = nil
		}
		if f[0] == "putn" || f[0] == "deln" {
			lastSnap[b] = nil
		}
		if f[0] == "put" && !putSeen {
			putSeen = true
			var z K
			zeroKeyFirst = key() == z
		}
		if f[0] == "put" || f[0] == "get" || f[0] == "delete" {
			g, fd := probeCheck(i, op, tb, key(), false)
			// After one hang has been observed for real in this process, further lookups whose probe walk
			// (the same closure, the same stop conditions, 4m+4 steps: more than four periods) does not stop are
			// reported as hangs without being executed: every executed one leaks a goroutine that spins forever.
			// Put is always executed (it may re-hash before it probes).
			if HangsObserved > 0 && ((f[0] == "get" && g == -1) || (f[0] == "delete" && fd == -1)) {
				res.Outs = append(res.Outs, "hang")
				bad(i, "%s would not return: its probe walk does not stop within %d steps", op, 4*tb.t.Cap()+4)
				tags["hang"] = true
				tags["hang-predicted"] = true
				break
			}
		}
		watchdog := mode.Watchdog
		if f[0] == "putn" || f[0] == "deln" || f[0] == "getn" || f[0] == "probesn" || f[0] == "nested" {
			watchdog = 4 * mode.Watchdog
		}
		var kind string
		returned := hx.WithTimeout(watchdog, func() {
			kind = hx.Try(func() {
				switch f[0] {
				case "put":
					k, v := key(), arg(2)
					tb.t.Put(k, v)
					invalidate(b)
					if tb.del[k] {
						tags["reinsert-deleted-key"] = true
						delete(tb.del, k)
					}
					tb.orc[k] = v
					out = "ok"
				case "get":
					k := key()
					v, ok := tb.t.Get(k)
					out = "ok " + optInt(v, ok)
					want, wok := tb.orc[k]
					if ok != wok || (ok && v != want) {
						bad(i, "get %s = (%d,%v), the map holds (%d,%v)", kc.show(k), v, ok, want, wok)
					}
				case "delete":
					k := key()
					v, ok := tb.t.Delete(k)
					invalidate(b)
					out = "ok " + optInt(v, ok)
					want, wok := tb.orc[k]
					if ok != wok || (ok && v != want) {
						bad(i, "delete %s = (%d,%v), the map holds (%d,%v)", kc.show(k), v, ok, want, wok)
					}
					if wok {
						tb.del[k] = true
					}
					delete(tb.orc, k)
				case "deleteall":
					tb.t.DeleteAll()
					invalidate(b)
					for k := range tb.orc {
						delete(tb.orc, k)
					}
					out = "ok"
				case "size":
					n := tb.t.Size()
					out = "ok " + strconv.Itoa(n)
					if n != len(tb.orc) {
						bad(i, "size = %d, the map holds %d pairs", n, len(tb.orc))
					}
				case "isempty":
					e := tb.t.IsEmpty()
					out = "ok " + strconv.FormatBool(e)
					if e != (len(tb.orc) == 0) {
						bad(i, "isempty = %v, the map holds %d pairs", e, len(tb.orc))
					}
				case "all":
					var got []pair
					var keys []K
					for k, v := range tb.t.All() {
						got = append(got, pair{kc.show(k), v})
						keys = append(keys, k)
					}
					if len(got) != len(tb.orc) {
						bad(i, "all yields %d pairs, the map holds %d", len(got), len(tb.orc))
					} else {
						seen := map[K]bool{}
						for j, e := range got {
							if w, ok := tb.orc[keys[j]]; !ok || w != e.v || seen[keys[j]] {
								bad(i, "all yields (%s,%d) which the map does not hold (or yields it twice)", e.k, e.v)
							}
							seen[keys[j]] = true
						}
					}
					out = "ok " + showPairs(got, numeric)
				case "equal":
					x, y := 0, 1
					if len(f) == 3 {
						x, y = arg(1), arg(2)
						if _, err := strconv.Atoi(f[1]); err != nil || x < 0 {
							out = "bad-op"
							return
						}
						if _, err := strconv.Atoi(f[2]); err != nil || y < 0 {
							out = "bad-op"
							return
						}
					}
					if x >= len(tabs) || y >= len(tabs) {
						out = "ok invalid"
						return
					}
					a, bb := tabs[x], tabs[y]
					e := a.t.EqualTo(bb.t)
					out = "ok " + strconv.FormatBool(e)
					// Equal starts with a type assertion: tables of different implementations are never equal;
					// otherwise the two maps hold the same keys and the receiver's eqVal relates the values
					// (first operand: the value of the table being traversed)
					want := a.cfg.comp == bb.cfg.comp
					if want {
						for k, v := range a.orc {
							if w, ok := bb.orc[k]; !ok || !a.eq(v, w) {
								want = false
							}
						}
						for k, v := range bb.orc {
							if w, ok := a.orc[k]; !ok || !a.eq(v, w) {
								want = false
							}
						}
					}
					if e != want {
						bad(i, "equal %d %d = %v, the two maps (and the types %s / %s) say %v", x, y, e, a.cfg.comp, bb.cfg.comp, want)
					}
					if x == y {
						tags["equal-same-table"] = true
					} else if a.cfg != bb.cfg {
						tags["equal-different-parameters"] = true
					}
				case "dump":
					out = "ok " + dumpOf(tb.t, kc)
				case "probes":
					g, fd := safeProbesM(tb.t, key(), tb.t.Cap(), mode.Watchdog)
					out = fmt.Sprintf("ok get=%d find=%d", g, fd)
				case "seq":
					newSeq(b)
					out = "ok seq=" + strconv.Itoa(len(seqs)-1)
					tags["iterators"] = true
				case "pull":
					s := arg(1)
					if _, err := strconv.Atoi(f[1]); err != nil || s < 0 {
						out = "bad-op"
						return
					}
					if s >= len(seqs) {
						out = "ok invalid"
						return
					}
					next, stop := iter.Pull2(seqs[s].seq)
					pulls = append(pulls, &pullObj[K]{tid: seqs[s].tid, phase: phFresh, next: next, stop: stop, seen: map[K]bool{}, sq: seqs[s]})
					out = "ok pull=" + strconv.Itoa(len(pulls)-1)
				case "next":
					p := arg(1)
					if _, err := strconv.Atoi(f[1]); err != nil || p < 0 {
						out = "bad-op"
						return
					}
					if p >= len(pulls) || pulls[p].phase == phBroken {
						out = "ok invalid"
						return
					}
					pl := pulls[p]
					if pl.phase == phDone || pl.next == nil {
						out = "ok done"
						return
					}
					if pl.phase == phFresh {
						// the traversal starts now: it must list the table as it is now
						pl.phase = phRunning
						pl.snap = copyMap(tabs[pl.tid].orc)
						if pl.sq != nil && pl.sq.changed {
							tags["sequence-run-after-change-of-its-table"] = true
						}
						running := 0
						for _, q := range pulls {
							if q.phase == phRunning && q.tid == pl.tid {
								running++
							}
						}
						if running >= 2 {
							tags["two-traversals-of-one-table-alive"] = true
						}
					}
					k, v, ok := pl.next()
					if !ok {
						pl.phase = phDone
						out = "ok done"
						if len(pl.seen) != len(pl.snap) {
							bad(i, "traversal %d ended after %d pairs, the map holds %d", p, len(pl.seen), len(pl.snap))
						}
						return
					}
					out = "ok " + showPair(k, v)
					if w, held := pl.snap[k]; !held || w != v || pl.seen[k] {
						bad(i, "traversal %d yields (%s,%d) which the map does not hold (or yields it twice)", p, kc.show(k), v)
					}
					pl.seen[k] = true
				case "stop":
					p := arg(1)
					if _, err := strconv.Atoi(f[1]); err != nil || p < 0 {
						out = "bad-op"
						return
					}
					if p >= len(pulls) {
						out = "ok invalid"
						return
					}
					pl := pulls[p]
					if pl.phase != phBroken {
						pl.phase = phDone
					}
					if pl.stop != nil {
						stop := pl.stop
						pl.stop, pl.next = nil, nil
						stop()
					}
					out = "ok"
					tags["traversal-abandoned"] = true
				case "range":
					s, limit := arg(1), arg(2)
					if _, err := strconv.Atoi(f[1]); err != nil || s < 0 {
						out = "bad-op"
						return
					}
					if _, err := strconv.Atoi(f[2]); err != nil {
						out = "bad-op"
						return
					}
					if s >= len(seqs) {
						out = "ok invalid"
						return
					}
					sq := seqs[s]
					snapNow := copyMap(tabs[sq.tid].orc) // the sequence is run now: the table as it is now
					if sq.changed {
						tags["sequence-run-after-change-of-its-table"] = true
					}
					pulls = append(pulls, &pullObj[K]{tid: sq.tid, phase: phDone})
					var got []string
					seen := map[K]bool{}
					for k, v := range sq.seq {
						if limit >= 0 && len(got) >= limit {
							break
						}
						got = append(got, showPair(k, v))
						if w, held := snapNow[k]; !held || w != v || seen[k] {
							bad(i, "range over sequence %d yields (%s,%d) which the map does not hold (or yields it twice)", s, kc.show(k), v)
						}
						seen[k] = true
					}
					wantN := len(snapNow)
					if limit >= 0 && limit < wantN {
						wantN = limit
						tags["traversal-abandoned"] = true
					}
					if len(got) != wantN {
						bad(i, "range over sequence %d yields %d pairs, expected %d of the %d the map holds", s, len(got), wantN, len(snapNow))
					}
					out = "ok [" + strings.Join(got, " ") + "]"
				case "nested":
					x, y, limit := arg(1), arg(2), arg(3)
					for j := 1; j <= 3; j++ {
						if v, err := strconv.Atoi(f[j]); err != nil || (j < 3 && v < 0) {
							out = "bad-op"
							return
						}
					}
					if x >= len(tabs) || y >= len(tabs) {
						out = "ok invalid"
						return
					}
					outerSeq := newSeq(x)
					outerSnap := copyMap(tabs[x].orc)
					pulls = append(pulls, &pullObj[K]{tid: x, phase: phDone})
					var outer []string
					seenOuter := map[K]bool{}
					inner := 0
					d := uint64(fnvOffset)
					step := func(v uint64) { d = (d ^ v) * fnvPrime }
					for k, v := range outerSeq.seq {
						outer = append(outer, showPair(k, v))
						if w, held := outerSnap[k]; !held || w != v || seenOuter[k] {
							bad(i, "the outer loop of nested %d %d yields (%s,%d) which the map does not hold (or yields it twice)", x, y, kc.show(k), v)
						}
						seenOuter[k] = true
						innerSeq := newSeq(y)
						innerSnap := tabs[y].orc // (nothing changes the table inside this op)
						pulls = append(pulls, &pullObj[K]{tid: y, phase: phDone})
						cnt := 0
						seenInner := map[K]bool{}
						for k2, v2 := range innerSeq.seq {
							inner++
							cnt++
							step(kc.dig(k2))
							step(uint64(v2))
							if w, held := innerSnap[k2]; !held || w != v2 || seenInner[k2] {
								bad(i, "an inner loop of nested %d %d yields (%s,%d) which the map does not hold (or yields it twice)", x, y, kc.show(k2), v2)
							}
							seenInner[k2] = true
							if limit >= 0 && cnt >= limit {
								break
							}
						}
						wantN := len(innerSnap)
						if limit >= 0 && limit < wantN {
							wantN = max(limit, 1)
						}
						if cnt != wantN {
							bad(i, "an inner loop of nested %d %d yields %d pairs, expected %d of the %d the map holds", x, y, cnt, wantN, len(innerSnap))
						}
					}
					if len(outer) != len(outerSnap) {
						bad(i, "the outer loop of nested %d %d yields %d pairs, the map holds %d", x, y, len(outer), len(outerSnap))
					}
					out = fmt.Sprintf("ok outer=[%s] inner=%d h=%016x", strings.Join(outer, " "), inner, d)
					if x == y {
						tags["nested-traversal-of-one-table"] = true
					} else {
						tags["nested-traversal-of-two-tables"] = true
					}
				case "putn", "deln", "getn", "probesn":
					for j := 1; j < len(f); j++ {
						if _, err := strconv.Atoi(f[j]); err != nil {
							out = "bad-op"
							return
						}
					}
					a, n, st := arg(1), arg(2), arg(3)
					keyAt := func(c int) K { return kc.ofInt(a + c*st) }
					var caps []int
					m := tb.t.Cap()
					noteCap := func() {
						if m2 := tb.t.Cap(); m2 != m {
							if m2 > m {
								tags["resize-grow"] = true
							} else {
								tags["resize-shrink"] = true
							}
							resized = true
							caps = append(caps, m2)
							m = m2
						}
					}
					switch f[0] {
					case "putn":
						v0 := arg(4)
						for c := 0; c < n; c++ {
							k := keyAt(c)
							if mode.ProbeBound {
								probeCheck(i, op, tb, k, true)
							}
							if c == 0 {
								invalidate(b)
							}
							tb.t.Put(k, v0+c)
							if tb.del[k] {
								tags["reinsert-deleted-key"] = true
								delete(tb.del, k)
							}
							tb.orc[k] = v0 + c
							noteCap()
						}
						after := snap(tb.t, kc)
						noteMutation(i, op, "putn", tb, after, after)
						out = "ok caps=" + joinInts(caps) + " | " + after.String()
					case "deln":
						hit := 0
						for c := 0; c < n; c++ {
							k := keyAt(c)
							if mode.ProbeBound {
								probeCheck(i, op, tb, k, true)
							}
							if c == 0 {
								invalidate(b)
							}
							v, ok := tb.t.Delete(k)
							want, wok := tb.orc[k]
							if ok != wok || (ok && v != want) {
								bad(i, "%s: delete %s = (%d,%v), the map holds (%d,%v)", op, kc.show(k), v, ok, want, wok)
							}
							if ok {
								hit++
							}
							if wok {
								tb.del[k] = true
							}
							delete(tb.orc, k)
							noteCap()
						}
						after := snap(tb.t, kc)
						noteMutation(i, op, "deln", tb, after, after)
						out = fmt.Sprintf("ok hit=%d caps=%s | %s", hit, joinInts(caps), after.String())
					case "getn":
						hit, sum := 0, 0
						for c := 0; c < n; c++ {
							k := keyAt(c)
							if mode.ProbeBound {
								probeCheck(i, op, tb, k, true)
							}
							v, ok := tb.t.Get(k)
							want, wok := tb.orc[k]
							if ok != wok || (ok && v != want) {
								bad(i, "%s: get %s = (%d,%v), the map holds (%d,%v)", op, kc.show(k), v, ok, want, wok)
							}
							if ok {
								hit++
								sum += v
							}
						}
						out = fmt.Sprintf("ok hit=%d sum=%d", hit, sum)
					case "probesn":
						mg, mf, sg, sf, broken := 0, 0, 0, 0, false
						lim := 4*tb.t.Cap() + 4
						bound := tb.t.Cap()
						if tb.cfg.comp == "chain" {
							bound = tb.t.Len()
						}
						for c := 0; c < n; c++ {
							k := keyAt(c)
							g, fd := tb.t.Probes(k, lim)
							if g < 0 || fd < 0 {
								broken = true
							}
							if mode.ProbeBound && (g < 0 || fd < 0 || g > bound || fd > bound) {
								bad(i, "%s: probe walk of %s get=%d find=%d exceeds the bound %d", op, kc.show(k), g, fd, bound)
							}
							if g >= 3 || fd >= 3 {
								longWalk = true
							}
							mg, mf, sg, sf = max(mg, g), max(mf, fd), sg+g, sf+fd
						}
						if broken {
							mg, mf, sg, sf = -1, -1, -1, -1
						}
						out = fmt.Sprintf("ok maxget=%d maxfind=%d sumget=%d sumfind=%d", mg, mf, sg, sf)
					}
					if n > 0 {
						tags["bulk-ops"] = true
					}
					sizeTag(len(tb.orc))
				}
			})
		})
		if !returned {
			res.Outs = append(res.Outs, "hang")
			bad(i, "%s did not return within %v", op, watchdog)
			tags["hang"] = true
			HangsObserved++
			break
		}
		if kind != "" {
			res.Outs = append(res.Outs, "panic")
			bad(i, "%s panicked (%s)", op, kind)
			tags["panic"] = true
			break
		}
		if mutating {
			after := snap(tb.t, kc)
			lastSnap[b] = &after
			out += " | " + after.String()
			noteMutation(i, op, f[0], tb, before, after)
			sizeTag(len(tb.orc))
		}
		res.Outs = append(res.Outs, out)
	}
	// final sweep: everything the maps hold is found with its value
	if res.BadOp < 0 && len(res.Outs) == len(c.Ops) {
		okSweep := hx.WithTimeout(5*mode.Watchdog, func() {
			hx.Try(func() {
				for _, tb := range tabs {
					for k, v := range tb.orc {
						if got, ok := tb.t.Get(k); !ok || got != v {
							bad(len(c.Ops)-1, "final sweep: get %s = (%d,%v), the map holds %d", kc.show(k), got, ok, v)
							return
						}
					}
					for k := range tb.del {
						if got, ok := tb.t.Get(k); ok {
							bad(len(c.Ops)-1, "final sweep: deleted key %s is found again with value %d", kc.show(k), got)
							return
						}
					}
				}
			})
		})
		if !okSweep {
			bad(len(c.Ops)-1, "final sweep did not return")
		}
	}
	if longWalk {
		tags["walk>=3"] = true
	}
	if zeroKeyFirst && (cfgs[0].hash == "fnv" || cfgs[0].hash == "fnvstr") {
		tags["default-hash-zero-key-first"] = true
	}
	res.Nontrivial = longWalk || resized
	for t := range tags {
		res.Tags = append(res.Tags, t)
	}
	sort.Strings(res.Tags)
	return res
}

// HangsObserved counts the implementation calls of this process that did not return.
var HangsObserved int

// safeProbesM measures the probe walks of key through the hook (m = the capacity, for the step limit); a walk
// that panics (an index outside the allocated slots) or does not come back counts as -1.
func safeProbesM[K comparable](t tbl[K], key K, m int, watchdog time.Duration) (g, fd int) {
	g, fd = -1, -1
	hx.WithTimeout(watchdog, func() {
		hx.Try(func() { g, fd = t.Probes(key, 4*m+4) })
	})
	return
}
