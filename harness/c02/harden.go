package c02

// Generators of the hardening round (HARDENING.md), shared by C02 and C03:
//
//   axis 1 (size thresholds)   GenSizeSweep (number of entries at 0 … 70000 through bulk ops), GenWalk (long grow / shrink
//                              walks that visit many capacities; every bulk op prints the capacity after each resize),
//                              CapSweep (InitialCap at every prime / power of two up to 2^17 and their neighbours),
//                              EdgeLF (load-factor bounds at the edges of what the property admits), GenLong (thousands of
//                              operations over a small universe), GenExtremeKeys (keys 0, -1, MinInt, MaxInt, 2^k±1)
//   axis 2 (unusual use)       GenPoolMix (tables that differ in implementation / hash function / options / value equality
//                              meeting in Equal, a table compared with itself), GenIter (several traversals of one table
//                              alive at once, nested loops, traversals abandoned half-way, a sequence run twice)
//   axis 3 (coinciding values) HashesAll: hash values 0, 1, 2^63, 2^64-1, multiples of the capacity, high bits only,
//                              single bits, next to the five hash functions used so far

import (
	"fmt"
	"math"
	"sort"
	"strconv"
	"strings"

	"verifharness/hx"
)

// HashesAll: every hash function of the protocol for int keys.
var HashesAll = []string{"fnv", "id", "const", "mod3", "modm", "zero", "one", "top", "max", "mulm", "neg", "hi", "pow"}

// degenerate hash functions under which every key (or every 64th) collides
var HashesColliding = []string{"const", "zero", "one", "top", "max", "mod3", "pow"}

// SmallThresholds / BigThresholds: the sizes programmers pick as thresholds, and what lies next to them.
var SmallThresholds = []int{0, 1, 2, 63, 64, 65, 255, 256, 257, 1023, 1024, 1025}
var BigThresholds = []int{4482, 9409, 65535, 65536, 65537, 70000}

// EdgeLF returns (minlf, maxlf) at the edges of `default min <= min < max <= default max` (dyadic rationals).
func EdgeLF(r *hx.Rand, comp string) (string, string) {
	if comp == "chain" { // defaults 2 .. 10
		return pick2([][2]string{{"2", "10"}, {"2", "17/8"}, {"19/2", "10"}, {"79/8", "10"}, {"5", "41/8"}, {"2", "3"}, {"9", "10"},
			{"2", ""}, {"", "10"}, {"", "5/2"}, {"8", ""}}, r)
	}
	// defaults 1/8 .. 1/2
	return pick2([][2]string{{"1/8", "1/2"}, {"1/8", "9/64"}, {"15/32", "1/2"}, {"31/64", "1/2"}, {"1/4", "17/64"}, {"1/8", "1/4"},
		{"7/16", "1/2"}, {"1/8", ""}, {"", "1/2"}, {"", "5/32"}, {"3/8", ""}}, r)
}

func pick2(p [][2]string, r *hx.Rand) (string, string) { e := p[r.Intn(len(p))]; return e[0], e[1] }

func lfWords(mn, mx string) string {
	s := ""
	if mn != "" {
		s += " minlf=" + mn
	}
	if mx != "" {
		s += " maxlf=" + mx
	}
	return s
}

// HeaderWith: a case-wide header with the given capacity; load factors default, random, or at an edge.
func HeaderWith(r *hx.Rand, comp, hname string, cp int, edge bool) string {
	mn, mx := lfFor(r, comp)
	if edge {
		mn, mx = EdgeLF(r, comp)
	}
	return fmt.Sprintf("comp=%s hash=%s cap=%d shuffle=%d", comp, hname, cp, 1+r.Intn(999)) + lfWords(mn, mx)
}

// ValidCaps lists every capacity the constructor of comp accepts up to limit.
func ValidCaps(comp string, limit int) []int {
	var out []int
	for c := MinCap(comp); c <= limit; c++ {
		if validCap(comp, c) {
			out = append(out, c)
		}
	}
	return out
}

// GenCapProbe: construct + a few operations (two state digests; one for a large capacity).
func GenCapProbe(r *hx.Rand, cp int) []string {
	a := r.Intn(50)
	if cp > 4096 {
		return []string{fmt.Sprintf("getn %d 3 1", a), fmt.Sprintf("putn %d 3 1 7", a), fmt.Sprintf("getn %d 5 1", a-1), fmt.Sprintf("probesn %d 5 1", a-1), "size"}
	}
	return []string{fmt.Sprintf("putn %d 3 1 7", a), fmt.Sprintf("getn %d 5 1", a-1), fmt.Sprintf("probes %d", a+1),
		fmt.Sprintf("get %d", a+1), "size", fmt.Sprintf("deln %d 3 1", a), "isempty"}
}

// GenSizeSweep: grow table 0 to n entries, the full battery of queries, step over n and back, a second table with
// the same contents (Equal), walk back down to empty, reuse.
func GenSizeSweep(r *hx.Rand, n int, probes bool) []string {
	ops := []string{"size", "isempty", "get 0", "all"}
	add := func(format string, a ...any) { ops = append(ops, fmt.Sprintf(format, a...)) }
	add("putn 0 %d 1 100", n)
	add("size")
	add("isempty")
	add("getn 0 %d 1", n)
	add("getn %d 8 1", n)
	add("getn -8 8 1")
	if probes {
		st := 1
		if n > 3000 {
			st = n / 3000
		}
		add("probesn 0 %d %d", min(n, 3000), st)
		add("probesn %d 40 1", n)
	}
	// over the threshold and back below it
	add("put %d 1", n)
	add("put %d 2", n+1)
	add("size")
	add("get %d", n)
	add("get %d", n+1)
	add("get %d", n+2)
	add("delete %d", n+1)
	add("delete %d", n)
	if n > 0 {
		add("delete %d", n-1)
	}
	add("size")
	add("get %d", n-1)
	add("get 0")
	if n <= 10000 {
		add("b.putn 0 %d 1 100", n)
		add("equal")
		if n > 0 {
			add("b.delete %d", n-1)
		}
		add("equal")
		add("equal 1 0")
		add("equal 0 0")
		add("b.put 5 -5")
		add("equal")
		add("b.deleteall")
		add("equal")
	}
	if n <= 1100 {
		add("all")
	}
	// walk back down: most of the keys, then the rest
	k := n - n/8
	add("deln 0 %d 1", k)
	add("size")
	add("getn 0 %d 1", min(n, 2000))
	if probes {
		add("probesn 0 %d 1", min(n, 500))
	}
	add("deln %d %d 1", k, n-k)
	add("size")
	add("isempty")
	add("get 0")
	// reuse
	add("putn 0 %d 1 7", min(n, 40)+3)
	add("all")
	add("deleteall")
	add("size")
	add("put 1 1")
	add("get 1")
	return ops
}

// GenWalk: a long grow / shrink walk. The live keys are a window [lo, hi) of an increasing sequence: growing puts
// fresh keys at the top, shrinking deletes the oldest ones (or the newest ones, which are then put again: revival).
func GenWalk(r *hx.Rand, peak, rounds int, probes bool) []string {
	var ops []string
	add := func(format string, a ...any) { ops = append(ops, fmt.Sprintf(format, a...)) }
	lo, hi := 0, 0
	for c := 0; c < rounds; c++ {
		target := r.Range(peak/2+1, peak)
		if c == 0 {
			target = peak
		}
		if target > hi-lo {
			add("putn %d %d 1 %d", hi, target-(hi-lo), c)
			hi = lo + target
		}
		if r.Chance(1, 3) {
			add("getn %d %d 1", lo-2, min(hi-lo+4, 300))
		}
		if probes {
			add("probesn %d %d 1", lo-3, min(hi-lo+6, 200))
			add("get %d", hi+100)
		}
		down := (hi - lo) / r.Range(2, 8)
		del := hi - lo - down
		if r.Chance(1, 4) && del > 0 { // the newest keys go and come back
			d := min(del, r.Range(1, 40))
			add("deln %d %d 1", hi-d, d)
			add("putn %d %d 1 %d", hi-d, d, -c)
		}
		if del > 0 {
			add("deln %d %d 1", lo, del)
			lo += del
		}
		add("size")
		if probes {
			add("probesn %d %d 1", lo-3, min(hi-lo+6, 200))
		}
	}
	add("getn %d %d 1", lo-2, min(hi-lo+4, 2000))
	add("deln %d %d 1", lo, hi-lo)
	add("isempty")
	add("put 1 1")
	add("get 1")
	return ops
}

// GenLong: thousands of operations over a small universe (every single op carries a state digest).
func GenLong(r *hx.Rand, n, universe int) []string {
	var ops []string
	for len(ops) < n {
		k := r.Intn(universe)
		switch x := r.Intn(100); {
		case x < 45:
			ops = append(ops, fmt.Sprintf("put %d %d", k, r.Intn(9)))
		case x < 85:
			ops = append(ops, fmt.Sprintf("delete %d", k))
		case x < 95:
			ops = append(ops, fmt.Sprintf("get %d", k))
		case x < 97:
			ops = append(ops, "size")
		case x < 99:
			ops = append(ops, fmt.Sprintf("probes %d", k))
		default:
			ops = append(ops, "all")
		}
	}
	return append(ops, "size", "all", "dump")
}

// ExtremeKeys: 0, ±1, the ends of int64, 2^k and 2^k ± 1.
func ExtremeKeys() []int {
	ks := []int{0, 1, -1, 2, -2, math.MaxInt64, math.MinInt64, math.MaxInt64 - 1, math.MinInt64 + 1, math.MaxInt32, math.MinInt32, math.MaxUint32}
	for _, e := range []uint{6, 8, 10, 16, 31, 32, 33, 62} {
		p := 1 << e
		ks = append(ks, p, p-1, p+1, -p, -p-1, -p+1)
	}
	return ks
}

func GenExtremeKeys(r *hx.Rand, n int) []string {
	ks := ExtremeKeys()
	var ops []string
	for len(ops) < n {
		k := hx.Pick(r, ks)
		p := tab(r, 30)
		switch x := r.Intn(100); {
		case x < 45:
			ops = append(ops, fmt.Sprintf("%sput %d %d", p, k, r.Intn(50)))
		case x < 65:
			ops = append(ops, fmt.Sprintf("%sdelete %d", p, k))
		case x < 85:
			ops = append(ops, fmt.Sprintf("%sget %d", p, k))
		case x < 90:
			ops = append(ops, fmt.Sprintf("%sprobes %d", p, k))
		case x < 95:
			ops = append(ops, "equal")
		default:
			ops = append(ops, p+"all")
		}
	}
	return append(ops, "size", "all", "b.all", "equal")
}

// ---------------------------------------------------------------- axis 2: pools

func tWord(i int, comp, hname string, cp int, mn, mx, eqv string) string {
	return fmt.Sprintf("t%d=%s,%s,%d,%s,%s,%s", i, comp, hname, cp, mn, mx, eqv)
}

// PoolHeader: ntab tables; table 0 is of implementation comp; the others are of the same implementation with other
// parameters most of the time, of another implementation sometimes.
func PoolHeader(r *hx.Rand, comp string, ntab int) string {
	h := fmt.Sprintf("comp=%s hash=%s cap=0 shuffle=%d", comp, hx.Pick(r, HashesAll), 1+r.Intn(999))
	for i := 0; i < ntab; i++ {
		c := comp
		if i > 0 && r.Chance(1, 4) {
			c = hx.Pick(r, Comps)
		}
		mn, mx := lfFor(r, c)
		if r.Chance(1, 4) {
			mn, mx = EdgeLF(r, c)
		}
		eqv := "eq"
		if r.Chance(1, 3) {
			eqv = hx.Pick(r, []string{"mod8", "le"})
		}
		h += " " + tWord(i, c, hx.Pick(r, HashesAll), hx.Pick(r, capsFor(c)), mn, mx, eqv)
	}
	return h
}

// itSim predicts the ids the executor hands out (sequences and traversals) and which traversals a change of a table
// breaks (those that have started), so that later ops can name the interesting ones.
type itSim struct {
	content   []map[int]bool
	seqTid    []int
	pullTid   []int
	pullState []int // 0 not started, 1 started, 2 broken or run as a loop
}

func newItSim(ntab int) *itSim {
	s := &itSim{content: make([]map[int]bool, ntab)}
	for i := range s.content {
		s.content[i] = map[int]bool{}
	}
	return s
}

func (s *itSim) mutate(t int) {
	for i, x := range s.pullTid {
		if x == t && s.pullState[i] == 1 {
			s.pullState[i] = 2
		}
	}
}
func (s *itSim) seq(t int) int {
	s.seqTid = append(s.seqTid, t)
	return len(s.seqTid) - 1
}
func (s *itSim) pull(sid int) int {
	if sid >= len(s.seqTid) {
		return -1
	}
	s.pullTid = append(s.pullTid, s.seqTid[sid])
	s.pullState = append(s.pullState, 0)
	return len(s.pullTid) - 1
}

// loop: a sequence run by a for-range (the executor registers a traversal that is over)
func (s *itSim) loop(sid int) {
	if p := s.pull(sid); p >= 0 {
		s.pullState[p] = 2
	}
}
func (s *itSim) next(p int) {
	if p >= 0 && p < len(s.pullState) && s.pullState[p] == 0 {
		s.pullState[p] = 1
	}
}
func (s *itSim) nested(x, y int) {
	s.loop(s.seq(x))
	for range s.content[x] {
		s.loop(s.seq(y))
	}
}
func (s *itSim) validSeqs() []int {
	out := make([]int, len(s.seqTid))
	for i := range out {
		out[i] = i
	}
	return out
}
func (s *itSim) livePulls() []int {
	var out []int
	for i, st := range s.pullState {
		if st != 2 {
			out = append(out, i)
		}
	}
	return out
}

func pfx(t int) string {
	switch t {
	case 0:
		return ""
	case 1:
		return "b."
	}
	return strconv.Itoa(t) + "."
}

// GenPoolMix: operations on ntab tables; the same pair is often put into several tables (so that Equal has a chance
// to be true), values differ by multiples of 8 (so that the coarser value equalities matter).
func GenPoolMix(r *hx.Rand, ntab, n, universe int) []string {
	sim := newItSim(ntab)
	var ops []string
	put := func(t, k, v int) {
		ops = append(ops, fmt.Sprintf("%sput %d %d", pfx(t), k, v))
		sim.content[t][k] = true
		sim.mutate(t)
	}
	del := func(t, k int) {
		ops = append(ops, fmt.Sprintf("%sdelete %d", pfx(t), k))
		delete(sim.content[t], k)
		sim.mutate(t)
	}
	for len(ops) < n {
		t := r.Intn(ntab)
		k := r.Intn(universe)
		switch x := r.Intn(100); {
		case x < 18:
			put(t, k, r.Intn(24))
		case x < 34: // the same pair everywhere (values may differ by 8)
			v := r.Intn(8)
			for u := 0; u < ntab; u++ {
				if r.Chance(5, 6) {
					put(u, k, v+8*r.Intn(2))
				}
			}
		case x < 44:
			del(t, k)
		case x < 52:
			for u := 0; u < ntab; u++ {
				if r.Chance(5, 6) {
					del(u, k)
				}
			}
		case x < 72:
			a, b := r.Intn(ntab), r.Intn(ntab)
			if r.Chance(1, 4) {
				b = a
			}
			if r.Chance(1, 30) {
				b = ntab + r.Intn(2) // no such table
			}
			ops = append(ops, fmt.Sprintf("equal %d %d", a, b))
		case x < 77:
			ops = append(ops, fmt.Sprintf("%sget %d", pfx(t), k))
		case x < 81:
			ops = append(ops, pfx(t)+"size")
		case x < 85:
			ops = append(ops, pfx(t)+"all")
		case x < 88:
			ops = append(ops, pfx(t)+"seq")
			sim.seq(t)
		case x < 92:
			if vs := sim.validSeqs(); len(vs) > 0 {
				sid := hx.Pick(r, vs)
				if r.Bool() {
					ops = append(ops, fmt.Sprintf("range %d %d", sid, r.Range(-1, 4)))
					sim.loop(sid)
				} else {
					ops = append(ops, fmt.Sprintf("pull %d", sid))
					sim.pull(sid)
				}
			}
		case x < 97:
			if lp := sim.livePulls(); len(lp) > 0 {
				p := hx.Pick(r, lp)
				ops = append(ops, fmt.Sprintf("next %d", p))
				sim.next(p)
			} else {
				ops = append(ops, fmt.Sprintf("next %d", r.Intn(3)))
			}
		case x < 98:
			ops = append(ops, pfx(t)+"deleteall")
			sim.content[t] = map[int]bool{}
			sim.mutate(t)
		case x < 99:
			ops = append(ops, pfx(t)+"dump")
		default:
			ops = append(ops, fmt.Sprintf("%sprobes %d", pfx(t), k))
		}
	}
	for a := 0; a < ntab; a++ {
		ops = append(ops, fmt.Sprintf("equal %d %d", a, (a+1)%ntab), fmt.Sprintf("equal %d %d", a, a), pfx(a)+"all")
	}
	return ops
}

// GenIter: traversals as values. Tables 0 and 1 are filled, then sequences are obtained, pulled from (two traversals
// of one table advanced alternately, one ahead of the other), run as loops (to the end, broken off early, twice),
// nested (a table inside its own traversal, a table inside another one's), while the tables are read and the OTHER
// table is changed; then table 0 itself is changed - grown through several resizes, shrunk, emptied - and the
// sequences obtained BEFORE are run again (they must list the table as it is when they are run), traversals that had
// not started start now, and only the traversals that were half-way are over (`invalid`).
func GenIter(r *hx.Rand, n0, n1 int) []string {
	sim := newItSim(2)
	var ops []string
	add := func(format string, a ...any) { ops = append(ops, fmt.Sprintf(format, a...)) }
	next := func(p int) { add("next %d", p); sim.next(p) }
	loop := func(sid, limit int) { add("range %d %d", sid, limit); sim.loop(sid) }
	// a sequence obtained from the EMPTY table, kept to the end
	add("seq")
	sE := sim.seq(0)
	add("pull %d", sE)
	pE := sim.pull(sE) // never started before the table has changed many times
	for i := 0; i < n0; i++ {
		k := i * r.Range(1, 3)
		add("put %d %d", k, 100+i)
		sim.content[0][k] = true
	}
	for i := 0; i < n1; i++ {
		k := i*2 + 1
		add("b.put %d %d", k, 200+i)
		sim.content[1][k] = true
	}
	add("size")
	add("b.size")
	if r.Bool() {
		loop(sE, -1) // obtained at 0 entries, run at n0
	}
	// two traversals of table 0 alive at once
	add("seq")
	s0 := sim.seq(0)
	add("seq")
	s1 := sim.seq(0)
	if r.Chance(1, 3) { // … or two traversals of ONE sequence
		s1 = s0
	}
	add("pull %d", s0)
	p0 := sim.pull(s0)
	ahead := r.Intn(n0/2 + 2)
	for i := 0; i < ahead; i++ {
		next(p0)
	}
	add("pull %d", s1)
	p1 := sim.pull(s1)
	add("b.seq")
	s2 := sim.seq(1)
	add("pull %d", s2)
	p2 := sim.pull(s2)
	steps := n0 + 2 - r.Intn(3)
	for i := 0; i < steps; i++ {
		next(p1)
		if r.Chance(4, 5) {
			next(p0)
		}
		if r.Chance(1, 3) {
			next(p2)
		}
		switch r.Intn(12) {
		case 0:
			add("get %d", r.Intn(2*n0+1))
		case 1:
			add("size")
		case 2:
			add("equal")
		case 3:
			add("all")
		case 4:
			add("equal 0 0")
		case 5: // the other table changes: only its traversals that are half-way end
			k := r.Intn(2*n1 + 3)
			add("b.put %d %d", k, i)
			sim.content[1][k] = true
			sim.mutate(1)
			next(p2)
			if r.Bool() { // a new traversal of the same sequence sees the table as it is now
				add("pull %d", s2)
				p2 = sim.pull(s2)
			}
		case 6:
			loop(s0, r.Range(-1, n0))
		}
	}
	if r.Bool() { // abandoned half-way
		add("stop %d", p0)
		next(p0)
	} else {
		next(p0)
		next(p0)
	}
	next(p1)
	next(p1)
	// a sequence obtained once and run twice (and once more, broken off)
	loop(s0, -1)
	loop(s0, r.Intn(n0+1))
	loop(s0, -1)
	loop(s1, 0)
	// nested loops: a table inside its own traversal, and the two tables inside each other
	add("nested 0 0 -1")
	sim.nested(0, 0)
	add("nested 0 1 %d", r.Range(-1, 3))
	sim.nested(0, 1)
	if len(sim.content[1]) <= 40 {
		add("nested 1 0 %d", r.Range(-1, 2))
		sim.nested(1, 0)
	}
	add("nested 0 0 %d", r.Range(0, 3))
	sim.nested(0, 0)
	// a sequence made by a nested loop is still good
	loop(r.Intn(len(sim.seqTid)), -1)
	add("size")
	add("all")
	// table 0 changes while one traversal is half-way (p3) and another has not started (p4)
	add("pull %d", s1)
	p3 := sim.pull(s1)
	next(p3)
	add("pull %d", s1)
	p4 := sim.pull(s1)
	add("put %d 1", 2*n0+7)
	sim.content[0][2*n0+7] = true
	sim.mutate(0)
	next(p3) // invalid
	next(p1)
	next(p4) // starts now: the table with the new key
	next(p4)
	loop(s0, -1) // obtained before the change, run after it
	add("stop %d", p3)
	// … and through resizes: grow by a few hundred keys, run; shrink, run; empty, run
	grow := r.Range(40, 400)
	add("putn %d %d 1 5", 100000, grow)
	sim.mutate(0)
	next(p4) // was half-way: invalid
	loop(s0, -1)
	loop(sE, r.Range(-1, 5))
	add("pull %d", s0)
	p5 := sim.pull(s0)
	next(p5)
	add("deln %d %d 1", 100000, grow-r.Intn(3))
	sim.mutate(0)
	next(p5) // invalid
	loop(s0, -1)
	loop(s1, -1)
	next(pE) // the traversal obtained from the empty table starts only now
	next(pE)
	add("nested 0 0 -1")
	add("deleteall")
	next(pE)
	loop(s0, -1)
	loop(sE, -1)
	add("put 3 3")
	loop(sE, -1)
	add("next 9999")
	add("pull 9999")
	add("range 9999 -1")
	add("all")
	return ops
}

// IterHeader: two tables of the same implementation (often with different parameters), a shuffle seed that is never 0
// (seed 0 makes every shuffle the identity, under which all traversals of a table walk the same order).
func IterHeader(r *hx.Rand, comp string) string {
	h := fmt.Sprintf("comp=%s hash=%s cap=%d shuffle=%d", comp, hx.Pick(r, HashesAll), hx.Pick(r, capsFor(comp)), 1+r.Intn(99999))
	if r.Bool() {
		c := comp
		if r.Chance(1, 5) {
			c = hx.Pick(r, Comps)
		}
		mn, mx := lfFor(r, c)
		h += " " + tWord(1, c, hx.Pick(r, HashesAll), hx.Pick(r, capsFor(c)), mn, mx, "eq")
	}
	return h
}

// ---------------------------------------------------------------- second round: every small size, every pair of bounds

// LFGrid: every pair (min, max) with min < max from a small grid inside the defaults, among them min > max/2 (a shrink
// leaves the table above the maximum: it grows again while it is being re-filled).
func LFGrid(comp string) [][2]string {
	mins := []string{"1/8", "3/16", "1/4", "5/16", "3/8", "7/16"}
	maxs := []string{"1/4", "5/16", "3/8", "7/16", "1/2"}
	if comp == "chain" {
		mins = []string{"2", "3", "4", "5", "6", "8"}
		maxs = []string{"3", "4", "5", "6", "8", "10"}
	}
	var out [][2]string
	for _, a := range mins {
		for _, b := range maxs {
			if parseLF(a) < parseLF(b) {
				out = append(out, [2]string{a, b})
			}
		}
	}
	return out
}

// GenGrowShrink: grow to n entries, look everything up, shrink in a few steps with look-ups (and probe counts) after
// each step - BEFORE the table grows again -, grow again, empty.
func GenGrowShrink(r *hx.Rand, n int, probes bool) []string {
	var ops []string
	add := func(format string, a ...any) { ops = append(ops, fmt.Sprintf(format, a...)) }
	add("putn 0 %d 1 0", n)
	add("getn -1 %d 1", n+2)
	lo := 0
	for lo < n {
		d := min(n-lo, max(1, (n-lo)/r.Range(2, 4)))
		add("deln %d %d 1", lo, d)
		lo += d
		add("getn %d %d 1", max(0, lo-3), min(n-lo+6, 70))
		if probes {
			add("probesn %d %d 1", max(0, lo-3), min(n-lo+6, 70))
		}
		if r.Chance(1, 3) {
			add("size")
		}
	}
	add("isempty")
	add("putn 0 %d 1 5", n/2+1)
	add("getn 0 %d 1", n/2+3)
	add("deln 0 %d 2", n/4+1)
	add("getn 0 %d 1", n/2+3)
	add("all")
	return ops
}

// GenStaircase: every entry count from 0 to n and back: one key at a time, all keys looked up after every step.
func GenStaircase(r *hx.Rand, n int, probes bool) []string {
	var ops []string
	add := func(format string, a ...any) { ops = append(ops, fmt.Sprintf(format, a...)) }
	look := "getn"
	if probes {
		look = "probesn"
	}
	for i := 0; i < n; i++ {
		add("put %d %d", i, i+1)
		add("getn 0 %d 1", i+2)
		if probes {
			add("probesn 0 %d 1", i+2)
		}
	}
	add("size")
	down := r.Bool()
	for i := 0; i < n; i++ {
		k := i
		if down {
			k = n - 1 - i
		}
		add("delete %d", k)
		add("%s 0 %d 1", look, n)
	}
	add("isempty")
	return ops
}

// ---------------------------------------------------------------- second round: type instantiation

// TypeHeader: the integers of the protocol represented by other Go types; lib = hashed by the library's own function.
func TypeHeader(r *hx.Rand, comp, ktype, vtype string, lib bool) string {
	hname := hx.Pick(r, []string{"id", "const", "mod3", "fnv", "neg"})
	if lib {
		hname = map[string]string{"slice": "libslice", "struct": "libstruct", "string": "libstr", "pointer": "fnv"}[ktype]
	}
	h := fmt.Sprintf("comp=%s hash=%s cap=%d shuffle=%d", comp, hname, hx.Pick(r, capsFor(comp)), 1+r.Intn(999))
	mn, mx := lfFor(r, comp)
	h += lfWords(mn, mx)
	if ktype != "" {
		h += " ktype=" + ktype
	}
	if vtype != "" {
		h += " vtype=" + vtype
	}
	if r.Bool() { // a second table of the same key type with another hash function and value equality
		h += " " + tWord(1, comp, hx.Pick(r, []string{hname, "const", "id"}), hx.Pick(r, capsFor(comp)), "", "", hx.Pick(r, []string{"eq", "mod8"}))
	}
	return h
}

// ---------------------------------------------------------------- second round: walks through the capacity graph

func nextPrime(x int) int {
	for ; ; x++ {
		if x >= 2 && validCap("quadratic", max(x, 31)) && x >= 31 {
			return x
		}
		if x < 31 {
			ok := x >= 2
			for d := 2; d*d <= x; d++ {
				if x%d == 0 {
					ok = false
				}
			}
			if ok {
				return x
			}
		}
	}
}

// capWalk plans operations (fresh keys at the top, the oldest deleted) that drive a quadratic / double table with
// default load factors along a path of the capacity graph m -> nextPrime(2m) (grow) | nextPrime(m/2) (shrink).
type capWalk struct {
	m, n, u int
	lo, hi  int
	ops     []string
}

func (w *capWalk) grow() {
	k := 0
	for grew := false; !grew; {
		if (w.u+1)*2 > w.m {
			if 2*w.n >= w.u {
				w.m, w.u, grew = nextPrime(2*w.m), w.n, true
			} else {
				w.u = w.n // re-hash into the same size
			}
		}
		w.n++
		w.u++
		k++
	}
	w.ops = append(w.ops, fmt.Sprintf("putn %d %d 1 0", w.hi, k))
	w.hi += k
}

func (w *capWalk) shrink() bool {
	if w.m/2 < 31 {
		return false
	}
	k := 0
	for w.n > 0 {
		w.n--
		k++
		if 8*w.n <= w.m {
			w.m, w.u = nextPrime(w.m/2), w.n
			w.ops = append(w.ops, fmt.Sprintf("deln %d %d 1", w.lo, k))
			w.lo += k
			return true
		}
	}
	return false
}

// fill: fresh keys up to the load limit of the current capacity (without growing), then look-ups of absent keys
func (w *capWalk) fill() {
	k := 0
	for (w.u+2)*2 <= w.m {
		w.n++
		w.u++
		k++
	}
	if k > 0 {
		w.ops = append(w.ops, fmt.Sprintf("putn %d %d 1 3", w.hi, k))
		w.hi += k
	}
	w.ops = append(w.ops, fmt.Sprintf("get %d", w.hi+77), fmt.Sprintf("probesn %d 3 1", w.hi+77), "size")
}

// SquareWalk is a path of the capacity graph from `start` whose last resize asks for a capacity just below the square
// of a prime with no prime in between (a primality test that accepts the square lands on it).
type SquareWalk struct {
	Start, Square, MaxCap int
	Path                  string // e.g. "><<" : grow, shrink, shrink
}

// SquareWalks searches the capacity graph (breadth first, capacities up to limit) from every start.
func SquareWalks(starts []int, limit, maxLen int) []SquareWalk {
	squares := map[int]bool{}
	for p := 11; p <= 101; p++ {
		if validCap("quadratic", max(p, 31)) || p == 11 || p == 13 || p == 17 || p == 19 || p == 23 || p == 29 {
			isP := true
			for d := 2; d*d <= p; d++ {
				if p%d == 0 {
					isP = false
				}
			}
			if isP {
				squares[p*p] = true
			}
		}
	}
	crosses := func(req int) int { // the square in [req, nextPrime(req)), if any
		np := nextPrime(req)
		for s := req; s < np; s++ {
			if squares[s] {
				return s
			}
		}
		return 0
	}
	var out []SquareWalk
	for _, st := range starts {
		type node struct {
			m      int
			path   string
			maxCap int
		}
		seen := map[int]bool{st: true}
		found := map[int]bool{}
		queue := []node{{st, "", st}}
		for len(queue) > 0 {
			nd := queue[0]
			queue = queue[1:]
			if len(nd.path) >= maxLen {
				continue
			}
			for _, dir := range []byte{'>', '<'} {
				req := 2 * nd.m
				if dir == '<' {
					req = nd.m / 2
					if req < 31 {
						continue
					}
				}
				if req > limit {
					continue
				}
				if s := crosses(req); s > 0 && !found[s] {
					found[s] = true
					out = append(out, SquareWalk{Start: st, Square: s, MaxCap: max(nd.maxCap, nextPrime(req)), Path: nd.path + string(dir)})
				}
				nm := nextPrime(req)
				if !seen[nm] {
					seen[nm] = true
					queue = append(queue, node{nm, nd.path + string(dir), max(nd.maxCap, nm)})
				}
			}
		}
	}
	return out
}

// Ops of a square walk: follow the path, then fill the table to its load limit and look up absent keys.
func (sw SquareWalk) Ops() []string {
	w := &capWalk{m: sw.Start}
	for _, d := range []byte(sw.Path) {
		if d == '>' {
			w.grow()
		} else if !w.shrink() {
			break
		}
	}
	w.fill()
	w.grow()
	w.fill()
	return w.ops
}

// ---------------------------------------------------------------- the families, for C02 and C03

// capCandidates: the capacities of the InitialCap sweep for comp: every valid one up to `dense`, above that the valid
// ones next to powers of two and to squares of primes plus a random sample (all of them in the thorough tier), and —
// because the constructor must REJECT everything else — every invalid capacity up to `dense`, the squares of primes
// and the neighbours of the powers of two.
func capCandidates(r *hx.Rand, comp string, dense, limit, sample int, all bool) []int {
	set := map[int]bool{}
	for c := 0; c <= dense; c++ {
		set[c] = true
	}
	valid := ValidCaps(comp, limit)
	if all { // thorough: every valid capacity up to 2^13, every 16th beyond (which ones: rotates with the seed)
		off := r.Intn(16)
		for i, c := range valid {
			if c <= 1<<13 || i%16 == off {
				set[c] = true
			}
		}
	}
	near := func(x int) {
		for d := -2; d <= 2; d++ {
			if x+d >= 0 && x+d <= limit {
				set[x+d] = true
			}
		}
		// the valid capacities on both sides
		i := sort.SearchInts(valid, x)
		if i < len(valid) {
			set[valid[i]] = true
		}
		if i > 0 {
			set[valid[i-1]] = true
		}
	}
	for e := uint(2); e <= 17; e++ {
		near(1 << e)
	}
	for p := 11; p*p <= limit && (all || p <= 101); p++ { // squares of primes (quick tier: up to 101^2)
		if validCap("quadratic", p) {
			near(p * p)
		}
	}
	for _, x := range []int{4481, 4482, 8963, 9409, 10201, 17929, 65521, 65537, 131071} {
		near(x)
	}
	for i := 0; i < sample && len(valid) > 0; i++ {
		set[hx.Pick(r, valid)] = true
	}
	out := make([]int, 0, len(set))
	for c := range set {
		out = append(out, c)
	}
	sort.Ints(out)
	return out
}

// MainHarden runs the families of the hardening round for one property; true = stop the run.
// probes = C03 (probe counts measured and bounded, degenerate hash functions preferred).
func MainHarden(run *hx.Run, lim *Limiter, exec hx.Exec, probes bool) bool {
	thorough := run.Thorough() && !lim.Search()
	for ci, comp := range Comps {
		r := run.R.Fork("harden-" + comp)
		do := func(c hx.Case) bool {
			run.Do(comp, c, exec)
			return lim.Stop(run)
		}
		oa := comp == "quadratic" || comp == "double"
		// C03 (probes) runs the families about the contents of the tables (pools, traversals, extreme keys, the
		// constructor contract) thinly in the quick tier: they are C02's subject and run in full there
		thin := func(n int) int {
			if probes && !thorough {
				return max(1, n/4)
			}
			return n
		}

		// ---- traversals as values (the first family: a shared-state defect in All() shows here)
		for k, n := 0, run.Scale(thin(10)); k < n; k++ {
			if do(hx.Case{Header: IterHeader(r, comp), Ops: GenIter(r, r.Range(1, 45), r.Range(0, 30))}) {
				return true
			}
		}
		// ---- pools of tables with different parameters / implementations
		for k, n := 0, run.Scale(thin(12)); k < n; k++ {
			ntab := r.Range(2, 5)
			if do(hx.Case{Header: PoolHeader(r, comp, ntab), Ops: GenPoolMix(r, ntab, r.Range(30, 220), r.Range(3, 30))}) {
				return true
			}
		}
		// ---- number of entries around every small threshold, every hash shape
		for k, n := range SmallThresholds {
			if !thorough && n > 300 && (k+ci+int(run.Seed))%3 != 0 {
				continue // quick tier: one of 1023, 1024, 1025 per implementation and seed
			}
			hname := HashesAll[(k+ci+int(run.Seed))%len(HashesAll)]
			if n > 300 && (hname == "const" || hname == "zero" || hname == "one" || hname == "top" || hname == "max") && comp != "linear" && !thorough {
				hname = "mod3" // a single probe chain of > 300 keys costs n^2/2 probes per fill
			}
			if n > 300 && comp == "linear" && hname != "fnv" && hname != "id" && hname != "neg" && hname != "mulm" && hname != "hi" {
				hname = "id" // linear probing re-inserts the whole cluster on every delete
			}
			hdr := HeaderWith(r, comp, hname, 0, k%4 == 3)
			if n > 300 && !thorough { // (bounds with 2*min > max re-hash twice on every delete below the minimum)
				hdr = fmt.Sprintf("comp=%s hash=%s cap=0 shuffle=%d", comp, hname, 1+r.Intn(999))
				if k%2 == 0 {
					hdr += hx.Pick(r, []string{" minlf=1/8 maxlf=1/4", " minlf=3/16 maxlf=1/2", " maxlf=3/8"})
					if comp == "chain" {
						hdr = strings.Split(hdr, " minlf")[0]
						hdr = strings.Split(hdr, " maxlf")[0] + hx.Pick(r, []string{" minlf=2 maxlf=5", " minlf=4 maxlf=10", " maxlf=6"})
					}
				}
			}
			if do(hx.Case{Header: hdr, Ops: GenSizeSweep(r, n, probes)}) {
				return true
			}
		}
		// ---- … and around the large ones (bulk ops; one state digest per bulk op)
		for k, n := range BigThresholds {
			if !thorough && ((n > 10000 && ((k+ci+int(run.Seed))%4 != 0 || (ci+int(run.Seed))%2 != 0)) || (n < 10000 && (k+ci+int(run.Seed))%2 != 0)) {
				continue // quick tier: 4482 or 9409 per implementation and seed; one of the four sizes around 2^16 for two of the four implementations
			}
			// well-spread hash functions only: a long probe chain costs n^2/2 probes per fill at this size
			hname := []string{"fnv", "id", "neg"}[(k+ci)%3]
			if comp == "linear" {
				// consecutive keys under an order-preserving hash form ONE cluster of n slots, and linear probing's Delete
				// re-inserts the rest of the cluster: n^2/2 re-insertions to empty the table
				hname = "fnv"
			}
			// default load factors: bounds with 2*min > max make every delete below the minimum re-hash twice
			// (shrink, then grow again while re-inserting) - admitted by the property, but quadratic at this size
			if do(hx.Case{Header: fmt.Sprintf("comp=%s hash=%s cap=0 shuffle=%d", comp, hname, 1+r.Intn(999)), Ops: GenSizeSweep(r, n, probes)}) {
				return true
			}
		}
		// ---- long grow / shrink walks through many capacities
		for k, n := 0, run.Scale(6); k < n; k++ {
			hname := hx.Pick(r, []string{"fnv", "id", "neg", "mulm"})
			peak := r.Range(300, 1500)
			if k%2 == 1 { // every key collides: the walk stays small, the probe chains are as long as they get
				hname = hx.Pick(r, HashesColliding)
				peak = r.Range(60, 330)
				if comp == "linear" {
					peak = r.Range(40, 120)
				}
			}
			if thorough && k%6 == 0 {
				peak = r.Range(5000, 12000)
				hname = "fnv"
			}
			cp := 0
			if r.Chance(1, 3) {
				cp = hx.Pick(r, capsFor(comp))
				if oa && r.Bool() {
					cp = hx.Pick(r, []int{569, 577, 283, 293, 1129, 113, 241}) // walks that pass the squares 121, 289, 529
				}
			}
			hdr := HeaderWith(r, comp, hname, cp, r.Chance(1, 4))
			if k%2 == 1 && r.Bool() {
				peak = min(peak, 110) // colliding keys AND arbitrary bounds: each of the two re-hashes per delete costs n^2/2 probes
			}
			if peak > 400 || (k%2 == 1 && peak > 110) { // bounds with 2*min > max re-hash twice on every delete below the minimum: keep those walks small
				hdr = fmt.Sprintf("comp=%s hash=%s cap=%d shuffle=%d", comp, hname, cp, 1+r.Intn(999))
			}
			if do(hx.Case{Header: hdr, Ops: GenWalk(r, peak, r.Range(4, 12), probes)}) {
				return true
			}
		}
		// the walk from the default capacity up to 1117 and down through 563 / 569 to 289-293, every key colliding
		if oa {
			for _, hname := range []string{"const", "zero"} {
				ops := []string{"putn 0 279 1 0", "deln 0 140 1", "putn 279 143 1 1", "deln 140 211 1", "size", "putn 1000 80 1 2", "probesn 990 100 1",
					"getn 990 100 1", "deln 1000 80 1", "putn 2000 140 1 3", "get 5000", "size"}
				if do(hx.Case{Header: fmt.Sprintf("comp=%s hash=%s cap=0 shuffle=%d", comp, hname, 1+r.Intn(999)), Ops: ops}) {
					return true
				}
			}
		}
		// ---- load-factor bounds at the edges
		for k, n := 0, run.Scale(6); k < n; k++ {
			hdr := HeaderWith(r, comp, hx.Pick(r, HashesAll), hx.Pick(r, capsFor(comp)), true)
			ops := genSweep(r, r.Range(30, 200))
			if k%2 == 1 {
				ops = genMixed(r, r.Range(60, 250), r.Range(5, 60))
			}
			if do(hx.Case{Header: hdr, Ops: ops}) {
				return true
			}
		}
		// ---- every hash shape: churn of hundreds of operations with a small live set; small universes
		for k, hname := range HashesAll {
			if k < 5 && !thorough {
				continue // the first five are the families of the earlier rounds
			}
			if do(hx.Case{Header: Header(r, comp, hname), Ops: GenChurn(r, r.Intn(14), r.Range(150, 500), probes)}) ||
				do(hx.Case{Header: Header(r, comp, hname), Ops: genMixed(r, r.Range(40, 200), r.Range(3, 40))}) {
				return true
			}
		}
		// ---- thousands of operations
		for k, n := 0, run.Scale(1); k < n; k++ {
			nops := r.Range(2000, 4000)
			if thorough {
				nops = r.Range(8000, 20000)
			}
			if do(hx.Case{Header: Header(r, comp, hx.Pick(r, HashesAll)), Ops: GenLong(r, nops, r.Range(6, 70))}) {
				return true
			}
		}
		// ---- extreme keys
		for k, n := 0, run.Scale(thin(6)); k < n; k++ {
			hname := []string{"id", "fnv", "neg", "hi", "mulm", "pow", "modm"}[k%7]
			if do(hx.Case{Header: Header(r, comp, hname), Ops: GenExtremeKeys(r, r.Range(40, 200))}) {
				return true
			}
		}
		// ---- second round: the type parameters instantiated with []int / struct / string / pointer keys (hashed by the
		// library's own hash functions, or by a user function) and with []int values (not comparable, with an eqVal)
		for _, kt := range []string{"slice", "struct", "string", "pointer", ""} {
			for j := 0; j < thin(4); j++ {
				vt := ""
				if j%2 == 1 || kt == "" {
					vt = "slice"
				}
				hdr := TypeHeader(r, comp, kt, vt, j < 2 && kt != "")
				ops := genMixed(r, r.Range(40, 160), r.Range(4, 40))
				switch j {
				case 2:
					ops = GenIter(r, r.Range(1, 30), r.Range(0, 20))
				case 3:
					ops = GenGrowShrink(r, r.Range(20, 150), probes)
				}
				if do(hx.Case{Header: hdr, Ops: ops}) {
					return true
				}
			}
		}
		// ---- second round: EVERY pair of load-factor bounds of a grid (min > max/2 included) x a grow-then-shrink walk
		// with look-ups before the table grows again, under a well-spread, a three-valued and a constant hash
		for gi, lf := range LFGrid(comp) {
			for hi, hname := range []string{"fnv", "mod3", "const"} {
				if probes && hname == "fnv" && !thorough {
					continue
				}
				n := r.Range(30, 200)
				if hname == "const" || (comp == "linear" && hname == "mod3") {
					n = r.Range(30, 110)
				}
				if comp == "linear" && hname == "const" {
					n = r.Range(20, 60)
				}
				if comp == "chain" {
					n = r.Range(30, 400) // the chain table shrinks at 2 entries per bucket: more entries, more resizes
				}
				hdr := fmt.Sprintf("comp=%s hash=%s cap=%d shuffle=%d minlf=%s maxlf=%s", comp, hname,
					[]int{0, 0, hx.Pick(r, capsFor(comp))}[(gi+hi)%3], 1+r.Intn(999), lf[0], lf[1])
				if do(hx.Case{Header: hdr, Ops: GenGrowShrink(r, n, probes)}) {
					return true
				}
			}
		}
		// ---- second round: every entry count from 0 to 200 and back, one key at a time, everything looked up at every step
		for k, hname := range []string{"fnv", "mod3", "id"} {
			n := 200
			if comp == "linear" && hname == "mod3" {
				n = 120
			}
			hdr := fmt.Sprintf("comp=%s hash=%s cap=0 shuffle=%d", comp, hname, 1+r.Intn(999))
			if k == 1 {
				lf := hx.Pick(r, LFGrid(comp))
				hdr += " minlf=" + lf[0] + " maxlf=" + lf[1]
			}
			if do(hx.Case{Header: hdr, Ops: GenStaircase(r, n, probes)}) {
				return true
			}
		}
		// ---- second round: walks through the capacity graph m -> nextPrime(2m) | nextPrime(m/2) whose last resize asks for a
		// capacity just below the square of a prime (11^2 .. 101^2) with no prime in between, every key colliding, then
		// the table filled to its load limit and absent keys looked up. Quick tier: the walks that stay below 1200
		// slots; Huge: one walk per square (the cheapest over several starting capacities) and every walk from the
		// default capacity (the 19-resize rhythm to 3481 = 59^2 among them), judged by the oracle only above 2000 slots.
		if oa {
			starts := []int{31, 61, 131, 263}
			limit, maxLen := 1200, 10
			if run.Huge() {
				starts, limit, maxLen = []int{31, 37, 61, 131, 263, 839, 3343}, 21000, 22
			}
			best := map[int]SquareWalk{}
			var walks []SquareWalk
			for _, sw := range SquareWalks(starts, limit, maxLen) {
				if sw.Start == 31 && run.Huge() {
					walks = append(walks, sw)
					continue
				}
				if b, ok := best[sw.Square]; !ok || sw.MaxCap < b.MaxCap {
					best[sw.Square] = sw
				}
			}
			for _, sw := range best {
				walks = append(walks, sw)
			}
			sort.Slice(walks, func(i, j int) bool {
				if walks[i].Square != walks[j].Square {
					return walks[i].Square < walks[j].Square
				}
				return walks[i].Start < walks[j].Start
			})
			for _, sw := range walks {
				hdr := fmt.Sprintf("comp=%s hash=%s cap=%d shuffle=%d", comp, hx.Pick(r, []string{"const", "zero", "max"}), sw.Start, 1+r.Intn(999))
				if do(hx.Case{Header: hdr, Ops: sw.Ops(), NoModel: sw.MaxCap > 2000}) {
					return true
				}
			}
		}
		// ---- second round, Huge only: a table of 10^6 entries (oracle only)
		if run.Huge() {
			ops := []string{"putn 0 1000000 1 0", "size", "getn 999000 2000 1", "getn -5 10 1", "probesn 0 1000 997", "put 1000000 1", "get 1000000",
				"deln 0 999990 1", "size", "getn 999980 30 1", "putn 2000000 50 1 1", "size", "deleteall", "isempty", "put 1 1", "get 1"}
			if do(hx.Case{Header: fmt.Sprintf("comp=%s hash=fnv cap=0 shuffle=%d", comp, 1+r.Intn(999)), Ops: ops, NoModel: true}) {
				return true
			}
		}
		// ---- InitialCap: every capacity up to `dense`, valid or not; beyond that see capCandidates
		dense, sample := 200, 10
		if probes {
			dense, sample = 40, 4
		}
		if thorough {
			dense, sample = 3000, 0
		}
		for _, cp := range capCandidates(r, comp, dense, 1<<17, sample, thorough) {
			hname := HashesAll[cp%len(HashesAll)]
			hdr := fmt.Sprintf("comp=%s hash=%s cap=%d shuffle=%d", comp, hname, cp, cp%7)
			if cp%5 == 0 {
				mn, mx := EdgeLF(r, comp)
				hdr += lfWords(mn, mx)
			}
			if do(hx.Case{Header: hdr, Ops: GenCapProbe(r, cp)}) {
				return true
			}
		}
	}
	return false
}
