package main

// Workloads of the hardening round:
//
//   - LARGE private instances, built concurrently from a cold process (the concurrent phase of main comes first;
//     nothing here runs before it): hash tables growing past 4482 / 10^4 / 65536 entries (capacities past 97^2 = 9409,
//     2^16), sets of 10^4 members, ordered tables, heaps, tries, graphs, sorts, lists and union-find at 10^4..7*10^4,
//     grammars with hundreds of symbols, the lexer input with buffers of 4096 and 65536 bytes.  A package-level
//     table, cache or scratch buffer that is grown "once" is grown by the first goroutine to get there while the
//     others read it.
//   - iterators obtained once and run twice, two iterators over one object advanced alternately, an iterator
//     abandoned half-way: every All() of the library, on private instances.
//   - every exported constructor and package-level function of every package that the other workloads do not
//     call directly (api-sweep).
//
// Every function touches only what it creates itself.

import (
	"bytes"
	"fmt"
	"io"
	"iter"
	"math/rand"
	"strings"

	"github.com/moorara/algo/automata"
	"github.com/moorara/algo/dot"
	algoerrors "github.com/moorara/algo/errors"
	"github.com/moorara/algo/generic"
	"github.com/moorara/algo/grammar"
	"github.com/moorara/algo/graph"
	"github.com/moorara/algo/hash"
	"github.com/moorara/algo/heap"
	"github.com/moorara/algo/lexer/input"
	"github.com/moorara/algo/list"
	"github.com/moorara/algo/parser/combinator"
	"github.com/moorara/algo/parser/lr"
	"github.com/moorara/algo/parser/lr/lookahead"
	"github.com/moorara/algo/parser/lr/simple"
	"github.com/moorara/algo/parser/predictive"
	"github.com/moorara/algo/radixsort"
	"github.com/moorara/algo/set"
	algosort "github.com/moorara/algo/sort"
	"github.com/moorara/algo/symboltable"
	"github.com/moorara/algo/trie"
	"github.com/moorara/algo/unionfind"
)

func init() {
	workloads["large-hashtables"] = wLargeHashTables
	workloads["large-sets"] = wLargeSets
	workloads["large-structures"] = wLargeStructures
	workloads["large-grammar"] = wLargeGrammar
	workloads["iter-twice"] = wIterTwice
	workloads["api-sweep"] = wAPISweep
}

// largeSizes: just past the entry counts at which a table with the default load factor reaches a capacity of
// 97^2 = 9409 (4482 entries), 10^4, 2^16.
var largeSizes = []int{4483, 5000, 10001, 20011, 65537, 70001}

func pickLarge(r *rng, max int) int {
	for {
		if n := largeSizes[r.intn(len(largeSizes))]; n <= max {
			return n
		}
	}
}

// ---------------------------------------------------------------- hash tables

func wLargeHashTables(seed uint64) *result {
	r := newRng(seed)
	res := &result{}
	eqI := generic.NewEqualFunc[int]()
	kinds := hashTableKinds[int, int](func() hash.HashFunc[int] { return hash.HashFuncForInt[int](nil) }, eqI, eqI)
	// one large table of each of two kinds (the open-addressing ones first: their capacities are primes)
	for round := 0; round < 2; round++ {
		ki := (int(seed) + 2 + round) % len(kinds)
		n := pickLarge(r, 20011)
		if r.intn(3) == 0 {
			n = pickLarge(r, 70001)
		}
		t := kinds[ki]()
		salt := r.intn(1000)
		for i := 0; i < n; i++ {
			t.Put(i*7+salt, i)
			if i%512 == 0 {
				yield()
				// meanwhile: small tables of one's own come and go (every constructor and every re-size of the
				// open-addressing tables looks for a prime capacity)
				s := kinds[2+i/512%2]()
				for j := 0; j < 40; j++ {
					s.Put(j+i, j)
				}
				for j := 0; j < 40; j += 3 {
					s.Delete(j + i)
				}
				res.add("small %d %d", i, s.Size())
			}
		}
		count, keys, vals := 0, 0, 0
		for k, v := range t.All() {
			count++
			keys += k
			vals += v
		}
		res.add("large table kind=%d n=%d size=%d count=%d keys=%d vals=%d", ki, n, t.Size(), count, keys, vals)
		for i := 0; i < n; i++ { // shrink back through every capacity
			if i%9 != 0 {
				t.Delete(i*7 + salt)
			}
			if i%1024 == 0 {
				yield()
			}
		}
		v, ok := t.Get(9*7 + salt)
		res.add("shrunk kind=%d size=%d get=%d,%v", ki, t.Size(), v, ok)
	}
	// explicit initial capacities around the thresholds (quadratic / double: must be prime; linear / chain: power of 2)
	for _, c := range []int{9413, 10007, 65537, 131071} {
		for ki := 2; ki < 4; ki++ {
			var t symboltable.SymbolTable[int, int]
			if ki == 2 {
				t = symboltable.NewQuadraticHashTable(hash.HashFuncForInt[int](nil), eqI, eqI, symboltable.HashOpts{InitialCap: c})
			} else {
				t = symboltable.NewDoubleHashTable(hash.HashFuncForInt[int](nil), eqI, eqI, symboltable.HashOpts{InitialCap: c})
			}
			for j := 0; j < 100; j++ {
				t.Put(j*31+c, j)
			}
			res.add("cap %d kind %d size %d", c, ki, t.Size())
		}
		yield()
	}
	for _, c := range []int{16384, 65536} {
		l := symboltable.NewLinearHashTable(hash.HashFuncForInt[int](nil), eqI, eqI, symboltable.HashOpts{InitialCap: c})
		ch := symboltable.NewChainHashTable(hash.HashFuncForInt[int](nil), eqI, eqI, symboltable.HashOpts{InitialCap: c})
		for j := 0; j < 100; j++ {
			l.Put(j*31+c, j)
			ch.Put(j*31+c, j)
		}
		res.add("cap2 %d %d %d", c, l.Size(), ch.Size())
	}
	// string keys, long and short, past 4482 entries
	name := namer(seed%2 == 1, seed)
	eqS := generic.NewEqualFunc[string]()
	st := symboltable.NewQuadraticHashTable(hash.HashFuncForString[string](nil), eqS, eqI, symboltable.HashOpts{})
	for i := 0; i < 4600; i++ {
		st.Put(name("key", i), i)
		if i%512 == 0 {
			yield()
		}
	}
	sum := 0
	for _, v := range st.All() {
		sum += v
	}
	res.add("strings size %d sum %d", st.Size(), sum)
	return res
}

// ---------------------------------------------------------------- sets

func wLargeSets(seed uint64) *result {
	r := newRng(seed)
	res := &result{}
	eq := generic.NewEqualFunc[int]()
	cmp := generic.NewCompareFunc[int]()
	n := 10000 + r.intn(9)
	vals := make([]int, n)
	for i := range vals {
		vals[i] = i*3 + r.intn(3)
	}
	sum := func(s set.Set[int]) (c, t int) {
		for v := range s.All() {
			c++
			t += v
		}
		return
	}
	// one set of 10^4 members of the kind the seed selects (the unordered and the stable set look a member up
	// linearly: 10^4 members are 5*10^7 comparisons), the other two kinds at 2000
	for ki, mk := range []func(vals ...int) set.Set[int]{
		func(vals ...int) set.Set[int] { return set.New(eq, vals...) },
		func(vals ...int) set.Set[int] { return set.NewStable(eq, vals...) },
		func(vals ...int) set.Set[int] { return set.NewSorted(cmp, vals...) },
	} {
		m := 2000
		if ki == int(seed%3) || ki == 2 {
			m = n
		}
		s := mk()
		for i := 0; i < m; i += 500 {
			s.Add(vals[i:min(i+500, m)]...)
			yield()
		}
		c, t := sum(s)
		res.add("set kind %d n=%d size %d count %d sum %d", ki, m, s.Size(), c, t)
		small := mk(vals[0], vals[7], vals[m-1], -5)
		u, in, df := s.Union(small), s.Intersection(small), small.Difference(s)
		c1, t1 := sum(u)
		c2, t2 := sum(in)
		c3, t3 := sum(df)
		res.add("set kind %d union %d/%d inter %d/%d diff %d/%d sub %v", ki, c1, t1, c2, t2, c3, t3, in.IsSubset(s))
		s.Remove(vals[:m/2]...)
		c, t = sum(s)
		res.add("set kind %d removed size %d count %d sum %d clone-equal %v", ki, s.Size(), c, t, s.Equal(s.Clone()))
		yield()
	}
	return res
}

// ---------------------------------------------------------------- everything else at 10^4 .. 7*10^4

func wLargeStructures(seed uint64) *result {
	r := newRng(seed)
	res := &result{}
	cmpI := generic.NewCompareFunc[int]()
	eqI := generic.NewEqualFunc[int]()
	cmpS := generic.NewCompareFunc[string]()
	n := pickLarge(r, 70001)
	xs := make([]int, n)
	for i := range xs {
		xs[i] = r.intn(4*n) - n
	}
	switch seed % 5 {
	case 0: // sorts
		for _, s := range []struct {
			name string
			f    func([]int, generic.CompareFunc[int])
		}{{"quick", algosort.Quick[int]}, {"quick3", algosort.Quick3Way[int]}, {"merge", algosort.Merge[int]}, {"mergerec", algosort.MergeRec[int]},
			{"heap", algosort.Heap[int]}, {"shell", algosort.Shell[int]}} {
			ys := append([]int{}, xs...)
			s.f(ys, cmpI)
			res.add("sort %s n=%d %v %v", s.name, n, ys[:4], ys[n-4:])
			yield()
		}
		ys := append([]int{}, xs[:4483]...)
		algosort.Insertion(ys, cmpI)
		zs := append([]int{}, xs[:4483]...)
		algosort.Selection(zs, cmpI)
		res.add("quadratic sorts %v %v", ys[:4], zs[:4])
		ys = append([]int{}, xs...)
		radixsort.LSDInt(ys)
		zs = append([]int{}, xs...)
		radixsort.MSDInt(zs)
		us := make([]uint, n)
		for i, x := range xs {
			us[i] = uint(x + n)
		}
		vs := append([]uint{}, us...)
		radixsort.LSDUint(us)
		radixsort.MSDUint(vs)
		res.add("radix %v %v %v %v", ys[:4], zs[n-4:], us[:4], vs[n-4:])
		ss := make([]string, 20011)
		for i := range ss {
			ss[i] = fmt.Sprintf("k%07d", r.intn(1<<22))
		}
		a, b, c := append([]string{}, ss...), append([]string{}, ss...), append([]string{}, ss...)
		radixsort.LSDString(a, 8)
		radixsort.MSDString(b)
		radixsort.Quick3WayString(c)
		res.add("radixstr %v %v %v", a[:3], b[:3], c[:3])
	case 1: // ordered tables and tries
		for ti, t := range []symboltable.OrderedSymbolTable[int, int]{
			symboltable.NewBST[int, int](cmpI, eqI), symboltable.NewAVL[int, int](cmpI, eqI), symboltable.NewRedBlack[int, int](cmpI, eqI)} {
			for i, x := range xs {
				t.Put(x, i)
				if i%2048 == 0 {
					yield()
				}
			}
			for i := 0; i < n/2; i++ {
				t.Delete(xs[i])
			}
			mn, _, _ := t.Min()
			mx, _, _ := t.Max()
			c, s := 0, 0
			for k := range t.All() {
				c++
				s += k
			}
			res.add("ordered %d n=%d size %d min %d max %d count %d sum %d rank %d", ti, n, t.Size(), mn, mx, c, s, t.Rank(0))
		}
		for ti, t := range []trie.Trie[int]{trie.NewBinary[int](eqI), trie.NewPatricia[int](eqI)} {
			m := 10001
			for i := 0; i < m; i++ {
				t.Put(fmt.Sprintf("w%d/%x", xs[i%n], i), i)
				if i%1024 == 0 {
					yield()
				}
			}
			for i := 0; i < m/3; i++ {
				t.Delete(fmt.Sprintf("w%d/%x", xs[i%n], i))
			}
			mn, _, _ := t.Min()
			c := 0
			for range t.All() {
				c++
			}
			res.add("trie %d size %d count %d min %s prefix %d", ti, t.Size(), c, mn, len(t.WithPrefix("w1")))
		}
		_ = cmpS
	case 2: // heaps
		eqS := generic.NewEqualFunc[string]()
		for hi, h := range []heap.Heap[int, string]{heap.NewBinary[int, string](2, cmpI, eqS), heap.NewBinomial[int, string](cmpI, eqS), heap.NewFibonacci[int, string](cmpI, eqS)} {
			for i, k := range xs {
				h.Insert(k, "v")
				if i%2048 == 0 {
					yield()
				}
			}
			s := 0
			for i := 0; i < n/2; i++ {
				k, _, _ := h.Delete()
				s += k
			}
			pk, _, _ := h.Peek()
			res.add("heap %d n=%d size %d peek %d sum %d", hi, n, h.Size(), pk, s)
		}
		m := 20011
		for hi, h := range []heap.IndexedHeap[int, string]{heap.NewIndexedBinary[int, string](m, cmpI, eqS), heap.NewIndexedBinomial[int, string](m, cmpI, eqS), heap.NewIndexedFibonacci[int, string](m, cmpI, eqS)} {
			for i := 0; i < m; i++ {
				h.Insert(i, xs[i%n], "v")
			}
			for i := 0; i < m; i += 3 {
				h.ChangeKey(i, xs[i%n]/2)
			}
			for i := 1; i < m; i += 5 {
				h.DeleteIndex(i)
			}
			s := 0
			for i := 0; i < m/3; i++ {
				idx, k, _, _ := h.Delete()
				s += idx ^ k
			}
			res.add("indexed %d size %d sum %d", hi, h.Size(), s)
			yield()
		}
	case 3: // graphs
		V := 10001
		ug, dg := graph.NewUndirected(V), graph.NewDirected(V)
		for i := 0; i < 3*V; i++ {
			v, w := r.intn(V), r.intn(V)
			ug.AddEdge(v, w)
			if v < w {
				dg.AddEdge(v, w)
			} else if i%97 == 0 {
				dg.AddEdge(v, w) // a few back edges: cycles, non-trivial strong components
			}
			if i%2048 == 0 {
				yield()
			}
		}
		cc := ug.ConnectedComponents().Components()
		scc := dg.StronglyConnectedComponents().Components()
		_, acyclic := dg.Topological().Order()
		cyc, has := dg.DirectedCycle().Cycle()
		po := dg.Orders(graph.DFSi)
		p, ok := ug.Paths(0, graph.BFS).To(V - 1)
		res.add("graph V=%d E=%d/%d cc=%d scc=%d acyclic=%v cycle=%d,%v post=%d path=%d,%v rev=%d", V, ug.E(), dg.E(), len(cc), len(scc), acyclic, len(cyc), has,
			len(po.PostOrder()), len(p), ok, dg.Reverse().E())
		wu, wd, fn := graph.NewWeightedUndirected(64), graph.NewWeightedDirected(64), graph.NewFlowNetwork(64)
		var ue graph.UndirectedEdge
		var de graph.DirectedEdge
		var fe graph.FlowEdge
		for i := 0; i < 100; i++ {
			wu.AddEdge(ue)
			wd.AddEdge(de)
			fn.AddEdge(fe)
		}
		_, _, reach := wd.ShortestPathTree(0).PathTo(0)
		res.add("weighted %d %d %d mst=%d spt=%v dot=%d", wu.E(), wd.E(), fn.E(), len(wu.MinimumSpanningTree().Edges()), reach, len(fn.DOT()))
	default: // lists, union-find, lexer input with large buffers
		q := list.NewQueue[int](1024, eqI)
		st := list.NewStack[int](1024, eqI)
		sq := list.NewSoftQueue[int](eqI)
		for i, x := range xs {
			q.Enqueue(x)
			st.Push(x)
			sq.Enqueue(x)
			if i%2048 == 0 {
				yield()
			}
		}
		s := 0
		for i := 0; i < n-7; i++ {
			a, _ := q.Dequeue()
			b, _ := st.Pop()
			c, _ := sq.Dequeue()
			s += a ^ b ^ c
		}
		res.add("lists n=%d sum %d left %d %d %d has %v", n, s, q.Size(), st.Size(), sq.Size(), q.Contains(xs[n-1]))
		for ui, u := range []unionfind.UnionFind{unionfind.NewQuickUnion(n), unionfind.NewWeightedQuickUnion(n), unionfind.NewQuickFind(4483)} {
			m := n
			if ui == 2 {
				m = 4483
			}
			for i := 0; i < m; i++ {
				u.Union(r.intn(m), r.intn(m))
			}
			res.add("uf %d n=%d count %d", ui, m, u.Count())
			yield()
		}
		var text strings.Builder
		for i := 0; text.Len() < 300000; i++ {
			text.WriteString(longName("wörd€", seed, r.intn(500))[:6+r.intn(30)])
			text.WriteByte(" \n"[r.intn(2)])
		}
		for _, bn := range []int{4096, 65536} {
			in, err := input.New("large", strings.NewReader(text.String()), bn)
			if err != nil {
				res.add("input %d err", bn)
				continue
			}
			runes, lex, bytesOut := 0, 0, 0
			for {
				c, err := in.Next()
				if err != nil {
					if err != io.EOF {
						res.add("input error %v", err)
					}
					break
				}
				runes++
				if c == ' ' || c == '\n' {
					l, _ := in.Lexeme()
					lex++
					bytesOut += len(l)
				}
			}
			res.add("input n=%d runes %d lexemes %d bytes %d", bn, runes, lex, bytesOut)
			yield()
		}
	}
	return res
}

// ---------------------------------------------------------------- grammars with hundreds of symbols

// wideGrammar: nt non-terminals, tt terminals; N_i → t_a N_(i+1) | t_b | t_c N_j t_d …: LL(1)-ish chains with cross
// references, every non-terminal productive and reachable.
func wideGrammar(r *rng, nt, tt int, long bool, salt uint64) gspec {
	name := namer(long, salt)
	var g gspec
	for i := 0; i < tt; i++ {
		g.terms = append(g.terms, grammar.Terminal(name("t", i)))
	}
	for i := 0; i < nt; i++ {
		g.nonTerms = append(g.nonTerms, grammar.NonTerminal(name("N", i)))
	}
	g.start = g.nonTerms[0]
	for i, A := range g.nonTerms {
		a, b, c := g.terms[(3*i)%tt], g.terms[(3*i+1)%tt], g.terms[(3*i+2)%tt]
		g.prods = append(g.prods, prod(A, a))
		if i+1 < nt {
			g.prods = append(g.prods, prod(A, b, g.nonTerms[i+1]))
		}
		if j := r.intn(nt); j > i {
			g.prods = append(g.prods, prod(A, c, g.nonTerms[j], g.terms[r.intn(tt)]))
		}
		if i%7 == 3 {
			g.prods = append(g.prods, prod(A))
		}
	}
	return g
}

func wLargeGrammar(seed uint64) *result {
	r := newRng(seed)
	res := &result{}
	// 100..130 non-terminals and as many terminals and more (over 200 symbols, 250..330 productions); one seed in
	// eight 260 (over 500 symbols).  FIRST / FOLLOW / LL(1) and the transformations take these; the LR(0) automaton
	// behind the SLR table is cubic in practice and gets a grammar of 20 non-terminals.
	nt := 100 + 10*r.intn(4)
	if seed%8 == 0 {
		nt = 260
	}
	g := wideGrammar(r, nt, nt+17, seed%2 == 1, seed)
	G := g.build()
	res.add("grammar nt=%d prods=%d verify=%v", nt, len(g.prods), G.Verify() == nil)
	yield()
	first := G.ComputeFIRST()
	follow := G.ComputeFOLLOW(first)
	fs, fl := 0, 0
	for _, A := range g.nonTerms {
		fs += first(grammar.String[grammar.Symbol]{A}).Terminals.Size()
		fl += follow(A).Terminals.Size()
	}
	res.add("first %d follow %d nullable %d", fs, fl, G.NullableNonTerminals().Size())
	yield()
	if T, err := predictive.BuildParsingTable(G); err == nil {
		res.add("ll1 conflicts=%v len=%d", T.Conflicts() != nil, len(T.String()))
	} else {
		res.add("ll1 error %d", len(err.Error()))
	}
	yield()
	// LR on a narrower one (the LR(0) automaton of the wide grammar has as many states as it has symbols in bodies)
	g2 := wideGrammar(r, 20, 37, seed%2 == 1, seed+1)
	G2 := g2.build()
	if T, err := simple.BuildParsingTable(G2, lr.PrecedenceLevels{}); err == nil {
		res.add("slr %d", len(T.String()))
	} else {
		res.add("slr error %d", len(err.Error()))
	}
	yield()
	cnf := G2.ChomskyNormalForm()
	elr := G2.EliminateLeftRecursion()
	lf := G2.LeftFactor()
	np := func(G *grammar.CFG) (n int) {
		for range G.Productions.All() {
			n++
		}
		return n
	}
	res.add("transforms cnf=%d elr=%d lf=%d clone-equal=%v", np(cnf), np(elr), np(lf), G2.Clone().Equal(G2))
	return res
}

// ---------------------------------------------------------------- iterators used twice, alternately, abandoned

// twice runs ONE iterator value two times and returns both traversals' canonical digests and lengths.
func twice[T any](seq iter.Seq[T], show func(T) string) string {
	var a, b []string
	for v := range seq {
		a = append(a, show(v))
	}
	for v := range seq {
		b = append(b, show(v))
	}
	return fmt.Sprintf("%d/%d %s | %s", len(a), len(b), sortedJoin(a), sortedJoin(b))
}

func twice2[K, V any](seq iter.Seq2[K, V], show func(K, V) string) string {
	var a, b []string
	for k, v := range seq {
		a = append(a, show(k, v))
	}
	n := 0
	for k, v := range seq { // the second run is abandoned and run a third time
		b = append(b, show(k, v))
		if n++; n == 3 {
			break
		}
	}
	b = b[:0]
	for k, v := range seq {
		b = append(b, show(k, v))
	}
	return fmt.Sprintf("%d/%d %s | %s", len(a), len(b), sortedJoin(a), sortedJoin(b))
}

// alternate advances two pull iterators over the same object in turn.
func alternate[T any](mk func() iter.Seq[T], show func(T) string) string {
	n1, s1 := iter.Pull(mk())
	n2, s2 := iter.Pull(mk())
	defer s1()
	defer s2()
	var a, b []string
	for {
		v, ok1 := n1()
		if ok1 {
			a = append(a, show(v))
		}
		w, ok2 := n2()
		if ok2 {
			b = append(b, show(w))
		}
		if !ok1 && !ok2 {
			break
		}
	}
	return fmt.Sprintf("%d/%d %s | %s", len(a), len(b), sortedJoin(a), sortedJoin(b))
}

func wIterTwice(seed uint64) *result {
	r := newRng(seed)
	res := &result{}
	eq := generic.NewEqualFunc[int]()
	cmp := generic.NewCompareFunc[int]()
	eqS := generic.NewEqualFunc[string]()
	showI := func(v int) string { return fmt.Sprint(v) }
	showKV := func(k, v int) string { return fmt.Sprint(k, "=", v) }
	showSV := func(k string, v int) string { return fmt.Sprint(k, "=", v) }
	for round := 0; round < 40; round++ {
		size := 1 + (round*7+int(seed%13)*3)%40
		for ki, s := range []set.Set[int]{set.New(eq), set.NewStable(eq), set.NewSorted(cmp),
			set.NewWithFormat(eq, func(m []int) string { return fmt.Sprint(len(m)) })} {
			for k := 0; k < size; k++ {
				s.Add(1000*round + k*3 + r.intn(3))
			}
			seq := s.All()
			res.add("set %d.%d twice %s", round, ki, twice(seq, showI))
			res.add("set %d.%d alt %s", round, ki, alternate(s.All, showI))
			// nested: the same set inside its own traversal (reading only)
			nested := 0
			for v := range s.All() {
				for w := range s.All() {
					if v == w {
						nested++
					}
				}
			}
			// an iterator obtained, never run; one run half-way; then a full one
			_ = s.All()
			half := 0
			for range s.All() {
				if half++; half >= size/2 {
					break
				}
			}
			res.add("set %d.%d nested %d half %d full %s str %d", round, ki, nested, half, twice(s.All(), showI), len(s.String()))
		}
		if round%4 == 0 {
			yield()
		}
	}
	for ti, mk := range hashTableKinds[int, int](func() hash.HashFunc[int] { return hash.HashFuncForInt[int](nil) }, eq, eq) {
		t := mk()
		n := 5 + r.intn(90)
		for i := 0; i < n; i++ {
			t.Put(r.intn(4*n), i)
		}
		res.add("hash %d twice %s", ti, twice2(t.All(), showKV))
		yield()
	}
	for ti, t := range []symboltable.OrderedSymbolTable[int, int]{symboltable.NewBST[int, int](cmp, eq), symboltable.NewAVL[int, int](cmp, eq), symboltable.NewRedBlack[int, int](cmp, eq)} {
		n := 5 + r.intn(90)
		for i := 0; i < n; i++ {
			t.Put(r.intn(4*n), i)
		}
		res.add("ordered %d twice %s", ti, twice2(t.All(), showKV))
	}
	for ti, t := range []trie.Trie[int]{trie.NewBinary[int](eq), trie.NewPatricia[int](eq)} {
		n := 5 + r.intn(60)
		for i := 0; i < n; i++ {
			t.Put(fmt.Sprint("w", r.intn(3*n)), i)
		}
		res.add("trie %d twice %s", ti, twice2(t.All(), showSV))
	}
	// the sets a grammar hands out, and its productions
	g := fixture(int(seed%5), seed, seed%2 == 1)
	G := g.build()
	res.add("prods twice %s", twice(G.Productions.All(), func(p *grammar.Production) string { return p.String() }))
	res.add("terms twice %s", twice(G.Terminals.All(), func(t grammar.Terminal) string { return string(t) }))
	res.add("nonterms alt %s", alternate(G.NonTerminals.All, func(n grammar.NonTerminal) string { return string(n) }))
	res.add("byhead twice %s", twice2(G.Productions.AllByHead(), func(h grammar.NonTerminal, ps set.Set[*grammar.Production]) string {
		return fmt.Sprint(h, ps.Size())
	}))
	first := G.ComputeFIRST()
	ts := first(grammar.String[grammar.Symbol]{g.start}).Terminals
	res.add("first twice %s", twice(ts.All(), func(t grammar.Terminal) string { return string(t) }))
	// strings
	ss := set.New(eqS, "a", "b", "c", "d", "e")
	res.add("strset twice %s powerset %d", twice(ss.All(), func(s string) string { return s }), set.Powerset(ss).Size())
	return res
}

// ---------------------------------------------------------------- every exported package-level function not called elsewhere

func wAPISweep(seed uint64) *result {
	r := newRng(seed)
	res := &result{}
	eqI := generic.NewEqualFunc[int]()
	cmpI := generic.NewCompareFunc[int]()
	rev := generic.NewReverseCompareFunc[int]()
	n := 70 + r.intn(200)
	xs := make([]int, n)
	for i := range xs {
		xs[i] = r.intn(1000)
	}

	// generic
	s := set.NewSorted(cmpI, xs...)
	c1 := generic.Collect1(s.All())
	bst := symboltable.NewAVL[int, int](rev, eqI)
	for i, x := range xs {
		bst.Put(x, i)
	}
	c2 := generic.Collect2(bst.All())
	even := func(v int) bool { return v%2 == 0 }
	fm, ok := generic.FirstMatch(xs, even)
	yes, no := generic.PartitionMatch(xs, even)
	tr := generic.Transform(xs[:5], func(v int) string { return fmt.Sprint(v * 2) })
	res.add("generic %d %d/%d find %d contains %v any %v all %v first %d,%v select %d part %d/%d transform %v", len(c1), len(c2), c2[0].Key,
		generic.Find(xs, eqI, xs[n/2]), generic.Contains(xs, eqI, xs[0], -1), generic.AnyMatch(xs, even), generic.AllMatch(xs, even), fm, ok,
		len(generic.SelectMatch(xs, even)), len(yes), len(no), tr)
	yield()

	// sets with a format
	format := func(m []int) string { return fmt.Sprintf("<%d>", len(m)) }
	res.add("formats %s %s %s", set.NewWithFormat(eqI, format, xs...).String(), set.NewStableWithFormat(eqI, format, xs...).String(),
		set.NewSortedWithFormat(cmpI, format, xs...).String())

	// sort / radixsort
	ys := append([]int{}, xs...)
	algosort.Shuffle(ys, rand.New(rand.NewSource(int64(seed)))) // the caller's own source
	algosort.MergeRec(ys, cmpI)
	zs := append([]int{}, xs...)
	algosort.Selection(zs, rev)
	us := []uint{9, 3, 1 << 40, 0, 77, uint(seed)}
	vs := append([]uint{}, us...)
	radixsort.LSDUint(us)
	radixsort.MSDUint(vs)
	ws := []string{"dab", "add", "cab", "fad", "fee", "bad", "dad", "bee", "fed", "bed", "ebb", "ace"}
	radixsort.LSDString(ws, 3)
	res.add("sorts %v %v %v %v %v", ys[:3], zs[:3], us[:3], vs[3:], ws[:4])
	yield()

	// hash: every family, each with its own hasher
	var hs []uint64
	hs = append(hs, hash.HashFuncForBoolSlice[[]bool](nil)([]bool{true, false}), hash.HashFuncForInt8[int8](nil)(-3), hash.HashFuncForInt8Slice[[]int8](nil)([]int8{1, 2}),
		hash.HashFuncForInt16[int16](nil)(-300), hash.HashFuncForInt16Slice[[]int16](nil)([]int16{1, 2}), hash.HashFuncForInt32Slice[[]int32](nil)([]int32{1, 2}),
		hash.HashFuncForInt64[int64](nil)(int64(seed)), hash.HashFuncForInt64Slice[[]int64](nil)([]int64{1, 2}), hash.HashFuncForUint8[uint8](nil)(200),
		hash.HashFuncForUint16[uint16](nil)(60000), hash.HashFuncForUint16Slice[[]uint16](nil)([]uint16{1, 2}), hash.HashFuncForUint32[uint32](nil)(1<<31),
		hash.HashFuncForUint32Slice[[]uint32](nil)([]uint32{1, 2}), hash.HashFuncForUint64Slice[[]uint64](nil)([]uint64{1, seed}), hash.HashFuncForUintptr[uintptr](nil)(77),
		hash.HashFuncForUintptrSlice[[]uintptr](nil)([]uintptr{1, 2}), hash.HashFuncForUint[uint](nil)(uint(seed)), hash.HashFuncForUintSlice[[]uint](nil)([]uint{1, 2}),
		hash.HashFuncForFloat32[float32](nil)(1.5), hash.HashFuncForFloat32Slice[[]float32](nil)([]float32{1, 2}), hash.HashFuncForFloat64Slice[[]float64](nil)([]float64{1, 2}),
		hash.HashFuncForComplex64[complex64](nil)(1+2i), hash.HashFuncForComplex64Slice[[]complex64](nil)([]complex64{1, 2i}),
		hash.HashFuncForComplex128[complex128](nil)(3-1i), hash.HashFuncForComplex128Slice[[]complex128](nil)([]complex128{1, 2i}))
	res.add("hash %x", hs)
	yield()

	// errors
	me := algoerrors.Append(nil, io.EOF, fmt.Errorf("e%d", seed))
	me = algoerrors.Append(me, io.ErrUnexpectedEOF)
	res.add("errors %d %v %d", len(me.Unwrap()), me.Is(io.EOF), len(me.Error()))

	// dot
	dg := dot.NewGraph(true, true, false, fmt.Sprint("g", seed), "LR", "blue", "filled", "box")
	sg := dot.NewSubgraph("cluster0", "sub", "red", "dashed", "same", "TB", "black", "", "oval")
	rec := dot.NewRecord(dot.NewSimpleField("f0", "left"), dot.NewComplexField(dot.NewRecord(dot.NewSimpleField("f1", "in"))))
	for i := 0; i < 6; i++ {
		sg.AddNode(dot.NewNode(fmt.Sprint("n", i), "", rec.Label(), "", "", "record", "", ""))
	}
	sg.AddEdge(dot.NewEdge("n0", "n1", dot.EdgeTypeDirected, dot.EdgeDirBoth, "e", "", "", "", ""))
	dg.AddSubgraph(sg)
	dg.AddNode(dot.NewNode("top", "", "", "", "", "", "", ""))
	dg.AddEdge(dot.NewEdge("top", "n0", dot.EdgeTypeDirected, "", "", "", "", "", ""))
	res.add("dot %d", len(dg.DOT()))
	yield()

	// automata
	sts := automata.NewStates(3, 1, 2, automata.State(r.intn(9)))
	syms := automata.NewSymbols('a', 'b', automata.Symbol('a'+rune(r.intn(20))))
	res.add("automata %d %d %v", sts.Size(), syms.Size(), sts.Contains(1))

	// grammar (fixtures 0..3: the canonical LR(1) collection of the large expression grammar takes seconds here)
	g := fixture(int(seed%4), seed, seed%2 == 1)
	G := g.build()
	ps := grammar.NewProductions()
	ps.Add(g.prods...)
	ordered := grammar.OrderProductionSet(ps.Get(g.start))
	var buf bytes.Buffer
	n1, _ := grammar.WriteSymbol(&buf, g.start)
	n2, _ := grammar.WriteString(&buf, g.prods[0].Body)
	res.add("grammar %d %d %d %d %q equal %v", len(generic.Collect1(ps.All())), len(ordered), n1, n2, buf.String(), ps.Equal(G.Productions))
	yield()

	// parser/lr, parser/lr/lookahead, parser/predictive
	g0, g1, k0, k1 := lr.NewGrammarWithLR0(G), lr.NewGrammarWithLR1(G), lr.NewGrammarWithLR0Kernel(G), lr.NewGrammarWithLR1Kernel(G)
	C0, C1 := g0.Canonical(), g1.Canonical()
	K0, K1 := k0.Canonical(), k1.Canonical()
	sm := lr.BuildStateMap(C0)
	kern := lookahead.ComputeLALR1Kernels(G)
	coll := lr.NewItemSetCollection(lr.NewItemSet(g0.Initial()), lr.NewItemSet(g0.Initial()))
	res.add("lr %d %d %d %d states %d kernels %d coll %d", C0.Size(), C1.Size(), K0.Size(), K1.Size(), len(sm), kern.Size(), coll.Size())
	hT, hP := lr.PrecedenceHandleForTerminal(g.terms[0]), lr.PrecedenceHandleForProduction(g.prods[0])
	handles := lr.NewPrecedenceHandles(hT, hP)
	levels := lr.PrecedenceLevels{{Associativity: lr.LEFT, Handles: handles}}
	states := []lr.State{0, 1, 2}
	pt := lr.NewParsingTable(states, g.terms, g.nonTerms, levels)
	pt.SetGOTO(0, g.nonTerms[0], 1)
	pt2 := lr.NewParsingTable(states, g.terms, g.nonTerms, levels)
	pt2.SetGOTO(0, g.nonTerms[0], 1)
	res.add("lrtable %d %v %d", len(pt.String()), pt.Equal(pt2), len(levels.String()))
	ll := predictive.NewParsingTable(g.terms, g.nonTerms)
	res.add("lltable %d %v %v", len(ll.String()), ll.Equal(predictive.NewParsingTable(g.terms, g.nonTerms)), ll.IsEmpty(g.nonTerms[0], g.terms[0]))
	yield()

	// parser/combinator
	notB := combinator.ExpectRuneInRange('a', 'z').Bind(combinator.ExcludeRunes('b', 'q'))
	out1, ok1 := notB(&runeInput{runes: []rune("ab")})
	_, ok2 := notB(&runeInput{runes: []rune("b")})
	res.add("combinator %v %v %v", out1.Result.Val, ok1, ok2)

	// graph: the weighted constructors and the flow network
	wu, wd, fn := graph.NewWeightedUndirected(5), graph.NewWeightedDirected(5), graph.NewFlowNetwork(5)
	res.add("graphs %d %d %d %d %d", wu.V(), wd.V(), fn.V(), len(wd.Reverse().Edges()), len(wu.DOT()))
	return res
}
