package main

import (
	"fmt"
	"io"
	"strings"

	"github.com/moorara/algo/automata"
	"github.com/moorara/algo/errors"
	"github.com/moorara/algo/generic"
	"github.com/moorara/algo/grammar"
	"github.com/moorara/algo/hash"
	"github.com/moorara/algo/lexer"
	"github.com/moorara/algo/parser"
	"github.com/moorara/algo/parser/combinator"
	"github.com/moorara/algo/parser/lr"
	"github.com/moorara/algo/parser/lr/canonical"
	"github.com/moorara/algo/parser/lr/lookahead"
	"github.com/moorara/algo/parser/lr/simple"
	"github.com/moorara/algo/parser/predictive"
	"github.com/moorara/algo/set"
	"github.com/moorara/algo/symboltable"
)

func init() {
	workloads["parse-predictive"] = func(s uint64) *result { return wParse(s, "predictive") }
	workloads["parse-slr"] = func(s uint64) *result { return wParse(s, "slr") }
	workloads["parse-lalr"] = func(s uint64) *result { return wParse(s, "lalr") }
	workloads["parse-lr1"] = func(s uint64) *result { return wParse(s, "lr1") }
	workloads["combinator"] = wCombinator
	workloads["automata-combine"] = wAutomataCombine
	workloads["grammar-normalize"] = wGrammarNormalize
	workloads["func-values"] = wFuncValues
	mixedOrder = append(mixedOrder, "parse-predictive", "parse-slr", "parse-lalr", "parse-lr1", "combinator",
		"automata-combine", "grammar-normalize", "func-values")
}

// ---------------------------------------------------------------- parsers

// sliceLexer is a private lexer over a token list (every parser of a goroutine gets its own).
type sliceLexer struct {
	toks []lexer.Token
	i    int
}

func (l *sliceLexer) NextToken() (lexer.Token, error) {
	if l.i >= len(l.toks) {
		return lexer.Token{Pos: lexer.Position{Filename: "in", Offset: l.i, Line: 1, Column: l.i + 1}}, io.EOF
	}
	t := l.toks[l.i]
	l.i++
	if l.i%8 == 0 {
		yield()
	}
	return t, nil
}

// exprTokens writes a random arithmetic expression over the terminals + * ( ) id (given by name).
func exprTokens(r *rng, term func(string) grammar.Terminal, size int) []lexer.Token {
	var out []lexer.Token
	emit := func(t, lexeme string) {
		n := len(out)
		out = append(out, lexer.Token{Terminal: term(t), Lexeme: lexeme, Pos: lexer.Position{Filename: "in", Offset: n, Line: 1, Column: n + 1}})
	}
	var expr func(depth int)
	expr = func(depth int) {
		n := 1 + r.intn(3)
		for i := 0; i < n; i++ {
			if i > 0 {
				if r.intn(2) == 0 {
					emit("+", "+")
				} else {
					emit("*", "*")
				}
			}
			if depth > 0 && r.intn(4) == 0 {
				emit("(", "(")
				expr(depth - 1)
				emit(")", ")")
			} else {
				emit("id", fmt.Sprint("x", r.intn(100)))
			}
		}
	}
	for len(out) < size {
		if len(out) > 0 {
			emit("+", "+")
		}
		expr(3)
	}
	return out
}

func astDigest(n parser.Node) string {
	if n == nil {
		return "nil"
	}
	nodes := 0
	var leaves []string
	parser.Traverse(n, generic.VLR, func(x parser.Node) bool {
		nodes++
		if l, ok := x.(*parser.LeafNode); ok {
			leaves = append(leaves, l.Lexeme)
		}
		return true
	})
	return fmt.Sprintf("nodes=%d sym=%s pos=%s leaves=%s strlen=%d eq=%v", nodes, n.Symbol(), n.Pos(), strings.Join(leaves, ""), len(n.String()), n.Equal(n))
}

func wParse(seed uint64, kind string) *result {
	r := newRng(seed)
	res := &result{}
	long := seed%2 == 1
	fx := 1 // E → E + T | T ; T → T * F | F ; F → ( E ) | id
	if kind == "predictive" {
		fx = 3 // the LL(1) form of the same language
	}
	f := fixture(fx, seed, long)
	// terminal names as the fixture spells them
	term := func(s string) grammar.Terminal {
		for _, t := range f.terms {
			if strings.HasPrefix(string(t), s+"_") {
				return t
			}
		}
		return grammar.Terminal(s)
	}
	// The first parser goes through New (which builds the table); the goroutine's further parsers share
	// ITS table (its own instance) with lexers of their own — building an LR(1) table per parse is slow.
	var table *lr.ParsingTable
	mk := func(toks []lexer.Token) (parser.Parser, error) {
		L := &sliceLexer{toks: toks}
		if table != nil {
			return &lr.Parser{L: L, T: table}, nil
		}
		G := f.build()
		var p *lr.Parser
		var err error
		switch kind {
		case "predictive":
			return predictive.New(G, L), nil
		case "slr":
			p, err = simple.New(L, G, lr.PrecedenceLevels{})
		case "lalr":
			p, err = lookahead.New(L, G, lr.PrecedenceLevels{})
		default:
			p, err = canonical.New(L, G, lr.PrecedenceLevels{})
		}
		if err != nil {
			return nil, err
		}
		table = p.T
		return p, nil
	}
	sizes := []int{1, 70, 200}
	if kind == "lr1" {
		sizes = []int{1, 70}
	}
	for round := 0; round < 3; round++ {
		toks := exprTokens(r, term, sizes[r.intn(len(sizes))])
		if round == 2 { // a syntax error somewhere
			at := r.intn(len(toks))
			toks = append(append(append([]lexer.Token{}, toks[:at]...), lexer.Token{Terminal: term(")"), Lexeme: ")", Pos: toks[at].Pos}), toks[at:]...)
		}
		// Parse with callbacks
		p, err := mk(toks)
		if err != nil {
			res.add("%s new err %v", kind, err)
			continue
		}
		yield()
		nt, np := 0, 0
		var last string
		err = p.Parse(func(t *lexer.Token) error { nt++; last = t.String(); return nil },
			func(pr *grammar.Production) error { np++; return nil })
		res.add("%s parse tokens=%d prods=%d last=%s err=%v", kind, nt, np, last, err)
		// ParseAndBuildAST with a fresh parser and lexer over the same tokens
		p2, _ := mk(toks)
		yield()
		ast, err2 := p2.ParseAndBuildAST()
		es := ""
		if err2 != nil {
			es = err2.Error()
		}
		res.add("%s ast %s err=%s", kind, astDigest(ast), es)
		if lp, ok := p2.(*lr.Parser); ok && err2 == nil {
			p3, _ := mk(toks)
			v, err3 := p3.(*lr.Parser).ParseAndEvaluate(func(pr *grammar.Production, vs []*lr.Value) (any, error) {
				return len(vs), nil
			})
			res.add("%s eval %v err=%v states=%d", kind, v != nil, err3, len(lp.T.States))
		}
	}
	return res
}

// ---------------------------------------------------------------- parser combinators

type runeInput struct {
	pos   int
	runes []rune
}

func (s *runeInput) Current() (rune, int) { return s.runes[0], s.pos }

func (s *runeInput) Remaining() combinator.Input {
	if len(s.runes) == 1 {
		return nil
	}
	return &runeInput{pos: s.pos + 1, runes: s.runes[1:]}
}

func wCombinator(seed uint64) *result {
	r := newRng(seed)
	res := &result{}
	// each goroutine builds its own parsers:  list → num ("," num)* ;  num → digit+
	digit := combinator.ExpectRuneInRange('0', '9')
	num := digit.REP1().Flatten()
	comma := combinator.ExpectRune(',')
	lst := num.CONCAT(comma.CONCAT(num).REP()).Flatten()
	word := combinator.ExpectString("let").ALT(combinator.ExpectRunes('v', 'a', 'r'), combinator.ExpectRuneIn('x', 'y')).OPT()
	for round := 0; round < 4; round++ {
		n := pickSize(r, 200)
		var b strings.Builder
		for i := 0; i < n; i++ {
			if i > 0 {
				b.WriteByte(',')
			}
			fmt.Fprint(&b, r.intn(100000))
		}
		out, ok := lst(&runeInput{runes: []rune(b.String())})
		items := 0
		if l, isList := out.Result.Val.(combinator.List); isList {
			items = len(l)
		}
		res.add("combinator n=%d ok=%v items=%d rest=%v", n, ok, items, out.Remaining != nil)
		_, ok2 := word(&runeInput{runes: []rune([]string{"let x", "var", "y", "zzz"}[r.intn(4)])})
		res.add("combinator word %v", ok2)
		yield()
	}
	return res
}

// ---------------------------------------------------------------- automata combinators

func randomNFA(r *rng, n int, alpha []automata.Symbol) *automata.NFA {
	var finals []automata.State
	for s := 0; s < n; s++ {
		if r.intn(3) == 0 {
			finals = append(finals, automata.State(s))
		}
	}
	if len(finals) == 0 {
		finals = []automata.State{automata.State(n - 1)}
	}
	N := automata.NewNFA(0, finals)
	for s := 0; s < n; s++ {
		for _, a := range alpha {
			var next []automata.State
			for k := r.intn(3); k > 0; k-- {
				next = append(next, automata.State(r.intn(n)))
			}
			if len(next) > 0 {
				N.Add(automata.State(s), a, next)
			}
		}
	}
	return N
}

func acceptBits(accept func(automata.String) bool, alpha []automata.Symbol, depth int) string {
	var bits strings.Builder
	var walk func(w automata.String, d int)
	walk = func(w automata.String, d int) {
		if accept(w) {
			bits.WriteByte('1')
		} else {
			bits.WriteByte('0')
		}
		if d == 0 {
			return
		}
		for _, a := range alpha {
			walk(append(append(automata.String{}, w...), a), d-1)
		}
	}
	walk(automata.String{}, depth)
	return bits.String()
}

func wAutomataCombine(seed uint64) *result {
	r := newRng(seed)
	res := &result{}
	alpha := []automata.Symbol{'a', 'b'}
	A := randomNFA(r, 2+r.intn(4), alpha)
	B := randomNFA(r, 2+r.intn(4), alpha)
	C := randomNFA(r, 2+r.intn(3), alpha)
	yield()
	cat := A.Concat(B, C)
	res.add("concat states=%d accept=%s", len(cat.States()), acceptBits(cat.Accept, alpha, 4))
	yield()
	un := A.Union(B, C)
	res.add("union states=%d accept=%s", len(un.States()), acceptBits(un.Accept, alpha, 4))
	st := B.Star()
	res.add("star states=%d accept=%s", len(st.States()), acceptBits(st.Accept, alpha, 4))
	yield()
	res.add("iso nfa %v %v", A.Isomorphic(A.Clone()), A.Isomorphic(B))
	DA, DB, DC := A.ToDFA().Minimize(), B.ToDFA().Minimize(), C.ToDFA()
	// Isomorphic tries permutations of the states: only for small automata
	if len(DA.States()) <= 6 && len(DB.States()) <= 6 {
		res.add("iso dfa %v %v", DA.Isomorphic(DA.Clone().ReindexStates()), DA.Isomorphic(DB))
	} else {
		S1, S2 := automata.NewDFA(0, []automata.State{2}), automata.NewDFA(5, []automata.State{9})
		S1.Add(0, 'a', 1)
		S1.Add(1, 'b', 2)
		S2.Add(5, 'a', 7)
		S2.Add(7, 'b', 9)
		res.add("iso small dfa %v", S1.Isomorphic(S2))
	}
	yield()
	comb, finals := automata.CombineDFA(DA, DB, DC)
	nf := 0
	for _, f := range finals {
		nf += len(f)
	}
	res.add("combine states=%d finals=%d accept=%s", len(comb.States()), nf, acceptBits(comb.Accept, alpha, 4))
	nt := 0
	for range comb.Transitions() {
		nt++
	}
	nn := 0
	for range cat.Transitions() {
		nn++
	}
	res.add("transitions %d %d strlen %d %d", nt, nn, len(comb.String()), len(cat.String()))
	// many small automata joined: the state managers grow
	m := pickSize(r, 70)
	parts := make([]*automata.NFA, m)
	for i := range parts {
		parts[i] = automata.NewNFA(0, []automata.State{1})
		parts[i].Add(0, alpha[i%2], []automata.State{1})
		if i%8 == 0 {
			yield()
		}
	}
	big := parts[0].Union(parts[1:]...)
	chain := parts[0].Concat(parts[1:]...)
	w := automata.String{}
	for i := 0; i < m; i++ {
		w = append(w, alpha[i%2])
	}
	res.add("many m=%d union=%d chain=%d accepts %v %v", m, len(big.States()), len(chain.States()), chain.Accept(w), big.Accept(automata.String{'a'}))
	return res
}

// ---------------------------------------------------------------- grammar normal forms

func wGrammarNormalize(seed uint64) *result {
	res := &result{}
	long := seed%2 == 1
	which := []int{1, 3, 4, 0, 2}[int((seed/2)%5)]
	f := fixture(which, seed, long)
	G := f.build()
	yield()
	cfgLines(res, "orig", G)
	nolr := G.EliminateLeftRecursion()
	cfgLines(res, "no-left-recursion", nolr)
	lf := nolr.LeftFactor()
	cfgLines(res, "left-factored", lf)
	res.add("ll1 after %v verify %v", lf.IsLL1() == nil, lf.Verify() == nil)
	cnf := G.ChomskyNormalForm()
	cfgLines(res, "cnf", cnf)
	res.add("is-cnf %v", cnf.IsCNF() == nil)
	cyc := G.EliminateCycles()
	cfgLines(res, "no-cycles", cyc)
	fresh := G.Clone()
	A := fresh.AddNewNonTerminal(f.start, "′", "″")
	res.add("new nonterminal %s size %d", A, fresh.NonTerminals.Size())
	// a grammar with common prefixes:  S → a b c | a b d | a e | f
	name := namer(long, seed)
	t := func(s string) grammar.Terminal { return grammar.Terminal(name(s, 0)) }
	S := grammar.NonTerminal(name("S", 0))
	P := grammar.NewCFG([]grammar.Terminal{t("a"), t("b"), t("c"), t("d"), t("e"), t("f")}, []grammar.NonTerminal{S}, []*grammar.Production{
		prod(S, t("a"), t("b"), t("c")), prod(S, t("a"), t("b"), t("d")), prod(S, t("a"), t("e")), prod(S, t("f"))}, S)
	cfgLines(res, "prefix-factored", P.LeftFactor())
	res.add("lcp %v", grammar.LongestCommonPrefixOf(
		grammar.String[grammar.Symbol]{t("a"), t("b"), t("c")}, grammar.String[grammar.Symbol]{t("a"), t("b"), t("d")}))
	return res
}

// ---------------------------------------------------------------- every exported package-level function value

// wFuncValues calls each exported package-level Eq*/Cmp*/Hash*/…Format function VALUE of the library on
// private data, and uses the Hash*/Eq* values as the hash and equality functions of private tables and
// sets (keyed by symbols, strings of symbols, productions, states).
func wFuncValues(seed uint64) *result {
	r := newRng(seed)
	res := &result{}
	name := namer(seed%2 == 1, seed)
	n := pickSize(r, 200)
	eqI := generic.NewEqualFunc[int]()

	bySymbol := symboltable.NewQuadraticHashTable[grammar.Symbol, int](grammar.HashSymbol, grammar.EqSymbol, eqI, symboltable.HashOpts{})
	byTerm := symboltable.NewDoubleHashTable[grammar.Terminal, int](grammar.HashTerminal, grammar.EqTerminal, eqI, symboltable.HashOpts{})
	byNonTerm := symboltable.NewLinearHashTable[grammar.NonTerminal, int](grammar.HashNonTerminal, grammar.EqNonTerminal, eqI, symboltable.HashOpts{})
	byString := symboltable.NewChainHashTable[grammar.String[grammar.Symbol], int](grammar.HashString, grammar.EqString, eqI, symboltable.HashOpts{})
	byProd := symboltable.NewQuadraticHashTable[*grammar.Production, int](grammar.HashProduction, grammar.EqProduction, eqI, symboltable.HashOpts{})
	byAState := symboltable.NewQuadraticHashTable[automata.State, int](automata.HashState, automata.EqState, eqI, symboltable.HashOpts{})
	byASym := symboltable.NewDoubleHashTable[automata.Symbol, int](automata.HashSymbol, automata.EqSymbol, eqI, symboltable.HashOpts{})
	byLState := symboltable.NewQuadraticHashTable[lr.State, int](lr.HashState, lr.EqState, eqI, symboltable.HashOpts{})
	prodSet := set.New(grammar.EqProduction)
	var prods []*grammar.Production
	for i := 0; i < n; i++ {
		t := grammar.Terminal(name("t", r.intn(n+1)))
		A := grammar.NonTerminal(name("N", r.intn(n+1)))
		body := grammar.String[grammar.Symbol]{t, A, t}
		if i%3 == 0 {
			body = grammar.String[grammar.Symbol]{A}
		}
		p := &grammar.Production{Head: A, Body: body}
		prods = append(prods, p)
		bySymbol.Put(t, i)
		bySymbol.Put(A, i)
		byTerm.Put(t, i)
		byNonTerm.Put(A, i)
		byString.Put(body, i)
		byProd.Put(p, i)
		prodSet.Add(p)
		byAState.Put(automata.State(r.intn(4*n+1)), i)
		byASym.Put(automata.Symbol('a'+rune(r.intn(2000))), i)
		byLState.Put(lr.State(r.intn(4*n+1)), i)
		if i%4 == 0 {
			yield()
		}
	}
	hits := 0
	for i, p := range prods {
		if _, ok := byProd.Get(&grammar.Production{Head: p.Head, Body: p.Body}); ok {
			hits++
		}
		if _, ok := byString.Get(p.Body); ok {
			hits++
		}
		if _, ok := bySymbol.Get(p.Head); ok {
			hits++
		}
		if i%8 == 0 {
			yield()
		}
	}
	res.add("tables n=%d sizes %d %d %d %d %d %d %d %d %d hits %d", n, bySymbol.Size(), byTerm.Size(), byNonTerm.Size(), byString.Size(),
		byProd.Size(), byAState.Size(), byASym.Size(), byLState.Size(), prodSet.Size(), hits)
	var hs []string
	for i := 0; i < len(prods) && i < 40; i++ {
		p, q := prods[i], prods[(i+1)%len(prods)]
		hs = append(hs, fmt.Sprint(grammar.HashProduction(p), grammar.HashString(p.Body), grammar.HashSymbol(p.Head),
			grammar.HashNonTerminal(p.Head), grammar.CmpProduction(p, q), grammar.CmpString(p.Body, q.Body), grammar.CmpNonTerminal(p.Head, q.Head),
			grammar.CmpSymbol(p.Head, q.Head), grammar.EqNonTerminal(p.Head, q.Head)))
		yield()
	}
	res.add("direct %s", strings.Join(hs, ";"))

	// the remaining function values
	ta := &grammar.TerminalsAndEmpty{Terminals: set.New(grammar.EqTerminal, grammar.Terminal(name("t", 1))), IncludesEmpty: true}
	tb := &grammar.TerminalsAndEmpty{Terminals: set.New(grammar.EqTerminal, grammar.Terminal(name("t", 1))), IncludesEmpty: true}
	ea := &grammar.TerminalsAndEndmarker{Terminals: set.New(grammar.EqTerminal, grammar.Terminal(name("t", 2)))}
	eb := &grammar.TerminalsAndEndmarker{Terminals: set.New(grammar.EqTerminal, grammar.Terminal(name("t", 3)))}
	res.add("first/follow eq %v %v set %v", grammar.EqTerminalsAndEmpty(ta, tb), grammar.EqTerminalsAndEndmarker(ea, eb),
		grammar.EqProductionSet(prodSet, prodSet.Clone()))
	la := &parser.LeafNode{Terminal: grammar.Terminal(name("t", 1)), Lexeme: "x"}
	lb := &parser.LeafNode{Terminal: grammar.Terminal(name("t", 1)), Lexeme: "y"}
	res.add("node eq %v %v", parser.EqNode(la, la), parser.EqNode(la, lb))
	i0 := &lr.Item0{Production: prods[0], Start: prods[0].Head, Dot: 0}
	i1 := &lr.Item0{Production: prods[0], Start: prods[0].Head, Dot: 1}
	s0, s1 := lr.NewItemSet(i0), lr.NewItemSet(i0, i1)
	res.add("items %v %v %d %d %d", lr.EqItem(i0, i1), lr.EqItemSet(s0, s1), lr.CmpItem(i0, i1), lr.CmpItemSet(s0, s1), lr.CmpState(3, 9))
	errs := []error{fmt.Errorf("e1 %s", name("x", 1)), fmt.Errorf("e2")}
	res.add("errfmt %d %d", len(errors.DefaultErrorFormat(errs)), len(errors.BulletErrorFormat(errs)))
	res.add("cmp %d %d %d %v %v", automata.CmpState(1, 2), automata.CmpSymbol('a', 'b'), grammar.CmpTerminal("a", "b"),
		automata.EqSymbol('a', 'a'), lr.EqState(1, 1))
	_ = hash.HashFuncForInt[int]
	return res
}
