package main

import (
	"fmt"
	"io"
	"runtime"
	"strings"

	"github.com/moorara/algo/automata"
	"github.com/moorara/algo/generic"
	"github.com/moorara/algo/grammar"
	"github.com/moorara/algo/graph"
	"github.com/moorara/algo/hash"
	"github.com/moorara/algo/heap"
	"github.com/moorara/algo/lexer/input"
	"github.com/moorara/algo/list"
	"github.com/moorara/algo/parser/lr"
	"github.com/moorara/algo/parser/lr/canonical"
	"github.com/moorara/algo/parser/lr/lookahead"
	"github.com/moorara/algo/parser/lr/simple"
	"github.com/moorara/algo/parser/predictive"
	"github.com/moorara/algo/radixsort"
	"github.com/moorara/algo/set"
	algosort "github.com/moorara/algo/sort"
	"github.com/moorara/algo/symboltable"
	"github.com/moorara/algo/trie"
	"github.com/moorara/algo/unionfind"
)

// mixedOrder: in the `mixed` workload goroutine g runs mixedOrder[(g+seed) mod n], so different
// packages' entry points run against one another.
var mixedOrder = []string{"hashtable-iterate", "lr-slr", "set-iterate", "automata-determinize", "first-follow",
	"lr-lalr", "grammar-transform", "ll1-table", "lr-canonical", "structures", "hash-api", "ordered-tables",
	"tries", "heaps", "lexer-input", "graphs-dot"}

func init() {
	workloads["hashtable-iterate"] = wHashTables
	workloads["ordered-tables"] = wOrderedTables
	workloads["set-iterate"] = wSets
	workloads["tries"] = wTries
	workloads["heaps"] = wHeaps
	workloads["first-follow"] = wFirstFollow
	workloads["grammar-transform"] = wGrammarTransform
	workloads["ll1-table"] = wLL1
	workloads["lr-slr"] = func(s uint64) *result { return wLR(s, "slr") }
	workloads["lr-lalr"] = func(s uint64) *result { return wLR(s, "lalr") }
	workloads["lr-canonical"] = func(s uint64) *result { return wLR(s, "canonical") }
	workloads["automata-determinize"] = wAutomata
	workloads["lexer-input"] = wLexerInput
	workloads["structures"] = wStructures
	workloads["hash-api"] = wHashAPI
	workloads["graphs-dot"] = wGraphsDot
}

// yield lets the other goroutines run: with it the goroutines interleave inside the fill loops at every
// GOMAXPROCS (at GOMAXPROCS=1 they would otherwise run one after the other between preemptions).
func yield() { runtime.Gosched() }

// sizes the collections are filled to: the empty-ish case, just past the small fixed capacities
// (31/64-entry tables and caches), a few re-sizes further, and large.
var sizeClasses = []int{1, 70, 200, 1000}

func pickSize(r *rng, max int) int {
	for {
		if n := sizeClasses[r.intn(len(sizeClasses))]; n <= max {
			return n
		}
	}
}

// longName returns a name of more than 40 bytes (longer than any small-string fast path or fixed
// scratch buffer), different for different i and salts.
func longName(prefix string, salt uint64, i int) string {
	return fmt.Sprintf("%s_%08d_%016x_abcdefghijklmnopqrstuvwxyz", prefix, i, salt*0x9E3779B97F4A7C15+uint64(i))
}

// namer gives short names for even salts and long ones for odd salts, so both paths are exercised.
func namer(long bool, salt uint64) func(prefix string, i int) string {
	if long {
		return func(prefix string, i int) string { return longName(prefix, salt, i) }
	}
	return func(prefix string, i int) string { return fmt.Sprintf("%s%d", prefix, i) }
}

// ---------------------------------------------------------------- hash tables

func hashTableKinds[K, V any](h func() hash.HashFunc[K], eqK generic.EqualFunc[K], eqV generic.EqualFunc[V]) []func() symboltable.SymbolTable[K, V] {
	// every goroutine makes its OWN hash functions (a HashFunc keeps a hasher: sharing one would be
	// sharing an instance, which the property excludes)
	return []func() symboltable.SymbolTable[K, V]{
		func() symboltable.SymbolTable[K, V] {
			return symboltable.NewChainHashTable(h(), eqK, eqV, symboltable.HashOpts{})
		},
		func() symboltable.SymbolTable[K, V] {
			return symboltable.NewLinearHashTable(h(), eqK, eqV, symboltable.HashOpts{})
		},
		func() symboltable.SymbolTable[K, V] {
			return symboltable.NewQuadraticHashTable(h(), eqK, eqV, symboltable.HashOpts{})
		},
		func() symboltable.SymbolTable[K, V] {
			return symboltable.NewDoubleHashTable(h(), eqK, eqV, symboltable.HashOpts{})
		},
	}
}

func wHashTables(seed uint64) *result {
	r := newRng(seed)
	res := &result{}
	eqI := generic.NewEqualFunc[int]()
	eqS := generic.NewEqualFunc[string]()

	// int keys: grow through several re-sizes, shrink again, iterate
	for ti, f := range hashTableKinds[int, string](func() hash.HashFunc[int] { return hash.HashFuncForInt[int](nil) }, eqI, eqS) {
		n := pickSize(r, 1000)
		keys := make([]int, n)
		for i := range keys {
			keys[i] = r.intn(4*n + 10)
		}
		t, u := f(), f()
		for i, k := range keys {
			t.Put(k, fmt.Sprint("v", k))
			u.Put(k, fmt.Sprint("v", k))
			if i%4 == 0 {
				yield()
			}
		}
		res.add("int table %d n=%d size %d equal %v", ti, n, t.Size(), t.Equal(u))
		for round := 0; round < 2; round++ {
			var kvs []string
			for k, v := range t.All() {
				kvs = append(kvs, fmt.Sprint(k, "=", v))
			}
			res.add("int table %d all %s", ti, sortedJoin(kvs))
			yield()
		}
		for i := 0; i < 3*n/4; i++ {
			t.Delete(keys[i])
			if i%8 == 0 {
				yield()
			}
		}
		res.add("int table %d after-delete size %d any %v allm %v", ti, t.Size(),
			t.AnyMatch(func(k int, _ string) bool { return k%7 == 0 }), t.AllMatch(func(k int, _ string) bool { return k >= 0 }))
		sel := t.SelectMatch(func(k int, _ string) bool { return k%2 == 0 })
		res.add("int table %d select %d strlen %d", ti, sel.Size(), len(t.String()))
	}

	// string keys, short or longer than 40 bytes
	name := namer(seed%2 == 1, seed)
	for ti, f := range hashTableKinds[string, int](func() hash.HashFunc[string] { return hash.HashFuncForString[string](nil) }, eqS, eqI) {
		n := pickSize(r, 200)
		t := f()
		for i := 0; i < n; i++ {
			t.Put(name("key", r.intn(2*n+3)), i)
			if i%4 == 0 {
				yield()
			}
		}
		var ks []string
		for k, v := range t.All() {
			ks = append(ks, fmt.Sprint(k, "=", v))
		}
		res.add("str table %d n=%d size %d all %s", ti, n, t.Size(), sortedJoin(ks))
		hits := 0
		for i := 0; i < 2*n+3; i++ {
			if _, ok := t.Get(name("key", i)); ok {
				hits++
			}
		}
		res.add("str table %d hits %d", ti, hits)
	}
	return res
}

// ---------------------------------------------------------------- ordered symbol tables

func wOrderedTables(seed uint64) *result {
	r := newRng(seed)
	res := &result{}
	eqI := generic.NewEqualFunc[int]()
	cmpS := generic.NewCompareFunc[string]()
	name := namer(seed%2 == 1, seed)
	for ti, t := range []symboltable.OrderedSymbolTable[string, int]{
		symboltable.NewBST[string, int](cmpS, eqI), symboltable.NewAVL[string, int](cmpS, eqI), symboltable.NewRedBlack[string, int](cmpS, eqI)} {
		n := pickSize(r, 1000)
		keys := make([]string, n)
		for i := range keys {
			keys[i] = name("k", r.intn(3*n+5))
			t.Put(keys[i], i)
			if i%8 == 0 {
				yield()
			}
		}
		for i := 0; i < n/3; i++ {
			t.Delete(keys[i])
		}
		mn, _, _ := t.Min()
		mx, _, _ := t.Max()
		fl, _, _ := t.Floor(name("k", n))
		sel, _, _ := t.Select(t.Size() / 2)
		res.add("ordered %d n=%d size %d height-positive %v min %s max %s floor %s select %s rank %d", ti, n, t.Size(),
			t.Height() >= 0, mn, mx, fl, sel, t.Rank(name("k", n)))
		var ks []string
		for k := range t.All() {
			ks = append(ks, k)
		}
		res.add("ordered %d keys %s", ti, strings.Join(ks, ","))
		t.DeleteMin()
		t.DeleteMax()
		res.add("ordered %d range %d", ti, t.RangeSize(name("k", 0), name("k", n)))
	}
	return res
}

// ---------------------------------------------------------------- sets

func wSets(seed uint64) *result {
	r := newRng(seed)
	res := &result{}
	eq := generic.NewEqualFunc[int]()
	cmp := generic.NewCompareFunc[int]()
	mk := []func(vals ...int) set.Set[int]{
		func(vals ...int) set.Set[int] { return set.New(eq, vals...) },
		func(vals ...int) set.Set[int] { return set.NewStable(eq, vals...) },
		func(vals ...int) set.Set[int] { return set.NewSorted(cmp, vals...) },
	}
	members := func(s set.Set[int]) string {
		var ms []string
		for v := range s.All() {
			ms = append(ms, fmt.Sprint(v))
		}
		return sortedJoin(ms)
	}
	for si, f := range mk {
		n := pickSize(r, 1000)
		a, b := f(), f()
		for i := 0; i < n; i++ {
			a.Add(r.intn(2*n + 3))
			b.Add(r.intn(2*n + 3))
			if i%8 == 0 {
				yield()
			}
		}
		for round := 0; round < 3; round++ {
			res.add("set %d n=%d a %s", si, n, members(a))
			yield()
		}
		res.add("set %d union %s", si, members(a.Union(b)))
		yield()
		res.add("set %d inter %s", si, members(a.Intersection(b)))
		res.add("set %d diff %s", si, members(a.Difference(b)))
		res.add("set %d sub %v eq %v contains %v", si, a.Intersection(b).IsSubset(a), a.Equal(a.Clone()), a.Contains(1, 2))
		sel := a.SelectMatch(func(v int) bool { return v%3 == 0 })
		res.add("set %d select %d any %v strlen %d", si, sel.Size(), a.AnyMatch(func(v int) bool { return v == 5 }), len(a.String()))
		small := f(1, 2, 3, 4)
		ps := set.Powerset(small)
		var sizes []string
		for m := range ps.All() {
			sizes = append(sizes, members(m))
		}
		res.add("set %d powerset %d %s", si, ps.Size(), sortedJoin(sizes))
		res.add("set %d partitions %d", si, set.Partitions(small).Size())
	}
	// sets of (long) strings
	name := namer(seed%2 == 1, seed)
	eqS := generic.NewEqualFunc[string]()
	ss := set.New(eqS)
	n := pickSize(r, 200)
	for i := 0; i < n; i++ {
		ss.Add(name("m", r.intn(2*n+3)))
	}
	var ms []string
	for v := range ss.All() {
		ms = append(ms, v)
	}
	res.add("strset n=%d %s", n, sortedJoin(ms))
	return res
}

// ---------------------------------------------------------------- tries

func wTries(seed uint64) *result {
	r := newRng(seed)
	res := &result{}
	eqI := generic.NewEqualFunc[int]()
	name := namer(seed%2 == 1, seed)
	for ti, t := range []trie.Trie[int]{trie.NewBinary[int](eqI), trie.NewPatricia[int](eqI)} {
		n := pickSize(r, 200)
		keys := make([]string, n)
		for i := range keys {
			keys[i] = name("w", r.intn(3*n+5))
			t.Put(keys[i], i)
			if i%8 == 0 {
				yield()
			}
		}
		for i := 0; i < n/4; i++ {
			t.Delete(keys[i])
		}
		mn, _, _ := t.Min()
		mx, _, _ := t.Max()
		res.add("trie %d n=%d size %d min %s max %s rank %d prefix %d", ti, n, t.Size(), mn, mx, t.Rank(name("w", n)), len(t.WithPrefix("w")))
		var ks []string
		for k, v := range t.All() {
			ks = append(ks, fmt.Sprint(k, "=", v))
		}
		res.add("trie %d all %s", ti, sortedJoin(ks))
	}
	return res
}

// ---------------------------------------------------------------- heaps

func wHeaps(seed uint64) *result {
	r := newRng(seed)
	res := &result{}
	cmpI := generic.NewCompareFunc[int]()
	eqS := generic.NewEqualFunc[string]()
	name := namer(seed%2 == 1, seed)
	n := pickSize(r, 1000)
	keys := make([]int, n)
	for i := range keys {
		keys[i] = r.intn(10 * n)
	}
	for hi, h := range []heap.Heap[int, string]{heap.NewBinary[int, string](2, cmpI, eqS), heap.NewBinomial[int, string](cmpI, eqS), heap.NewFibonacci[int, string](cmpI, eqS)} {
		for i, k := range keys {
			h.Insert(k, name("v", k))
			if i%8 == 0 {
				yield()
			}
		}
		var out []string
		for i := 0; i < n/2+1; i++ {
			k, v, ok := h.Delete()
			out = append(out, fmt.Sprint(k, v[:2], ok))
		}
		pk, _, _ := h.Peek()
		res.add("heap %d n=%d size %d peek %d has %v out %s", hi, n, h.Size(), pk, h.ContainsKey(keys[0]), strings.Join(out, ","))
	}
	for hi, h := range []heap.IndexedHeap[int, string]{heap.NewIndexedBinary[int, string](n, cmpI, eqS), heap.NewIndexedBinomial[int, string](n, cmpI, eqS), heap.NewIndexedFibonacci[int, string](n, cmpI, eqS)} {
		for i, k := range keys {
			h.Insert(i, k, name("v", k))
			if i%8 == 0 {
				yield()
			}
		}
		for i := 0; i < n; i += 3 {
			h.ChangeKey(i, keys[i]/2)
		}
		for i := 1; i < n; i += 5 {
			h.DeleteIndex(i)
		}
		var out []string
		for i := 0; i < n/3+1; i++ {
			idx, k, _, ok := h.Delete()
			out = append(out, fmt.Sprint(idx, ":", k, ok))
		}
		res.add("indexed %d n=%d size %d has0 %v out %s", hi, n, h.Size(), h.ContainsIndex(0), strings.Join(out, ","))
	}
	return res
}

// ---------------------------------------------------------------- grammars

type gspec struct {
	terms    []grammar.Terminal
	nonTerms []grammar.NonTerminal
	prods    []*grammar.Production
	start    grammar.NonTerminal
}

func (g gspec) build() *grammar.CFG { return grammar.NewCFG(g.terms, g.nonTerms, g.prods, g.start) }

func prod(head grammar.NonTerminal, body ...grammar.Symbol) *grammar.Production {
	return &grammar.Production{Head: head, Body: grammar.String[grammar.Symbol](body)}
}

// fixture returns a private copy of one of the textbook grammars.  Terminal and non-terminal names
// get a seed-specific suffix; with long=true every name is longer than 40 bytes.
func fixture(i int, salt uint64, long bool) gspec {
	sfx := fmt.Sprint("_", salt%97)
	if long {
		sfx = fmt.Sprintf("_%016x_abcdefghijklmnopqrstuvwxyz0123456789", salt*0x9E3779B97F4A7C15)
	}
	t := func(s string) grammar.Terminal { return grammar.Terminal(s + sfx) }
	n := func(s string) grammar.NonTerminal {
		if long {
			return grammar.NonTerminal(s + sfx)
		}
		return grammar.NonTerminal(s)
	}
	switch i % 5 {
	case 0: // S → C C ; C → c C | d          (LR(1), LALR, SLR)
		return gspec{[]grammar.Terminal{t("c"), t("d")}, []grammar.NonTerminal{n("S"), n("C")}, []*grammar.Production{
			prod(n("S"), n("C"), n("C")), prod(n("C"), t("c"), n("C")), prod(n("C"), t("d"))}, n("S")}
	case 1: // E → E + T | T ; T → T * F | F ; F → ( E ) | id     (SLR)
		return gspec{[]grammar.Terminal{t("+"), t("*"), t("("), t(")"), t("id")}, []grammar.NonTerminal{n("E"), n("T"), n("F")},
			[]*grammar.Production{prod(n("E"), n("E"), t("+"), n("T")), prod(n("E"), n("T")), prod(n("T"), n("T"), t("*"), n("F")),
				prod(n("T"), n("F")), prod(n("F"), t("("), n("E"), t(")")), prod(n("F"), t("id"))}, n("E")}
	case 2: // S → L = R | R ; L → * R | id ; R → L     (LALR, not SLR)
		return gspec{[]grammar.Terminal{t("="), t("*"), t("id")}, []grammar.NonTerminal{n("S"), n("L"), n("R")},
			[]*grammar.Production{prod(n("S"), n("L"), t("="), n("R")), prod(n("S"), n("R")), prod(n("L"), t("*"), n("R")),
				prod(n("L"), t("id")), prod(n("R"), n("L"))}, n("S")}
	case 3: // E → T E′ ; E′ → + T E′ | ε ; T → F T′ ; T′ → * F T′ | ε ; F → ( E ) | id     (LL(1))
		return gspec{[]grammar.Terminal{t("+"), t("*"), t("("), t(")"), t("id")}, []grammar.NonTerminal{n("E"), n("E′"), n("T"), n("T′"), n("F")},
			[]*grammar.Production{prod(n("E"), n("T"), n("E′")), prod(n("E′"), t("+"), n("T"), n("E′")), prod(n("E′")),
				prod(n("T"), n("F"), n("T′")), prod(n("T′"), t("*"), n("F"), n("T′")), prod(n("T′")),
				prod(n("F"), t("("), n("E"), t(")")), prod(n("F"), t("id"))}, n("E")}
	default: // a larger SLR expression grammar (more than 33 LR states: the ACTION/GOTO tables re-size)
		return gspec{[]grammar.Terminal{t("+"), t("-"), t("*"), t("/"), t("%"), t("^"), t("("), t(")"), t("["), t("]"), t("id"), t("num"), t("neg"), t(",")},
			[]grammar.NonTerminal{n("E"), n("T"), n("P"), n("F"), n("L")},
			[]*grammar.Production{
				prod(n("E"), n("E"), t("+"), n("T")), prod(n("E"), n("E"), t("-"), n("T")), prod(n("E"), n("T")),
				prod(n("T"), n("T"), t("*"), n("P")), prod(n("T"), n("T"), t("/"), n("P")), prod(n("T"), n("T"), t("%"), n("P")), prod(n("T"), n("P")),
				prod(n("P"), n("F"), t("^"), n("P")), prod(n("P"), n("F")),
				prod(n("F"), t("("), n("E"), t(")")), prod(n("F"), t("id")), prod(n("F"), t("num")), prod(n("F"), t("neg"), n("F")),
				prod(n("F"), t("id"), t("["), n("L"), t("]")),
				prod(n("L"), n("L"), t(","), n("E")), prod(n("L"), n("E"))}, n("E")}
	}
}

// randomGrammar: every non-terminal has a production starting with a terminal (so it is productive),
// further bodies are random; some ε-productions (never as the only production).
func randomGrammar(r *rng, long bool, salt uint64) gspec {
	nt := 2 + r.intn(4)
	tt := 2 + r.intn(4)
	if r.intn(3) == 0 { // a wide grammar: the production / FIRST / FOLLOW tables re-size
		nt, tt = 40+r.intn(10), 36+r.intn(10)
	}
	name := namer(long, salt)
	var g gspec
	for i := 0; i < tt; i++ {
		g.terms = append(g.terms, grammar.Terminal(name("t", i)))
	}
	for i := 0; i < nt; i++ {
		g.nonTerms = append(g.nonTerms, grammar.NonTerminal(name("N", i)))
	}
	g.start = g.nonTerms[0]
	sym := func() grammar.Symbol {
		if r.intn(2) == 0 {
			return g.terms[r.intn(tt)]
		}
		return g.nonTerms[r.intn(nt)]
	}
	for i, A := range g.nonTerms {
		g.prods = append(g.prods, &grammar.Production{Head: A, Body: grammar.String[grammar.Symbol]{g.terms[r.intn(tt)]}})
		if i+1 < nt { // keep every non-terminal reachable: Ni → t N(i+1)
			g.prods = append(g.prods, &grammar.Production{Head: A, Body: grammar.String[grammar.Symbol]{g.terms[r.intn(tt)], g.nonTerms[i+1]}})
		}
		for k := r.intn(3); k > 0; k-- {
			body := grammar.String[grammar.Symbol]{}
			for l := r.intn(4); l > 0; l-- {
				body = append(body, sym())
			}
			g.prods = append(g.prods, &grammar.Production{Head: A, Body: body})
		}
	}
	return g
}

func firstFollowLines(res *result, G *grammar.CFG, nonTerms []grammar.NonTerminal) {
	first := G.ComputeFIRST()
	yield()
	follow := G.ComputeFOLLOW(first)
	for i, A := range nonTerms {
		fs := first(grammar.String[grammar.Symbol]{A})
		var ts []string
		for t := range fs.Terminals.All() {
			ts = append(ts, string(t))
		}
		res.add("FIRST %s = %s eps=%v", A, sortedJoin(ts), fs.IncludesEmpty)
		fo := follow(A)
		ts = nil
		for t := range fo.Terminals.All() {
			ts = append(ts, string(t))
		}
		res.add("FOLLOW %s = %s end=%v", A, sortedJoin(ts), fo.IncludesEndmarker)
		if i%4 == 0 {
			yield()
		}
	}
	var nl []string
	for A := range G.NullableNonTerminals().All() {
		nl = append(nl, string(A))
	}
	res.add("nullable %s", sortedJoin(nl))
}

func wFirstFollow(seed uint64) *result {
	r := newRng(seed)
	res := &result{}
	long := seed%2 == 1
	for i := 0; i < 2; i++ {
		g := randomGrammar(r, long, seed+uint64(i))
		G := g.build()
		yield()
		firstFollowLines(res, G, g.nonTerms)
	}
	f := fixture(3, seed, long)
	firstFollowLines(res, f.build(), f.nonTerms)
	return res
}

func cfgLines(res *result, tag string, G *grammar.CFG) {
	var ps []string
	for p := range G.Productions.All() {
		ps = append(ps, p.String())
	}
	res.add("%s start=%s prods=%s", tag, G.Start, sortedJoin(ps))
	yield()
}

func wGrammarTransform(seed uint64) *result {
	r := newRng(seed)
	res := &result{}
	g := randomGrammar(r, seed%2 == 1, seed)
	G := g.build()
	res.add("verify %v", G.Verify() == nil)
	cfgLines(res, "orig", G)
	cfgLines(res, "clone", G.Clone())
	res.add("equal-clone %v", G.Equal(G.Clone()))
	cfgLines(res, "noeps", G.EliminateEmptyProductions())
	cfgLines(res, "nosingle", G.EliminateEmptyProductions().EliminateSingleProductions())
	cfgLines(res, "reach", G.EliminateUnreachableProductions())
	var syms []string
	for s := range G.Symbols().All() {
		syms = append(syms, s.String())
	}
	res.add("symbols %s", sortedJoin(syms))
	res.add("terms %v", G.OrderTerminals())
	a, b, c := G.OrderNonTerminals()
	res.add("nonterms %v %v %v", a, b, c)
	res.add("ll1 %v", G.IsLL1() == nil)
	return res
}

func wLL1(seed uint64) *result {
	res := &result{}
	f := fixture(3, seed, seed%2 == 1)
	G := f.build()
	yield()
	T, err := predictive.BuildParsingTable(G)
	res.add("err %v", err != nil)
	if T != nil {
		res.add("conflicts %v", T.Conflicts() != nil)
		for _, A := range f.nonTerms {
			for _, a := range append(append([]grammar.Terminal{}, f.terms...), grammar.Endmarker) {
				p, ok := T.GetProduction(A, a)
				ps := ""
				if ok && p != nil {
					ps = p.String()
				}
				res.add("M[%s,%s] = %s sync=%v empty=%v", A, a, ps, T.IsSync(A, a), T.IsEmpty(A, a))
			}
			yield()
		}
	}
	return res
}

func wLR(seed uint64, kind string) *result {
	res := &result{}
	which := []int{0, 1, 4}
	if kind != "slr" {
		which = []int{0, 1, 2} // LALR / LR(1) of the large grammar are too slow under the race detector
	}
	f := fixture(which[int((seed/2)%uint64(len(which)))], seed, seed%2 == 1)
	G := f.build()
	yield()
	var T *lr.ParsingTable
	var err error
	switch kind {
	case "slr":
		T, err = simple.BuildParsingTable(G, lr.PrecedenceLevels{})
	case "lalr":
		T, err = lookahead.BuildParsingTable(G, lr.PrecedenceLevels{})
	default:
		T, err = canonical.BuildParsingTable(G, lr.PrecedenceLevels{})
	}
	res.add("%s err=%v", kind, err != nil)
	if T == nil {
		return res
	}
	res.add("states %d", len(T.States))
	terms := append(append([]grammar.Terminal{}, f.terms...), grammar.Endmarker)
	for _, s := range T.States {
		var row []string
		for _, a := range terms {
			if act, e := T.ACTION(s, a); e == nil && act != nil {
				row = append(row, fmt.Sprintf("%s:%s", a, act))
			}
		}
		for _, A := range f.nonTerms {
			if j, e := T.GOTO(s, A); e == nil {
				row = append(row, fmt.Sprintf("%s:%d", A, j))
			}
		}
		res.add("state %d %s", s, strings.Join(row, " "))
		if s%4 == 0 {
			yield()
		}
	}
	return res
}

// ---------------------------------------------------------------- the exported package-level Eq*/Cmp*/Hash* values
// and the HashFuncFor* families of the hash package (each goroutine with hash functions of its own)

func wHashAPI(seed uint64) *result {
	r := newRng(seed)
	res := &result{}
	name := namer(seed%2 == 1, seed)
	hs := hash.HashFuncForString[string](nil)
	hss := hash.HashFuncForStringSlice[[]string](nil)
	hi := hash.HashFuncForInt[int](nil)
	his := hash.HashFuncForIntSlice[[]int](nil)
	hu8 := hash.HashFuncForUint8Slice[[]uint8](nil)
	hf := hash.HashFuncForFloat64[float64](nil)
	hb := hash.HashFuncForBool[bool](nil)
	h32 := hash.HashFuncForInt32[int32](nil)
	hu64 := hash.HashFuncForUint64[uint64](nil)
	for i := 0; i < 150; i++ {
		t := grammar.Terminal(name("t", r.intn(50)))
		n := grammar.NonTerminal(name("N", r.intn(50)))
		body := grammar.String[grammar.Symbol]{t, n, t}
		p := &grammar.Production{Head: n, Body: body}
		q := &grammar.Production{Head: n, Body: grammar.String[grammar.Symbol]{n}}
		res.add("g %d %d %d %d %d %d", grammar.HashSymbol(t), grammar.HashSymbol(n), grammar.HashTerminal(t),
			grammar.HashNonTerminal(n), grammar.HashString(body), grammar.HashProduction(p))
		res.add("g %v %v %v %d %d %d %d", grammar.EqSymbol(t, n), grammar.EqString(body, body), grammar.EqProduction(p, q),
			grammar.CmpSymbol(t, n), grammar.CmpString(body, q.Body), grammar.CmpProduction(p, q), grammar.CmpTerminal(t, "t7"))
		s := automata.State(r.intn(1000))
		a := automata.Symbol('a' + rune(r.intn(26)))
		res.add("a %d %d %v %d", automata.HashState(s), automata.HashSymbol(a), automata.EqState(s, 3), automata.CmpSymbol(a, 'k'))
		ls := lr.State(r.intn(1000))
		res.add("l %d %v %d", lr.HashState(ls), lr.EqState(ls, 4), lr.CmpState(ls, 9))
		x := r.intn(1 << 30)
		res.add("h %d %d %d %d %d %d %d %d %d", hs(name("s", x)), hss([]string{name("a", x), name("b", i)}), hi(x), his([]int{x, i, x}),
			hu8([]uint8(name("u", x))), hf(float64(x)/3), hb(x%2 == 0), h32(int32(x)), hu64(uint64(x)))
		if i%4 == 0 {
			yield()
		}
	}
	return res
}

// ---------------------------------------------------------------- automata

func wAutomata(seed uint64) *result {
	r := newRng(seed)
	res := &result{}
	n := 3 + r.intn(6)
	alpha := []automata.Symbol{'a', 'b', 'c'}[:2+r.intn(2)]
	var finals []automata.State
	for s := 0; s < n; s++ {
		if r.intn(3) == 0 {
			finals = append(finals, automata.State(s))
		}
	}
	if len(finals) == 0 {
		finals = []automata.State{automata.State(n - 1)}
	}
	N := automata.NewNFA(0, finals)
	for s := 0; s < n; s++ {
		for _, a := range alpha {
			var next []automata.State
			for k := r.intn(3); k > 0; k-- {
				next = append(next, automata.State(r.intn(n)))
			}
			if len(next) > 0 {
				N.Add(automata.State(s), a, next)
			}
		}
		if r.intn(4) == 0 {
			N.Add(automata.State(s), automata.E, []automata.State{automata.State(r.intn(n))})
		}
		yield()
	}
	D := N.ToDFA()
	yield()
	M := D.Minimize()
	yield()
	R := M.EliminateDeadStates().ReindexStates()
	res.add("states nfa=%d min=%d", len(N.States()), len(M.States()))
	res.add("symbols %v", D.Symbols())
	// the languages, as accept bits over all strings up to length 5 in a fixed order
	var bits strings.Builder
	var walk func(w automata.String, depth int)
	walk = func(w automata.String, depth int) {
		for _, acc := range []bool{N.Accept(w), D.Accept(w), M.Accept(w), R.Accept(w)} {
			if acc {
				bits.WriteByte('1')
			} else {
				bits.WriteByte('0')
			}
		}
		if depth == 0 {
			return
		}
		for _, a := range alpha {
			walk(append(append(automata.String{}, w...), a), depth-1)
		}
	}
	walk(automata.String{}, 4)
	res.add("accept %s", bits.String())
	res.add("equal-clone %v %v", N.Equal(N.Clone()), D.Equal(D.Clone()))
	res.add("back %d", len(D.ToNFA().States()))
	U := N.Union(automata.NewNFA(0, []automata.State{0})).Star()
	res.add("union-star accepts-empty %v", U.ToDFA().Accept(automata.String{}))

	// a long chain: many states (the state-keyed tables grow), a* b a^m
	m := pickSize(r, 70)
	C := automata.NewNFA(0, []automata.State{automata.State(m + 1)})
	C.Add(0, 'a', []automata.State{0})
	C.Add(0, 'b', []automata.State{1})
	for s := 1; s <= m; s++ {
		C.Add(automata.State(s), 'a', []automata.State{automata.State(s + 1)})
		if s%8 == 0 {
			yield()
		}
	}
	CD := C.ToDFA()
	yield()
	CM := CD.Minimize()
	w := automata.String{'a', 'a', 'b'}
	for i := 0; i < m; i++ {
		w = append(w, 'a')
	}
	res.add("chain m=%d dfa=%d min=%d accepts %v %v", m, len(CD.States()), len(CM.States()), CM.Accept(w), CM.Accept(w[1:len(w)-1]))
	return res
}

// ---------------------------------------------------------------- lexer input (two-buffer reader)

func wLexerInput(seed uint64) *result {
	r := newRng(seed)
	res := &result{}
	var text strings.Builder
	words := pickSize(r, 1000)
	for i := 0; i < words; i++ {
		text.WriteString(longName("wörd", seed, r.intn(50))[:5+r.intn(30)])
		if r.intn(6) == 0 {
			text.WriteByte('\n')
		} else {
			text.WriteByte(' ')
		}
	}
	for _, n := range []int{8, 64, 4096} {
		in, err := input.New(fmt.Sprint("file", seed), strings.NewReader(text.String()), n)
		if err != nil {
			res.add("input n=%d err", n)
			continue
		}
		runes, lexemes, lastLine := 0, 0, 0
		for {
			c, err := in.Next()
			if err != nil {
				if err != io.EOF {
					res.add("input n=%d error %v", n, err)
				}
				break
			}
			runes++
			if c == ' ' || c == '\n' {
				_, pos := in.Lexeme()
				lexemes++
				lastLine = pos.Line
				if lexemes%16 == 0 {
					yield()
				}
			} else if runes%97 == 0 {
				in.Retract()
				in.Next()
			}
		}
		res.add("input n=%d runes %d lexemes %d line %d", n, runes, lexemes, lastLine)
	}
	return res
}

// ---------------------------------------------------------------- graphs and everything that renders DOT

func wGraphsDot(seed uint64) *result {
	r := newRng(seed)
	res := &result{}
	n := pickSize(r, 200) + 1
	ug := graph.NewUndirected(n)
	dg := graph.NewDirected(n)
	for i := 0; i < 2*n; i++ {
		v, w := r.intn(n), r.intn(n)
		ug.AddEdge(v, w)
		if v < w { // acyclic
			dg.AddEdge(v, w)
		}
		if i%16 == 0 {
			yield()
		}
	}
	res.add("undirected n=%d E=%d deg0=%d dot=%d", n, ug.E(), ug.Degree(0), len(ug.DOT()))
	yield()
	res.add("directed E=%d out0=%d rev=%d dot=%d", dg.E(), dg.OutDegree(0), dg.Reverse().E(), len(dg.DOT()))
	res.add("components %v %v %v", ug.ConnectedComponents() != nil, dg.StronglyConnectedComponents() != nil, dg.Topological() != nil)
	// the structures that draw themselves
	cmpI := generic.NewCompareFunc[int]()
	eqI := generic.NewEqualFunc[int]()
	h := heap.NewBinomial[int, int](cmpI, eqI)
	f := heap.NewFibonacci[int, int](cmpI, eqI)
	for i := 0; i < 20; i++ {
		h.Insert(r.intn(100), i)
		f.Insert(r.intn(100), i)
	}
	f.Delete()
	res.add("heap dot %d %d", len(h.DOT()), len(f.DOT()))
	N := automata.NewNFA(0, []automata.State{2})
	N.Add(0, 'a', []automata.State{0, 1})
	N.Add(1, 'b', []automata.State{2})
	res.add("automata dot %d %d", len(N.DOT()), len(N.ToDFA().DOT()))
	return res
}

// ---------------------------------------------------------------- everything else (nothing global expected)

func wStructures(seed uint64) *result {
	r := newRng(seed)
	res := &result{}
	cmpI := generic.NewCompareFunc[int]()
	eqI := generic.NewEqualFunc[int]()

	xs := make([]int, pickSize(r, 1000)+8)
	for i := range xs {
		xs[i] = r.intn(1000) - 500
	}
	for _, s := range []struct {
		name string
		f    func([]int, generic.CompareFunc[int])
	}{{"quick", algosort.Quick[int]}, {"quick3", algosort.Quick3Way[int]}, {"merge", algosort.Merge[int]},
		{"heap", algosort.Heap[int]}, {"shell", algosort.Shell[int]}, {"insertion", algosort.Insertion[int]}} {
		ys := append([]int{}, xs...)
		s.f(ys, cmpI)
		res.add("sort %s %v", s.name, ys[:8])
		yield()
	}
	ys := append([]int{}, xs...)
	res.add("select %d", algosort.Select(ys, 5, cmpI))
	ys = append([]int{}, xs...)
	radixsort.LSDInt(ys)
	zs := append([]int{}, xs...)
	radixsort.MSDInt(zs)
	res.add("radix %v %v", ys[:6], zs[:6])
	ss := make([]string, 60)
	for i := range ss {
		ss[i] = fmt.Sprintf("k%03d", r.intn(400))
	}
	qs := append([]string{}, ss...)
	radixsort.Quick3WayString(qs)
	ms := append([]string{}, ss...)
	radixsort.MSDString(ms)
	res.add("radixstr %v %v", qs[:4], ms[:4])

	q := list.NewQueue[int](4, eqI)
	st := list.NewStack[int](4, eqI)
	sq := list.NewSoftQueue[int](eqI)
	for i, x := range xs {
		q.Enqueue(x)
		st.Push(x)
		sq.Enqueue(x)
		if i%16 == 0 {
			yield()
		}
	}
	a, _ := q.Dequeue()
	b, _ := st.Pop()
	c, _ := sq.Dequeue()
	res.add("list %d %d %d %v %d", a, b, c, q.Contains(xs[5]), sq.Size())
	for ui, u := range []unionfind.UnionFind{unionfind.NewQuickFind(50), unionfind.NewQuickUnion(50), unionfind.NewWeightedQuickUnion(50)} {
		for i := 0; i < 30; i++ {
			u.Union(r.intn(50), r.intn(50))
		}
		res.add("uf %d count %d connected %v", ui, u.Count(), u.IsConnected(1, 2))
	}
	return res
}
