package main

import (
	"fmt"
	"strings"

	"github.com/moorara/algo/automata"
	"github.com/moorara/algo/generic"
	"github.com/moorara/algo/grammar"
	"github.com/moorara/algo/hash"
	"github.com/moorara/algo/heap"
	"github.com/moorara/algo/list"
	"github.com/moorara/algo/parser/lr"
	"github.com/moorara/algo/parser/lr/canonical"
	"github.com/moorara/algo/parser/lr/lookahead"
	"github.com/moorara/algo/parser/lr/simple"
	"github.com/moorara/algo/parser/predictive"
	"github.com/moorara/algo/radixsort"
	"github.com/moorara/algo/set"
	algosort "github.com/moorara/algo/sort"
	"github.com/moorara/algo/symboltable"
	"github.com/moorara/algo/trie"
	"github.com/moorara/algo/unionfind"
)

// mixedOrder: in the `mixed` workload goroutine g runs mixedOrder[(g+seed) mod n], so different
// packages' entry points run against one another.
var mixedOrder = []string{"hashtable-iterate", "lr-slr", "set-iterate", "automata-determinize", "first-follow",
	"lr-lalr", "grammar-transform", "ll1-table", "lr-canonical", "structures", "hash-api"}

func init() {
	workloads["hashtable-iterate"] = wHashTables
	workloads["set-iterate"] = wSets
	workloads["first-follow"] = wFirstFollow
	workloads["grammar-transform"] = wGrammarTransform
	workloads["ll1-table"] = wLL1
	workloads["lr-slr"] = func(s uint64) *result { return wLR(s, "slr") }
	workloads["lr-lalr"] = func(s uint64) *result { return wLR(s, "lalr") }
	workloads["lr-canonical"] = func(s uint64) *result { return wLR(s, "canonical") }
	workloads["automata-determinize"] = wAutomata
	workloads["structures"] = wStructures
	workloads["hash-api"] = wHashAPI
}

// ---------------------------------------------------------------- hash tables

func wHashTables(seed uint64) *result {
	r := newRng(seed)
	res := &result{}
	eqI := generic.NewEqualFunc[int]()
	eqS := generic.NewEqualFunc[string]()
	// every goroutine makes its OWN hash function (a HashFunc keeps a hasher: sharing one would be
	// sharing an instance, which the property excludes)
	mk := []func() symboltable.SymbolTable[int, string]{
		func() symboltable.SymbolTable[int, string] {
			return symboltable.NewChainHashTable(hash.HashFuncForInt[int](nil), eqI, eqS, symboltable.HashOpts{})
		},
		func() symboltable.SymbolTable[int, string] {
			return symboltable.NewLinearHashTable(hash.HashFuncForInt[int](nil), eqI, eqS, symboltable.HashOpts{})
		},
		func() symboltable.SymbolTable[int, string] {
			return symboltable.NewQuadraticHashTable(hash.HashFuncForInt[int](nil), eqI, eqS, symboltable.HashOpts{})
		},
		func() symboltable.SymbolTable[int, string] {
			return symboltable.NewDoubleHashTable(hash.HashFuncForInt[int](nil), eqI, eqS, symboltable.HashOpts{})
		},
	}
	n := 20 + r.intn(60)
	keys := make([]int, n)
	for i := range keys {
		keys[i] = r.intn(500)
	}
	for ti, f := range mk {
		t, u := f(), f()
		for _, k := range keys {
			t.Put(k, fmt.Sprint("v", k))
			u.Put(k, fmt.Sprint("v", k))
		}
		for i := 0; i < n/4; i++ {
			t.Delete(keys[i])
			u.Delete(keys[i])
		}
		for round := 0; round < 3; round++ {
			var kvs []string
			for k, v := range t.All() {
				kvs = append(kvs, fmt.Sprint(k, "=", v))
			}
			res.add("table %d all %s", ti, sortedJoin(kvs))
		}
		res.add("table %d size %d equal %v", ti, t.Size(), t.Equal(u))
		res.add("table %d any %v allm %v", ti, t.AnyMatch(func(k int, _ string) bool { return k%7 == 0 }),
			t.AllMatch(func(k int, _ string) bool { return k >= 0 }))
		sel := t.SelectMatch(func(k int, _ string) bool { return k%2 == 0 })
		res.add("table %d select %d strlen %d", ti, sel.Size(), len(t.String()))
	}
	return res
}

// ---------------------------------------------------------------- sets

func wSets(seed uint64) *result {
	r := newRng(seed)
	res := &result{}
	eq := generic.NewEqualFunc[int]()
	cmp := generic.NewCompareFunc[int]()
	mk := []func(vals ...int) set.Set[int]{
		func(vals ...int) set.Set[int] { return set.New(eq, vals...) },
		func(vals ...int) set.Set[int] { return set.NewStable(eq, vals...) },
		func(vals ...int) set.Set[int] { return set.NewSorted(cmp, vals...) },
	}
	for si, f := range mk {
		a, b := f(), f()
		for i := 0; i < 10+r.intn(30); i++ {
			a.Add(r.intn(40))
			b.Add(r.intn(40))
		}
		members := func(s set.Set[int]) string {
			var ms []string
			for v := range s.All() {
				ms = append(ms, fmt.Sprint(v))
			}
			return sortedJoin(ms)
		}
		for round := 0; round < 3; round++ {
			res.add("set %d a %s", si, members(a))
		}
		res.add("set %d union %s", si, members(a.Union(b)))
		res.add("set %d inter %s", si, members(a.Intersection(b)))
		res.add("set %d diff %s", si, members(a.Difference(b)))
		res.add("set %d sub %v eq %v", si, a.Intersection(b).IsSubset(a), a.Equal(a.Clone()))
		small := f(1, 2, 3, 4)
		ps := set.Powerset(small)
		var sizes []string
		for m := range ps.All() {
			sizes = append(sizes, members(m))
		}
		res.add("set %d powerset %d %s", si, ps.Size(), sortedJoin(sizes))
		res.add("set %d partitions %d", si, set.Partitions(small).Size())
	}
	return res
}

// ---------------------------------------------------------------- grammars

type gspec struct {
	terms    []grammar.Terminal
	nonTerms []grammar.NonTerminal
	prods    []*grammar.Production
	start    grammar.NonTerminal
}

func (g gspec) build() *grammar.CFG { return grammar.NewCFG(g.terms, g.nonTerms, g.prods, g.start) }

func prod(head string, body ...grammar.Symbol) *grammar.Production {
	return &grammar.Production{Head: grammar.NonTerminal(head), Body: grammar.String[grammar.Symbol](body)}
}

// fixture returns a private copy of one of the textbook grammars, with a seed-specific suffix on
// every terminal so that different goroutines hash different strings.
func fixture(i int, sfx string) gspec {
	t := func(s string) grammar.Terminal { return grammar.Terminal(s + sfx) }
	n := func(s string) grammar.NonTerminal { return grammar.NonTerminal(s) }
	switch i % 4 {
	case 0: // S → C C ; C → c C | d          (LR(1), LALR, SLR)
		return gspec{[]grammar.Terminal{t("c"), t("d")}, []grammar.NonTerminal{"S", "C"}, []*grammar.Production{
			prod("S", n("C"), n("C")), prod("C", t("c"), n("C")), prod("C", t("d"))}, "S"}
	case 1: // E → E + T | T ; T → T * F | F ; F → ( E ) | id     (SLR)
		return gspec{[]grammar.Terminal{t("+"), t("*"), t("("), t(")"), t("id")}, []grammar.NonTerminal{"E", "T", "F"},
			[]*grammar.Production{prod("E", n("E"), t("+"), n("T")), prod("E", n("T")), prod("T", n("T"), t("*"), n("F")),
				prod("T", n("F")), prod("F", t("("), n("E"), t(")")), prod("F", t("id"))}, "E"}
	case 2: // S → L = R | R ; L → * R | id ; R → L     (LALR, not SLR)
		return gspec{[]grammar.Terminal{t("="), t("*"), t("id")}, []grammar.NonTerminal{"S", "L", "R"},
			[]*grammar.Production{prod("S", n("L"), t("="), n("R")), prod("S", n("R")), prod("L", t("*"), n("R")),
				prod("L", t("id")), prod("R", n("L"))}, "S"}
	default: // E → T E′ ; E′ → + T E′ | ε ; T → F T′ ; T′ → * F T′ | ε ; F → ( E ) | id     (LL(1))
		return gspec{[]grammar.Terminal{t("+"), t("*"), t("("), t(")"), t("id")}, []grammar.NonTerminal{"E", "E′", "T", "T′", "F"},
			[]*grammar.Production{prod("E", n("T"), n("E′")), prod("E′", t("+"), n("T"), n("E′")), prod("E′"),
				prod("T", n("F"), n("T′")), prod("T′", t("*"), n("F"), n("T′")), prod("T′"),
				prod("F", t("("), n("E"), t(")")), prod("F", t("id"))}, "E"}
	}
}

// randomGrammar: every non-terminal has a production starting with a terminal (so it is productive),
// further bodies are random; some ε-productions (never as the only production).
func randomGrammar(r *rng) gspec {
	nt := 2 + r.intn(4)
	tt := 2 + r.intn(4)
	var g gspec
	for i := 0; i < tt; i++ {
		g.terms = append(g.terms, grammar.Terminal(fmt.Sprintf("t%d_%d", i, r.intn(1000))))
	}
	for i := 0; i < nt; i++ {
		g.nonTerms = append(g.nonTerms, grammar.NonTerminal(fmt.Sprintf("N%d", i)))
	}
	g.start = g.nonTerms[0]
	sym := func() grammar.Symbol {
		if r.intn(2) == 0 {
			return g.terms[r.intn(tt)]
		}
		return g.nonTerms[r.intn(nt)]
	}
	for i, A := range g.nonTerms {
		g.prods = append(g.prods, &grammar.Production{Head: A, Body: grammar.String[grammar.Symbol]{g.terms[r.intn(tt)]}})
		if i+1 < nt { // keep every non-terminal reachable: Ni → t N(i+1)
			g.prods = append(g.prods, &grammar.Production{Head: A, Body: grammar.String[grammar.Symbol]{g.terms[r.intn(tt)], g.nonTerms[i+1]}})
		}
		for k := r.intn(3); k > 0; k-- {
			body := grammar.String[grammar.Symbol]{}
			for l := r.intn(4); l > 0; l-- {
				body = append(body, sym())
			}
			g.prods = append(g.prods, &grammar.Production{Head: A, Body: body})
		}
	}
	return g
}

func firstFollowLines(res *result, G *grammar.CFG, nonTerms []grammar.NonTerminal) {
	first := G.ComputeFIRST()
	follow := G.ComputeFOLLOW(first)
	for _, A := range nonTerms {
		fs := first(grammar.String[grammar.Symbol]{A})
		var ts []string
		for t := range fs.Terminals.All() {
			ts = append(ts, string(t))
		}
		res.add("FIRST %s = %s eps=%v", A, sortedJoin(ts), fs.IncludesEmpty)
		fo := follow(A)
		ts = nil
		for t := range fo.Terminals.All() {
			ts = append(ts, string(t))
		}
		res.add("FOLLOW %s = %s end=%v", A, sortedJoin(ts), fo.IncludesEndmarker)
	}
	var nl []string
	for A := range G.NullableNonTerminals().All() {
		nl = append(nl, string(A))
	}
	res.add("nullable %s", sortedJoin(nl))
}

func wFirstFollow(seed uint64) *result {
	r := newRng(seed)
	res := &result{}
	for i := 0; i < 3; i++ {
		g := randomGrammar(r)
		firstFollowLines(res, g.build(), g.nonTerms)
	}
	f := fixture(3, fmt.Sprint("_", seed%97))
	firstFollowLines(res, f.build(), f.nonTerms)
	return res
}

func cfgLines(res *result, tag string, G *grammar.CFG) {
	var ps []string
	for p := range G.Productions.All() {
		ps = append(ps, p.String())
	}
	res.add("%s start=%s prods=%s", tag, G.Start, sortedJoin(ps))
}

func wGrammarTransform(seed uint64) *result {
	r := newRng(seed)
	res := &result{}
	g := randomGrammar(r)
	G := g.build()
	res.add("verify %v", G.Verify() == nil)
	cfgLines(res, "orig", G)
	cfgLines(res, "clone", G.Clone())
	res.add("equal-clone %v", G.Equal(G.Clone()))
	cfgLines(res, "noeps", G.EliminateEmptyProductions())
	cfgLines(res, "nosingle", G.EliminateEmptyProductions().EliminateSingleProductions())
	cfgLines(res, "reach", G.EliminateUnreachableProductions())
	var syms []string
	for s := range G.Symbols().All() {
		syms = append(syms, s.String())
	}
	res.add("symbols %s", sortedJoin(syms))
	res.add("terms %v", G.OrderTerminals())
	a, b, c := G.OrderNonTerminals()
	res.add("nonterms %v %v %v", a, b, c)
	res.add("ll1 %v", G.IsLL1() == nil)
	return res
}

func wLL1(seed uint64) *result {
	res := &result{}
	f := fixture(3, fmt.Sprint("_", seed%89))
	G := f.build()
	T, err := predictive.BuildParsingTable(G)
	res.add("err %v", err != nil)
	if T != nil {
		res.add("conflicts %v", T.Conflicts() != nil)
		for _, A := range f.nonTerms {
			for _, a := range append(append([]grammar.Terminal{}, f.terms...), grammar.Endmarker) {
				p, ok := T.GetProduction(A, a)
				ps := ""
				if ok && p != nil {
					ps = p.String()
				}
				res.add("M[%s,%s] = %s sync=%v empty=%v", A, a, ps, T.IsSync(A, a), T.IsEmpty(A, a))
			}
		}
	}
	return res
}

func wLR(seed uint64, kind string) *result {
	res := &result{}
	which := []int{0, 1}
	if kind != "slr" {
		which = []int{0, 1, 2}
	}
	f := fixture(which[int(seed%uint64(len(which)))], fmt.Sprint("_", seed%83))
	G := f.build()
	var T *lr.ParsingTable
	var err error
	switch kind {
	case "slr":
		T, err = simple.BuildParsingTable(G, lr.PrecedenceLevels{})
	case "lalr":
		T, err = lookahead.BuildParsingTable(G, lr.PrecedenceLevels{})
	default:
		T, err = canonical.BuildParsingTable(G, lr.PrecedenceLevels{})
	}
	res.add("%s err=%v", kind, err != nil)
	if T == nil {
		return res
	}
	res.add("states %d", len(T.States))
	terms := append(append([]grammar.Terminal{}, f.terms...), grammar.Endmarker)
	for _, s := range T.States {
		var row []string
		for _, a := range terms {
			if act, e := T.ACTION(s, a); e == nil && act != nil {
				row = append(row, fmt.Sprintf("%s:%s", a, act))
			}
		}
		for _, A := range f.nonTerms {
			if j, e := T.GOTO(s, A); e == nil {
				row = append(row, fmt.Sprintf("%s:%d", A, j))
			}
		}
		res.add("state %d %s", s, strings.Join(row, " "))
	}
	return res
}

// ---------------------------------------------------------------- the exported package-level Eq*/Cmp*/Hash* values

func wHashAPI(seed uint64) *result {
	r := newRng(seed)
	res := &result{}
	for i := 0; i < 200; i++ {
		t := grammar.Terminal(fmt.Sprint("t", r.intn(50)))
		n := grammar.NonTerminal(fmt.Sprint("N", r.intn(50)))
		body := grammar.String[grammar.Symbol]{t, n, t}
		p := &grammar.Production{Head: n, Body: body}
		q := &grammar.Production{Head: n, Body: grammar.String[grammar.Symbol]{n}}
		res.add("g %d %d %d %d %d %d", grammar.HashSymbol(t), grammar.HashSymbol(n), grammar.HashTerminal(t),
			grammar.HashNonTerminal(n), grammar.HashString(body), grammar.HashProduction(p))
		res.add("g %v %v %v %d %d %d %d", grammar.EqSymbol(t, n), grammar.EqString(body, body), grammar.EqProduction(p, q),
			grammar.CmpSymbol(t, n), grammar.CmpString(body, q.Body), grammar.CmpProduction(p, q), grammar.CmpTerminal(t, "t7"))
		s := automata.State(r.intn(1000))
		a := automata.Symbol('a' + rune(r.intn(26)))
		res.add("a %d %d %v %d", automata.HashState(s), automata.HashSymbol(a), automata.EqState(s, 3), automata.CmpSymbol(a, 'k'))
		ls := lr.State(r.intn(1000))
		res.add("l %d %v %d", lr.HashState(ls), lr.EqState(ls, 4), lr.CmpState(ls, 9))
	}
	return res
}

// ---------------------------------------------------------------- automata

func wAutomata(seed uint64) *result {
	r := newRng(seed)
	res := &result{}
	n := 3 + r.intn(5)
	alpha := []automata.Symbol{'a', 'b', 'c'}[:2+r.intn(2)]
	var finals []automata.State
	for s := 0; s < n; s++ {
		if r.intn(3) == 0 {
			finals = append(finals, automata.State(s))
		}
	}
	if len(finals) == 0 {
		finals = []automata.State{automata.State(n - 1)}
	}
	N := automata.NewNFA(0, finals)
	for s := 0; s < n; s++ {
		for _, a := range alpha {
			var next []automata.State
			for k := r.intn(3); k > 0; k-- {
				next = append(next, automata.State(r.intn(n)))
			}
			if len(next) > 0 {
				N.Add(automata.State(s), a, next)
			}
		}
		if r.intn(4) == 0 {
			N.Add(automata.State(s), automata.E, []automata.State{automata.State(r.intn(n))})
		}
	}
	D := N.ToDFA()
	M := D.Minimize()
	R := M.EliminateDeadStates().ReindexStates()
	res.add("states nfa=%d min=%d", len(N.States()), len(M.States()))
	res.add("symbols %v", D.Symbols())
	// the languages, as accept bits over all strings up to length 5 in a fixed order
	var bits strings.Builder
	var walk func(w automata.String, depth int)
	walk = func(w automata.String, depth int) {
		for _, acc := range []bool{N.Accept(w), D.Accept(w), M.Accept(w), R.Accept(w)} {
			if acc {
				bits.WriteByte('1')
			} else {
				bits.WriteByte('0')
			}
		}
		if depth == 0 {
			return
		}
		for _, a := range alpha {
			walk(append(append(automata.String{}, w...), a), depth-1)
		}
	}
	walk(automata.String{}, 5)
	res.add("accept %s", bits.String())
	res.add("equal-clone %v %v", N.Equal(N.Clone()), D.Equal(D.Clone()))
	res.add("back %d", len(D.ToNFA().States()))
	U := N.Union(automata.NewNFA(0, []automata.State{0})).Star()
	res.add("union-star accepts-empty %v", U.ToDFA().Accept(automata.String{}))
	return res
}

// ---------------------------------------------------------------- everything else (nothing global expected)

func wStructures(seed uint64) *result {
	r := newRng(seed)
	res := &result{}
	cmpI := generic.NewCompareFunc[int]()
	eqI := generic.NewEqualFunc[int]()
	cmpS := generic.NewCompareFunc[string]()

	xs := make([]int, 200)
	for i := range xs {
		xs[i] = r.intn(1000) - 500
	}
	for name, f := range map[string]func([]int, generic.CompareFunc[int]){
		"quick": algosort.Quick[int], "quick3": algosort.Quick3Way[int], "merge": algosort.Merge[int],
		"heap": algosort.Heap[int], "shell": algosort.Shell[int], "insertion": algosort.Insertion[int]} {
		ys := append([]int{}, xs...)
		f(ys, cmpI)
		res.add("sort %s %v", name, ys[:8])
	}
	res.lines = sortedLines(res.lines) // map iteration above
	ys := append([]int{}, xs...)
	res.add("select %d", algosort.Select(ys, 17, cmpI))
	ys = append([]int{}, xs...)
	radixsort.LSDInt(ys)
	zs := append([]int{}, xs...)
	radixsort.MSDInt(zs)
	res.add("radix %v %v", ys[:6], zs[:6])
	ss := make([]string, 60)
	for i := range ss {
		ss[i] = fmt.Sprintf("k%03d", r.intn(400))
	}
	qs := append([]string{}, ss...)
	radixsort.Quick3WayString(qs)
	ms := append([]string{}, ss...)
	radixsort.MSDString(ms)
	res.add("radixstr %v %v", qs[:4], ms[:4])

	for ti, t := range []symboltable.OrderedSymbolTable[string, int]{
		symboltable.NewBST[string, int](cmpS, eqI), symboltable.NewAVL[string, int](cmpS, eqI), symboltable.NewRedBlack[string, int](cmpS, eqI)} {
		for i, s := range ss {
			t.Put(s, i)
		}
		for i := 0; i < 10; i++ {
			t.Delete(ss[i])
		}
		k, _, _ := t.Min()
		res.add("ordered %d size %d min %s rank %d", ti, t.Size(), k, t.Rank("k200"))
	}
	for ti, t := range []trie.Trie[int]{trie.NewBinary[int](eqI), trie.NewPatricia[int](eqI)} {
		for i, s := range ss {
			t.Put(s, i)
		}
		k, _, _ := t.Max()
		res.add("trie %d size %d max %s", ti, t.Size(), k)
	}
	for hi, h := range []heap.Heap[int, int]{heap.NewBinary[int, int](4, cmpI, eqI), heap.NewBinomial[int, int](cmpI, eqI), heap.NewFibonacci[int, int](cmpI, eqI)} {
		for i, x := range xs[:50] {
			h.Insert(x, i)
		}
		var out []int
		for i := 0; i < 5; i++ {
			k, _, _ := h.Delete()
			out = append(out, k)
		}
		res.add("heap %d %v", hi, out)
	}
	q := list.NewQueue[int](4, eqI)
	st := list.NewStack[int](4, eqI)
	for _, x := range xs[:30] {
		q.Enqueue(x)
		st.Push(x)
	}
	a, _ := q.Dequeue()
	b, _ := st.Pop()
	res.add("list %d %d %v", a, b, q.Contains(xs[5]))
	for ui, u := range []unionfind.UnionFind{unionfind.NewQuickFind(50), unionfind.NewQuickUnion(50), unionfind.NewWeightedQuickUnion(50)} {
		for i := 0; i < 30; i++ {
			u.Union(r.intn(50), r.intn(50))
		}
		res.add("uf %d count-positive %v", ui, u.Count() > 0)
	}
	return res
}

func sortedLines(ls []string) []string {
	out := append([]string{}, ls...)
	for i := 1; i < len(out); i++ {
		for j := i; j > 0 && out[j] < out[j-1]; j-- {
			out[j], out[j-1] = out[j-1], out[j]
		}
	}
	return out
}
