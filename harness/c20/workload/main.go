// Command workload is the program the C20 harness builds with `go build -race` and runs once per
// case: k goroutines, each working ONLY on instances it created itself, first all at once, then one
// after the other (the sequential reference, computed afterwards so that it cannot warm up caches).  It prints, on stdout,
//
//	seq <g> <digest>                      the sequential result of goroutine g's first iteration
//	conc <g> same | differ iter=<i> | panic <msg>
//	done
//
// and the race detector writes its `WARNING: DATA RACE` reports to stderr (GORACE=halt_on_error=0
// so that every distinct report of the run is collected).  Nothing here is shared between the
// goroutines except what the library itself shares.
package main

import (
	"flag"
	"fmt"
	"hash/fnv"
	"os"
	"runtime"
	"sort"
	"strings"
	"sync"
)

// ---------------------------------------------------------------- private PRNG (splitmix64)

type rng struct{ s uint64 }

func newRng(seed uint64) *rng { return &rng{s: seed*0x9E3779B97F4A7C15 + 0x51ED27} }

func (r *rng) u64() uint64 {
	r.s += 0x9E3779B97F4A7C15
	z := r.s
	z = (z ^ (z >> 30)) * 0xBF58476D1CE4E5B9
	z = (z ^ (z >> 27)) * 0x94D049BB133111EB
	return z ^ (z >> 31)
}

func (r *rng) intn(n int) int {
	if n <= 0 {
		return 0
	}
	return int(r.u64() % uint64(n))
}

// digest canonicalises a result: the lines are sorted when `unordered`, then hashed.
type result struct{ lines []string }

func (r *result) add(format string, a ...any) { r.lines = append(r.lines, fmt.Sprintf(format, a...)) }

func (r *result) digest() string {
	h := fnv.New64a()
	for _, l := range r.lines {
		h.Write([]byte(l))
		h.Write([]byte{'\n'})
	}
	return fmt.Sprintf("%d:%016x", len(r.lines), h.Sum64())
}

func sortedJoin(xs []string) string {
	sort.Strings(xs)
	return strings.Join(xs, ",")
}

// ---------------------------------------------------------------- workloads

// A workload maps a private seed to a canonical result, touching only instances it creates.
type workload func(seed uint64) *result

var workloads = map[string]workload{}

// racyCounter is the ONLY deliberately shared cell of this program: the `selftest-race` workload
// increments it from every goroutine so that each check run proves the race build really detects
// races in this environment (a silent non-instrumented build would print no report).
var racyCounter int

func init() {
	workloads["selftest-race"] = func(seed uint64) *result {
		for i := 0; i < 200; i++ {
			racyCounter++
			runtime.Gosched()
		}
		res := &result{}
		res.add("selftest %d", seed)
		return res
	}
	workloads["selftest-private"] = func(seed uint64) *result {
		counter := 0
		for i := 0; i < 200; i++ {
			counter++
			runtime.Gosched()
		}
		res := &result{}
		res.add("selftest %d %d", seed, counter)
		return res
	}
}

// safely runs one workload invocation; a panic becomes its result ("panic:<message>"), so that a panic
// the sequential run shows as well (a single-goroutine defect, not C20's business) compares equal, and
// a panic only the concurrent run shows is reported as such.
func safely(w workload, seed uint64) (digest string) {
	defer func() {
		if r := recover(); r != nil {
			digest = "panic:" + strings.ReplaceAll(fmt.Sprint(r), "\n", " ")
		}
	}()
	return w(seed).digest()
}

func main() {
	name := flag.String("w", "", "workload name (or `list`)")
	procs := flag.Int("procs", 2, "GOMAXPROCS")
	seed := flag.Uint64("seed", 1, "seed")
	iters := flag.Int("iters", 4, "iterations per goroutine")
	k := flag.Int("k", 2, "number of goroutines")
	ref := flag.String("ref", "twice", "sequential reference: twice (first iteration run twice, to see that it is a function of the seed) | once")
	dump := flag.Bool("dump", false, "print the result lines of goroutine 0's first iteration and exit (for reading a replay)")
	flag.Parse()

	if *name == "list" {
		var ns []string
		for n := range workloads {
			ns = append(ns, n)
		}
		sort.Strings(ns)
		fmt.Println(strings.Join(ns, "\n"))
		return
	}
	runtime.GOMAXPROCS(*procs)

	pick := func(g int) workload {
		if *name == "mixed" {
			ns := mixedOrder
			return workloads[ns[(g+int(*seed))%len(ns)]]
		}
		return workloads[*name]
	}
	if pick(0) == nil {
		fmt.Fprintln(os.Stderr, "unknown workload", *name)
		os.Exit(2)
	}
	if *dump {
		for _, l := range pick(0)(*seed*1000003 + 1).lines {
			if len(l) > 300 {
				l = l[:300] + "…"
			}
			fmt.Println(l)
		}
		return
	}
	// goroutine g, iteration i works on inputs derived from (seed, g, i): sizes and names vary between
	// iterations, so caches that are filled on first use keep being written during the run
	privSeed := func(g, i int) uint64 { return *seed*1000003 + uint64(g)*7919 + uint64(i)*104729 + 1 }

	// 1. all goroutines at once.  This phase comes FIRST: a sequential warm-up would fill every
	// write-once package-level cache (memo tables, grown buffers) before the goroutines start and hide it.
	got := make([][]string, *k)
	verdict := make([]string, *k)
	var wg sync.WaitGroup
	start := make(chan struct{})
	for g := 0; g < *k; g++ {
		wg.Add(1)
		got[g] = make([]string, *iters)
		go func(g int) {
			defer wg.Done()
			<-start
			for j := 0; j < g; j++ { // staggered starts
				runtime.Gosched()
			}
			w := pick(g)
			for i := 0; i < *iters; i++ {
				got[g][i] = safely(w, privSeed(g, i))
				runtime.Gosched()
			}
			verdict[g] = "same"
		}(g)
	}
	close(start)
	wg.Wait()

	// 2. the sequential reference: the same work, one goroutine after the other (here, afterwards, on
	// the main goroutine), twice — it must be a function of the seed only, else "same results" means nothing
	for g := 0; g < *k; g++ {
		for i := 0; i < *iters; i++ {
			want := safely(pick(g), privSeed(g, i))
			if i == 0 {
				fmt.Printf("seq %d %s\n", g, want)
				if *ref != "once" {
					if again := safely(pick(g), privSeed(g, i)); again != want {
						fmt.Printf("nondeterministic %d %s %s\n", g, want, again)
					}
				}
			}
			if verdict[g] == "same" && got[g][i] != want {
				if strings.HasPrefix(got[g][i], "panic:") {
					verdict[g] = fmt.Sprintf("panic iter=%d %s", i, got[g][i])
				} else {
					verdict[g] = fmt.Sprintf("differ iter=%d", i)
				}
			}
		}
	}
	for g := 0; g < *k; g++ {
		fmt.Printf("conc %d %s\n", g, verdict[g])
	}
	fmt.Println("done")
}
