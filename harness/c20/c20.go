// Package c20: independent instances used from different goroutines — race-detector runs.
//
// bin/check builds the harness commands with CGO_ENABLED=0, so this package builds the workload
// program (./c20/workload, a main package of this module) itself, with `go build -race`, against the
// current /repo working tree, and runs it once per case.  One case = (workload, GOMAXPROCS, seed,
// iterations, goroutines); its single op `run` yields
//
//	ok <race|norace> <same-results|differ|panic|fatal|aborted|nondeterministic-reference|incomplete>
//
// where `race` = the race detector printed at least one `WARNING: DATA RACE` and the second word
// compares every goroutine's result with the sequential run of the same workload.
package c20

import (
	"bytes"
	"context"
	"crypto/sha1"
	"encoding/json"
	"fmt"
	"os"
	"os/exec"
	"regexp"
	"sort"
	"strconv"
	"strings"
	"sync"
	"time"

	"verifharness/hx"
)

const Rule = "cases = (workload, GOMAXPROCS, seed, iterations, goroutines): the workload program is built with " +
	"`go build -race` from the current /repo tree and run once per case, a cold process each (the concurrent phase comes " +
	"first, the sequential reference afterwards); every goroutine works only on instances " +
	"it created itself (hash tables / sets iterated, FIRST/FOLLOW, LL(1), SLR/LALR/LR(1) tables, determinise+minimise, " +
	"grammar transformations, the exported Eq/Cmp/Hash values, all other structures, and a mix of these against one " +
	"another; LARGE instances: hash tables of 4483..70001 entries (capacities past 97^2 = 9409 and 2^16) and explicit " +
	"initial capacities 9413..131071 while small tables come and go, sets of 10^4 members, ordered tables / heaps / sorts / " +
	"lists / union-find at 4483..70001, tries and graphs of 10^4, the lexer input with buffers of 4096 and 65536 bytes, " +
	"grammars of 100..260 non-terminals and as many terminals; iterators obtained once and run twice, two pull iterators " +
	"over one object advanced alternately, iterators abandoned half-way or never run, nested traversals, for every All() of " +
	"the library; every exported constructor and package-level function no other workload calls directly); every workload " +
	"runs with >= 4 goroutines under GOMAXPROCS 2, 4 and 16 (the large ones under all three in the quick tier, the others " +
	"under one of them per seed and all of them in the thorough grid) besides the random (GOMAXPROCS 1..16, 2..6 goroutines) part; " +
	"the oracle is the property itself: no DATA RACE report and every goroutine's result equals its " +
	"sequential result; non-trivial = a library workload in which >= 2 goroutines ran to completion concurrently; " +
	"distinct = distinct (workload, GOMAXPROCS, seed, iterations, goroutines). Two self-test workloads check the " +
	"instrument: a deliberately racy counter inside the workload program must be reported, a private one must not. " +
	"Cases are independent processes and run four at a time (VERIF_C20_PAR)."

// The harness module (whose go.mod points at /repo) and the place of the race-instrumented binary.
// VERIF_C20_HARNESS_DIR / VERIF_C20_BIN redirect them: used only to try the harness against a scratch
// copy of the repository (e.g. the snapshot commit, to see the D25 reports).
var (
	harnessDir = envOr("VERIF_C20_HARNESS_DIR", "/verif/harness")
	binPath    = envOr("VERIF_C20_BIN", "/verif/build/c20-workload-race")
)

func envOr(k, dflt string) string {
	if v := os.Getenv(k); v != "" {
		return v
	}
	return dflt
}

// Workloads in the order the generators use them.
var Workloads = []string{"hashtable-iterate", "set-iterate", "first-follow", "grammar-transform", "ll1-table",
	"lr-slr", "lr-lalr", "lr-canonical", "automata-determinize", "hash-api", "ordered-tables", "tries", "heaps",
	"lexer-input", "graphs-dot", "parse-predictive", "parse-slr", "parse-lalr", "parse-lr1", "combinator",
	"automata-combine", "grammar-normalize", "func-values", "structures", "mixed"}

// LargeWorkloads (harness/c20/workload/large.go): LARGE private instances built concurrently from a cold process
// (hash tables past 4482 / 10^4 / 65536 entries, sets of 10^4 members, everything else at 10^4..7*10^4, grammars with
// hundreds of symbols), iterators obtained once and run twice / alternately / abandoned, and every exported
// constructor and package-level function the other workloads do not call directly. They run with 4 and more
// goroutines, one iteration each, and the sequential reference computed once (header ref=once).
var LargeWorkloads = []string{"large-hashtables", "iter-twice", "api-sweep", "large-sets", "large-structures", "large-grammar"}

func isLarge(w string) bool {
	for _, l := range LargeWorkloads {
		if l == w {
			return true
		}
	}
	return false
}

// apiPrefixes: which exported API entries (names as in the regenerated table, by prefix) a workload calls
// directly.  Used ONLY to order the witness search (workloads that reach a flagged package-level variable
// first); the Model's prediction uses the exact list in lean/AlgoVerif/Model/C20.lean.
var apiPrefixes = map[string][]string{
	"hashtable-iterate":    {"symboltable.NewChainHashTable", "symboltable.NewLinearHashTable", "symboltable.NewQuadraticHashTable", "symboltable.NewDoubleHashTable", "symboltable.chainHashTable.", "symboltable.linearHashTable.", "symboltable.quadraticHashTable.", "symboltable.doubleHashTable.", "hash.HashFuncForInt", "hash.HashFuncForString"},
	"set-iterate":          {"set."},
	"first-follow":         {"grammar.NewCFG", "grammar.CFG.ComputeF", "grammar.CFG.NullableNonTerminals"},
	"grammar-transform":    {"grammar.NewCFG", "grammar.CFG.", "grammar.Productions."},
	"ll1-table":            {"grammar.NewCFG", "parser/predictive."},
	"lr-slr":               {"grammar.NewCFG", "parser/lr/simple.", "parser/lr.ParsingTable."},
	"lr-lalr":              {"grammar.NewCFG", "parser/lr/lookahead.", "parser/lr.ParsingTable."},
	"lr-canonical":         {"grammar.NewCFG", "parser/lr/canonical.", "parser/lr.ParsingTable."},
	"automata-determinize": {"automata.NewNFA", "automata.NFA.", "automata.DFA."},
	"hash-api":             {"hash.", "grammar.Hash", "grammar.Eq", "grammar.Cmp", "automata.Hash", "automata.Eq", "automata.Cmp", "parser/lr.HashState", "parser/lr.EqState", "parser/lr.CmpState"},
	"ordered-tables":       {"symboltable.NewBST", "symboltable.NewAVL", "symboltable.NewRedBlack", "symboltable.bst.", "symboltable.avl.", "symboltable.redBlack."},
	"tries":                {"trie."},
	"heaps":                {"heap."},
	"lexer-input":          {"lexer/input."},
	"graphs-dot":           {"graph.", "dot.", "heap.binomial.DOT", "heap.fibonacci.DOT", "automata.NFA.DOT", "automata.DFA.DOT"},
	"structures":           {"sort.", "radixsort.", "list.", "unionfind."},
	"parse-predictive":     {"grammar.NewCFG", "parser/predictive.", "parser.", "lexer."},
	"parse-slr":            {"grammar.NewCFG", "parser/lr/simple.New", "parser/lr.Parser.", "parser.", "lexer."},
	"parse-lalr":           {"grammar.NewCFG", "parser/lr/lookahead.New", "parser/lr.Parser.", "parser.", "lexer."},
	"parse-lr1":            {"grammar.NewCFG", "parser/lr/canonical.New", "parser/lr.Parser.", "parser.", "lexer."},
	"combinator":           {"parser/combinator."},
	"automata-combine":     {"automata."},
	"grammar-normalize":    {"grammar.NewCFG", "grammar.CFG.", "grammar.LongestCommonPrefixOf"},
	"large-hashtables":     {"symboltable.NewChainHashTable", "symboltable.NewLinearHashTable", "symboltable.NewQuadraticHashTable", "symboltable.NewDoubleHashTable", "symboltable.chainHashTable.", "symboltable.linearHashTable.", "symboltable.quadraticHashTable.", "symboltable.doubleHashTable.", "hash.HashFuncForInt", "hash.HashFuncForString"},
	"large-sets":           {"set."},
	"iter-twice":           {"set.", "symboltable.", "trie.", "grammar.NewCFG", "grammar.Productions.", "grammar.CFG.ComputeF"},
	"large-structures":     {"sort.", "radixsort.", "list.", "unionfind.", "heap.", "trie.", "graph.", "lexer/input.", "symboltable.NewBST", "symboltable.NewAVL", "symboltable.NewRedBlack", "symboltable.bst.", "symboltable.avl.", "symboltable.redBlack."},
	"large-grammar":        {"grammar.NewCFG", "grammar.CFG.", "parser/predictive.", "parser/lr/simple."},
	"api-sweep":            {"generic.", "set.New", "sort.", "radixsort.", "hash.", "errors.", "dot.", "automata.New", "grammar.", "parser/lr.", "parser/lr/lookahead.", "parser/predictive.", "parser/combinator.", "graph.New"},
	"func-values":          {"grammar.Hash", "grammar.Eq", "grammar.Cmp", "automata.Hash", "automata.Eq", "automata.Cmp", "parser/lr.Hash", "parser/lr.Eq", "parser/lr.Cmp", "parser.EqNode", "errors."},
}

type facts struct {
	Globals []struct {
		Name    string   `json:"name"`
		Mutated bool     `json:"mutated"`
		By      []string `json:"by"`
	} `json:"globals"`
}

// flaggedWorkloads reads the facts the extractor wrote for the tree under check (bin/pre-C20 ->
// /verif/build/c20-facts.json) and returns the workloads that call an API entry from which a mutated
// package-level variable is reachable, most specific first, plus the names of those variables.
func flaggedWorkloads() (ws []string, vars []string) {
	data, err := os.ReadFile("/verif/build/c20-facts.json")
	if err != nil {
		return nil, nil
	}
	var f facts
	if json.Unmarshal(data, &f) != nil {
		return nil, nil
	}
	score := map[string]int{}
	for _, g := range f.Globals {
		if !g.Mutated {
			continue
		}
		vars = append(vars, g.Name)
		pkg := g.Name[:strings.LastIndex(g.Name, ".")]
		for w, prefixes := range apiPrefixes {
			hit := 0
			for _, api := range g.By {
				for _, p := range prefixes {
					if strings.HasPrefix(api, p) {
						hit = 1
						// an entry of the variable's own package is the most direct way to it
						if strings.HasPrefix(api, pkg+".") {
							hit = 3
						}
					}
				}
				if hit == 3 {
					break
				}
			}
			score[w] += hit
		}
	}
	for w, sc := range score {
		if sc > 0 {
			ws = append(ws, w)
		}
	}
	sort.Slice(ws, func(i, j int) bool {
		if score[ws[i]] != score[ws[j]] {
			return score[ws[i]] > score[ws[j]]
		}
		return ws[i] < ws[j]
	})
	sort.Strings(vars)
	return ws, vars
}

var (
	buildOnce sync.Once
	buildErr  error

	mu          sync.Mutex
	totalRuns   int
	totalRaces  int
	totalMillis int64
	buildMillis int64
	raceSigs    = map[string]int{}
)

func goEnv() []string {
	env := []string{}
	for _, kv := range os.Environ() {
		if strings.HasPrefix(kv, "CGO_ENABLED=") || strings.HasPrefix(kv, "GOFLAGS=") || strings.HasPrefix(kv, "GORACE=") ||
			strings.HasPrefix(kv, "GOMAXPROCS=") {
			continue
		}
		env = append(env, kv)
	}
	return append(env, "CGO_ENABLED=1", "GOFLAGS=-mod=mod", "GOPROXY=off", "GOSUMDB=off", "GOTOOLCHAIN=local")
}

// ensureBuilt compiles the workload program with the race detector (once per harness process; the Go
// build cache makes this cheap when /repo did not change).
func ensureBuilt() error {
	buildOnce.Do(func() {
		t0 := time.Now()
		os.MkdirAll("/verif/build", 0o755)
		args := []string{"build", "-race"}
		// bin/check exports VERIF_REPO when it tries a scratch worktree instead of /repo (seeded changes);
		// it has then written /verif/build/go-<tag>.mod whose replace directive points there.
		if repo := os.Getenv("VERIF_REPO"); repo != "" && repo != "/repo" {
			tag := fmt.Sprintf("%x", sha1.Sum([]byte(repo)))[:8]
			args = append(args, "-modfile", "/verif/build/go-"+tag+".mod")
			binPath = binPath + "-" + tag
		}
		args = append(args, "-o", binPath, "./c20/workload")
		cmd := exec.Command("go", args...)
		cmd.Dir = harnessDir
		cmd.Env = goEnv()
		out, err := cmd.CombinedOutput()
		if err != nil {
			buildErr = fmt.Errorf("go build -race ./c20/workload: %v\n%s", err, out)
		}
		buildMillis = time.Since(t0).Milliseconds()
	})
	return buildErr
}

var frameRe = regexp.MustCompile(`^\s{2}(\S+)\(`)

// raceSignature: for the first report, the innermost library frame (github.com/moorara/algo/…) of each
// of its two stacks, generic instantiation brackets removed.
func raceSignature(stderr string) (sig string, first string) {
	i := strings.Index(stderr, "WARNING: DATA RACE")
	if i < 0 {
		return "", ""
	}
	rep := stderr[i:]
	if j := strings.Index(rep[1:], "=================="); j >= 0 {
		rep = rep[:j+1]
	}
	var stacks [][]string
	var cur []string
	flush := func() {
		if cur != nil {
			stacks = append(stacks, cur)
			cur = nil
		}
	}
	for _, line := range strings.Split(rep, "\n") {
		if strings.HasPrefix(line, "Goroutine ") {
			flush()
			break
		}
		if strings.HasSuffix(line, ":") && !strings.HasPrefix(line, " ") {
			flush()
			cur = []string{}
			continue
		}
		if m := frameRe.FindStringSubmatch(line); m != nil && cur != nil {
			cur = append(cur, m[1])
		}
	}
	flush()
	clean := func(f string) string {
		f = strings.TrimPrefix(f, "github.com/moorara/algo/")
		for {
			a := strings.Index(f, "[")
			if a < 0 {
				break
			}
			depth, b := 0, -1
			for k := a; k < len(f); k++ {
				if f[k] == '[' {
					depth++
				} else if f[k] == ']' {
					depth--
					if depth == 0 {
						b = k
						break
					}
				}
			}
			if b < 0 {
				break
			}
			f = f[:a] + f[b+1:]
		}
		return f
	}
	var parts []string
	for _, st := range stacks {
		top, lib := "", ""
		for _, f := range st {
			if top == "" {
				top = clean(f)
			}
			if strings.HasPrefix(f, "github.com/moorara/algo/") {
				lib = clean(f)
				break
			}
		}
		if lib == "" {
			lib = top
		}
		parts = append(parts, top+"<-"+lib)
	}
	sort.Strings(parts)
	if len(parts) > 2 {
		parts = parts[:2]
	}
	head := rep
	if len(head) > 1500 {
		head = head[:1500]
	}
	return "race:" + strings.Join(parts, "|"), head
}

// maxReports: a run that has printed this many race reports is stopped (printing thousands of
// symbolised reports takes many seconds and adds nothing).
const maxReports = 300

type cappedReports struct {
	buf    bytes.Buffer
	n      int
	limit  int
	kill   func()
	killed bool
}

func (c *cappedReports) Write(p []byte) (int, error) {
	c.buf.Write(p)
	c.n += bytes.Count(p, []byte("WARNING: DATA RACE"))
	if c.n >= c.limit && !c.killed && c.kill != nil {
		c.killed = true
		c.kill()
	}
	return len(p), nil
}

type outcome struct {
	races   int
	results string // same-results | differ | panic | nondeterministic-reference | incomplete
	detail  string
	sig     string
	done    int // goroutines that reported a verdict
}

func runWorkload(w string, procs int, seed uint64, iters, k int, ref string) (outcome, error) {
	if err := ensureBuilt(); err != nil {
		return outcome{}, err
	}
	ctx, cancel := context.WithTimeout(prefetchCtx, 180*time.Second)
	defer cancel()
	args := []string{"-w", w, "-procs", strconv.Itoa(procs), "-seed", strconv.FormatUint(seed, 10),
		"-iters", strconv.Itoa(iters), "-k", strconv.Itoa(k)}
	if ref == "once" {
		args = append(args, "-ref", "once")
	}
	cmd := exec.CommandContext(ctx, binPath, args...)
	cmd.Env = append(goEnv(), "GORACE=halt_on_error=0 atexit_sleep_ms=0 exitcode=0")
	var so bytes.Buffer
	se := &cappedReports{limit: maxReports}
	cmd.Stdout, cmd.Stderr = &so, se
	t0 := time.Now()
	err := cmd.Start()
	if err == nil {
		se.kill = func() { cmd.Process.Kill() }
		err = cmd.Wait()
	}
	ms := time.Since(t0).Milliseconds()
	if prefetchCtx.Err() != nil {
		return outcome{}, fmt.Errorf("cancelled")
	}
	if ctx.Err() != nil {
		return outcome{}, fmt.Errorf("timeout")
	}
	o := outcome{results: "same-results"}
	stderr := se.buf.String()
	o.races = strings.Count(stderr, "WARNING: DATA RACE")
	var first string
	o.sig, first = raceSignature(stderr)
	sawDone := false
	for _, line := range strings.Split(so.String(), "\n") {
		f := strings.Fields(line)
		switch {
		case len(f) >= 3 && f[0] == "conc":
			o.done++
			switch f[2] {
			case "same":
			case "differ":
				if o.results == "same-results" {
					o.results = "differ"
					o.detail = line
				}
			case "panic":
				if o.results != "panic" {
					o.results = "panic"
					o.detail = line
				}
			}
		case len(f) >= 1 && f[0] == "nondeterministic":
			if o.results == "same-results" {
				o.results = "nondeterministic-reference"
				o.detail = line
			}
		case line == "done":
			sawDone = true
		}
	}
	if se.killed {
		o.results = "aborted"
		o.detail = fmt.Sprintf("stopped after %d race reports", maxReports)
	} else if strings.Contains(stderr, "fatal error:") {
		o.results = "fatal"
		j := strings.Index(stderr, "fatal error:")
		o.detail = fmt.Sprintf("the runtime aborted the program: %s", strings.SplitN(stderr[j:], "\n", 2)[0])
	} else if !sawDone || o.done != k {
		o.results = "incomplete"
		o.detail = fmt.Sprintf("exit=%v stdout=%q stderr-tail=%q", err, tail(so.String(), 300), tail(stderr, 600))
	}
	if o.races > 0 && o.detail == "" {
		o.detail = first
	} else if o.races > 0 {
		o.detail += "\n" + first
	}
	mu.Lock()
	totalRuns++
	totalRaces += o.races
	totalMillis += ms
	if o.sig != "" {
		raceSigs[o.sig]++
	}
	mu.Unlock()
	return o, nil
}

func tail(s string, n int) string {
	if len(s) > n {
		return s[len(s)-n:]
	}
	return s
}

func atoi(s string, dflt int) int {
	if v, err := strconv.Atoi(s); err == nil {
		return v
	}
	return dflt
}

// Exec runs one case.
func Exec(c hx.Case) hx.Result {
	w := hx.HeaderGet(c.Header, "comp")
	procs := atoi(hx.HeaderGet(c.Header, "procs"), 2)
	seed, _ := strconv.ParseUint(hx.HeaderGet(c.Header, "seed"), 10, 64)
	iters := atoi(hx.HeaderGet(c.Header, "iters"), 3)
	k := atoi(hx.HeaderGet(c.Header, "k"), 2)
	ref := hx.HeaderGet(c.Header, "ref")
	if procs < 1 {
		procs = 1
	}
	if k < 1 {
		k = 1
	}
	res := hx.Result{BadOp: -1}
	tags := map[string]bool{"comp=" + w: true, fmt.Sprintf("procs=%d", procs): true, fmt.Sprintf("k=%d", k): true}
	for i, op := range c.Ops {
		if strings.TrimSpace(op) != "run" {
			res.Outs = append(res.Outs, "bad-op")
			continue
		}
		var o outcome
		var err error
		got := false
		if i == 0 {
			if p := takePrefetched(c.Header); p != nil {
				if pr := <-p; pr.err == nil || pr.err.Error() != "cancelled" {
					o, err, got = pr.o, pr.err, true
				}
			}
		}
		if !got {
			o, err = runWorkload(w, procs, seed, iters, k, ref)
		}
		if err != nil {
			if err.Error() == "timeout" {
				res.Outs = append(res.Outs, "hang")
				if res.BadOp < 0 {
					res.BadOp, res.What, res.Sig = i, "workload did not finish within 180 s", "hang"
				}
				break
			}
			// the race build itself failed: not an outcome of the code under test
			fmt.Fprintln(os.Stderr, err)
			os.Exit(3)
		}
		race := "norace"
		if o.races > 0 {
			race = "race"
		}
		res.Outs = append(res.Outs, "ok "+race+" "+o.results)
		tags[race] = true
		tags[o.results] = true
		wantRace := w == "selftest-race"
		switch {
		case res.BadOp >= 0:
		case wantRace && o.races == 0:
			res.BadOp, res.Sig = i, "selftest-race-not-detected"
			res.What = "the race build did not report the deliberately racy counter of the workload program: the instrument is broken"
		case !wantRace && o.races > 0:
			res.BadOp, res.Sig = i, o.sig
			res.What = indent(fmt.Sprintf("%d DATA RACE report(s) although every goroutine used only its own instances; results: %s; %s; first report:\n%s",
				o.races, o.results, o.sig, o.detail))
		case o.results != "same-results":
			res.BadOp, res.Sig = i, "results:"+o.results
			res.What = indent(fmt.Sprintf("concurrent run is not equivalent to the sequential run (%s): %s", o.results, o.detail))
		}
		if k >= 2 && o.done == k && !strings.HasPrefix(w, "selftest") {
			res.Nontrivial = true
		}
	}
	for t := range tags {
		res.Tags = append(res.Tags, t)
	}
	return res
}

func indent(s string) string {
	s = strings.TrimSpace(s)
	if len(s) > 2400 {
		s = s[:2400] + " …"
	}
	return strings.ReplaceAll(s, "\n", "\n#     ")
}

func header(w string, procs int, seed uint64, iters, k int) string {
	h := fmt.Sprintf("comp=%s procs=%d seed=%d iters=%d k=%d", w, procs, seed, iters, k)
	if isLarge(w) {
		h += " ref=once"
	}
	return h
}

// ---- cases are independent processes: those of a run are started ahead of time, a few at once, and Exec picks
// the result up (one-shot: the re-runs of the shrinker execute for real). VERIF_C20_PAR = how many at once.

type prefetched struct {
	o   outcome
	err error
}

var (
	prefetchCtx, prefetchCancel = context.WithCancel(context.Background())
	preMu                       sync.Mutex
	pre                         = map[string][]chan prefetched{}
)

func takePrefetched(hdr string) chan prefetched {
	preMu.Lock()
	defer preMu.Unlock()
	q := pre[hdr]
	if len(q) == 0 {
		return nil
	}
	pre[hdr] = q[1:]
	return q[0]
}

func parallelism() int {
	if v, err := strconv.Atoi(os.Getenv("VERIF_C20_PAR")); err == nil && v >= 1 {
		return v
	}
	return 4
}

// prefetch starts the cases' workload processes, in order, at most parallelism() at a time.
func prefetch(cs []hx.Case) {
	if err := ensureBuilt(); err != nil {
		return // Exec reports it
	}
	type job struct {
		hdr string
		ch  chan prefetched
	}
	var jobs []job
	preMu.Lock()
	for _, c := range cs {
		if len(c.Ops) != 1 || strings.TrimSpace(c.Ops[0]) != "run" {
			continue
		}
		ch := make(chan prefetched, 1)
		pre[c.Header] = append(pre[c.Header], ch)
		jobs = append(jobs, job{c.Header, ch})
	}
	preMu.Unlock()
	feed := make(chan job)
	for n := parallelism(); n > 0; n-- {
		go func() {
			for j := range feed {
				if prefetchCtx.Err() != nil {
					j.ch <- prefetched{err: fmt.Errorf("cancelled")}
					continue
				}
				w := hx.HeaderGet(j.hdr, "comp")
				procs := atoi(hx.HeaderGet(j.hdr, "procs"), 2)
				seed, _ := strconv.ParseUint(hx.HeaderGet(j.hdr, "seed"), 10, 64)
				iters := atoi(hx.HeaderGet(j.hdr, "iters"), 3)
				k := atoi(hx.HeaderGet(j.hdr, "k"), 2)
				if procs < 1 {
					procs = 1
				}
				if k < 1 {
					k = 1
				}
				o, err := runWorkload(w, procs, seed, iters, k, hx.HeaderGet(j.hdr, "ref"))
				j.ch <- prefetched{o, err}
			}
		}()
	}
	go func() {
		for _, j := range jobs {
			feed <- j
		}
		close(feed)
	}()
}

// search is a witness-search round of bin/check: a proof obligation or the correspondence already broke
// (typically: the regenerated table is no longer empty).  Bounded to about 18 s; the workloads from which
// the flagged package-level variables are reachable go first, each under several GOMAXPROCS values,
// goroutine counts and seeds; the round ends at the first failing case.
func search(run *hx.Run) {
	ws, vars := flaggedWorkloads()
	budget := 18 * time.Second
	if len(ws) == 0 {
		budget = 8 * time.Second // nothing to aim at: no workload calls an API that reaches a flagged variable
	}
	deadline := time.Now().Add(budget)
	run.Stats.Extra["search_flagged_variables"] = vars
	run.Stats.Extra["search_directed_at"] = ws
	seen := map[string]bool{}
	for _, w := range ws {
		seen[w] = true
	}
	for _, w := range append(append([]string{}, LargeWorkloads[:3]...), Workloads...) { // then everything else
		if !seen[w] {
			ws = append(ws, w)
		}
	}
	r := run.R.Fork("search")
	type cfg struct{ procs, k, iters int }
	grid := []cfg{{4, 4, 4}, {1, 3, 3}, {2, 6, 3}, {8, 8, 2}}
	for pass := 0; time.Now().Before(deadline); pass++ {
		for _, w := range ws {
			c := grid[(pass+r.Intn(len(grid)))%len(grid)]
			if isLarge(w) { // one (cold) iteration of 4..8 goroutines under GOMAXPROCS 2, 4, 16
				c = cfg{[]int{4, 2, 16}[pass%3], 4 + 2*(pass%3), 1}
			}
			res := run.Do(w, hx.Case{Header: header(w, c.procs, r.U64()%1000000, c.iters, c.k), Ops: []string{"run"}}, Exec)
			if res.BadOp >= 0 || !time.Now().Before(deadline) {
				return
			}
		}
	}
}

func Main(run *hx.Run) {
	run.Stats.Rule = Rule
	if run.Search {
		search(run)
		finishStats(run)
		return
	}
	defer prefetchCancel()
	var cases []hx.Case
	add := func(w string, procs int, seed uint64, iters, k int) {
		cases = append(cases, hx.Case{Header: header(w, procs, seed, iters, k), Ops: []string{"run"}})
	}
	for _, f := range hx.CorpusFiles("C20") {
		cs, _ := hx.ReadReplay(f)
		cases = append(cases, cs...)
	}
	r := run.R.Fork("schedules")
	procsChoices := []int{1, 2, 3, 4, 8}
	procs3 := []int{2, 4, 16}
	// the instrument first
	add("selftest-race", 2, run.Seed, 2, 2)
	add("selftest-private", 2, run.Seed, 2, 2)
	// the large / unusual-use workloads: 4 and more goroutines, one cold iteration each, GOMAXPROCS 2, 4, 16.
	// Thorough adds four rounds with other seeds, 4..8 goroutines and up to two iterations.
	for _, w := range LargeWorkloads {
		for _, p := range procs3 {
			add(w, p, r.U64()%1000000, 1, 4)
		}
	}
	if run.Thorough() {
		for round := 0; round < 4; round++ {
			for _, w := range LargeWorkloads {
				add(w, procs3[(round+r.Intn(3))%3], r.U64()%1000000, 1+r.Intn(2), 4+r.Intn(5))
			}
		}
	}
	// every workload under several GOMAXPROCS values and seeds; the first round with 4 goroutines under
	// GOMAXPROCS 2 / 4 / 16 in turn
	rounds := run.Scale(2)
	if run.Thorough() && rounds > 16 {
		rounds = 16 // 16 rounds x 25 workloads with up to 6 goroutines x 9 iterations
	}
	for round := 0; round < rounds; round++ {
		for wi, w := range Workloads {
			procs := procsChoices[(round+r.Intn(len(procsChoices)))%len(procsChoices)]
			k := 2 + r.Intn(2)
			iters := 2 + r.Intn(3)
			if round == 0 {
				procs, k, iters = procs3[(wi+int(run.Seed))%3], 4, 2
			}
			if run.Thorough() {
				k = 2 + r.Intn(5)
				iters = 2 + r.Intn(8)
				if r.Chance(1, 4) {
					procs = 16
				}
			}
			add(w, procs, r.U64()%1000000, iters, k)
		}
	}
	if run.Thorough() {
		// a fixed grid on top of the random part: every workload at GOMAXPROCS 1, 2, 4, 16 with 4 goroutines
		for _, w := range Workloads {
			for _, p := range []int{1, 2, 4, 16} {
				add(w, p, uint64(100+p), 6, 4)
			}
		}
		run.Stats.Extra["grid"] = "every workload x GOMAXPROCS {1,2,4,16} x 4 goroutines x 6 iterations; every large workload x GOMAXPROCS {2,4,16} x 4 goroutines + 4 random rounds with 4..8 goroutines"
	}
	run.Stats.Extra["parallel_processes"] = parallelism()
	prefetch(cases)
	for _, c := range cases {
		if len(run.Stats.Violations) >= 3 {
			break // the verdict is settled; every further failing case costs several shrinking re-runs
		}
		run.Do(hx.HeaderGet(c.Header, "comp"), c, Exec)
	}
	finishStats(run)
}

func finishStats(run *hx.Run) {
	mu.Lock()
	run.Stats.Extra["race_build_ms"] = buildMillis
	run.Stats.Extra["workload_runs"] = totalRuns
	run.Stats.Extra["race_reports_total"] = totalRaces
	run.Stats.Extra["workload_run_ms_total"] = totalMillis
	sigs := map[string]int{}
	for s, n := range raceSigs {
		sigs[s] = n
	}
	run.Stats.Extra["race_signatures"] = sigs
	mu.Unlock()
}
