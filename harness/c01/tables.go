package c01

// The tables under test behind one int/int face, so that the executor runs unchanged on other instantiations of the
// type parameters K and V (HARDENING axis 4): string keys under a lexicographic comparator, values that are a
// struct with a slice inside (not comparable at run time), a []int, or an `any` holding ints and strings. Every key
// and value stands for one int; it is mapped back on the way out (the String methods make the verif dump print that
// int), so the output lines are those of the int/int tables and of the Lean Model, which is generic in K and V.

import (
	"iter"
	"slices"
	"strconv"
	"strings"

	"github.com/moorara/algo/generic"
	"github.com/moorara/algo/symboltable"
)

// Table is what the executor needs of an ordered symbol table whose keys and values stand for ints.
type Table interface {
	Size() int
	IsEmpty() bool
	Height() int
	Put(int, int)
	Get(int) (int, bool)
	Delete(int) (int, bool)
	DeleteAll()
	Min() (int, int, bool)
	Max() (int, int, bool)
	Floor(int) (int, int, bool)
	Ceiling(int) (int, int, bool)
	DeleteMin() (int, int, bool)
	DeleteMax() (int, int, bool)
	Select(int) (int, int, bool)
	Rank(int) int
	Range(int, int) []generic.KeyValue[int, int]
	RangeSize(int, int) int
	All() iter.Seq2[int, int]
	Traverse(generic.TraverseOrder, generic.VisitFunc2[int, int])
	AnyMatch(generic.Predicate2[int, int]) bool
	AllMatch(generic.Predicate2[int, int]) bool
	FirstMatch(generic.Predicate2[int, int]) (int, int, bool)

	EqualT(Table) bool                                      // Equal(rhs) for a table of the same instantiation
	EqualForeign() bool                                     // Equal(rhs) for a hash table (same K, V): always false
	SelectT(generic.Predicate2[int, int]) Table             // SelectMatch
	PartitionT(generic.Predicate2[int, int]) (Table, Table) // PartitionMatch
	Dump() string                                           // symboltable.VerifDump
}

// ---------------------------------------------------------------- K = V = int: the table itself (results are not copied,
// so a slice returned by Range is the very slice the table returned)

type intTable struct {
	symboltable.OrderedSymbolTable[int, int]
}

func (t intTable) EqualT(rhs Table) bool {
	if o, ok := rhs.(intTable); ok {
		return t.OrderedSymbolTable.Equal(o.OrderedSymbolTable)
	}
	return t.OrderedSymbolTable.Equal(nil)
}

func (t intTable) EqualForeign() bool {
	ht := symboltable.NewChainHashTable[int, int](func(k int) uint64 { return uint64(k) }, eqInt, eqInt, symboltable.HashOpts{})
	return t.OrderedSymbolTable.Equal(ht)
}

func (t intTable) SelectT(p generic.Predicate2[int, int]) Table {
	return intTable{t.OrderedSymbolTable.SelectMatch(p).(symboltable.OrderedSymbolTable[int, int])}
}

func (t intTable) PartitionT(p generic.Predicate2[int, int]) (Table, Table) {
	m, u := t.OrderedSymbolTable.PartitionMatch(p)
	return intTable{m.(symboltable.OrderedSymbolTable[int, int])}, intTable{u.(symboltable.OrderedSymbolTable[int, int])}
}

func (t intTable) Dump() string { return symboltable.VerifDump[int, int](t.OrderedSymbolTable) }

// ---------------------------------------------------------------- other key and value types

// SKey: a string key. The int k is written as the 20 decimal digits of k+2^63, so the lexicographic order of the
// strings (strings.Compare) is the natural order of the ints.
type SKey string

func encKey(k int) SKey {
	return SKey(strings.Repeat("0", 20-len(strconv.FormatUint(uint64(k)^(1<<63), 10))) + strconv.FormatUint(uint64(k)^(1<<63), 10))
}

func decKey(s SKey) int {
	u, _ := strconv.ParseUint(string(s), 10, 64)
	return int(u ^ (1 << 63))
}

func (s SKey) String() string { return strconv.Itoa(decKey(s)) }

// SVal: a func-free struct with a slice inside (comparing two of them with == panics at run time).
type SVal struct {
	A int
	B []int
	C string
}

func (v SVal) String() string { return strconv.Itoa(v.A) }

// LVal: a []int value.
type LVal []int

func (l LVal) String() string { return strconv.Itoa(l[0]) }

// codec: how ints are carried by K and V.
type codec[K, V any] struct {
	ek func(int) K
	dk func(K) int
	ev func(int) V
	dv func(V) int
}

type typedTable[K, V any] struct {
	in symboltable.OrderedSymbolTable[K, V]
	c  *codec[K, V]
}

func (t typedTable[K, V]) kv(k K, v V, ok bool) (int, int, bool) {
	if !ok {
		return 0, 0, false
	}
	return t.c.dk(k), t.c.dv(v), true
}

func (t typedTable[K, V]) pred(p generic.Predicate2[int, int]) generic.Predicate2[K, V] {
	return func(k K, v V) bool { return p(t.c.dk(k), t.c.dv(v)) }
}

func (t typedTable[K, V]) Size() int     { return t.in.Size() }
func (t typedTable[K, V]) IsEmpty() bool { return t.in.IsEmpty() }
func (t typedTable[K, V]) Height() int   { return t.in.Height() }
func (t typedTable[K, V]) Put(k, v int)  { t.in.Put(t.c.ek(k), t.c.ev(v)) }
func (t typedTable[K, V]) DeleteAll()    { t.in.DeleteAll() }
func (t typedTable[K, V]) Get(k int) (int, bool) {
	if v, ok := t.in.Get(t.c.ek(k)); ok {
		return t.c.dv(v), true
	}
	return 0, false
}
func (t typedTable[K, V]) Delete(k int) (int, bool) {
	if v, ok := t.in.Delete(t.c.ek(k)); ok {
		return t.c.dv(v), true
	}
	return 0, false
}
func (t typedTable[K, V]) Min() (int, int, bool)          { return t.kv(t.in.Min()) }
func (t typedTable[K, V]) Max() (int, int, bool)          { return t.kv(t.in.Max()) }
func (t typedTable[K, V]) Floor(k int) (int, int, bool)   { return t.kv(t.in.Floor(t.c.ek(k))) }
func (t typedTable[K, V]) Ceiling(k int) (int, int, bool) { return t.kv(t.in.Ceiling(t.c.ek(k))) }
func (t typedTable[K, V]) DeleteMin() (int, int, bool)    { return t.kv(t.in.DeleteMin()) }
func (t typedTable[K, V]) DeleteMax() (int, int, bool)    { return t.kv(t.in.DeleteMax()) }
func (t typedTable[K, V]) Select(r int) (int, int, bool)  { return t.kv(t.in.Select(r)) }
func (t typedTable[K, V]) Rank(k int) int                 { return t.in.Rank(t.c.ek(k)) }
func (t typedTable[K, V]) RangeSize(lo, hi int) int       { return t.in.RangeSize(t.c.ek(lo), t.c.ek(hi)) }
func (t typedTable[K, V]) Range(lo, hi int) []generic.KeyValue[int, int] {
	kvs := t.in.Range(t.c.ek(lo), t.c.ek(hi))
	out := make([]generic.KeyValue[int, int], len(kvs))
	for i, e := range kvs {
		out[i] = generic.KeyValue[int, int]{Key: t.c.dk(e.Key), Val: t.c.dv(e.Val)}
	}
	return out
}
func (t typedTable[K, V]) All() iter.Seq2[int, int] {
	seq := t.in.All()
	return func(yield func(int, int) bool) {
		for k, v := range seq {
			if !yield(t.c.dk(k), t.c.dv(v)) {
				return
			}
		}
	}
}
func (t typedTable[K, V]) Traverse(o generic.TraverseOrder, visit generic.VisitFunc2[int, int]) {
	t.in.Traverse(o, func(k K, v V) bool { return visit(t.c.dk(k), t.c.dv(v)) })
}
func (t typedTable[K, V]) AnyMatch(p generic.Predicate2[int, int]) bool {
	return t.in.AnyMatch(t.pred(p))
}
func (t typedTable[K, V]) AllMatch(p generic.Predicate2[int, int]) bool {
	return t.in.AllMatch(t.pred(p))
}
func (t typedTable[K, V]) FirstMatch(p generic.Predicate2[int, int]) (int, int, bool) {
	return t.kv(t.in.FirstMatch(t.pred(p)))
}
func (t typedTable[K, V]) EqualT(rhs Table) bool {
	if o, ok := rhs.(typedTable[K, V]); ok {
		return t.in.Equal(o.in)
	}
	return t.in.Equal(nil)
}
func (t typedTable[K, V]) EqualForeign() bool { return t.in.Equal(nil) }
func (t typedTable[K, V]) SelectT(p generic.Predicate2[int, int]) Table {
	return typedTable[K, V]{t.in.SelectMatch(t.pred(p)).(symboltable.OrderedSymbolTable[K, V]), t.c}
}
func (t typedTable[K, V]) PartitionT(p generic.Predicate2[int, int]) (Table, Table) {
	m, u := t.in.PartitionMatch(t.pred(p))
	return typedTable[K, V]{m.(symboltable.OrderedSymbolTable[K, V]), t.c}, typedTable[K, V]{u.(symboltable.OrderedSymbolTable[K, V]), t.c}
}
func (t typedTable[K, V]) Dump() string { return symboltable.VerifDump[K, V](t.in) }

func newTyped[K, V any](comp string, c *codec[K, V], cmp func(int, int) int, eq func(int, int) bool, cmpK func(K, K) int, eqV func(V, V) bool) Table {
	if cmpK == nil {
		cmpK = func(a, b K) int { return cmp(c.dk(a), c.dk(b)) }
	}
	if eqV == nil {
		eqV = func(a, b V) bool { return eq(c.dv(a), c.dv(b)) }
	}
	switch comp {
	case "bst":
		return typedTable[K, V]{symboltable.NewBST[K, V](cmpK, eqV), c}
	case "avl":
		return typedTable[K, V]{symboltable.NewAVL[K, V](cmpK, eqV), c}
	case "rb":
		return typedTable[K, V]{symboltable.NewRedBlack[K, V](cmpK, eqV), c}
	}
	return nil
}

func idInt(x int) int { return x }

func anyOf(v int) any {
	if v%2 == 0 {
		return v
	}
	return strconv.Itoa(v)
}

func intOfAny(a any) int {
	switch x := a.(type) {
	case int:
		return x
	case string:
		v, _ := strconv.Atoi(x)
		return v
	}
	return 0
}

// KeyTypes / ValTypes: the header words kt= and vt=.
var KeyTypes = []string{"int", "str"}
var ValTypes = []string{"int", "struct", "slice", "any"}

// NewTableOf constructs a table of the given kind for the instantiation (kt, vt). cmpName tells whether the key order
// is the natural one, in which case string keys get the plain lexicographic comparator strings.Compare (and its
// reverse for desc); every other order is the int comparator applied to what the keys stand for. Values: the struct
// is compared field by field (slices.Equal on the slice field) when eq is ==, a []int by slices.Equal.
func NewTableOf(comp, kt, vt, cmpName, eqName string, cmp func(int, int) int, eq func(int, int) bool) Table {
	if kt == "" {
		kt = "int"
	}
	if vt == "" {
		vt = "int"
	}
	if kt == "int" && vt == "int" {
		switch comp {
		case "bst":
			return intTable{symboltable.NewBST[int, int](cmp, eq)}
		case "avl":
			return intTable{symboltable.NewAVL[int, int](cmp, eq)}
		case "rb":
			return intTable{symboltable.NewRedBlack[int, int](cmp, eq)}
		}
		return nil
	}
	var cmpS func(SKey, SKey) int
	switch cmpName {
	case "asc":
		cmpS = func(a, b SKey) int { return strings.Compare(string(a), string(b)) }
	case "desc":
		cmpS = func(a, b SKey) int { return strings.Compare(string(b), string(a)) }
	}
	ident := eqName == "" || eqName == "id"
	evS := func(v int) SVal { return SVal{A: v, B: []int{v, v / 2}, C: strconv.Itoa(v)} }
	dvS := func(v SVal) int { return v.A }
	var eqS func(SVal, SVal) bool
	var eqL func(LVal, LVal) bool
	if ident {
		eqS = func(a, b SVal) bool { return a.A == b.A && slices.Equal(a.B, b.B) && a.C == b.C }
		eqL = func(a, b LVal) bool { return slices.Equal(a, b) }
	}
	evL := func(v int) LVal { return LVal{v} }
	dvL := func(l LVal) int { return l[0] }
	switch kt + "/" + vt {
	case "str/int":
		return newTyped(comp, &codec[SKey, int]{encKey, decKey, idInt, idInt}, cmp, eq, cmpS, nil)
	case "str/struct":
		return newTyped(comp, &codec[SKey, SVal]{encKey, decKey, evS, dvS}, cmp, eq, cmpS, eqS)
	case "str/slice":
		return newTyped(comp, &codec[SKey, LVal]{encKey, decKey, evL, dvL}, cmp, eq, cmpS, eqL)
	case "str/any":
		return newTyped(comp, &codec[SKey, any]{encKey, decKey, anyOf, intOfAny}, cmp, eq, cmpS, nil)
	case "int/struct":
		return newTyped(comp, &codec[int, SVal]{idInt, idInt, evS, dvS}, cmp, eq, cmp, eqS)
	case "int/slice":
		return newTyped(comp, &codec[int, LVal]{idInt, idInt, evL, dvL}, cmp, eq, cmp, eqL)
	case "int/any":
		return newTyped(comp, &codec[int, any]{idInt, idInt, anyOf, intOfAny}, cmp, eq, cmp, nil)
	}
	return nil
}
