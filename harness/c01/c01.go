// Package c01: BST, AVL and Red-Black ordered symbol tables against an independent sorted-map oracle.
// (c15 reuses the executor, the generators and the shape helpers of this package.)
package c01

import (
	"fmt"
	"iter"
	"math"
	"sort"
	"strconv"
	"strings"

	"github.com/moorara/algo/generic"

	"verifharness/hx"
)

const Rule = "cases = (tree kind bst|avl|rb, constructor arguments of EACH of the two/three tables of the case: comparator " +
	"asc|desc|a-b|7*(a-b)|b-a|3*(b-a)|by-absolute-value-then-sign|evens-first and value equality ==|same-parity|always-true, " +
	"op sequence) drawn from VERIF_SEED. Families: (mixed) key universes of 3-16 ints (some 17-64, some shifted below zero) so " +
	"that duplicates, absent keys and rotations are dense; all five mutators mixed with every query, query arguments one " +
	"beyond the universe on both sides; two tables per case built with the same or with different comparators (swap) so that " +
	"Equal/SelectMatch/PartitionMatch operands come from histories, the unmatched table of PartitionMatch is kept too (swapc); " +
	"(equalpairs) the same pairs put into a table and, in another order, into a table with another comparator / value equality, " +
	"with one pair missing, added or changed, then Equal both ways round, x.Equal(x), and again after repairs; (sweep) " +
	"0,1,2,63,64,65,255,256,257,1023,1024,1025 and 65536 keys (thorough: also 65535,65537,70000) inserted in sorted, reverse, " +
	"zig-zag or random order, then Select/Rank/Floor/Ceiling/Get/Range/RangeSize at every threshold rank and its neighbours, " +
	"range results of threshold lengths, growth past and shrinking below the size with all kinds of delete, Height, and a second " +
	"table with the same keys under another comparator for Equal (sizes <= 1025); (extreme) keys and values at MinInt, MaxInt, " +
	"+-2^31, +-2^32, +-2^k+-1 under comparators that do not subtract; (far) comparators that DO subtract (a-b, 7*(a-b), b-a, 3*(b-a)) " +
	"on keys 2^32 … 2^62 apart but within +-2^59 (+-2^61 for a-b, b-a), where no subtraction overflows and the order is still " +
	"lawful, every query with bounds or ranks; half of the sweep cases spread their keys the same way (stride up to 2^5x); " +
	"(size) every size from 0 to 200: load, battery, one delete of each kind; (randload) 300, 800, 1500, 2500, 5000 keys in " +
	"RANDOM order, then random-order deletes, re-insertions, DeleteMin/DeleteMax, with Height, All and the traversals after " +
	"each phase, plus oracle-only (NoModel) 5000-key loads whose whole listing is compared every 5 mutations (5 Red-Black, " +
	"1 AVL, 1 BST; three times as many when thorough / searching / code changed). Type parameters: one case in five " +
	"instantiates K with string (lexicographic strings.Compare or its reverse for asc/desc, otherwise the int order of what " +
	"the strings stand for) and/or V with a struct holding a slice (field-wise equality), a []int (slices.Equal) or an any " +
	"holding ints and strings; keys and values print as the ints they stand for. API use: slices returned by Range are either scribbled " +
	"on and grown by the caller or kept and re-read after every later call (rangekeep); All() sequences are ranged over " +
	"twice, nested in one another, pulled alternately by two iter.Pull2 with one abandoned half-way; tables returned by " +
	"SelectMatch/PartitionMatch are mutated and the receiver re-examined and vice versa. Every result is judged by an " +
	"independent oracle (a Go map plus its pairs sorted by the table's comparator); every state-changing call of the small " +
	"cases also prints the internal tree (sizes, heights, colours) for the comparison with the Lean Model (the sweep cases " +
	"dump at the end). All cases, the 65536-key ones included, run on the Lean Model too (oracle_only_cases = 0). " +
	"non-trivial = the history performed at least one rotation/restructuring (tree shape after a Put or Delete on a table " +
	"of <= 64 keys differs from the plain BST result), deleted a node with two children, or held >= 63 keys; " +
	"distinct = distinct (header, op list)"

type KV struct{ K, V int }

func CmpAsc(a, b int) int {
	switch {
	case a < b:
		return -1
	case a > b:
		return 1
	}
	return 0
}

func CmpDesc(a, b int) int { return CmpAsc(b, a) }

// comparators that do not return -1/0/+1: code that tests `== -1` / `== 1` instead of the sign is exposed
func CmpDiff(a, b int) int   { return a - b }
func CmpDiff7(a, b int) int  { return 7 * (a - b) }
func CmpRDiff(a, b int) int  { return b - a }
func CmpRDiff3(a, b int) int { return 3 * (b - a) }

func cmpLex(f func(int) int, a, b int) int {
	switch x, y := f(a), f(b); {
	case x < y:
		return -1
	case x > y:
		return 1
	}
	return CmpAsc(a, b)
}

func absInt(a int) int {
	if a < 0 {
		return -a
	}
	return a
}

func parity(a int) int {
	if a%2 == 0 {
		return 0
	}
	return 1
}

// total orders that are neither the natural one nor its reverse: 0,-1,1,-2,2,… and evens before odds
func CmpAbsSign(a, b int) int { return cmpLex(absInt, a, b) }
func CmpEvenOdd(a, b int) int { return cmpLex(parity, a, b) }

var Cmps = map[string]func(int, int) int{"asc": CmpAsc, "desc": CmpDesc, "diff": CmpDiff, "diff7": CmpDiff7, "rdiff": CmpRDiff,
	"rdiff3": CmpRDiff3, "abssign": CmpAbsSign, "evenodd": CmpEvenOdd}

// CmpNames: lawful (strict total orders) on every universe of small keys the generators use.
var CmpNames = []string{"asc", "desc", "diff", "diff7", "rdiff", "rdiff3", "abssign", "evenodd"}

// WideCmpNames: lawful on the whole range of int (they neither subtract nor negate, so nothing overflows).
var WideCmpNames = []string{"asc", "desc", "evenodd"}

func eqInt(a, b int) bool { return a == b }
func eqPar(a, b int) bool { return (a-b)%2 == 0 }
func eqAny(a, b int) bool { return true }

var Eqs = map[string]func(int, int) bool{"id": eqInt, "par": eqPar, "any": eqAny}

var EqNames = []string{"id", "par", "any"}

func NewTable(comp string, cmp func(int, int) int) Table { return NewTableEq(comp, cmp, eqInt) }

func NewTableEq(comp string, cmp func(int, int) int, eq func(int, int) bool) Table {
	return NewTableOf(comp, "int", "int", "", "", cmp, eq)
}

// ---------------------------------------------------------------- oracle: a Go map and its pairs sorted by the comparator

// Oracle is the abstract sorted map: a builtin map (keys are ints; a lawful comparator identifies exactly equal ints)
// plus the listing of its pairs ascending in the table's own comparator. The listing is kept up to date by binary
// search + copy while that is cheap and is otherwise rebuilt by sorting when next asked for (bulk loads of 65536 keys).
type Oracle struct {
	m     map[int]int
	kvs   []KV
	dirty bool
	cmp   func(int, int) int
	eq    func(int, int) bool
}

func NewOracle(cmp func(int, int) int, eq func(int, int) bool) *Oracle {
	return &Oracle{m: map[int]int{}, cmp: cmp, eq: eq}
}

// NewOracleOf: a map holding the given pairs (SelectMatch/PartitionMatch results inherit cmp and eq of the receiver).
func NewOracleOf(l []KV, cmp func(int, int) int, eq func(int, int) bool) *Oracle {
	o := NewOracle(cmp, eq)
	for _, e := range l {
		o.m[e.K] = e.V
	}
	o.dirty = true
	return o
}

func (o *Oracle) Len() int { return len(o.m) }

// List returns the pairs ascending in the comparator (not to be modified by the caller).
func (o *Oracle) List() []KV {
	if o.dirty {
		o.kvs = make([]KV, 0, len(o.m))
		for k, v := range o.m {
			o.kvs = append(o.kvs, KV{k, v})
		}
		sort.Slice(o.kvs, func(i, j int) bool { return o.cmp(o.kvs[i].K, o.kvs[j].K) < 0 })
		o.dirty = false
	}
	return o.kvs
}

// pos: index of the first listed key that is not below k.
func (o *Oracle) pos(k int) int {
	return sort.Search(len(o.kvs), func(i int) bool { return o.cmp(o.kvs[i].K, k) >= 0 })
}

func (o *Oracle) Put(k, v int) {
	_, had := o.m[k]
	o.m[k] = v
	if o.dirty {
		return
	}
	i := o.pos(k)
	switch {
	case had:
		o.kvs[i].V = v
	case len(o.kvs)-i > 1024 && len(o.kvs) > 8192:
		o.dirty = true
	default:
		o.kvs = append(o.kvs, KV{})
		copy(o.kvs[i+1:], o.kvs[i:])
		o.kvs[i] = KV{k, v}
	}
}

func (o *Oracle) Get(k int) (int, bool) {
	v, ok := o.m[k]
	return v, ok
}

func (o *Oracle) Delete(k int) (int, bool) {
	v, ok := o.m[k]
	if !ok {
		return 0, false
	}
	delete(o.m, k)
	if !o.dirty {
		i := o.pos(k)
		o.kvs = append(append(make([]KV, 0, len(o.kvs)), o.kvs[:i]...), o.kvs[i+1:]...)
	}
	return v, true
}

func (o *Oracle) DeleteMin() (KV, bool) {
	l := o.List()
	if len(l) == 0 {
		return KV{}, false
	}
	delete(o.m, l[0].K)
	o.kvs = l[1:]
	return l[0], true
}

func (o *Oracle) DeleteMax() (KV, bool) {
	l := o.List()
	if len(l) == 0 {
		return KV{}, false
	}
	e := l[len(l)-1]
	delete(o.m, e.K)
	o.kvs = l[:len(l)-1]
	return e, true
}

func (o *Oracle) Clear() { o.m, o.kvs, o.dirty = map[int]int{}, nil, false }

// Floor: the last entry whose key is <= k.
func (o *Oracle) Floor(k int) (KV, bool) {
	l := o.List()
	for i := len(l) - 1; i >= 0; i-- {
		if o.cmp(l[i].K, k) <= 0 {
			return l[i], true
		}
	}
	return KV{}, false
}

// Ceiling: the first entry whose key is >= k.
func (o *Oracle) Ceiling(k int) (KV, bool) {
	for _, e := range o.List() {
		if o.cmp(e.K, k) >= 0 {
			return e, true
		}
	}
	return KV{}, false
}

func (o *Oracle) Rank(k int) int {
	n := 0
	for _, e := range o.List() {
		if o.cmp(e.K, k) < 0 {
			n++
		}
	}
	return n
}

func (o *Oracle) Range(lo, hi int) []KV {
	var out []KV
	for _, e := range o.List() {
		if o.cmp(lo, e.K) <= 0 && o.cmp(e.K, hi) <= 0 {
			out = append(out, e)
		}
	}
	return out
}

// EqualTo: what receiver.Equal(arg) must answer. No comparator is involved: both maps hold the same keys, and the
// receiver's value equality accepts the two values of every key (receiver's value first in the first pass, argument's
// value first in the second, as Equal is specified: "t ⊂ t2 and t2 ⊂ t").
func (o *Oracle) EqualTo(arg *Oracle) bool {
	for k, v := range o.m {
		if w, ok := arg.m[k]; !ok || !o.eq(v, w) {
			return false
		}
	}
	for k, w := range arg.m {
		if v, ok := o.m[k]; !ok || !o.eq(w, v) {
			return false
		}
	}
	return true
}

// ---------------------------------------------------------------- rendering

func showKVs(l []KV) string {
	ss := make([]string, len(l))
	for i, e := range l {
		ss[i] = strconv.Itoa(e.K) + ":" + strconv.Itoa(e.V)
	}
	return "[" + strings.Join(ss, " ") + "]"
}

func optKV(k, v int, ok bool) string {
	if ok {
		return "ok some " + strconv.Itoa(k) + " " + strconv.Itoa(v)
	}
	return "ok none"
}

func optV(v int, ok bool) string {
	if ok {
		return "ok some " + strconv.Itoa(v)
	}
	return "ok none"
}

func sameKVs(a, b []KV) bool {
	if len(a) != len(b) {
		return false
	}
	for i := range a {
		if a[i] != b[i] {
			return false
		}
	}
	return true
}

func takeLim(limit int, l []KV) []KV {
	if limit == 0 || limit >= len(l) {
		return l
	}
	return l[:limit]
}

func reversed(l []KV) []KV {
	out := make([]KV, len(l))
	for i, e := range l {
		out[len(l)-1-i] = e
	}
	return out
}

// ---------------------------------------------------------------- predicates

// ParsePred: the predicate families shared with the Lean driver.
func ParsePred(f []string) func(int, int) bool {
	atoi := func(s string) int { v, _ := strconv.Atoi(s); return v }
	switch {
	case len(f) == 1 && f[0] == "true":
		return func(int, int) bool { return true }
	case len(f) == 1 && f[0] == "false":
		return func(int, int) bool { return false }
	case len(f) == 3 && f[0] == "kmod" && atoi(f[1]) != 0:
		m, r := atoi(f[1]), atoi(f[2])
		return func(k, _ int) bool { return k%m == r }
	case len(f) == 3 && f[0] == "vmod" && atoi(f[1]) != 0:
		m, r := atoi(f[1]), atoi(f[2])
		return func(_, v int) bool { return v%m == r }
	case len(f) == 2 && f[0] == "klt":
		c := atoi(f[1])
		return func(k, _ int) bool { return k < c }
	case len(f) == 2 && f[0] == "sumlt":
		c := atoi(f[1])
		return func(k, v int) bool { return k+v < c }
	}
	return nil
}

var orders = map[string]generic.TraverseOrder{
	"vlr": generic.VLR, "vrl": generic.VRL, "lvr": generic.LVR, "rvl": generic.RVL, "lrv": generic.LRV,
	"rlv": generic.RLV, "ascending": generic.Ascending, "descending": generic.Descending, "other": generic.TraverseOrder(99),
}

// Collect runs Traverse with a visitor that stops after limit pairs (0 = never).
func Collect(t Table, order generic.TraverseOrder, limit int) []KV {
	var acc []KV
	t.Traverse(order, func(k, v int) bool {
		acc = append(acc, KV{k, v})
		return limit == 0 || len(acc) < limit
	})
	return acc
}

func All(t Table) []KV {
	var acc []KV
	for k, v := range t.All() {
		acc = append(acc, KV{k, v})
	}
	return acc
}

// ---------------------------------------------------------------- the machine: three tables + three oracles

// keptSlice: a slice returned by Range that the caller keeps (and does not write to); it must read the same for ever.
type keptSlice struct {
	s    []generic.KeyValue[int, int]
	want []KV
	from string
}

type Machine struct {
	Comp       string
	A, B, C    Table
	OA, OB, OC *Oracle
	Dump       bool
	kept       []keptSlice
}

// Cmp is the comparator of the current table A.
func (m *Machine) Cmp() func(int, int) int { return m.OA.cmp }

func NewMachine(header string) *Machine {
	m := &Machine{Comp: hx.HeaderGet(header, "comp"), Dump: hx.HeaderGet(header, "dump") == "1"}
	kt, vt := hx.HeaderGet(header, "kt"), hx.HeaderGet(header, "vt")
	type par struct{ cmp, eq string }
	get := func(sfx string, dflt par) par {
		p := dflt
		if _, ok := Cmps[hx.HeaderGet(header, "cmp"+sfx)]; ok {
			p.cmp = hx.HeaderGet(header, "cmp"+sfx)
		}
		if _, ok := Eqs[hx.HeaderGet(header, "eq"+sfx)]; ok {
			p.eq = hx.HeaderGet(header, "eq"+sfx)
		}
		return p
	}
	pa := get("", par{"asc", "id"})
	pb, pc := get("2", pa), get("3", pa)
	mk := func(p par) (Table, *Oracle) {
		return NewTableOf(m.Comp, kt, vt, p.cmp, p.eq, Cmps[p.cmp], Eqs[p.eq]), NewOracle(Cmps[p.cmp], Eqs[p.eq])
	}
	m.A, m.OA = mk(pa)
	m.B, m.OB = mk(pb)
	m.C, m.OC = mk(pc)
	return m
}

// Hook is called after every op that did not panic (c15 adds its checks here).
type Hook func(m *Machine, i int, f []string, out string, bad func(format string, a ...any), tags map[string]bool)

// Exec runs one case on the real tables and checks every outcome against the sorted-map oracle.
func Exec(c hx.Case) hx.Result { return ExecWith(c, nil, true) }

func toKVs(kvs []generic.KeyValue[int, int]) []KV {
	got := make([]KV, len(kvs))
	for j, e := range kvs {
		got[j] = KV{e.Key, e.Val}
	}
	return got
}

func ExecWith(c hx.Case, hook Hook, shapeTags bool) hx.Result {
	res := hx.Result{BadOp: -1}
	m := NewMachine(c.Header)
	if m.A == nil {
		for range c.Ops {
			res.Outs = append(res.Outs, "bad-case")
		}
		return res
	}
	hdr := func(k, dflt string) string {
		if v := hx.HeaderGet(c.Header, k); v != "" {
			return v
		}
		return dflt
	}
	cmpA := hdr("cmp", "asc")
	tags := map[string]bool{"comp=" + m.Comp: true, "cmp=" + cmpA: true}
	if c2 := hdr("cmp2", cmpA); c2 != cmpA {
		tags["two-comparators"] = true
	}
	if e := hdr("eq", "id"); e != "id" || hdr("eq2", e) != e {
		tags["eqVal-not-=="] = true
	}
	if kt, vt := hdr("kt", "int"), hdr("vt", "int"); kt != "int" || vt != "int" {
		tags["types="+kt+"/"+vt] = true
	}
	atoi := func(s string) int { v, _ := strconv.Atoi(s); return v }

	for i, op := range c.Ops {
		bad := func(format string, a ...any) {
			if res.BadOp < 0 {
				res.BadOp = i
				res.What = m.Comp + ": " + op + ": " + fmt.Sprintf(format, a...)
			}
		}
		f := strings.Fields(op)
		out := "bad-op"
		kind := hx.Try(func() {
			if len(f) == 0 {
				return
			}
			suffix := func(ts ...Table) string {
				if !m.Dump {
					return ""
				}
				s := ""
				for _, t := range ts {
					s += " | " + t.Dump()
				}
				return s
			}
			var before *Shape
			small := shapeTags && m.A.Size() <= 64
			if small && (f[0] == "put" || f[0] == "delete") {
				before, _ = ParseDump(m.Comp, m.A.Dump())
			}
			switch f[0] {
			case "put":
				k, v := atoi(f[1]), atoi(f[2])
				if _, had := m.OA.Get(k); had {
					tags["put-existing-key"] = true
				}
				m.A.Put(k, v)
				m.OA.Put(k, v)
				out = "ok" + suffix(m.A)
				if small {
					after, _ := ParseDump(m.Comp, m.A.Dump())
					if after.Keys() != naivePut(before, k, m.Cmp()).Keys() {
						tags["rotation-on-put"] = true
					}
				}
				for _, th := range []int{63, 64, 65, 255, 256, 257, 1023, 1024, 1025, 65535, 65536, 65537} {
					if m.OA.Len() == th {
						tags["keys="+strconv.Itoa(th)] = true
						tags["keys>=63"] = true
					}
				}
			case "delete":
				k := atoi(f[1])
				v, ok := m.A.Delete(k)
				wv, wok := m.OA.Delete(k)
				out = optV(v, ok) + suffix(m.A)
				if ok != wok || (ok && v != wv) {
					bad("returned (%d,%v), the sorted map removes (%d,%v)", v, ok, wv, wok)
				}
				if !wok {
					tags["delete-absent-key"] = true
				}
				if small {
					if n := before.Find(k, m.Cmp()); n != nil && n.L != nil && n.R != nil {
						tags["two-child-delete"] = true
					}
					after, _ := ParseDump(m.Comp, m.A.Dump())
					if after.Keys() != naiveDelete(before, k, m.Cmp()).Keys() {
						tags["restructure-on-delete"] = true
					}
				}
			case "deletemin", "deletemax":
				var k, v int
				var ok bool
				var want KV
				var wok bool
				if f[0] == "deletemin" {
					k, v, ok = m.A.DeleteMin()
					want, wok = m.OA.DeleteMin()
				} else {
					k, v, ok = m.A.DeleteMax()
					want, wok = m.OA.DeleteMax()
				}
				out = optKV(k, v, ok) + suffix(m.A)
				if ok != wok || (ok && (KV{k, v}) != want) {
					bad("returned (%d,%d,%v), the sorted map removes (%v,%v)", k, v, ok, want, wok)
				}
				if !wok {
					tags[f[0]+"-on-empty"] = true
				}
			case "deleteall":
				m.A.DeleteAll()
				m.OA.Clear()
				out = "ok" + suffix(m.A)
			case "swap":
				m.A, m.B = m.B, m.A
				m.OA, m.OB = m.OB, m.OA
				out = "ok" + suffix(m.A)
			case "swapc":
				m.A, m.C = m.C, m.A
				m.OA, m.OC = m.OC, m.OA
				out = "ok" + suffix(m.A)
			case "size":
				n := m.A.Size()
				out = "ok " + strconv.Itoa(n)
				if n != m.OA.Len() {
					bad("= %d, the sorted map holds %d", n, m.OA.Len())
				}
			case "isempty":
				e := m.A.IsEmpty()
				out = "ok " + strconv.FormatBool(e)
				if e != (m.OA.Len() == 0) {
					bad("= %v with %d keys held", e, m.OA.Len())
				}
			case "height":
				out = "ok " + strconv.Itoa(m.A.Height())
			case "get":
				k := atoi(f[1])
				v, ok := m.A.Get(k)
				wv, wok := m.OA.Get(k)
				out = optV(v, ok)
				if ok != wok || (ok && v != wv) {
					bad("= (%d,%v), want (%d,%v)", v, ok, wv, wok)
				}
				if !wok {
					tags["query-absent-key"] = true
				}
			case "min", "max", "floor", "ceiling", "select":
				var k, v int
				var ok bool
				var want KV
				var wok bool
				l := m.OA.List()
				switch f[0] {
				case "min":
					k, v, ok = m.A.Min()
					if wok = len(l) > 0; wok {
						want = l[0]
					}
				case "max":
					k, v, ok = m.A.Max()
					if wok = len(l) > 0; wok {
						want = l[len(l)-1]
					}
				case "floor":
					k, v, ok = m.A.Floor(atoi(f[1]))
					want, wok = m.OA.Floor(atoi(f[1]))
				case "ceiling":
					k, v, ok = m.A.Ceiling(atoi(f[1]))
					want, wok = m.OA.Ceiling(atoi(f[1]))
				case "select":
					r := atoi(f[1])
					k, v, ok = m.A.Select(r)
					if wok = r >= 0 && r < len(l); wok {
						want = l[r]
					}
				}
				out = optKV(k, v, ok)
				if ok != wok || (ok && (KV{k, v}) != want) {
					bad("= (%d,%d,%v), want (%v,%v)", k, v, ok, want, wok)
				}
			case "rank":
				n := m.A.Rank(atoi(f[1]))
				out = "ok " + strconv.Itoa(n)
				if w := m.OA.Rank(atoi(f[1])); n != w {
					bad("= %d, want %d", n, w)
				}
			case "range", "rangekeep":
				kvs := m.A.Range(atoi(f[1]), atoi(f[2]))
				got := toKVs(kvs)
				out = "ok " + showKVs(got)
				w := m.OA.Range(atoi(f[1]), atoi(f[2]))
				if !sameKVs(got, w) {
					bad("= %v, want %v", got, w)
				}
				for _, th := range []int{63, 64, 65, 255, 256, 257, 1023, 1024, 1025} {
					if len(got) == th {
						tags["range-result-of-threshold-length"] = true
					}
				}
				if f[0] == "rangekeep" {
					// the caller keeps the answer and reads it again after every later call (see below)
					if len(kvs) > 0 {
						if len(m.kept) >= 6 {
							m.kept = m.kept[1:]
						}
						m.kept = append(m.kept, keptSlice{s: kvs, want: got, from: "Range(" + f[1] + ", " + f[2] + ")"})
						tags["range-result-kept"] = true
					}
				} else {
					// the caller owns the returned slice: scribble on it (and grow it), later calls must not notice
					for j := range kvs {
						kvs[j] = generic.KeyValue[int, int]{Key: -999, Val: -999}
					}
					kvs = append(kvs, generic.KeyValue[int, int]{Key: -998, Val: -998})
					_ = kvs
				}
			case "rangesize":
				n := m.A.RangeSize(atoi(f[1]), atoi(f[2]))
				out = "ok " + strconv.Itoa(n)
				if w := len(m.OA.Range(atoi(f[1]), atoi(f[2]))); n != w {
					bad("= %d, want %d", n, w)
				}
			case "all":
				got := All(m.A)
				out = "ok " + showKVs(got)
				if !sameKVs(got, m.OA.List()) {
					bad("= %v, want %v", got, m.OA.List())
				}
			case "allcount":
				// the whole listing, checked pair by pair against the sorted map; only its length is printed
				got := All(m.A)
				out = "ok " + strconv.Itoa(len(got))
				if w := m.OA.List(); !sameKVs(got, w) {
					if len(w) > 40 {
						bad("lists %d pairs, not the %d pairs of the sorted map in order", len(got), len(w))
					} else {
						bad("= %v, want %v", got, w)
					}
				}
			case "alluntil":
				limit := atoi(f[1])
				var got []KV
				for k, v := range m.A.All() {
					got = append(got, KV{k, v})
					if limit != 0 && len(got) >= limit {
						break
					}
				}
				out = "ok " + showKVs(got)
				if w := takeLim(limit, m.OA.List()); !sameKVs(got, w) {
					bad("= %v, want %v", got, w)
				}
			case "alltwice":
				// an iterator sequence obtained once and ranged over twice
				seq := m.A.All()
				var g1, g2 []KV
				for k, v := range seq {
					g1 = append(g1, KV{k, v})
				}
				for k, v := range seq {
					g2 = append(g2, KV{k, v})
				}
				out = "ok " + showKVs(g1) + " " + showKVs(g2)
				if w := m.OA.List(); !sameKVs(g1, w) || !sameKVs(g2, w) {
					bad("= %v then %v, want %v twice", g1, g2, w)
				}
			case "allnested":
				// an All() loop inside an All() loop over the same (unchanged) table
				var outer, inner []KV
				for k, v := range m.A.All() {
					outer = append(outer, KV{k, v})
					if len(outer) == 1 {
						for k2, v2 := range m.A.All() {
							inner = append(inner, KV{k2, v2})
						}
					}
				}
				out = "ok " + showKVs(outer) + " " + showKVs(inner)
				if w := m.OA.List(); !sameKVs(outer, w) || !sameKVs(inner, w) {
					bad("outer loop saw %v, inner loop %v, want %v twice", outer, inner, w)
				}
			case "allpull":
				// two pull iterators over the same table advanced alternately; the first is abandoned after `limit` pairs
				limit := atoi(f[1])
				next1, stop1 := iter.Pull2(m.A.All())
				next2, stop2 := iter.Pull2(m.A.All())
				var g1, g2 []KV
				done1, done2 := false, false
				for !done1 || !done2 {
					if !done1 {
						if k, v, ok := next1(); ok {
							g1 = append(g1, KV{k, v})
							if limit != 0 && len(g1) >= limit {
								stop1()
								done1 = true
							}
						} else {
							done1 = true
						}
					}
					if !done2 {
						if k, v, ok := next2(); ok {
							g2 = append(g2, KV{k, v})
						} else {
							done2 = true
						}
					}
				}
				stop1()
				stop2()
				out = "ok " + showKVs(g1) + " " + showKVs(g2)
				if w := m.OA.List(); !sameKVs(g1, takeLim(limit, w)) || !sameKVs(g2, w) {
					bad("= %v and %v, want %v and %v", g1, g2, takeLim(limit, w), w)
				}
			case "equalother":
				// a table of another implementation type holding exactly the same pairs: Equal answers false
				other := NewTableOf(otherKind(m.Comp), hdr("kt", "int"), hdr("vt", "int"), "", "", m.OA.cmp, m.OA.eq)
				for _, e := range m.OA.List() {
					other.Put(e.K, e.V)
				}
				e := m.A.EqualT(other)
				out = "ok " + strconv.FormatBool(e)
				if e {
					bad("= true for a table of type %s", otherKind(m.Comp))
				}
				// nor for an unordered table
				if m.A.EqualForeign() {
					bad("= true for a hash table")
				}
			case "traverse":
				order, known := orders[f[1]]
				if !known {
					return
				}
				limit := atoi(f[2])
				got := Collect(m.A, order, limit)
				out = "ok " + showKVs(got)
				l := m.OA.List()
				switch f[1] {
				case "lvr", "ascending":
					if w := takeLim(limit, l); !sameKVs(got, w) {
						bad("= %v, want %v", got, w)
					}
				case "rvl", "descending":
					if w := takeLim(limit, reversed(l)); !sameKVs(got, w) {
						bad("= %v, want %v", got, w)
					}
				case "other":
					if len(got) != 0 {
						bad("visited %v for an invalid order", got)
					}
				default:
					// some enumeration without repetition of the held pairs, cut where the visitor stops
					wantLen := len(l)
					if limit != 0 && limit < wantLen {
						wantLen = limit
					}
					seen := map[int]bool{}
					for _, e := range got {
						v, ok := m.OA.Get(e.K)
						if !ok || v != e.V || seen[e.K] {
							bad("visited %v, not an enumeration of %v", got, l)
						}
						seen[e.K] = true
					}
					if len(got) != wantLen {
						bad("visited %d pairs, want %d", len(got), wantLen)
					}
				}
			case "equal", "equalself":
				arg, oarg := m.B, m.OB
				if f[0] == "equalself" {
					arg, oarg = m.A, m.OA
				}
				e := m.A.EqualT(arg)
				out = "ok " + strconv.FormatBool(e)
				w := m.OA.EqualTo(oarg)
				if e != w {
					bad("= %v, want %v (receiver holds %v, argument holds %v)", e, w, m.OA.List(), oarg.List())
				}
				if e && m.OA.Len() > 0 {
					tags["equal-true-nonempty"] = true
				}
				if m.OA.Len() >= 2 && m.OA.Len() == oarg.Len() && !sameKVs(m.OA.List(), oarg.List()) && f[0] == "equal" {
					if e {
						tags["equal-true-across-orders"] = true
					} else {
						tags["equal-false-across-orders"] = true
					}
				}
			case "anymatch", "allmatch", "firstmatch", "selectmatch", "partitionmatch":
				p := ParsePred(f[1:])
				if p == nil {
					return
				}
				var yes, no []KV
				for _, e := range m.OA.List() {
					if p(e.K, e.V) {
						yes = append(yes, e)
					} else {
						no = append(no, e)
					}
				}
				switch f[0] {
				case "anymatch":
					b := m.A.AnyMatch(p)
					out = "ok " + strconv.FormatBool(b)
					if b != (len(yes) > 0) {
						bad("= %v, %d pairs match", b, len(yes))
					}
				case "allmatch":
					b := m.A.AllMatch(p)
					out = "ok " + strconv.FormatBool(b)
					if b != (len(no) == 0) {
						bad("= %v, %d pairs do not match", b, len(no))
					}
				case "firstmatch":
					k, v, ok := m.A.FirstMatch(p)
					out = optKV(k, v, ok)
					if ok {
						if w, held := m.OA.Get(k); !held || w != v || !p(k, v) {
							bad("= (%d,%d), not a held pair satisfying the predicate", k, v)
						}
					} else if len(yes) > 0 {
						bad("found nothing, %v match", yes)
					}
				case "selectmatch":
					nt := m.A.SelectT(p)
					got := All(nt)
					// the result is a table of the receiver's kind with the receiver's comparator and value equality
					m.B = nt
					m.OB = NewOracleOf(yes, m.OA.cmp, m.OA.eq)
					out = "ok " + showKVs(got) + suffix(m.B)
					if !sameKVs(got, yes) {
						bad("= %v, want %v", got, yes)
					}
				case "partitionmatch":
					mt, ut := m.A.PartitionT(p)
					gm, gu := All(mt), All(ut)
					m.B, m.C = mt, ut
					m.OB, m.OC = NewOracleOf(yes, m.OA.cmp, m.OA.eq), NewOracleOf(no, m.OA.cmp, m.OA.eq)
					out = "ok " + showKVs(gm) + " " + showKVs(gu) + suffix(m.B, m.C)
					if !sameKVs(gm, yes) || !sameKVs(gu, no) {
						bad("= %v %v, want %v %v", gm, gu, yes, no)
					}
				}
			case "dump":
				out = "ok " + m.A.Dump()
			}
		})
		if kind != "" {
			res.Outs = append(res.Outs, "panic")
			bad("panicked (%s)", kind)
			tags["panic"] = true
			break
		}
		// answers the caller kept: a slice returned by an earlier Range must still read what it read then
		for j := 0; j < len(m.kept); {
			if cur := toKVs(m.kept[j].s); !sameKVs(cur, m.kept[j].want) {
				bad("the slice returned earlier by %s was %v and now reads %v", m.kept[j].from, m.kept[j].want, cur)
				m.kept = append(m.kept[:j:j], m.kept[j+1:]...)
				continue
			}
			j++
		}
		if hook != nil {
			hook(m, i, f, out, bad, tags)
		}
		res.Outs = append(res.Outs, out)
	}
	res.Nontrivial = tags["rotation-on-put"] || tags["two-child-delete"] || tags["restructure-on-delete"] || tags["keys>=63"]
	for t := range tags {
		res.Tags = append(res.Tags, t)
	}
	sort.Strings(res.Tags)
	return res
}

func otherKind(comp string) string {
	switch comp {
	case "bst":
		return "avl"
	case "avl":
		return "rb"
	}
	return "bst"
}

// ---------------------------------------------------------------- tree shapes (from VerifDump or from traversals)

type Shape struct {
	Key, Val, Size, Height int
	Red                    bool
	L, R                   *Shape
}

// ParseDump parses the output of symboltable.VerifDump for the given kind.
func ParseDump(comp, s string) (*Shape, error) {
	toks := strings.Fields(strings.NewReplacer("(", " ( ", ")", " ) ").Replace(s))
	pos := 0
	var parse func() (*Shape, error)
	next := func() string {
		if pos < len(toks) {
			pos++
			return toks[pos-1]
		}
		return ""
	}
	parse = func() (*Shape, error) {
		t := next()
		if t == "." {
			return nil, nil
		}
		if t != "(" {
			return nil, fmt.Errorf("dump: unexpected %q", t)
		}
		n := &Shape{}
		var err error
		if n.Key, err = strconv.Atoi(next()); err != nil {
			return nil, err
		}
		if n.Val, err = strconv.Atoi(next()); err != nil {
			return nil, err
		}
		if n.Size, err = strconv.Atoi(next()); err != nil {
			return nil, err
		}
		switch comp {
		case "avl":
			if n.Height, err = strconv.Atoi(next()); err != nil {
				return nil, err
			}
		case "rb":
			n.Red = next() == "R"
		}
		if n.L, err = parse(); err != nil {
			return nil, err
		}
		if n.R, err = parse(); err != nil {
			return nil, err
		}
		if next() != ")" {
			return nil, fmt.Errorf("dump: missing )")
		}
		return n, nil
	}
	n, err := parse()
	if err == nil && pos != len(toks) {
		err = fmt.Errorf("dump: trailing tokens")
	}
	return n, err
}

// Keys renders the key structure only (pre-order with nil markers).
func (n *Shape) Keys() string {
	var b strings.Builder
	var walk func(*Shape)
	walk = func(n *Shape) {
		if n == nil {
			b.WriteByte('.')
			return
		}
		b.WriteString("(" + strconv.Itoa(n.Key) + " ")
		walk(n.L)
		walk(n.R)
		b.WriteByte(')')
	}
	walk(n)
	return b.String()
}

func (n *Shape) Find(k int, cmp func(int, int) int) *Shape {
	for n != nil {
		switch c := cmp(k, n.Key); {
		case c < 0:
			n = n.L
		case c > 0:
			n = n.R
		default:
			return n
		}
	}
	return nil
}

func (n *Shape) RealHeight() int {
	if n == nil {
		return 0
	}
	return 1 + max(n.L.RealHeight(), n.R.RealHeight())
}

func (n *Shape) Count() int {
	if n == nil {
		return 0
	}
	return 1 + n.L.Count() + n.R.Count()
}

// naivePut: plain unbalanced BST insertion on the key structure (copying).
func naivePut(n *Shape, k int, cmp func(int, int) int) *Shape {
	if n == nil {
		return &Shape{Key: k}
	}
	c := *n
	switch x := cmp(k, n.Key); {
	case x < 0:
		c.L = naivePut(n.L, k, cmp)
	case x > 0:
		c.R = naivePut(n.R, k, cmp)
	}
	return &c
}

// naiveDelete: plain Hibbard deletion on the key structure (copying).
func naiveDelete(n *Shape, k int, cmp func(int, int) int) *Shape {
	if n == nil {
		return nil
	}
	c := *n
	switch x := cmp(k, n.Key); {
	case x < 0:
		c.L = naiveDelete(n.L, k, cmp)
	case x > 0:
		c.R = naiveDelete(n.R, k, cmp)
	default:
		if n.L == nil {
			return n.R
		}
		if n.R == nil {
			return n.L
		}
		m := n.R
		for m.L != nil {
			m = m.L
		}
		c.Key = m.Key
		c.R = naiveDelete(n.R, m.Key, cmp)
	}
	return &c
}

// Rebuild reconstructs the tree shape from its pre-order and in-order key sequences (distinct keys).
func Rebuild(pre, in []int) (*Shape, error) {
	if len(pre) != len(in) {
		return nil, fmt.Errorf("pre-order has %d keys, in-order %d", len(pre), len(in))
	}
	idx := make(map[int]int, len(in))
	for i, k := range in {
		if _, dup := idx[k]; dup {
			return nil, fmt.Errorf("in-order repeats key %d", k)
		}
		idx[k] = i
	}
	p := 0
	var build func(lo, hi int) (*Shape, error)
	build = func(lo, hi int) (*Shape, error) {
		if lo > hi {
			return nil, nil
		}
		if p >= len(pre) {
			return nil, fmt.Errorf("pre-order too short")
		}
		k := pre[p]
		i, ok := idx[k]
		if !ok || i < lo || i > hi {
			return nil, fmt.Errorf("pre-order key %d is not in the in-order window [%d,%d]", k, lo, hi)
		}
		p++
		n := &Shape{Key: k}
		var err error
		if n.L, err = build(lo, i-1); err != nil {
			return nil, err
		}
		if n.R, err = build(i+1, hi); err != nil {
			return nil, err
		}
		return n, nil
	}
	n, err := build(0, len(in)-1)
	if err == nil && p != len(pre) {
		err = fmt.Errorf("pre-order has extra keys")
	}
	return n, err
}

// ---------------------------------------------------------------- generation

var Comps = []string{"bst", "avl", "rb"}

func predTextAt(r *hx.Rand, lo, u int) string {
	switch r.Intn(7) {
	case 0:
		return "true"
	case 1:
		return "false"
	case 2:
		return "kmod 2 0"
	case 3:
		return fmt.Sprintf("kmod 3 %d", r.Intn(3))
	case 4:
		return fmt.Sprintf("vmod 2 %d", r.Intn(2))
	case 5:
		return fmt.Sprintf("klt %d", lo+r.Range(-1, u))
	default:
		return fmt.Sprintf("sumlt %d", lo+r.Range(0, 2*u))
	}
}

var orderNames = []string{"vlr", "vrl", "lvr", "rvl", "lrv", "rlv", "ascending", "descending", "other"}

// GenOps draws one history over the key universe [0,u); query arguments come from [-1,u].
func GenOps(r *hx.Rand, n, u int) []string { return GenOpsAt(r, n, 0, u) }

// GenOpsAt draws one history over the key universe [lo,lo+u); query arguments come from [lo-1,lo+u].
func GenOpsAt(r *hx.Rand, n, lo, u int) []string {
	var ops []string
	arg := func() int { return lo + r.Range(-1, u) }
	key := func() int { return lo + r.Intn(u) }
	// phases: mostly growing, then mostly shrinking, so trees fill up and drain
	grow := true
	phase := r.Range(5, 25)
	for len(ops) < n {
		if phase == 0 {
			grow = r.Chance(3, 5)
			phase = r.Range(5, 25)
		}
		phase--
		x := r.Intn(100)
		switch {
		case x < 45: // mutators
			y := r.Intn(100)
			putShare := 70
			if !grow {
				putShare = 25
			}
			switch {
			case y < putShare:
				ops = append(ops, fmt.Sprintf("put %d %d", key(), r.Intn(10)))
			case y < putShare+(100-putShare)*5/10:
				ops = append(ops, fmt.Sprintf("delete %d", arg()))
			case y < putShare+(100-putShare)*7/10:
				ops = append(ops, "deletemin")
			case y < putShare+(100-putShare)*9/10:
				ops = append(ops, "deletemax")
			case y < putShare+(100-putShare)*19/20:
				ops = append(ops, hx.Pick(r, []string{"swap", "swap", "swap", "swapc"}))
			default:
				ops = append(ops, "deleteall")
			}
		case x < 50:
			ops = append(ops, "size")
		case x < 52:
			ops = append(ops, "isempty")
		case x < 55:
			ops = append(ops, "height")
		case x < 60:
			ops = append(ops, fmt.Sprintf("get %d", arg()))
		case x < 62:
			ops = append(ops, "min")
		case x < 64:
			ops = append(ops, "max")
		case x < 68:
			ops = append(ops, fmt.Sprintf("floor %d", arg()))
		case x < 72:
			ops = append(ops, fmt.Sprintf("ceiling %d", arg()))
		case x < 76:
			ops = append(ops, fmt.Sprintf("select %d", r.Range(-1, u)))
		case x < 80:
			ops = append(ops, fmt.Sprintf("rank %d", arg()))
		case x < 83:
			// a range answer is either scribbled on by the caller (range) or kept and re-read after every later call
			ops = append(ops, fmt.Sprintf("%s %d %d", hx.Pick(r, []string{"range", "range", "rangekeep"}), arg(), arg()))
		case x < 86:
			ops = append(ops, fmt.Sprintf("rangesize %d %d", arg(), arg()))
		case x < 87:
			ops = append(ops, hx.Pick(r, []string{"all", "alltwice", "allnested", fmt.Sprintf("allpull %d", r.Range(1, u))}))
		case x < 88:
			if r.Chance(1, 3) {
				ops = append(ops, "equalother")
			} else {
				ops = append(ops, fmt.Sprintf("alluntil %d", r.Range(0, u)))
			}
		case x < 92:
			lim := 0
			if r.Chance(1, 2) {
				lim = r.Range(1, u)
			}
			ops = append(ops, fmt.Sprintf("traverse %s %d", hx.Pick(r, orderNames), lim))
		case x < 94:
			ops = append(ops, hx.Pick(r, []string{"equal", "equal", "equal", "equalself"}))
		case x < 95:
			ops = append(ops, "anymatch "+predTextAt(r, lo, u))
		case x < 96:
			ops = append(ops, "allmatch "+predTextAt(r, lo, u))
		case x < 97:
			ops = append(ops, "firstmatch "+predTextAt(r, lo, u))
		case x < 99:
			// a derived table, then an aliasing probe: mutate the result, look at the receiver; mutate the
			// receiver, look at the result (a result sharing nodes with its receiver shows up here)
			sw := "swap"
			if x < 98 {
				ops = append(ops, "selectmatch "+predTextAt(r, lo, u))
			} else {
				ops = append(ops, "partitionmatch "+predTextAt(r, lo, u))
				if r.Bool() {
					sw = "swapc" // the same with the table of the unmatched pairs
				}
			}
			if r.Chance(2, 3) {
				ops = append(ops, sw, fmt.Sprintf("put %d %d", key(), 10+r.Intn(10)), fmt.Sprintf("delete %d", arg()),
					hx.Pick(r, []string{"deletemin", "deletemax", fmt.Sprintf("put %d 77", key())}),
					sw, "all", "size", "dump",
					fmt.Sprintf("put %d %d", key(), 20+r.Intn(10)), fmt.Sprintf("delete %d", arg()),
					hx.Pick(r, []string{"deletemin", "deletemax", "deleteall"}),
					sw, "all", "size", "dump", hx.Pick(r, []string{"equal", "equalself", "size"}), sw)
			}
		default:
			ops = append(ops, "dump")
		}
	}
	return ops
}

// EqualOps: the same pairs put into table A and, in another order, into table B (which the header may give another
// comparator and value equality), with one pair missing, added or changed; Equal both ways round and x.Equal(x),
// then the difference is repaired (or one is made) and Equal asked again; finally Equal against derived tables.
func EqualOps(r *hx.Rand, lo, u int) []string {
	n := r.Range(2, min(u, 14))
	perm := InsertionOrder(r, "random", u)[:n]
	type kv struct{ k, v int }
	pairs := make([]kv, n)
	for i, x := range perm {
		pairs[i] = kv{lo + x, r.Intn(10)}
	}
	var ops []string
	for _, p := range pairs {
		ops = append(ops, fmt.Sprintf("put %d %d", p.k, p.v))
	}
	ops = append(ops, "swap")
	// the second table: another insertion order, one variation
	variant := r.Intn(6)
	j := r.Intn(n)
	fresh := lo + u // a key the first table does not hold
	for _, i := range InsertionOrder(r, hx.Pick(r, []string{"random", "reverse", "sorted"}), n) {
		p := pairs[i]
		switch {
		case i == j && variant == 1:
			ops = append(ops, fmt.Sprintf("put %d %d", p.k, p.v+1)) // another value
		case i == j && variant == 2:
			ops = append(ops, fmt.Sprintf("put %d %d", p.k, p.v+2)) // another value of the same parity
		case i == j && variant == 3: // missing
		default:
			ops = append(ops, fmt.Sprintf("put %d %d", p.k, p.v))
		}
	}
	if variant == 4 {
		ops = append(ops, fmt.Sprintf("put %d %d", fresh, 3))
	}
	ops = append(ops, "equal", "swap", "equal", "equalself", "all", "swap", "all")
	// repair (or break) and ask again, both ways round
	switch variant {
	case 1, 2, 3:
		ops = append(ops, fmt.Sprintf("put %d %d", pairs[j].k, pairs[j].v))
	case 4:
		ops = append(ops, fmt.Sprintf("delete %d", fresh))
	default:
		ops = append(ops, hx.Pick(r, []string{fmt.Sprintf("delete %d", pairs[j].k), "deletemin", "deletemax",
			fmt.Sprintf("put %d %d", pairs[j].k, pairs[j].v+1)}))
	}
	ops = append(ops, "equal", "swap", "equal", "size", "swap", "size")
	// same keys everywhere but for one removed on both sides, by different calls
	ops = append(ops, fmt.Sprintf("delete %d", pairs[0].k), "swap", fmt.Sprintf("delete %d", pairs[0].k), "equal", "swap", "equal")
	// a derived table has the receiver's comparator: equal to its source (predicate true), not to the other table's proper subset
	ops = append(ops, "swapc", "deleteall", "swapc") // c := empty
	ops = append(ops, hx.Pick(r, []string{"selectmatch true", "partitionmatch true", "selectmatch kmod 2 0", "partitionmatch vmod 2 1"}),
		"equal", "swap", "equal", "equalself", "swap", "swapc", "equal", "swapc")
	return ops
}

// InsertionOrder: the indexes 0..n-1 in sorted, reverse, zig-zag (0, n-1, 1, n-2, …) or random order.
func InsertionOrder(r *hx.Rand, family string, n int) []int {
	ks := make([]int, n)
	switch family {
	case "sorted":
		for i := range ks {
			ks[i] = i
		}
	case "reverse":
		for i := range ks {
			ks[i] = n - 1 - i
		}
	case "zigzag":
		lo, hi := 0, n-1
		for i := range ks {
			if i%2 == 0 {
				ks[i] = lo
				lo++
			} else {
				ks[i] = hi
				hi--
			}
		}
	default:
		for i := range ks {
			ks[i] = i
		}
		for i := n - 1; i > 0; i-- {
			j := r.Intn(i + 1)
			ks[i], ks[j] = ks[j], ks[i]
		}
	}
	return ks
}

var Families = []string{"sorted", "reverse", "zigzag", "random"}

// Thresholds: the sizes programmers pick (uint64 mask, uint8, a block, uint16) and their neighbours.
var Thresholds = []int{0, 1, 2, 63, 64, 65, 255, 256, 257, 1023, 1024, 1025}
var BigThresholds = []int{65535, 65536, 65537, 70000}

// sweepPoints: the threshold ranks that make sense for a table of n keys, and the ends and the middle of the table.
func sweepPoints(n int) []int {
	seen := map[int]bool{}
	var out []int
	for _, t := range append(append(append([]int{}, Thresholds...), BigThresholds...), n/2, n-2, n-1, n, n+1) {
		if t >= 0 && t <= n+1 && !seen[t] {
			seen[t] = true
			out = append(out, t)
		}
	}
	sort.Ints(out)
	return out
}

// SweepOps: n keys (3*i-n for i < n: both signs, both parities, two absent ints between neighbours) inserted in the
// order of the family, then the query battery at every threshold rank and around it, range answers of threshold
// lengths; with `second`, the same pairs then go, in another order, into table B (which the header gives another
// comparator) and Equal is asked both ways round; then growth past n and shrinking below it with all kinds of delete
// and the battery again. `height` is asked after the load and after every mutation (c15 checks the shape there).
func SweepOps(r *hx.Rand, family string, n int, second bool) []string {
	return SweepOpsStride(r, family, n, second, 1)
}

// SweepOpsStride: the same with the keys (3*i-n)*stride: neighbours are `stride` apart (the absent arguments k+-1 stay
// next to their key), so that with a large stride a subtracting comparator returns huge values at threshold sizes too.
func SweepOpsStride(r *hx.Rand, family string, n int, second bool, stride int) []string {
	key := func(i int) int { return (3*i - n) * stride }
	var ops []string
	for _, i := range InsertionOrder(r, family, n) {
		ops = append(ops, fmt.Sprintf("put %d %d", key(i), i%10))
	}
	pts := sweepPoints(n)
	battery := func(full bool) {
		ops = append(ops, "size", "isempty", "height", "min", "max")
		for _, t := range pts {
			k := key(t)
			ops = append(ops, fmt.Sprintf("select %d", t), fmt.Sprintf("select %d", t-1), fmt.Sprintf("rank %d", k),
				fmt.Sprintf("rank %d", k+1), fmt.Sprintf("get %d", k), fmt.Sprintf("floor %d", k+1), fmt.Sprintf("ceiling %d", k-1))
			if full {
				ops = append(ops, fmt.Sprintf("get %d", k-1), fmt.Sprintf("floor %d", k-1), fmt.Sprintf("ceiling %d", k+1),
					fmt.Sprintf("rangesize %d %d", k-1, k+4), fmt.Sprintf("range %d %d", k-1, k+4),
					fmt.Sprintf("rangesize %d %d", key(0), k), fmt.Sprintf("rangesize %d %d", k, key(n)))
				// an answer of (about) t pairs, for the threshold lengths up to 1025: the result slice grows through them
				if t >= 2 && t <= 1025 && t <= n {
					lo := r.Intn(n - t + 1)
					ops = append(ops, fmt.Sprintf("%s %d %d", hx.Pick(r, []string{"range", "rangekeep"}), key(lo), key(lo+t-1)))
				}
			}
		}
		if full {
			ops = append(ops, "alluntil 3", "traverse descending 2", "traverse ascending 3", "traverse vlr 2", "traverse lrv 1",
				fmt.Sprintf("anymatch klt %d", key(0)), fmt.Sprintf("allmatch klt %d", key(n)), "firstmatch kmod 5 0",
				"equalself", "equal", fmt.Sprintf("rangekeep %d %d", key(0)-1, key(2)))
			if n <= 2000 { // the Model's full listing is quadratic (it appends at the end of a list)
				ops = append(ops, "allpull 2", "alltwice")
			}
		}
	}
	battery(true)
	if second {
		// the same pairs, inserted in another order into the second table (another comparator): Equal both ways round
		ops = append(ops, "swap")
		for _, i := range InsertionOrder(r, hx.Pick(r, Families), n) {
			ops = append(ops, fmt.Sprintf("put %d %d", key(i), i%10))
		}
		ops = append(ops, "size", "height", "equal", "swap", "equal", "equalself")
	}
	// grow past the size …
	// (`height` after every mutation; on the 65536-key tables only at the end of each phase: c15 rebuilds the shape there)
	h := func() []string {
		if n <= 2000 {
			return []string{"height"}
		}
		return nil
	}
	for _, i := range []int{n, n + 1, -1} {
		ops = append(ops, fmt.Sprintf("put %d %d", key(i), 7))
		ops = append(ops, h()...)
		ops = append(ops, "size", fmt.Sprintf("select %d", n), fmt.Sprintf("rank %d", key(n)))
	}
	battery(false)
	// … and shrink below it, with every kind of delete (present keys at the threshold ranks: mostly inner nodes)
	ops = append(ops, "deletemin", "height", "deletemax", "height", "deletemin", "deletemax", "size")
	for _, t := range pts {
		if t < n {
			ops = append(ops, fmt.Sprintf("delete %d", key(t)))
			ops = append(ops, h()...)
			ops = append(ops, fmt.Sprintf("delete %d", key(t)+1), fmt.Sprintf("get %d", key(t)),
				fmt.Sprintf("rank %d", key(t)), fmt.Sprintf("select %d", t))
		}
	}
	for j := 0; j < 8 && n > 0; j++ {
		ops = append(ops, fmt.Sprintf("delete %d", key(r.Intn(n))))
		ops = append(ops, h()...)
	}
	battery(false)
	// back up to the size
	for _, t := range pts {
		if t < n {
			ops = append(ops, fmt.Sprintf("put %d %d", key(t), 8))
		}
	}
	ops = append(ops, "size", "height", "dump")
	if second {
		// the two tables now differ (by the values written above, if by nothing else); then the second one is emptied
		ops = append(ops, "equal", "swap", "equal", "alluntil 4", "deleteall", "size", "height", "equal", "swap", "equal")
	}
	return ops
}

// ExtremeKeys: the ints at which machine arithmetic, masks and narrow conversions change behaviour.
var ExtremeKeys = []int{math.MinInt, math.MinInt + 1, math.MinInt + 2, -1 << 32, -1<<32 - 1, -1 << 31, -1<<31 - 1, -65537, -65536,
	-257, -256, -255, -65, -64, -63, -2, -1, 0, 1, 2, 63, 64, 65, 255, 256, 257, 65535, 65536, 65537, 1<<31 - 1, 1 << 31,
	1<<32 - 1, 1 << 32, 1<<32 + 1, math.MaxInt - 2, math.MaxInt - 1, math.MaxInt}

// ExtremeOps: a history of GenOps over u of the extreme keys (two more serve as the absent arguments on either side);
// every tenth value is MaxInt or MinInt. Only for comparators of WideCmpNames and predicates that do not add.
func ExtremeOps(r *hx.Rand, n, u int) []string { return PoolOps(r, n, u, ExtremeKeys, true) }

// FarKeys59: keys whose differences reach 2^32 … 2^60 although every key is within ±2^59: under a comparator that
// subtracts (a-b, 7*(a-b), b-a, 3*(b-a)) nothing overflows, so the comparator is still a lawful total order there, but
// its results are huge (a product of two of them does overflow). FarKeys61 goes up to ±2^61 (differences up to 2^62),
// for a-b and b-a only.
var FarKeys59 = []int{0, 1, -1, 2, 1 << 31, -(1 << 31), 1<<31 + 1, 1<<32 - 1, -(1<<32 - 1), 1 << 32, -(1 << 32), 3000000000, -3000000000,
	3037000500, -3037000499, 1<<33 + 5, 1<<40 + 7, -(1<<40 + 7), 1700000000000000000 >> 2, 1 << 50, -(1 << 50), 1<<55 - 3, 1<<58 + 11, -(1<<58 + 11),
	1<<59 - 1, -(1<<59 - 1), 1 << 59, -(1 << 59)}
var FarKeys61 = append(append([]int{}, FarKeys59...), 1<<60+1, -(1<<60 + 1), 1700000000000000000, 1700000003000000000, 1700000003100000000,
	-1700000000000000000, 1<<61-1, -(1<<61 - 1), 1<<61, -(1 << 61))

// FarCmpNames59 / FarCmpNames61: the comparators that are lawful on those pools.
var FarCmpNames59 = []string{"diff", "diff7", "rdiff", "rdiff3", "diff", "rdiff", "abssign", "asc"}
var FarCmpNames61 = []string{"diff", "rdiff", "diff", "rdiff", "abssign", "evenodd"}

// PoolOps: a history of GenOps over u keys of the pool (two more serve as the absent arguments on either side).
// With extremeVals every tenth value is MaxInt or MinInt and predicates that add are replaced.
func PoolOps(r *hx.Rand, n, u int, pool []int, extremeVals bool) []string {
	perm := InsertionOrder(r, "random", len(pool))
	univ := make([]int, u+2)
	for i := range univ {
		univ[i] = pool[perm[i]]
	}
	mapKey := func(s string) string { v, _ := strconv.Atoi(s); return strconv.Itoa(univ[v+1]) }
	mapVal := func(s string) string {
		if !extremeVals {
			return s
		}
		switch v, _ := strconv.Atoi(s); v % 10 {
		case 9:
			return strconv.Itoa(math.MaxInt)
		case 8:
			return strconv.Itoa(math.MinInt)
		}
		return s
	}
	var out []string
	for _, op := range GenOpsAt(r, n, 0, u) {
		f := strings.Fields(op)
		switch f[0] {
		case "put":
			f[1], f[2] = mapKey(f[1]), mapVal(f[2])
		case "delete", "get", "floor", "ceiling", "rank":
			f[1] = mapKey(f[1])
		case "range", "rangekeep", "rangesize":
			f[1], f[2] = mapKey(f[1]), mapKey(f[2])
		case "select":
			if extremeVals && r.Chance(1, 6) {
				f[1] = strconv.Itoa(hx.Pick(r, []int{math.MaxInt, math.MinInt, 1 << 32, -1 << 32, 1 << 31, -1}))
			}
		case "anymatch", "allmatch", "firstmatch", "selectmatch", "partitionmatch":
			switch f[1] {
			case "klt":
				f[2] = mapKey(f[2])
			case "sumlt": // k+v would overflow / the bound is an index, not a key
				f = []string{f[0], "kmod", "2", "0"}
			}
		}
		out = append(out, strings.Join(f, " "))
	}
	return out
}

// Exhaustive enumerates every op sequence of the given length over the alphabet.
func Exhaustive(alpha []string, n int, f func([]string)) {
	idx := make([]int, n)
	for {
		ops := make([]string, n)
		for i, k := range idx {
			ops[i] = alpha[k]
		}
		f(ops)
		i := n - 1
		for i >= 0 {
			idx[i]++
			if idx[i] < len(alpha) {
				break
			}
			idx[i] = 0
			i--
		}
		if i < 0 {
			return
		}
	}
}

// Params draws the constructor arguments of the tables of a case: the header words cmp/cmp2[/eq/eq2]. Half of the
// cases give the second table another comparator, one in five another value equality.
func Params(r *hx.Rand, names []string) string {
	a := hx.Pick(r, names)
	b := a
	if r.Bool() {
		b = hx.Pick(r, names)
	}
	h := fmt.Sprintf("cmp=%s cmp2=%s", a, b)
	if r.Chance(1, 5) {
		h += fmt.Sprintf(" eq=%s eq2=%s", hx.Pick(r, EqNames), hx.Pick(r, EqNames))
	}
	if r.Chance(1, 8) {
		h += " cmp3=" + hx.Pick(r, names)
	}
	return h
}

// TypeParams draws the instantiation of K and V (header words kt/vt): one case in five is not int/int.
func TypeParams(r *hx.Rand) string {
	if !r.Chance(1, 5) {
		return ""
	}
	kt, vt := hx.Pick(r, KeyTypes), hx.Pick(r, ValTypes)
	if kt == "int" && vt == "int" {
		kt = "str"
	}
	return " kt=" + kt + " vt=" + vt
}

// SmallSizeOps: a table of exactly n keys (every n from 0 to 200 is run), a short battery at its ends and middle, one
// delete of each kind and the battery again; `height` after the load and after every delete.
func SmallSizeOps(r *hx.Rand, family string, n int) []string {
	key := func(i int) int { return 2*i - n }
	var ops []string
	for _, i := range InsertionOrder(r, family, n) {
		ops = append(ops, fmt.Sprintf("put %d %d", key(i), i%10))
	}
	battery := func() {
		ops = append(ops, "size", "height", "min", "max", fmt.Sprintf("select %d", n-1), fmt.Sprintf("select %d", n), fmt.Sprintf("select %d", n/2),
			fmt.Sprintf("rank %d", key(n)), fmt.Sprintf("rank %d", key(n/2)+1), fmt.Sprintf("floor %d", key(n/2)+1), fmt.Sprintf("ceiling %d", key(n/2)-1),
			fmt.Sprintf("rangesize %d %d", key(0), key(n)), fmt.Sprintf("%s %d %d", hx.Pick(r, []string{"range", "rangekeep"}), key(0)-1, key(n)),
			fmt.Sprintf("range %d %d", key(n/3), key(2*n/3)), "allcount", hx.Pick(r, []string{"traverse vlr 0", "traverse lrv 0", "traverse rvl 0", "alltwice", "allpull 3", "equalself"}))
	}
	battery()
	ops = append(ops, "deletemin", "height", "deletemax", "height", fmt.Sprintf("delete %d", key(n/2)), "height", fmt.Sprintf("delete %d", key(r.Intn(n+1))), "height",
		fmt.Sprintf("put %d 3", key(n)), "height")
	battery()
	return ops
}

// RandLoadOps: n keys inserted in random order, then churn: random-order deletes of about half of them, re-insertions,
// DeleteMin/DeleteMax runs — the irregular shapes that bulk loads in a regular order never produce. `check` is asked
// every `every` mutations and a full look (Height, All, the traversals) at the end of every phase; full listings are
// what the Lean Model is slow at, so the cases that run on the Model keep `every` large and the dense ones are
// oracle-only.
func RandLoadOps(r *hx.Rand, n, every int, check []string, full []string) []string {
	var ops []string
	mut := 0
	tick := func() {
		mut++
		if mut%every == 0 {
			ops = append(ops, check...)
		}
	}
	keys := InsertionOrder(r, "random", n)
	for _, k := range keys {
		ops = append(ops, fmt.Sprintf("put %d %d", 2*k-n, k%10))
		tick()
	}
	ops = append(ops, full...)
	for round := 0; round < 2; round++ {
		for _, k := range InsertionOrder(r, "random", n)[:n/2] {
			switch x := r.Intn(20); {
			case x == 0:
				ops = append(ops, "deletemin")
			case x == 1:
				ops = append(ops, "deletemax")
			case x == 2:
				ops = append(ops, fmt.Sprintf("delete %d", 2*k-n+1)) // absent
			default:
				ops = append(ops, fmt.Sprintf("delete %d", 2*k-n))
			}
			tick()
		}
		ops = append(ops, full...)
		if round == 0 {
			for _, k := range InsertionOrder(r, "random", n)[:n/2] {
				ops = append(ops, fmt.Sprintf("put %d %d", 2*k-n, 9))
				tick()
			}
			ops = append(ops, full...)
		}
	}
	return ops
}

// RandLoadSizes: between the thresholds and irregular on purpose.
var RandLoadSizes = []int{300, 800, 1500, 2500, 5000}

// RandLoadOpts: how densely the oracle-only random loads are checked (c01 looks at the listing, c15 at the shape).
type RandLoadOpts struct {
	N           int // keys of an oracle-only load
	AllEvery    int // `allcount` every so many mutations (0 = only at the end of a phase)
	HeightEvery int // `height` every so many mutations (0 = only at the end of a phase)
	RB, Other   int // oracle-only cases for the Red-Black tree / for each of the other two
}

// RandLoadCases: the random-order loads of one tree kind for this run (shared with c15). On the Model: every size once
// (thorough: three times) with sparse checks and few full listings (the Model's listing is quadratic); oracle-only
// (hx.Case.NoModel): loads of o.N keys with churn, checked as densely as o says; three times as many when the run is
// Huge (thorough, witness search, changed code).
func RandLoadCases(run *hx.Run, r *hx.Rand, comp string, o RandLoadOpts, each func(c hx.Case)) {
	reps := 1
	if run.Thorough() {
		reps = 3
	}
	for _, n := range RandLoadSizes {
		for k := 0; k < reps; k++ {
			full := []string{"size", "height", "min", "max", fmt.Sprintf("select %d", n/2), fmt.Sprintf("rank %d", n/3), "dump"}
			if n <= 1500 {
				full = append(full, "allcount", "all", "traverse vlr 0", "traverse lvr 0", "traverse descending 0", "traverse lrv 0", "alltwice")
			}
			ops := RandLoadOps(r, n, max(n/6, 40), []string{"height"}, full)
			if n > 1500 {
				ops = append(ops, "allcount", "traverse vlr 0", "traverse lvr 0")
			}
			each(hx.Case{Header: fmt.Sprintf("comp=%s cmp=%s%s family=randload n=%d", comp, hx.Pick(r, CmpNames), TypeParams(r), n), Ops: ops})
		}
	}
	dense := o.Other
	if comp == "rb" {
		dense = o.RB
	}
	if run.Huge() {
		dense *= 3
	}
	for k := 0; k < dense; k++ {
		var ops []string
		mut := 0
		for _, op := range RandLoadOps(r, o.N, 1<<30, nil, []string{"size", "height", "allcount", "traverse vlr 0", "traverse rvl 0"}) {
			ops = append(ops, op)
			if strings.HasPrefix(op, "put") || strings.HasPrefix(op, "delete") {
				mut++
				if o.AllEvery > 0 && mut%o.AllEvery == 0 {
					ops = append(ops, "allcount")
				}
				if o.HeightEvery > 0 && mut%o.HeightEvery == 0 {
					ops = append(ops, "height")
				}
			}
		}
		each(hx.Case{Header: fmt.Sprintf("comp=%s cmp=%s family=randload-dense n=%d", comp, hx.Pick(r, CmpNames), o.N), NoModel: true, Ops: ops})
	}
}

// SweepCases: the threshold-sweep cases of one tree kind for this run (shared with c15, which passes its own header
// words). Quick: every threshold size once (family and comparators rotate with the seed) and one 65536-key table;
// thorough: every size in every family, and the sizes around 65536 and 70000.
func SweepCases(run *hx.Run, r *hx.Rand, comp string, each func(c hx.Case)) {
	families := func(n int) []string {
		if comp == "bst" && n > 2000 {
			return []string{"random"} // a BST filled in order is a list: quadratic time, and as deep as it is long
		}
		return Families
	}
	reps := min(run.Scale(1), 4)
	if run.Thorough() {
		reps = 4
	}
	for i, n := range Thresholds {
		for k := 0; k < reps; k++ {
			fs := families(n)
			family := fs[(int(run.Seed)+i+k)%len(fs)]
			// every other case spreads the keys so that their differences reach 2^58 (all comparators stay lawful)
			stride := 1
			if (i+k+int(run.Seed))%2 == 1 {
				for stride*2*(3*n+6) <= 1<<58 {
					stride *= 2
				}
			}
			c := hx.Case{Header: fmt.Sprintf("comp=%s %s%s family=sweep-%s n=%d stride=%d", comp, Params(r, CmpNames), TypeParams(r), family, n, stride),
				Ops: SweepOpsStride(r, family, n, true, stride)}
			each(c)
		}
	}
	big := []int{65536}
	bigReps := 1
	if run.Thorough() {
		big, bigReps = BigThresholds, 2
	}
	for i, n := range big {
		for k := 0; k < bigReps; k++ {
			fs := families(n)
			family := fs[(int(run.Seed)+i+k)%len(fs)]
			c := hx.Case{Header: fmt.Sprintf("comp=%s cmp=%s family=sweep-%s n=%d", comp, hx.Pick(r, CmpNames), family, n),
				Ops: SweepOps(r, family, n, false)}
			each(c)
		}
	}
}

func Main(run *hx.Run) {
	run.Stats.Rule = Rule
	for _, f := range hx.CorpusFiles("C01") {
		cs, _ := hx.ReadReplay(f)
		for _, c := range cs {
			run.Do(hx.HeaderGet(c.Header, "comp"), c, Exec)
		}
	}
	length := 60
	if run.Thorough() {
		length = 200
	}
	for _, comp := range Comps {
		// mixed histories; each of the two tables gets its own constructor arguments
		r := run.R.Fork(comp + "/mixed")
		for k, n := 0, run.Scale(640); k < n; k++ {
			u, l := r.Range(3, 16), length
			if k%8 == 7 {
				u, l = r.Range(17, 64), length+length/2 // room for the shapes that need a dozen keys or more
			}
			lo := 0
			switch k % 5 {
			case 3:
				lo = -u / 2
			case 4:
				lo = -u - 3
			}
			c := hx.Case{Header: fmt.Sprintf("comp=%s %s%s dump=1", comp, Params(r, CmpNames), TypeParams(r)), Ops: GenOpsAt(r, l, lo, u)}
			run.Do(comp, c, Exec)
		}
		// Equal between tables holding (almost) the same pairs, built with the same or with different arguments
		r = run.R.Fork(comp + "/equalpairs")
		for k, n := 0, run.Scale(120); k < n; k++ {
			u := r.Range(3, 20)
			c := hx.Case{Header: fmt.Sprintf("comp=%s %s%s family=equalpairs dump=1", comp, Params(r, CmpNames), TypeParams(r)),
				Ops: EqualOps(r, []int{0, -u / 2, -u - 3}[k%3], u)}
			run.Do(comp, c, Exec)
		}
		// keys and values at the ends of int
		r = run.R.Fork(comp + "/extreme")
		for k, n := 0, run.Scale(40); k < n; k++ {
			c := hx.Case{Header: fmt.Sprintf("comp=%s %s family=extreme dump=1", comp, Params(r, WideCmpNames)),
				Ops: ExtremeOps(r, length, r.Range(3, 14))}
			run.Do(comp, c, Exec)
		}
		// subtracting comparators on keys that are 2^32 … 2^62 apart (still lawful there: nothing overflows)
		r = run.R.Fork(comp + "/far")
		for k, n := 0, run.Scale(60); k < n; k++ {
			pool, names := FarKeys59, FarCmpNames59
			if k%3 == 2 {
				pool, names = FarKeys61, FarCmpNames61
			}
			c := hx.Case{Header: fmt.Sprintf("comp=%s %s%s family=far dump=1", comp, Params(r, names), TypeParams(r)),
				Ops: PoolOps(r, length, r.Range(3, 16), pool, false)}
			run.Do(comp, c, Exec)
		}
		// every size from 0 to 200
		r = run.R.Fork(comp + "/smallsizes")
		for n := 0; n <= 200; n++ {
			family := Families[(n+int(run.Seed))%len(Families)]
			c := hx.Case{Header: fmt.Sprintf("comp=%s %s%s family=size-%s n=%d", comp, Params(r, CmpNames), TypeParams(r), family, n), Ops: SmallSizeOps(r, family, n)}
			run.Do(comp, c, Exec)
		}
		// size thresholds
		SweepCases(run, run.R.Fork(comp+"/sweep"), comp, func(c hx.Case) { run.Do(comp, c, Exec) })
		// irregular shapes: random-order loads and churn on 300 … 5000 keys
		RandLoadCases(run, run.R.Fork(comp+"/randload"), comp, RandLoadOpts{N: 5000, AllEvery: 5, RB: 5, Other: 1}, func(c hx.Case) { run.Do(comp, c, Exec) })
	}
	if run.Thorough() {
		// every history of length <= 6 over the 8 mutating calls on 3 keys, followed by a fixed battery of queries
		// (prefix-closed, so intermediate states are covered by the shorter histories)
		alpha := []string{"put 0", "put 1", "put 2", "delete 0", "delete 1", "delete 2", "deletemin", "deletemax"}
		tail := []string{"size", "all", "height", "min", "max", "select 1", "rank 1", "floor 1", "ceiling 1", "rangesize 0 1", "get 2"}
		for _, comp := range Comps {
			for n := 1; n <= 6; n++ {
				Exhaustive(alpha, n, func(ops []string) {
					full := make([]string, 0, len(ops)+len(tail))
					for i, op := range ops {
						if strings.HasPrefix(op, "put") {
							op += " " + strconv.Itoa(i) // distinct values, so overwrites are visible
						}
						full = append(full, op)
					}
					full = append(full, tail...)
					run.Do(comp, hx.Case{Header: fmt.Sprintf("comp=%s cmp=asc dump=1", comp), Ops: full}, Exec)
				})
			}
		}
		run.Stats.Exhaustive = true
		run.Stats.Extra["exhaustive_part"] = "all histories of length<=6 over {put 0,1,2; delete 0,1,2; deletemin; deletemax} for bst, avl, rb (asc), each followed by 11 queries"
	}
}
