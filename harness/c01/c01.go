// Package c01: BST, AVL and Red-Black ordered symbol tables against a sorted-slice oracle.
// (c15 reuses the executor and the shape helpers of this package.)
package c01

import (
	"fmt"
	"sort"
	"strconv"
	"strings"

	"github.com/moorara/algo/generic"
	"github.com/moorara/algo/symboltable"

	"verifharness/hx"
)

const Rule = "cases = (tree kind bst|avl|rb, comparator asc|desc|a-b|7*(a-b)|b-a, op sequence) drawn from VERIF_SEED: key universes of " +
	"3-16 ints so that duplicates, absent keys and rotations are dense; all five mutators (Put, Delete, DeleteMin, " +
	"DeleteMax, DeleteAll) mixed with every query, query arguments in [-1,U] (absent and boundary keys), two tables per " +
	"case (swap) so that Equal/SelectMatch/PartitionMatch operands come from histories; returned slices and tables are " +
	"scribbled on / mutated (aliasing probes after SelectMatch/PartitionMatch in both directions); every state-changing call also " +
	"prints the internal tree (sizes, heights, colours) for the comparison with the Lean Model; " +
	"non-trivial = the history performed at least one rotation/restructuring (tree shape after a Put or Delete differs " +
	"from the plain BST result) or deleted a node with two children; distinct = distinct (header, op list)"

type KV struct{ K, V int }

type Table = symboltable.OrderedSymbolTable[int, int]

func CmpAsc(a, b int) int {
	switch {
	case a < b:
		return -1
	case a > b:
		return 1
	}
	return 0
}

func CmpDesc(a, b int) int { return CmpAsc(b, a) }

// comparators that do not return -1/0/+1: code that tests `== -1` / `== 1` instead of the sign is exposed
func CmpDiff(a, b int) int  { return a - b }
func CmpDiff7(a, b int) int { return 7 * (a - b) }
func CmpRDiff(a, b int) int { return b - a }

var Cmps = map[string]func(int, int) int{"asc": CmpAsc, "desc": CmpDesc, "diff": CmpDiff, "diff7": CmpDiff7, "rdiff": CmpRDiff}

var CmpNames = []string{"asc", "desc", "diff", "diff7", "rdiff"}

func eqInt(a, b int) bool { return a == b }

func NewTable(comp string, cmp func(int, int) int) Table {
	switch comp {
	case "bst":
		return symboltable.NewBST[int, int](cmp, eqInt)
	case "avl":
		return symboltable.NewAVL[int, int](cmp, eqInt)
	case "rb":
		return symboltable.NewRedBlack[int, int](cmp, eqInt)
	}
	return nil
}

// ---------------------------------------------------------------- oracle: a sorted slice

type Oracle struct {
	kvs []KV
	cmp func(int, int) int
}

func (o *Oracle) find(k int) int {
	for i, e := range o.kvs {
		if o.cmp(k, e.K) == 0 {
			return i
		}
	}
	return -1
}

func (o *Oracle) Put(k, v int) {
	if i := o.find(k); i >= 0 {
		o.kvs[i].V = v
		return
	}
	o.kvs = append(o.kvs, KV{k, v})
	sort.SliceStable(o.kvs, func(i, j int) bool { return o.cmp(o.kvs[i].K, o.kvs[j].K) < 0 })
}

func (o *Oracle) Get(k int) (int, bool) {
	if i := o.find(k); i >= 0 {
		return o.kvs[i].V, true
	}
	return 0, false
}

func (o *Oracle) Delete(k int) (int, bool) {
	i := o.find(k)
	if i < 0 {
		return 0, false
	}
	v := o.kvs[i].V
	o.kvs = append(append([]KV{}, o.kvs[:i]...), o.kvs[i+1:]...)
	return v, true
}

// Floor: the last entry whose key is <= k.
func (o *Oracle) Floor(k int) (KV, bool) {
	for i := len(o.kvs) - 1; i >= 0; i-- {
		if o.cmp(o.kvs[i].K, k) <= 0 {
			return o.kvs[i], true
		}
	}
	return KV{}, false
}

// Ceiling: the first entry whose key is >= k.
func (o *Oracle) Ceiling(k int) (KV, bool) {
	for _, e := range o.kvs {
		if o.cmp(e.K, k) >= 0 {
			return e, true
		}
	}
	return KV{}, false
}

func (o *Oracle) Rank(k int) int {
	n := 0
	for _, e := range o.kvs {
		if o.cmp(e.K, k) < 0 {
			n++
		}
	}
	return n
}

func (o *Oracle) Range(lo, hi int) []KV {
	var out []KV
	for _, e := range o.kvs {
		if o.cmp(lo, e.K) <= 0 && o.cmp(e.K, hi) <= 0 {
			out = append(out, e)
		}
	}
	return out
}

func (o *Oracle) Clone() *Oracle {
	return &Oracle{kvs: append([]KV{}, o.kvs...), cmp: o.cmp}
}

// ---------------------------------------------------------------- rendering

func showKVs(l []KV) string {
	ss := make([]string, len(l))
	for i, e := range l {
		ss[i] = strconv.Itoa(e.K) + ":" + strconv.Itoa(e.V)
	}
	return "[" + strings.Join(ss, " ") + "]"
}

func optKV(k, v int, ok bool) string {
	if ok {
		return "ok some " + strconv.Itoa(k) + " " + strconv.Itoa(v)
	}
	return "ok none"
}

func optV(v int, ok bool) string {
	if ok {
		return "ok some " + strconv.Itoa(v)
	}
	return "ok none"
}

func sameKVs(a, b []KV) bool {
	if len(a) != len(b) {
		return false
	}
	for i := range a {
		if a[i] != b[i] {
			return false
		}
	}
	return true
}

func takeLim(limit int, l []KV) []KV {
	if limit == 0 || limit >= len(l) {
		return l
	}
	return l[:limit]
}

func reversed(l []KV) []KV {
	out := make([]KV, len(l))
	for i, e := range l {
		out[len(l)-1-i] = e
	}
	return out
}

// ---------------------------------------------------------------- predicates

// ParsePred: the predicate families shared with the Lean driver.
func ParsePred(f []string) func(int, int) bool {
	atoi := func(s string) int { v, _ := strconv.Atoi(s); return v }
	switch {
	case len(f) == 1 && f[0] == "true":
		return func(int, int) bool { return true }
	case len(f) == 1 && f[0] == "false":
		return func(int, int) bool { return false }
	case len(f) == 3 && f[0] == "kmod" && atoi(f[1]) != 0:
		m, r := atoi(f[1]), atoi(f[2])
		return func(k, _ int) bool { return k%m == r }
	case len(f) == 3 && f[0] == "vmod" && atoi(f[1]) != 0:
		m, r := atoi(f[1]), atoi(f[2])
		return func(_, v int) bool { return v%m == r }
	case len(f) == 2 && f[0] == "klt":
		c := atoi(f[1])
		return func(k, _ int) bool { return k < c }
	case len(f) == 2 && f[0] == "sumlt":
		c := atoi(f[1])
		return func(k, v int) bool { return k+v < c }
	}
	return nil
}

var orders = map[string]generic.TraverseOrder{
	"vlr": generic.VLR, "vrl": generic.VRL, "lvr": generic.LVR, "rvl": generic.RVL, "lrv": generic.LRV,
	"rlv": generic.RLV, "ascending": generic.Ascending, "descending": generic.Descending, "other": generic.TraverseOrder(99),
}

// Collect runs Traverse with a visitor that stops after limit pairs (0 = never).
func Collect(t Table, order generic.TraverseOrder, limit int) []KV {
	var acc []KV
	t.Traverse(order, func(k, v int) bool {
		acc = append(acc, KV{k, v})
		return limit == 0 || len(acc) < limit
	})
	return acc
}

func All(t generic.Collection2[int, int]) []KV {
	var acc []KV
	for k, v := range t.All() {
		acc = append(acc, KV{k, v})
	}
	return acc
}

// ---------------------------------------------------------------- the machine: two tables + two oracles

type Machine struct {
	Comp   string
	Cmp    func(int, int) int
	A, B   Table
	OA, OB *Oracle
	Dump   bool
}

func NewMachine(header string) *Machine {
	m := &Machine{Comp: hx.HeaderGet(header, "comp"), Cmp: CmpAsc, Dump: hx.HeaderGet(header, "dump") == "1"}
	if c, ok := Cmps[hx.HeaderGet(header, "cmp")]; ok {
		m.Cmp = c
	}
	m.A, m.B = NewTable(m.Comp, m.Cmp), NewTable(m.Comp, m.Cmp)
	m.OA, m.OB = &Oracle{cmp: m.Cmp}, &Oracle{cmp: m.Cmp}
	return m
}

// Hook is called after every op that did not panic (c15 adds its checks here).
type Hook func(m *Machine, i int, f []string, out string, bad func(format string, a ...any), tags map[string]bool)

// Exec runs one case on the real tables and checks every outcome against the sorted-slice oracle.
func Exec(c hx.Case) hx.Result { return ExecWith(c, nil, true) }

func ExecWith(c hx.Case, hook Hook, shapeTags bool) hx.Result {
	res := hx.Result{BadOp: -1}
	m := NewMachine(c.Header)
	if m.A == nil {
		for range c.Ops {
			res.Outs = append(res.Outs, "bad-case")
		}
		return res
	}
	tags := map[string]bool{"comp=" + m.Comp: true, "cmp=" + hx.HeaderGet(c.Header, "cmp"): true}
	atoi := func(s string) int { v, _ := strconv.Atoi(s); return v }

	for i, op := range c.Ops {
		bad := func(format string, a ...any) {
			if res.BadOp < 0 {
				res.BadOp = i
				res.What = m.Comp + ": " + op + ": " + fmt.Sprintf(format, a...)
			}
		}
		f := strings.Fields(op)
		out := "bad-op"
		kind := hx.Try(func() {
			if len(f) == 0 {
				return
			}
			suffix := func(ts ...Table) string {
				if !m.Dump {
					return ""
				}
				s := ""
				for _, t := range ts {
					s += " | " + symboltable.VerifDump[int, int](t)
				}
				return s
			}
			var before *Shape
			small := shapeTags && m.A.Size() <= 64
			if small && (f[0] == "put" || f[0] == "delete") {
				before, _ = ParseDump(m.Comp, symboltable.VerifDump[int, int](m.A))
			}
			switch f[0] {
			case "put":
				k, v := atoi(f[1]), atoi(f[2])
				if _, had := m.OA.Get(k); had {
					tags["put-existing-key"] = true
				}
				m.A.Put(k, v)
				m.OA.Put(k, v)
				out = "ok" + suffix(m.A)
				if small {
					after, _ := ParseDump(m.Comp, symboltable.VerifDump[int, int](m.A))
					if after.Keys() != naivePut(before, k, m.Cmp).Keys() {
						tags["rotation-on-put"] = true
					}
				}
			case "delete":
				k := atoi(f[1])
				v, ok := m.A.Delete(k)
				wv, wok := m.OA.Delete(k)
				out = optV(v, ok) + suffix(m.A)
				if ok != wok || (ok && v != wv) {
					bad("returned (%d,%v), the sorted map removes (%d,%v)", v, ok, wv, wok)
				}
				if !wok {
					tags["delete-absent-key"] = true
				}
				if small {
					if n := before.Find(k, m.Cmp); n != nil && n.L != nil && n.R != nil {
						tags["two-child-delete"] = true
					}
					after, _ := ParseDump(m.Comp, symboltable.VerifDump[int, int](m.A))
					if after.Keys() != naiveDelete(before, k, m.Cmp).Keys() {
						tags["restructure-on-delete"] = true
					}
				}
			case "deletemin", "deletemax":
				var k, v int
				var ok bool
				var want KV
				wok := len(m.OA.kvs) > 0
				if f[0] == "deletemin" {
					k, v, ok = m.A.DeleteMin()
					if wok {
						want = m.OA.kvs[0]
						m.OA.kvs = m.OA.kvs[1:]
					}
				} else {
					k, v, ok = m.A.DeleteMax()
					if wok {
						want = m.OA.kvs[len(m.OA.kvs)-1]
						m.OA.kvs = m.OA.kvs[:len(m.OA.kvs)-1]
					}
				}
				out = optKV(k, v, ok) + suffix(m.A)
				if ok != wok || (ok && (KV{k, v}) != want) {
					bad("returned (%d,%d,%v), the sorted map removes (%v,%v)", k, v, ok, want, wok)
				}
				if !wok {
					tags[f[0]+"-on-empty"] = true
				}
			case "deleteall":
				m.A.DeleteAll()
				m.OA.kvs = nil
				out = "ok" + suffix(m.A)
			case "swap":
				m.A, m.B = m.B, m.A
				m.OA, m.OB = m.OB, m.OA
				out = "ok" + suffix(m.A)
			case "size":
				n := m.A.Size()
				out = "ok " + strconv.Itoa(n)
				if n != len(m.OA.kvs) {
					bad("= %d, the sorted map holds %d", n, len(m.OA.kvs))
				}
			case "isempty":
				e := m.A.IsEmpty()
				out = "ok " + strconv.FormatBool(e)
				if e != (len(m.OA.kvs) == 0) {
					bad("= %v with %d keys held", e, len(m.OA.kvs))
				}
			case "height":
				out = "ok " + strconv.Itoa(m.A.Height())
			case "get":
				k := atoi(f[1])
				v, ok := m.A.Get(k)
				wv, wok := m.OA.Get(k)
				out = optV(v, ok)
				if ok != wok || (ok && v != wv) {
					bad("= (%d,%v), want (%d,%v)", v, ok, wv, wok)
				}
				if !wok {
					tags["query-absent-key"] = true
				}
			case "min", "max", "floor", "ceiling", "select":
				var k, v int
				var ok bool
				var want KV
				var wok bool
				switch f[0] {
				case "min":
					k, v, ok = m.A.Min()
					if wok = len(m.OA.kvs) > 0; wok {
						want = m.OA.kvs[0]
					}
				case "max":
					k, v, ok = m.A.Max()
					if wok = len(m.OA.kvs) > 0; wok {
						want = m.OA.kvs[len(m.OA.kvs)-1]
					}
				case "floor":
					k, v, ok = m.A.Floor(atoi(f[1]))
					want, wok = m.OA.Floor(atoi(f[1]))
				case "ceiling":
					k, v, ok = m.A.Ceiling(atoi(f[1]))
					want, wok = m.OA.Ceiling(atoi(f[1]))
				case "select":
					r := atoi(f[1])
					k, v, ok = m.A.Select(r)
					if wok = r >= 0 && r < len(m.OA.kvs); wok {
						want = m.OA.kvs[r]
					}
				}
				out = optKV(k, v, ok)
				if ok != wok || (ok && (KV{k, v}) != want) {
					bad("= (%d,%d,%v), want (%v,%v)", k, v, ok, want, wok)
				}
			case "rank":
				n := m.A.Rank(atoi(f[1]))
				out = "ok " + strconv.Itoa(n)
				if w := m.OA.Rank(atoi(f[1])); n != w {
					bad("= %d, want %d", n, w)
				}
			case "range":
				kvs := m.A.Range(atoi(f[1]), atoi(f[2]))
				got := make([]KV, len(kvs))
				for j, e := range kvs {
					got[j] = KV{e.Key, e.Val}
				}
				out = "ok " + showKVs(got)
				if w := m.OA.Range(atoi(f[1]), atoi(f[2])); !sameKVs(got, w) {
					bad("= %v, want %v", got, w)
				}
				// the caller owns the returned slice: scribble on it (and grow it), later calls must not notice
				for j := range kvs {
					kvs[j] = generic.KeyValue[int, int]{Key: -999, Val: -999}
				}
				kvs = append(kvs, generic.KeyValue[int, int]{Key: -998, Val: -998})
				_ = kvs
			case "rangesize":
				n := m.A.RangeSize(atoi(f[1]), atoi(f[2]))
				out = "ok " + strconv.Itoa(n)
				if w := len(m.OA.Range(atoi(f[1]), atoi(f[2]))); n != w {
					bad("= %d, want %d", n, w)
				}
			case "all":
				got := All(m.A)
				out = "ok " + showKVs(got)
				if !sameKVs(got, m.OA.kvs) {
					bad("= %v, want %v", got, m.OA.kvs)
				}
			case "alluntil":
				limit := atoi(f[1])
				var got []KV
				for k, v := range m.A.All() {
					got = append(got, KV{k, v})
					if limit != 0 && len(got) >= limit {
						break
					}
				}
				out = "ok " + showKVs(got)
				if w := takeLim(limit, m.OA.kvs); !sameKVs(got, w) {
					bad("= %v, want %v", got, w)
				}
			case "equalother":
				// a table of another implementation type holding exactly the same pairs: Equal answers false
				other := NewTable(otherKind(m.Comp), m.Cmp)
				for _, e := range m.OA.kvs {
					other.Put(e.K, e.V)
				}
				e := m.A.Equal(other)
				out = "ok " + strconv.FormatBool(e)
				if e {
					bad("= true for a table of type %s", otherKind(m.Comp))
				}
				// nor for an unordered table
				if ht := symboltable.NewChainHashTable[int, int](func(k int) uint64 { return uint64(k) }, eqInt, eqInt, symboltable.HashOpts{}); m.A.Equal(ht) {
					bad("= true for a hash table")
				}
			case "traverse":
				order, known := orders[f[1]]
				if !known {
					return
				}
				limit := atoi(f[2])
				got := Collect(m.A, order, limit)
				out = "ok " + showKVs(got)
				switch f[1] {
				case "lvr", "ascending":
					if w := takeLim(limit, m.OA.kvs); !sameKVs(got, w) {
						bad("= %v, want %v", got, w)
					}
				case "rvl", "descending":
					if w := takeLim(limit, reversed(m.OA.kvs)); !sameKVs(got, w) {
						bad("= %v, want %v", got, w)
					}
				case "other":
					if len(got) != 0 {
						bad("visited %v for an invalid order", got)
					}
				default:
					// some enumeration without repetition of the held pairs, cut where the visitor stops
					wantLen := len(m.OA.kvs)
					if limit != 0 && limit < wantLen {
						wantLen = limit
					}
					seen := map[int]bool{}
					for _, e := range got {
						v, ok := m.OA.Get(e.K)
						if !ok || v != e.V || seen[e.K] {
							bad("visited %v, not an enumeration of %v", got, m.OA.kvs)
						}
						seen[e.K] = true
					}
					if len(got) != wantLen {
						bad("visited %d pairs, want %d", len(got), wantLen)
					}
				}
			case "equal":
				e := m.A.Equal(m.B)
				out = "ok " + strconv.FormatBool(e)
				if w := sameKVs(m.OA.kvs, m.OB.kvs); e != w {
					bad("= %v, want %v (%v vs %v)", e, w, m.OA.kvs, m.OB.kvs)
				}
				if e && len(m.OA.kvs) > 0 {
					tags["equal-true-nonempty"] = true
				}
			case "anymatch", "allmatch", "firstmatch", "selectmatch", "partitionmatch":
				p := ParsePred(f[1:])
				if p == nil {
					return
				}
				var yes, no []KV
				for _, e := range m.OA.kvs {
					if p(e.K, e.V) {
						yes = append(yes, e)
					} else {
						no = append(no, e)
					}
				}
				switch f[0] {
				case "anymatch":
					b := m.A.AnyMatch(p)
					out = "ok " + strconv.FormatBool(b)
					if b != (len(yes) > 0) {
						bad("= %v, %d pairs match", b, len(yes))
					}
				case "allmatch":
					b := m.A.AllMatch(p)
					out = "ok " + strconv.FormatBool(b)
					if b != (len(no) == 0) {
						bad("= %v, %d pairs do not match", b, len(no))
					}
				case "firstmatch":
					k, v, ok := m.A.FirstMatch(p)
					out = optKV(k, v, ok)
					if ok {
						if w, held := m.OA.Get(k); !held || w != v || !p(k, v) {
							bad("= (%d,%d), not a held pair satisfying the predicate", k, v)
						}
					} else if len(yes) > 0 {
						bad("found nothing, %v match", yes)
					}
				case "selectmatch":
					nt := m.A.SelectMatch(p)
					got := All(nt)
					m.B = nt.(Table)
					m.OB = &Oracle{kvs: append([]KV{}, yes...), cmp: m.Cmp}
					out = "ok " + showKVs(got) + suffix(m.B)
					if !sameKVs(got, yes) {
						bad("= %v, want %v", got, yes)
					}
				case "partitionmatch":
					mt, ut := m.A.PartitionMatch(p)
					gm, gu := All(mt), All(ut)
					m.B = mt.(Table)
					m.OB = &Oracle{kvs: append([]KV{}, yes...), cmp: m.Cmp}
					out = "ok " + showKVs(gm) + " " + showKVs(gu) + suffix(m.B, ut.(Table))
					if !sameKVs(gm, yes) || !sameKVs(gu, no) {
						bad("= %v %v, want %v %v", gm, gu, yes, no)
					}
					// the unmatched table is the caller's: use it up; receiver and matched table must not notice
					ut.Put(-7, -7)
					ut.(Table).DeleteMin()
					for _, e := range no {
						ut.Put(e.K, e.V+100)
					}
					ut.(Table).DeleteMax()
					ut.DeleteAll()
				}
			case "dump":
				out = "ok " + symboltable.VerifDump[int, int](m.A)
			}
		})
		if kind != "" {
			res.Outs = append(res.Outs, "panic")
			bad("panicked (%s)", kind)
			tags["panic"] = true
			break
		}
		if hook != nil {
			hook(m, i, f, out, bad, tags)
		}
		res.Outs = append(res.Outs, out)
	}
	res.Nontrivial = tags["rotation-on-put"] || tags["two-child-delete"] || tags["restructure-on-delete"]
	for t := range tags {
		res.Tags = append(res.Tags, t)
	}
	sort.Strings(res.Tags)
	return res
}

func otherKind(comp string) string {
	switch comp {
	case "bst":
		return "avl"
	case "avl":
		return "rb"
	}
	return "bst"
}

// ---------------------------------------------------------------- tree shapes (from VerifDump or from traversals)

type Shape struct {
	Key, Val, Size, Height int
	Red                    bool
	L, R                   *Shape
}

// ParseDump parses the output of symboltable.VerifDump for the given kind.
func ParseDump(comp, s string) (*Shape, error) {
	toks := strings.Fields(strings.NewReplacer("(", " ( ", ")", " ) ").Replace(s))
	pos := 0
	var parse func() (*Shape, error)
	next := func() string {
		if pos < len(toks) {
			pos++
			return toks[pos-1]
		}
		return ""
	}
	parse = func() (*Shape, error) {
		t := next()
		if t == "." {
			return nil, nil
		}
		if t != "(" {
			return nil, fmt.Errorf("dump: unexpected %q", t)
		}
		n := &Shape{}
		var err error
		if n.Key, err = strconv.Atoi(next()); err != nil {
			return nil, err
		}
		if n.Val, err = strconv.Atoi(next()); err != nil {
			return nil, err
		}
		if n.Size, err = strconv.Atoi(next()); err != nil {
			return nil, err
		}
		switch comp {
		case "avl":
			if n.Height, err = strconv.Atoi(next()); err != nil {
				return nil, err
			}
		case "rb":
			n.Red = next() == "R"
		}
		if n.L, err = parse(); err != nil {
			return nil, err
		}
		if n.R, err = parse(); err != nil {
			return nil, err
		}
		if next() != ")" {
			return nil, fmt.Errorf("dump: missing )")
		}
		return n, nil
	}
	n, err := parse()
	if err == nil && pos != len(toks) {
		err = fmt.Errorf("dump: trailing tokens")
	}
	return n, err
}

// Keys renders the key structure only (pre-order with nil markers).
func (n *Shape) Keys() string {
	var b strings.Builder
	var walk func(*Shape)
	walk = func(n *Shape) {
		if n == nil {
			b.WriteByte('.')
			return
		}
		b.WriteString("(" + strconv.Itoa(n.Key) + " ")
		walk(n.L)
		walk(n.R)
		b.WriteByte(')')
	}
	walk(n)
	return b.String()
}

func (n *Shape) Find(k int, cmp func(int, int) int) *Shape {
	for n != nil {
		switch c := cmp(k, n.Key); {
		case c < 0:
			n = n.L
		case c > 0:
			n = n.R
		default:
			return n
		}
	}
	return nil
}

func (n *Shape) RealHeight() int {
	if n == nil {
		return 0
	}
	return 1 + max(n.L.RealHeight(), n.R.RealHeight())
}

func (n *Shape) Count() int {
	if n == nil {
		return 0
	}
	return 1 + n.L.Count() + n.R.Count()
}

// naivePut: plain unbalanced BST insertion on the key structure (copying).
func naivePut(n *Shape, k int, cmp func(int, int) int) *Shape {
	if n == nil {
		return &Shape{Key: k}
	}
	c := *n
	switch x := cmp(k, n.Key); {
	case x < 0:
		c.L = naivePut(n.L, k, cmp)
	case x > 0:
		c.R = naivePut(n.R, k, cmp)
	}
	return &c
}

// naiveDelete: plain Hibbard deletion on the key structure (copying).
func naiveDelete(n *Shape, k int, cmp func(int, int) int) *Shape {
	if n == nil {
		return nil
	}
	c := *n
	switch x := cmp(k, n.Key); {
	case x < 0:
		c.L = naiveDelete(n.L, k, cmp)
	case x > 0:
		c.R = naiveDelete(n.R, k, cmp)
	default:
		if n.L == nil {
			return n.R
		}
		if n.R == nil {
			return n.L
		}
		m := n.R
		for m.L != nil {
			m = m.L
		}
		c.Key = m.Key
		c.R = naiveDelete(n.R, m.Key, cmp)
	}
	return &c
}

// Rebuild reconstructs the tree shape from its pre-order and in-order key sequences (distinct keys).
func Rebuild(pre, in []int) (*Shape, error) {
	if len(pre) != len(in) {
		return nil, fmt.Errorf("pre-order has %d keys, in-order %d", len(pre), len(in))
	}
	idx := make(map[int]int, len(in))
	for i, k := range in {
		if _, dup := idx[k]; dup {
			return nil, fmt.Errorf("in-order repeats key %d", k)
		}
		idx[k] = i
	}
	p := 0
	var build func(lo, hi int) (*Shape, error)
	build = func(lo, hi int) (*Shape, error) {
		if lo > hi {
			return nil, nil
		}
		if p >= len(pre) {
			return nil, fmt.Errorf("pre-order too short")
		}
		k := pre[p]
		i, ok := idx[k]
		if !ok || i < lo || i > hi {
			return nil, fmt.Errorf("pre-order key %d is not in the in-order window [%d,%d]", k, lo, hi)
		}
		p++
		n := &Shape{Key: k}
		var err error
		if n.L, err = build(lo, i-1); err != nil {
			return nil, err
		}
		if n.R, err = build(i+1, hi); err != nil {
			return nil, err
		}
		return n, nil
	}
	n, err := build(0, len(in)-1)
	if err == nil && p != len(pre) {
		err = fmt.Errorf("pre-order has extra keys")
	}
	return n, err
}

// ---------------------------------------------------------------- generation

var Comps = []string{"bst", "avl", "rb"}

func predText(r *hx.Rand, u int) string {
	switch r.Intn(7) {
	case 0:
		return "true"
	case 1:
		return "false"
	case 2:
		return "kmod 2 0"
	case 3:
		return fmt.Sprintf("kmod 3 %d", r.Intn(3))
	case 4:
		return fmt.Sprintf("vmod 2 %d", r.Intn(2))
	case 5:
		return fmt.Sprintf("klt %d", r.Range(-1, u))
	default:
		return fmt.Sprintf("sumlt %d", r.Range(0, 2*u))
	}
}

var orderNames = []string{"vlr", "vrl", "lvr", "rvl", "lrv", "rlv", "ascending", "descending", "other"}

// GenOps draws one history over the key universe [0,u); query arguments come from [-1,u].
func GenOps(r *hx.Rand, n, u int) []string {
	var ops []string
	arg := func() int { return r.Range(-1, u) }
	key := func() int { return r.Intn(u) }
	// phases: mostly growing, then mostly shrinking, so trees fill up and drain
	grow := true
	phase := r.Range(5, 25)
	for len(ops) < n {
		if phase == 0 {
			grow = r.Chance(3, 5)
			phase = r.Range(5, 25)
		}
		phase--
		x := r.Intn(100)
		switch {
		case x < 45: // mutators
			y := r.Intn(100)
			putShare := 70
			if !grow {
				putShare = 25
			}
			switch {
			case y < putShare:
				ops = append(ops, fmt.Sprintf("put %d %d", key(), r.Intn(10)))
			case y < putShare+(100-putShare)*5/10:
				ops = append(ops, fmt.Sprintf("delete %d", arg()))
			case y < putShare+(100-putShare)*7/10:
				ops = append(ops, "deletemin")
			case y < putShare+(100-putShare)*9/10:
				ops = append(ops, "deletemax")
			case y < putShare+(100-putShare)*19/20:
				ops = append(ops, "swap")
			default:
				ops = append(ops, "deleteall")
			}
		case x < 50:
			ops = append(ops, "size")
		case x < 52:
			ops = append(ops, "isempty")
		case x < 55:
			ops = append(ops, "height")
		case x < 60:
			ops = append(ops, fmt.Sprintf("get %d", arg()))
		case x < 62:
			ops = append(ops, "min")
		case x < 64:
			ops = append(ops, "max")
		case x < 68:
			ops = append(ops, fmt.Sprintf("floor %d", arg()))
		case x < 72:
			ops = append(ops, fmt.Sprintf("ceiling %d", arg()))
		case x < 76:
			ops = append(ops, fmt.Sprintf("select %d", r.Range(-1, u)))
		case x < 80:
			ops = append(ops, fmt.Sprintf("rank %d", arg()))
		case x < 83:
			ops = append(ops, fmt.Sprintf("range %d %d", arg(), arg()))
		case x < 86:
			ops = append(ops, fmt.Sprintf("rangesize %d %d", arg(), arg()))
		case x < 87:
			ops = append(ops, "all")
		case x < 88:
			if r.Chance(1, 3) {
				ops = append(ops, "equalother")
			} else {
				ops = append(ops, fmt.Sprintf("alluntil %d", r.Range(0, u)))
			}
		case x < 92:
			lim := 0
			if r.Chance(1, 2) {
				lim = r.Range(1, u)
			}
			ops = append(ops, fmt.Sprintf("traverse %s %d", hx.Pick(r, orderNames), lim))
		case x < 94:
			ops = append(ops, "equal")
		case x < 95:
			ops = append(ops, "anymatch "+predText(r, u))
		case x < 96:
			ops = append(ops, "allmatch "+predText(r, u))
		case x < 97:
			ops = append(ops, "firstmatch "+predText(r, u))
		case x < 99:
			// a derived table, then an aliasing probe: mutate the result, look at the receiver; mutate the
			// receiver, look at the result (a result sharing nodes with its receiver shows up here)
			if x < 98 {
				ops = append(ops, "selectmatch "+predText(r, u))
			} else {
				ops = append(ops, "partitionmatch "+predText(r, u))
			}
			if r.Chance(2, 3) {
				ops = append(ops, "swap", fmt.Sprintf("put %d %d", key(), 10+r.Intn(10)), fmt.Sprintf("delete %d", arg()),
					hx.Pick(r, []string{"deletemin", "deletemax", fmt.Sprintf("put %d 77", key())}),
					"swap", "all", "size", "dump",
					fmt.Sprintf("put %d %d", key(), 20+r.Intn(10)), fmt.Sprintf("delete %d", arg()),
					hx.Pick(r, []string{"deletemin", "deletemax", "deleteall"}),
					"swap", "all", "size", "dump", "swap")
			}
		default:
			ops = append(ops, "dump")
		}
	}
	return ops
}

// Exhaustive enumerates every op sequence of the given length over the alphabet.
func Exhaustive(alpha []string, n int, f func([]string)) {
	idx := make([]int, n)
	for {
		ops := make([]string, n)
		for i, k := range idx {
			ops[i] = alpha[k]
		}
		f(ops)
		i := n - 1
		for i >= 0 {
			idx[i]++
			if idx[i] < len(alpha) {
				break
			}
			idx[i] = 0
			i--
		}
		if i < 0 {
			return
		}
	}
}

func Main(run *hx.Run) {
	run.Stats.Rule = Rule
	for _, f := range hx.CorpusFiles("C01") {
		cs, _ := hx.ReadReplay(f)
		for _, c := range cs {
			run.Do(hx.HeaderGet(c.Header, "comp"), c, Exec)
		}
	}
	for _, comp := range Comps {
		for _, cmp := range CmpNames {
			r := run.R.Fork(comp + "/" + cmp)
			n := run.Scale(160)
			for k := 0; k < n; k++ {
				u := r.Range(3, 16)
				length := 60
				if run.Thorough() {
					length = 200
				}
				c := hx.Case{Header: fmt.Sprintf("comp=%s cmp=%s dump=1", comp, cmp), Ops: GenOps(r, length, u)}
				run.Do(comp, c, Exec)
			}
		}
	}
	if run.Thorough() {
		// every history of length <= 6 over the 8 mutating calls on 3 keys, followed by a fixed battery of queries
		// (prefix-closed, so intermediate states are covered by the shorter histories)
		alpha := []string{"put 0", "put 1", "put 2", "delete 0", "delete 1", "delete 2", "deletemin", "deletemax"}
		tail := []string{"size", "all", "height", "min", "max", "select 1", "rank 1", "floor 1", "ceiling 1", "rangesize 0 1", "get 2"}
		for _, comp := range Comps {
			for n := 1; n <= 6; n++ {
				Exhaustive(alpha, n, func(ops []string) {
					full := make([]string, 0, len(ops)+len(tail))
					for i, op := range ops {
						if strings.HasPrefix(op, "put") {
							op += " " + strconv.Itoa(i) // distinct values, so overwrites are visible
						}
						full = append(full, op)
					}
					full = append(full, tail...)
					run.Do(comp, hx.Case{Header: fmt.Sprintf("comp=%s cmp=asc dump=1", comp), Ops: full}, Exec)
				})
			}
		}
		run.Stats.Exhaustive = true
		run.Stats.Extra["exhaustive_part"] = "all histories of length<=6 over {put 0,1,2; delete 0,1,2; deletemin; deletemax} for bst, avl, rb (asc), each followed by 11 queries"
	}
}
