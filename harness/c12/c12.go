// Package c12: the predictive parser on LL(1) grammars — acceptance against the exact bounded language,
// the emitted productions replayed as a leftmost derivation, the AST's shape and yield.
// The executor (real code + oracle) is shared with C10.
package c12

import (
	"fmt"
	"os"
	"strings"
	"time"

	"verifharness/c10"
	"verifharness/gx"
	"verifharness/hx"
)

const Rule = "cases = (LL(1) grammar, iteration-shuffle seed, token strings): random valid grammars from the C10 mixes " +
	"(incl. unreachable/unproductive non-terminals, nullable non-terminals) kept when the textbook table built from the " +
	"independent FIRST/FOLLOW oracle is conflict-free; queries: table, `parse w` for EVERY token string w of length <=5 over " +
	"the grammar's terminals (so every sentence, every sentence + extra token, every truncated sentence of that length), " +
	"`ast w` for every sentence of length <=5 and some non-sentences, unchanged; one case in eight is a grammar with a " +
	"conflict (Parse must refuse with the table error); plus: cases that change the SAME *CFG object in place between " +
	"parser constructions (prod/unprod lines, then every string of length <=4 again, judged against the changed grammar), " +
	"and nestings 1100-1600 levels deep through the real parser (S -> ( S ) | a, S -> a S B | c with B -> b | eps, the " +
	"expression grammar), judged by an Earley recogniser; plus: `parsef L T P : w` — Parse with a lexer whose call L fails " +
	"and callbacks that return an error at token position T / production-callback call P, for every word of length <=3 and " +
	"the longer sentences, judged against an independent textbook LL(1) run cut at the first failing call (the error must " +
	"come back, the callbacks made must be exactly those before it) — `astf`, `parse0` (nil callbacks), `cell A a` (table " +
	"accessors), every other grammar with a terminal named like a non-terminal; and grammars broken in each way Verify() " +
	"reports, with `verify` and the parser run all the same (judged against the Model only); plus (hardening round): the " +
	"lexer of every case ends its input in one of seven ways in turn (header eof=: io.EOF, wrapped once / twice, an error type " +
	"with an Is method, errors.Join, a token beside io.EOF, a token beside a wrapped io.EOF) - the Model sees the tokens only; " +
	"ONE PARSER OBJECT for many inputs (`keep parser P`, `with P parse w`) with the grammar it was made for edited in place " +
	"between them in every way c10.RandomEdit knows, a second parser made later, a failing parse (lexer, callback) followed by " +
	"one that does not fail, each judged against the grammar as it is at that moment; size thresholds: 63..1025 (thorough " +
	"0..4097) tokens, as deep a stack (the parser's and the AST builder's stacks grow in blocks of 1024), 65 and 257 parses by " +
	"one parser object; two cases out of five under renamed symbols (c10.NameSchemes); (second hardening round) EVERY " +
	"number of non-terminals (chain grammar) and of terminals (keyword table) from 1 to 200 (300 with an enlarged budget), the " +
	"table built and a sentence and a non-sentence parsed; small LL(1) grammars whose 17-23 (35-40) symbols / non-terminals / " +
	"terminals start at ONE slot of the library's 31-slot (67-slot) hash tables (names found by asking the library's own " +
	"tables); non-trivial = conflict-free grammar for which the case parsed a sentence, " +
	"a non-sentence, and a sentence followed by further tokens; distinct = distinct (header, op list)"

func Exec(c hx.Case) hx.Result { return c10.Exec(c) }

// Ops builds the op list for one grammar: every word up to length k.
func Ops(r *hx.Rand, g gx.G, k int) []string {
	ops := append(g.Lines(), "table")
	lang := g.LangK(k)
	words := g.Words(k)
	for _, w := range words {
		ops = append(ops, strings.TrimRight("parse "+w, " "))
	}
	for _, w := range words {
		if lang[w] || r.Chance(1, 12) {
			ops = append(ops, strings.TrimRight("ast "+w, " "))
		}
	}
	// a few longer inputs: sentences of length <= k extended by up to 3 tokens
	for w := range lang {
		if r.Chance(1, 4) {
			ext := w
			for j := r.Range(1, 3); j > 0; j-- {
				ext = strings.TrimLeft(ext+" "+hx.Pick(r, g.Terms), " ")
			}
			ops = append(ops, "parse "+ext)
		}
	}
	ops = append(ops, "ll1", "unchanged")
	return ops
}

func numberedNames(prefix string, n int) []string {
	out := make([]string, n)
	for i := range out {
		out[i] = fmt.Sprintf("%s%04d", prefix, i)
	}
	return out
}

func Main(run *hx.Run) {
	run.Stats.Rule = Rule
	t0 := time.Now()
	lap := func(what string) {
		if os.Getenv("VERIF_TIMING") != "" {
			fmt.Fprintf(os.Stderr, "c12 %-16s %6.1fs\n", what, time.Since(t0).Seconds())
		}
		t0 = time.Now()
	}
	for _, f := range hx.CorpusFiles("C12") {
		cs, _ := hx.ReadReplay(f)
		for _, c := range cs {
			run.Do(hx.HeaderGet(c.Header, "comp"), c, Exec)
		}
	}
	mixes := c10.Mixes()
	names := hx.SortedKeys(mixes)
	tried, kept := 0, 0
	// how the lexer of a case says that its input is over: every kind in turn
	eof := func(k int) string { return c10.EOFKinds[k%len(c10.EOFKinds)] }
	for _, name := range names {
		r := run.R.Fork(name)
		n := run.Scale(70)
		if name == "near-ll1" {
			n = run.Scale(180)
		}
		for k := 0; k < n; {
			g := gx.Random(r, mixes[name])
			tried++
			cf := c10.NewOracle(g).ConflictFree()
			if !cf && !r.Chance(1, 40) {
				if tried > 400*n {
					break
				}
				continue
			}
			k++
			kept++
			wl := 5
			if len(g.Terms) == 3 {
				wl = 4 + r.Intn(2) // 121 or 364 words
			}
			g, nm := c10.MaybeRename(r, g, k)
			c := hx.Case{Header: fmt.Sprintf("comp=predictive mix=%s names=%s eof=%s shuffle=%d", name, nm, eof(k), r.Intn(1<<30)), Ops: Ops(r, g, wl)}
			run.Do("predictive", c, Exec)
		}
	}
	// the same *CFG object changed in place between parser constructions
	{
		lap("before in-place")
		r := run.R.Fork("in-place")
		for k := 0; k < run.Scale(80); {
			g := gx.Random(r, mixes["near-ll1"])
			if !c10.NewOracle(g).ConflictFree() {
				continue
			}
			k++
			g, nm := c10.MaybeRename(r, g, k)
			ops := Ops(r, g, 4)
			g2 := g
			for round := 0; round < 2; round++ {
				p, ok := c10.RandomProd(r, g2)
				if !ok {
					break
				}
				g2.Prods = append(append([]gx.P{}, g2.Prods...), p)
				ops = append(ops, strings.TrimRight("prod "+p.Head+" : "+strings.Join(p.Body, " "), " "))
				ops = append(ops, Ops(r, g2, 4)[len(g2.Lines()):]...)
				if r.Chance(2, 3) {
					ops = append(ops, strings.TrimRight("unprod "+p.Head+" : "+strings.Join(p.Body, " "), " "))
					g2.Prods = g2.Prods[:len(g2.Prods)-1]
					ops = append(ops, Ops(r, g2, 4)[len(g2.Lines()):]...)
				}
			}
			c := hx.Case{Header: fmt.Sprintf("comp=predictive mix=in-place names=%s eof=%s shuffle=%d", nm, eof(k), r.Intn(1<<30)), Ops: ops}
			run.Do("predictive", c, Exec)
		}
	}
	// a lexer that fails at one of its calls, callbacks that return an error at one of theirs (Parse must stop there,
	// hand that error back and have made exactly the calls before it), ParseAndBuildAST on a failing lexer, Parse
	// without callbacks, the table accessors; every other grammar with a terminal named like a non-terminal
	{
		lap("before faults")
		r := run.R.Fork("faults")
		for k := 0; k < run.Scale(110); {
			g := gx.Random(r, mixes[names[r.Intn(len(names))]])
			if !c10.NewOracle(g).ConflictFree() {
				continue
			}
			g, nm := c10.MaybeRename(r, g, k/2)
			if k%2 == 1 {
				g = c10.SharedNames(r, g)
			}
			k++
			ops := append(g.Lines(), "verify", "table")
			ops = append(ops, c10.FaultQueries(r, g.Words(3), 3)...)
			lang := g.LangK(5)
			for w := range lang {
				if strings.Count(w, " ") >= 3 {
					ops = append(ops, c10.FaultQueries(r, []string{w}, 4)...)
				}
			}
			ops = append(ops, c10.CellQueries(r, g)...)
			for _, w := range g.Words(2) {
				ops = append(ops, strings.TrimRight("parse "+w, " "), strings.TrimRight("ast "+w, " "))
			}
			ops = append(ops, "unchanged")
			if r.Chance(1, 4) {
				ops = append(ops, "follow Z")
			}
			c := hx.Case{Header: fmt.Sprintf("comp=predictive mix=faults names=%s eof=%s shuffle=%d", nm, eof(k), r.Intn(1<<30)), Ops: ops}
			run.Do("predictive", c, Exec)
		}
	}
	// grammars Verify() rejects handed to the parser all the same: which errors Verify() reports, where the table
	// construction dereferences nil (Parse panics), what the parser answers when it does not
	{
		lap("before malformed")
		r := run.R.Fork("malformed")
		for k := 0; k < run.Scale(140); k++ {
			g, nm := c10.MaybeRename(r, gx.Random(r, mixes["near-ll1"]), k/2)
			g = c10.Malform(r, g, k)
			ops := append(g.Lines(), "verify", "parse "+g.Terms[0])
			ws := g.Words(2)
			var qs []string
			for j := 0; j < 4; j++ {
				w := ws[r.Intn(len(ws))]
				qs = append(qs, strings.TrimRight("!parse "+w, " "))
				if j%2 == 0 {
					qs = append(qs, strings.TrimRight("!ast "+w, " "), strings.TrimRight(fmt.Sprintf("!parsef %d - 1 : %s", r.Intn(3), w), " "))
				}
			}
			qs = append(qs, "!parse "+g.Terms[0]+" z", "!table", "!cell "+hx.Pick(r, g.NonTerms)+" "+hx.Pick(r, g.Terms))
			for i := len(qs) - 1; i > 0; i-- {
				j := r.Intn(i + 1)
				qs[i], qs[j] = qs[j], qs[i]
			}
			ops = append(append(ops, qs...), "unchanged")
			c := hx.Case{Header: fmt.Sprintf("comp=predictive mix=malformed names=%s eof=%s shuffle=%d", nm, eof(k), r.Intn(1<<30)), Ops: ops}
			run.Do("predictive", c, Exec)
		}
	}
	// ONE parser object for many inputs, the grammar it was made for edited in place between them (every kind of edit of
	// c10.RandomEdit), and a second parser made later; a parse that fails (lexer, callback) followed by one that does not
	{
		lap("before parser-objects")
		r := run.R.Fork("parser-objects")
		for k := 0; k < run.Scale(90); {
			g := gx.Random(r, mixes["near-ll1"])
			if !c10.NewOracle(g).ConflictFree() {
				continue
			}
			k++
			g, nm := c10.MaybeRename(r, g, k)
			use := func(h gx.G, name string, wl int) []string {
				var qs []string
				lang := h.LangK(wl)
				for _, w := range h.Words(wl) {
					cmd := "parse"
					if lang[w] && r.Chance(1, 3) {
						cmd = "ast"
					}
					qs = append(qs, strings.TrimRight("with "+name+" "+cmd+" "+w, " "))
					if r.Chance(1, 25) {
						qs = append(qs, strings.TrimRight(fmt.Sprintf("with %s parsef %d - - : %s", name, r.Intn(3), w), " "),
							strings.TrimRight("with "+name+" parse "+w, " "))
					}
				}
				return qs
			}
			ops := append(g.Lines(), "keep parser P1")
			ops = append(ops, use(g, "P1", 3)...)
			g2 := g
			for round := 0; round < 3; round++ {
				ls := c10.RandomEdit(r, &g2, k+round, round)
				if ls == nil {
					ls = c10.RandomEdit(r, &g2, 0, round)
				}
				ops = append(ops, ls...)
				ops = append(ops, use(g2, "P1", 3)...)
				if round == 1 {
					ops = append(ops, "keep parser P2")
				}
				if round == 2 {
					ops = append(ops, use(g2, "P2", 2)...)
				}
				ops = append(ops, "table")
			}
			ops = append(ops, "unchanged")
			c := hx.Case{Header: fmt.Sprintf("comp=predictive mix=parser-objects names=%s eof=%s shuffle=%d", nm, eof(k), r.Intn(1<<30)), Ops: ops}
			run.Do("predictive", c, Exec)
		}
	}
	// size thresholds: the number of tokens (S -> a S | eps), the depth of the stack (S -> ( S ) | a; the stacks of the
	// parser and of the AST construction grow in blocks of 1024), the number of parses made by one parser object
	{
		lap("before sweep")
		r := run.R.Fork("sweep")
		rep := func(t string, n int) string { return strings.TrimSpace(strings.Repeat(t+" ", n)) }
		sizes := []int{63, 64, 65, 255, 256, 257, 1023, 1024, 1025}
		if run.Thorough() {
			sizes = []int{0, 1, 2, 63, 64, 65, 127, 128, 129, 255, 256, 257, 511, 512, 513, 1023, 1024, 1025, 2047, 2048, 2049, 4095, 4096, 4097}
		}
		list := gx.G{Terms: []string{"a", "b"}, NonTerms: []string{"S"}, Start: "S", Prods: []gx.P{{Head: "S", Body: []string{"a", "S"}}, {Head: "S"}}}
		paren := gx.G{Terms: []string{"(", ")", "a"}, NonTerms: []string{"S"}, Start: "S",
			Prods: []gx.P{{Head: "S", Body: []string{"(", "S", ")"}}, {Head: "S", Body: []string{"a"}}}}
		for i, n := range sizes {
			ops := append(list.Lines(), "keep parser P1", "parse "+rep("a", n), strings.TrimRight("with P1 parse "+rep("a", n), " "), "parse "+rep("a", n)+" b",
				strings.TrimRight("ast "+rep("a", n), " "), strings.TrimRight(fmt.Sprintf("parsef %d - - : %s", n, rep("a", n)), " "),
				strings.TrimRight(fmt.Sprintf("parsef - %d - : %s a", n, rep("a", n)), " "), strings.TrimRight(fmt.Sprintf("parsef - - %d : %s", n, rep("a", n)), " "), "unchanged")
			if run.Thorough() || n <= 257 || n == 1024 {
				run.Do("predictive", hx.Case{Header: fmt.Sprintf("comp=predictive mix=sweep dim=tokens size=%d eof=%s shuffle=%d", n, eof(i), r.Intn(1<<30)), Ops: ops}, Exec)
			}
			if n == 0 || (!run.Thorough() && n > 65 && n < 1023) {
				continue
			}
			ops = append(paren.Lines(), "keep parser P1",
				"parse "+rep("(", n)+" a "+rep(")", n), "with P1 ast "+rep("(", n)+" a "+rep(")", n),
				"parse "+rep("(", n)+" a "+rep(")", n-1), "with P1 parse "+rep("(", n)+" a "+rep(")", n+1), "unchanged")
			run.Do("predictive", hx.Case{Header: fmt.Sprintf("comp=predictive mix=sweep dim=depth size=%d eof=%s shuffle=%d", n, eof(i+1), r.Intn(1<<30)), Ops: ops}, Exec)
		}
		for i, n := range []int{65, 257} {
			ops := append(paren.Lines(), "keep parser P1")
			ws := paren.Words(3)
			for j := 0; j < n; j++ {
				ops = append(ops, strings.TrimRight("with P1 parse "+ws[r.Intn(len(ws))], " "))
				if j == n/2 {
					ops = append(ops, "getadd S : a a", "with P1 parse a a", "getremove S : a a", "with P1 parse a a")
				}
			}
			ops = append(ops, "with P1 parse ( a )", "unchanged")
			run.Do("predictive", hx.Case{Header: fmt.Sprintf("comp=predictive mix=sweep dim=parses size=%d eof=%s shuffle=%d", n, eof(i), r.Intn(1<<30)), Ops: ops}, Exec)
		}
	}
	// EVERY number of non-terminals (a chain) and of terminals (a keyword table) from 1 to 200 (more when the budget is
	// enlarged): the table is built and one input is parsed (every tenth size: more queries)
	{
		lap("before every-size")
		r := run.R.Fork("every-size")
		top := 200
		if run.Huge() {
			top = 300
		}
		for n := 1; n <= top; n++ {
			for d, g := range []gx.G{c10.TreeGrammar(numberedNames("N", n), []string{"a", "b"}), c10.KeywordGrammar([]string{"S", "A"}, numberedNames("t", n))} {
				w := "a" // a sentence of the tree grammar with more than one non-terminal
				if d == 1 {
					w = g.Terms[len(g.Terms)-1] // S -> t | t A, A -> ε
				} else if n == 1 {
					w = ""
				}
				ops := append(g.Lines(), strings.TrimRight("parse "+w, " "), "unchanged")
				if n%10 == 0 {
					ops = append(ops, "parse "+g.Terms[0]+" "+g.Terms[0]+" "+g.Terms[0], "cell "+g.NonTerms[len(g.NonTerms)-1]+" "+g.Terms[len(g.Terms)-1], "ll1")
				}
				c := hx.Case{Header: fmt.Sprintf("comp=predictive mix=every-size dim=%s size=%d eof=%s shuffle=%d", []string{"nonterminals", "terminals"}[d], n, eof(n), r.Intn(1<<30)), Ops: ops}
				run.Do("predictive", c, Exec)
			}
		}
	}
	// small LL(1) grammars whose symbols share one probe path of the library's hash tables (c10.SameBucketNames)
	{
		lap("before same-bucket")
		r := run.R.Fork("same-bucket")
		n := 42
		if run.Huge() {
			n = 84
		}
		for k := 0; k < n; k++ {
			g, what := c10.BucketGrammars(k)
			ops := append(g.Lines(), "table")
			for _, w := range g.Words(1) {
				ops = append(ops, strings.TrimRight("parse "+w, " "))
			}
			lang := g.LangK(3)
			cnt := 0
			for w := range lang {
				if cnt++; cnt > 12 {
					break
				}
				ops = append(ops, strings.TrimRight("parse "+w, " "), strings.TrimRight("ast "+w, " "), strings.TrimRight("parse "+w+" "+g.Terms[0], " "))
			}
			ops = append(ops, "keep parser P1", "with P1 parse "+g.Terms[0], "ll1", "unchanged")
			c := hx.Case{Header: fmt.Sprintf("comp=predictive mix=same-bucket %s eof=%s shuffle=%d", what, eof(k), r.Intn(1<<30)), Ops: ops}
			run.Do("predictive", c, Exec)
		}
	}
	// very deep nestings through the real parser
	{
		lap("before deep")
		r := run.R.Fork("deep")
		rep := func(t string, n int) string { return strings.TrimSpace(strings.Repeat(t+" ", n)) }
		for k := 0; k < run.Scale(2); k++ {
			n := r.Range(1100, 1600)
			paren := gx.G{Terms: []string{"(", ")", "a"}, NonTerms: []string{"S"}, Start: "S",
				Prods: []gx.P{{Head: "S", Body: []string{"(", "S", ")"}}, {Head: "S", Body: []string{"a"}}}}
			ops := append(paren.Lines(), "table",
				"parse "+rep("(", n)+" a "+rep(")", n),
				"parse "+rep("(", n)+" a "+rep(")", n-1),
				"parse "+rep("(", n)+" a "+rep(")", n+1),
				"ast "+rep("(", n)+" a "+rep(")", n), "unchanged")
			run.Do("predictive", hx.Case{Header: fmt.Sprintf("comp=predictive mix=deep-paren depth=%d eof=%s shuffle=%d", n, eof(3*k), r.Intn(1<<30)), Ops: ops}, Exec)

			tail := gx.G{Terms: []string{"a", "b", "c"}, NonTerms: []string{"S", "B"}, Start: "S",
				Prods: []gx.P{{Head: "S", Body: []string{"a", "S", "B"}}, {Head: "S", Body: []string{"c"}}, {Head: "B", Body: []string{"b"}}, {Head: "B"}}}
			m := r.Range(0, n)
			ops = append(tail.Lines(), "table",
				"parse "+rep("a", n)+" c",
				"parse "+rep("a", n)+" c "+rep("b", m),
				"parse "+rep("a", n)+" c "+rep("b", n+1),
				"ast "+rep("a", n)+" c "+rep("b", m), "unchanged")
			run.Do("predictive", hx.Case{Header: fmt.Sprintf("comp=predictive mix=deep-tail depth=%d eof=%s shuffle=%d", n, eof(3*k+1), r.Intn(1<<30)), Ops: ops}, Exec)

			expr := gx.G{Terms: []string{"+", "*", "(", ")", "id"}, NonTerms: []string{"E", "E'", "T", "T'", "F"}, Start: "E",
				Prods: []gx.P{{Head: "E", Body: []string{"T", "E'"}}, {Head: "E'", Body: []string{"+", "T", "E'"}}, {Head: "E'"},
					{Head: "T", Body: []string{"F", "T'"}}, {Head: "T'", Body: []string{"*", "F", "T'"}}, {Head: "T'"},
					{Head: "F", Body: []string{"(", "E", ")"}}, {Head: "F", Body: []string{"id"}}}}
			d := n / 3
			ops = append(expr.Lines(), "table",
				"parse "+rep("(", d)+" id + id "+rep(")", d)+" * id",
				"parse "+rep("(", d)+" id + id "+rep(")", d)+" id",
				"ast "+rep("(", d)+" id "+rep(")", d), "unchanged")
			run.Do("predictive", hx.Case{Header: fmt.Sprintf("comp=predictive mix=deep-expr depth=%d eof=%s shuffle=%d", d, eof(3*k+2), r.Intn(1<<30)), Ops: ops}, Exec)
		}
	}
	lap("deep")
	run.Stats.Extra["grammars_drawn"] = tried
	run.Stats.Extra["grammars_kept"] = kept
	if run.Thorough() {
		n, ll1 := 0, 0
		fam := func(nts, ts []string, alts, body int) {
			c10.Enumerate(nts, ts, alts, body, func(g gx.G) {
				n++
				if !c10.NewOracle(g).ConflictFree() {
					return
				}
				ll1++
				c := hx.Case{Header: fmt.Sprintf("comp=predictive mix=exhaustive shuffle=%d", n), Ops: Ops(run.R, g, 5)}
				run.Do("predictive", c, Exec)
			})
		}
		fam([]string{"S", "A"}, []string{"a"}, 2, 2)
		fam([]string{"S"}, []string{"a", "b"}, 3, 2)
		fam([]string{"S", "A"}, []string{"a", "b"}, 2, 2)
		run.Stats.Extra["exhaustive_part"] = fmt.Sprintf("%d grammars enumerated ({S,A}x{a}, {S}x{a,b} with <=3 alternatives, {S,A}x{a,b}; bodies <=2), %d conflict-free, each with every token string of length <=5", n, ll1)
	}
}
