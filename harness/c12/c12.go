// Package c12: the predictive parser on LL(1) grammars — acceptance against the exact bounded language,
// the emitted productions replayed as a leftmost derivation, the AST's shape and yield.
// The executor (real code + oracle) is shared with C10.
package c12

import (
	"fmt"
	"strings"

	"verifharness/c10"
	"verifharness/gx"
	"verifharness/hx"
)

const Rule = "cases = (LL(1) grammar, iteration-shuffle seed, token strings): random valid grammars from the C10 mixes " +
	"(incl. unreachable/unproductive non-terminals, nullable non-terminals) kept when the textbook table built from the " +
	"independent FIRST/FOLLOW oracle is conflict-free; queries: table, `parse w` for EVERY token string w of length <=5 over " +
	"the grammar's terminals (so every sentence, every sentence + extra token, every truncated sentence of that length), " +
	"`ast w` for every sentence of length <=5 and some non-sentences, unchanged; one case in eight is a grammar with a " +
	"conflict (Parse must refuse with the table error); non-trivial = conflict-free grammar for which the case parsed a sentence, " +
	"a non-sentence, and a sentence followed by further tokens; distinct = distinct (header, op list)"

func Exec(c hx.Case) hx.Result { return c10.Exec(c) }

// Ops builds the op list for one grammar: every word up to length k.
func Ops(r *hx.Rand, g gx.G, k int) []string {
	ops := append(g.Lines(), "table")
	lang := g.LangK(k)
	words := g.Words(k)
	for _, w := range words {
		ops = append(ops, strings.TrimRight("parse "+w, " "))
	}
	for _, w := range words {
		if lang[w] || r.Chance(1, 12) {
			ops = append(ops, strings.TrimRight("ast "+w, " "))
		}
	}
	// a few longer inputs: sentences of length <= k extended by up to 3 tokens
	for w := range lang {
		if r.Chance(1, 4) {
			ext := w
			for j := r.Range(1, 3); j > 0; j-- {
				ext = strings.TrimLeft(ext+" "+hx.Pick(r, g.Terms), " ")
			}
			ops = append(ops, "parse "+ext)
		}
	}
	ops = append(ops, "ll1", "unchanged")
	return ops
}

func Main(run *hx.Run) {
	run.Stats.Rule = Rule
	for _, f := range hx.CorpusFiles("C12") {
		cs, _ := hx.ReadReplay(f)
		for _, c := range cs {
			run.Do(hx.HeaderGet(c.Header, "comp"), c, Exec)
		}
	}
	mixes := c10.Mixes()
	names := hx.SortedKeys(mixes)
	tried, kept := 0, 0
	for _, name := range names {
		r := run.R.Fork(name)
		n := run.Scale(24)
		if name == "near-ll1" {
			n = run.Scale(60)
		}
		for k := 0; k < n; {
			g := gx.Random(r, mixes[name])
			tried++
			cf := c10.NewOracle(g).ConflictFree()
			if !cf && !r.Chance(1, 40) {
				if tried > 400*n {
					break
				}
				continue
			}
			k++
			kept++
			wl := 5
			if len(g.Terms) == 3 {
				wl = 4 + r.Intn(2) // 121 or 364 words
			}
			c := hx.Case{Header: fmt.Sprintf("comp=predictive mix=%s shuffle=%d", name, r.Intn(1<<30)), Ops: Ops(r, g, wl)}
			run.Do("predictive", c, Exec)
		}
	}
	run.Stats.Extra["grammars_drawn"] = tried
	run.Stats.Extra["grammars_kept"] = kept
	if run.Thorough() {
		n, ll1 := 0, 0
		fam := func(nts, ts []string, alts, body int) {
			c10.Enumerate(nts, ts, alts, body, func(g gx.G) {
				n++
				if !c10.NewOracle(g).ConflictFree() {
					return
				}
				ll1++
				c := hx.Case{Header: fmt.Sprintf("comp=predictive mix=exhaustive shuffle=%d", n), Ops: Ops(run.R, g, 5)}
				run.Do("predictive", c, Exec)
			})
		}
		fam([]string{"S", "A"}, []string{"a"}, 2, 2)
		fam([]string{"S"}, []string{"a", "b"}, 3, 2)
		fam([]string{"S", "A"}, []string{"a", "b"}, 2, 2)
		run.Stats.Extra["exhaustive_part"] = fmt.Sprintf("%d grammars enumerated ({S,A}x{a}, {S}x{a,b} with <=3 alternatives, {S,A}x{a,b}; bodies <=2), %d conflict-free, each with every token string of length <=5", n, ll1)
	}
}
