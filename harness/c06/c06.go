// Package c06: binary trie and Patricia trie (trie package) against a sorted map over byte strings.
package c06

import (
	"encoding/hex"
	"fmt"
	"sort"
	"strconv"
	"strings"
	"time"

	"github.com/moorara/algo/generic"
	"github.com/moorara/algo/trie"

	"verifharness/hx"
)

const Rule = "cases = (implementation, op sequence) drawn from VERIF_SEED, every stream run on both tries: keys of " +
	"1-5 bytes over {a,b} (dense prefix relations), over {00,7f,80,ff,a,*} and over {a,b,*}; all mutators; every " +
	"query with present / absent / prefix-of-held / extension-of-held / empty arguments; patterns with * at every " +
	"position; a state dump after every mutator; non-trivial = the history deletes (Delete/DeleteMin/DeleteMax) a " +
	"held key that is a proper prefix or a proper extension of another held key; distinct = distinct (header, op list)"

// SigNulClash is the one known-finding signature of C06: Patricia keys are bit strings padded with zero
// bits, so two keys that differ only by trailing 0x00 bytes cannot both be stored.
const SigNulClash = "put_key_equals_held_key_up_to_trailing_nul"

type kv struct {
	k string
	v int
}

func enc(s string) string {
	if s == "" {
		return "-"
	}
	return hex.EncodeToString([]byte(s))
}

func dec(s string) (string, bool) {
	if s == "-" {
		return "", true
	}
	b, err := hex.DecodeString(s)
	return string(b), err == nil
}

func showKV(k string, v int, ok bool) string {
	if !ok {
		return "ok none"
	}
	return "ok some " + enc(k) + " " + strconv.Itoa(v)
}

func showList(l []kv) string {
	parts := make([]string, len(l))
	for i, e := range l {
		parts[i] = enc(e.k) + ":" + strconv.Itoa(e.v)
	}
	return "ok [" + strings.Join(parts, " ") + "]"
}

func fromKVs(l []generic.KeyValue[string, int]) []kv {
	out := make([]kv, len(l))
	for i, e := range l {
		out[i] = kv{e.Key, e.Val}
	}
	return out
}

// ---------------------------------------------------------------- oracle: sorted slice of strings + values

type oracle struct {
	keys []string // ascending (Go string order = lexicographic on bytes)
	val  map[string]int
}

func newOracle() *oracle { return &oracle{val: map[string]int{}} }

func (o *oracle) put(k string, v int) {
	if _, ok := o.val[k]; !ok {
		i := sort.SearchStrings(o.keys, k)
		o.keys = append(o.keys, "")
		copy(o.keys[i+1:], o.keys[i:])
		o.keys[i] = k
	}
	o.val[k] = v
}

func (o *oracle) del(k string) {
	if _, ok := o.val[k]; ok {
		i := sort.SearchStrings(o.keys, k)
		o.keys = append(o.keys[:i], o.keys[i+1:]...)
		delete(o.val, k)
	}
}

func (o *oracle) filter(p func(string) bool) []kv {
	out := []kv{}
	for _, k := range o.keys {
		if p(k) {
			out = append(out, kv{k, o.val[k]})
		}
	}
	return out
}

func matches(pat, k string) bool {
	if len(pat) != len(k) {
		return false
	}
	for i := 0; i < len(pat); i++ {
		if pat[i] != '*' && pat[i] != k[i] {
			return false
		}
	}
	return true
}

func trimNul(s string) string { return strings.TrimRight(s, "\x00") }

// nulClash: some held key differs from k only by trailing 0x00 bytes.
func (o *oracle) nulClash(k string) bool {
	for _, h := range o.keys {
		if h != k && trimNul(h) == trimNul(k) {
			return true
		}
	}
	return false
}

// related: some other held key is a proper prefix / proper extension of k.
func (o *oracle) related(k string) (hasPrefix, hasExt bool) {
	for _, h := range o.keys {
		if h == k {
			continue
		}
		if strings.HasPrefix(k, h) {
			hasPrefix = true
		}
		if strings.HasPrefix(h, k) {
			hasExt = true
		}
	}
	return
}

func sameList(a, b []kv) bool {
	if len(a) != len(b) {
		return false
	}
	for i := range a {
		if a[i] != b[i] {
			return false
		}
	}
	return true
}

func sorted(l []kv) []kv {
	c := append([]kv{}, l...)
	sort.Slice(c, func(i, j int) bool { return c[i].k < c[j].k })
	return c
}

// ---------------------------------------------------------------- executor

// Exec runs one case on the real trie package and checks every outcome against the sorted-map oracle.
func Exec(c hx.Case) hx.Result {
	comp := hx.HeaderGet(c.Header, "comp")
	res := hx.Result{BadOp: -1}
	tags := map[string]bool{"comp=" + comp: true}
	eq := generic.NewEqualFunc[int]()
	var t trie.Trie[int]
	switch comp {
	case "binary":
		t = trie.NewBinary[int](eq)
	case "patricia":
		t = trie.NewPatricia[int](eq)
	default:
		for range c.Ops {
			res.Outs = append(res.Outs, "bad-case")
		}
		return res
	}
	o := newOracle()
	bad := func(i int, sig string, format string, a ...any) {
		if res.BadOp < 0 {
			res.BadOp = i
			res.Sig = sig
			res.What = comp + ": " + fmt.Sprintf(format, a...)
		}
	}
	key := func(s string) string { k, _ := dec(s); return k }

	for i, op := range c.Ops {
		f := strings.Fields(op)
		out := "bad-op"
		mutator := false
		var kind string
		finished := hx.WithTimeout(5*time.Second, func() {
			kind = hx.Try(func() {
				if len(f) == 0 {
					return
				}
				switch f[0] {
				case "put":
					mutator = true
					k := key(f[1])
					v, _ := strconv.Atoi(f[2])
					if _, held := o.val[k]; held {
						tags["put-update"] = true
					}
					if strings.ContainsRune(k, 0) {
						tags["key-with-00"] = true
					}
					if strings.IndexFunc(k, func(r rune) bool { return r >= 0x80 }) >= 0 || !isASCII(k) {
						tags["key-with-byte>=80"] = true
					}
					t.Put(k, v)
					o.put(k, v)
					out = "ok"
				case "get":
					k := key(f[1])
					v, ok := t.Get(k)
					out = optInt(v, ok)
					wv, wok := o.val[k]
					if ok != wok || (ok && v != wv) {
						bad(i, "", "Get(%q) = (%d,%v), sorted map gives (%d,%v)", k, v, ok, wv, wok)
					}
				case "delete":
					mutator = true
					k := key(f[1])
					wv, wok := o.val[k]
					if wok {
						p, e := o.related(k)
						if p {
							tags["delete-key-with-held-prefix"] = true
							res.Nontrivial = true
						}
						if e {
							tags["delete-key-with-held-extension"] = true
							res.Nontrivial = true
						}
					} else {
						tags["delete-absent"] = true
						p, e := o.related(k)
						if p || e {
							tags["delete-absent-prefix-or-extension-of-held"] = true
						}
					}
					v, ok := t.Delete(k)
					out = optInt(v, ok)
					o.del(k)
					if ok != wok || (ok && v != wv) {
						bad(i, "", "Delete(%q) = (%d,%v), sorted map gives (%d,%v)", k, v, ok, wv, wok)
					}
				case "deletemin", "deletemax":
					mutator = true
					var wk string
					wok := len(o.keys) > 0
					if wok {
						wk = o.keys[0]
						if f[0] == "deletemax" {
							wk = o.keys[len(o.keys)-1]
						}
						p, e := o.related(wk)
						if p {
							tags[f[0]+"-key-with-held-prefix"] = true
							res.Nontrivial = true
						}
						if e {
							tags[f[0]+"-key-with-held-extension"] = true
							res.Nontrivial = true
						}
					}
					wv := o.val[wk]
					var k string
					var v int
					var ok bool
					if f[0] == "deletemin" {
						k, v, ok = t.DeleteMin()
					} else {
						k, v, ok = t.DeleteMax()
					}
					out = showKV(k, v, ok)
					o.del(wk)
					if ok != wok || (ok && (k != wk || v != wv)) {
						bad(i, "", "%s = (%q,%d,%v), sorted map gives (%q,%d,%v)", f[0], k, v, ok, wk, wv, wok)
					}
				case "deleteall":
					mutator = true
					t.DeleteAll()
					o = newOracle()
					out = "ok"
				case "size":
					n := t.Size()
					out = "ok " + strconv.Itoa(n)
					if n != len(o.keys) {
						bad(i, "", "Size() = %d, sorted map holds %d keys", n, len(o.keys))
					}
				case "min", "max":
					var k string
					var v int
					var ok bool
					if f[0] == "min" {
						k, v, ok = t.Min()
					} else {
						k, v, ok = t.Max()
					}
					out = showKV(k, v, ok)
					wok := len(o.keys) > 0
					var wk string
					if wok {
						wk = o.keys[0]
						if f[0] == "max" {
							wk = o.keys[len(o.keys)-1]
						}
					}
					if ok != wok || (ok && (k != wk || v != o.val[wk])) {
						bad(i, "", "%s = (%q,%d,%v), sorted map gives (%q,%v)", f[0], k, v, ok, wk, wok)
					}
				case "floor", "ceiling":
					a := key(f[1])
					var k string
					var v int
					var ok bool
					var wk string
					var wok bool
					if f[0] == "floor" {
						k, v, ok = t.Floor(a)
						j := sort.Search(len(o.keys), func(j int) bool { return o.keys[j] > a })
						if j > 0 {
							wk, wok = o.keys[j-1], true
						}
					} else {
						k, v, ok = t.Ceiling(a)
						j := sort.SearchStrings(o.keys, a)
						if j < len(o.keys) {
							wk, wok = o.keys[j], true
						}
					}
					out = showKV(k, v, ok)
					if ok != wok || (ok && (k != wk || v != o.val[wk])) {
						bad(i, "", "%s(%q) = (%q,%d,%v), sorted map gives (%q,%v)", f[0], a, k, v, ok, wk, wok)
					}
				case "select":
					r, _ := strconv.Atoi(f[1])
					k, v, ok := t.Select(r)
					out = showKV(k, v, ok)
					wok := r >= 0 && r < len(o.keys)
					var wk string
					if wok {
						wk = o.keys[r]
					}
					if ok != wok || (ok && (k != wk || v != o.val[wk])) {
						bad(i, "", "Select(%d) = (%q,%d,%v), sorted map gives (%q,%v)", r, k, v, ok, wk, wok)
					}
				case "rank":
					a := key(f[1])
					n := t.Rank(a)
					out = "ok " + strconv.Itoa(n)
					if _, held := o.val[a]; !held {
						tags["rank-absent"] = true
					}
					if w := sort.SearchStrings(o.keys, a); n != w {
						bad(i, "", "Rank(%q) = %d, %d held keys are smaller", a, n, w)
					}
				case "range", "rangesize":
					lo, hi := key(f[1]), key(f[2])
					want := o.filter(func(k string) bool { return lo <= k && k <= hi })
					if f[0] == "range" {
						got := fromKVs(t.Range(lo, hi))
						out = showList(got)
						if !sameList(got, want) {
							bad(i, "", "Range(%q,%q) = %v, sorted map gives %v", lo, hi, got, want)
						}
					} else {
						n := t.RangeSize(lo, hi)
						out = "ok " + strconv.Itoa(n)
						if n != len(want) {
							bad(i, "", "RangeSize(%q,%q) = %d, sorted map gives %d", lo, hi, n, len(want))
						}
					}
				case "all":
					got := []kv{}
					for k, v := range t.All() {
						got = append(got, kv{k, v})
					}
					out = showList(got)
					if want := o.filter(func(string) bool { return true }); !sameList(got, want) {
						bad(i, "", "All() = %v, sorted map gives %v (ascending)", got, want)
					}
				case "withprefix":
					p := key(f[1])
					got := fromKVs(t.WithPrefix(p))
					out = showList(got)
					want := o.filter(func(k string) bool { return strings.HasPrefix(k, p) })
					if len(want) > 1 {
						tags["withprefix-several"] = true
					}
					if !sameList(sorted(got), want) {
						bad(i, "", "WithPrefix(%q) = %v, held keys starting with it: %v", p, got, want)
					}
				case "longestprefixof":
					s := key(f[1])
					k, v, ok := t.LongestPrefixOf(s)
					out = showKV(k, v, ok)
					cands := o.filter(func(k string) bool { return strings.HasPrefix(s, k) })
					wok := len(cands) > 0
					var wk string
					if wok {
						wk = cands[len(cands)-1].k // prefixes of s ascend with their length
						if len(cands) > 1 {
							tags["longestprefixof-several-candidates"] = true
						}
					}
					if ok != wok || (ok && (k != wk || v != o.val[wk])) {
						bad(i, "", "LongestPrefixOf(%q) = (%q,%d,%v), sorted map gives (%q,%v)", s, k, v, ok, wk, wok)
					}
				case "match":
					pat := key(f[1])
					got := fromKVs(t.Match(pat))
					out = showList(got)
					want := o.filter(func(k string) bool { return matches(pat, k) })
					if strings.Contains(pat, "*") {
						tags["match-with-star"] = true
					}
					if len(want) > 1 {
						tags["match-several"] = true
					}
					if !sameList(sorted(got), want) {
						bad(i, "", "Match(%q) = %v, held keys matching: %v", pat, got, want)
					}
				case "dump":
					out = "ok " + trie.VerifDump(t)
				}
			})
		})
		if !finished {
			res.Outs = append(res.Outs, "hang")
			bad(i, "", "%s did not return within 5s", op)
			break
		}
		if kind != "" {
			res.Outs = append(res.Outs, "panic")
			sig := ""
			if comp == "patricia" && len(f) == 3 && f[0] == "put" && o.nulClash(key(f[1])) {
				sig = SigNulClash
			}
			bad(i, sig, "%s panicked (%s)", op, kind)
			break
		}
		res.Outs = append(res.Outs, out)
		// The package's own verify() is consulted for the binary trie only: for the Patricia trie it rejects valid
		// tries (bitString.Sub returns the empty string when asked for more bits than the key has, so
		// _isPatricia fails as soon as a held key is shorter than a bit position on its path, e.g. {"bbaab","b"}).
		if mutator && res.BadOp < 0 && comp == "binary" {
			ok := true
			if k := hx.Try(func() { ok = trie.VerifVerify(t) }); k != "" || !ok {
				bad(i, "", "the package's own invariant check verify() fails after %s", op)
			}
		}
	}
	for tg := range tags {
		res.Tags = append(res.Tags, tg)
	}
	sort.Strings(res.Tags)
	return res
}

func isASCII(s string) bool {
	for i := 0; i < len(s); i++ {
		if s[i] >= 0x80 {
			return false
		}
	}
	return true
}

func optInt(v int, ok bool) string {
	if ok {
		return "ok some " + strconv.Itoa(v)
	}
	return "ok none"
}

// ---------------------------------------------------------------- generators

var alphabets = map[string][]byte{
	"ab":     []byte("ab"),
	"bytes":  {0x00, 0x7f, 0x80, 0xff, 'a', '*'},
	"abstar": []byte("ab*"),
}

type gen struct {
	r      *hx.Rand
	al     []byte
	maxLen int
	held   *oracle // what the history holds so far (to aim arguments and to steer clear of the known finding)
	ops    []string
	clash  bool // allow Patricia's trailing-NUL clash (dedicated stream only)
}

func (g *gen) randKey() string {
	n := g.r.Range(1, g.maxLen)
	b := make([]byte, n)
	for i := range b {
		b[i] = hx.Pick(g.r, g.al)
	}
	return string(b)
}

// arg draws a query/delete argument: random, held, extension of held, prefix of held, (for queries) empty.
func (g *gen) arg(allowEmpty bool) string {
	x := g.r.Intn(100)
	if len(g.held.keys) == 0 || x < 25 {
		return g.randKey()
	}
	h := hx.Pick(g.r, g.held.keys)
	switch {
	case x < 55:
		return h
	case x < 75:
		return h + string(hx.Pick(g.r, g.al))
	case x < 92:
		if len(h) > 1 {
			return h[:len(h)-g.r.Range(1, len(h)-1)]
		}
		return h
	default:
		if allowEmpty {
			return ""
		}
		return h
	}
}

func (g *gen) pattern() string {
	b := []byte(g.arg(true))
	switch g.r.Intn(4) {
	case 0: // one star, any position
		if len(b) > 0 {
			b[g.r.Intn(len(b))] = '*'
		}
	case 1, 2:
		for i := range b {
			if g.r.Chance(1, 3) {
				b[i] = '*'
			}
		}
	}
	return string(b)
}

func (g *gen) emit(format string, a ...any) { g.ops = append(g.ops, fmt.Sprintf(format, a...)) }

func (g *gen) mutate() {
	x := g.r.Intn(100)
	switch {
	case x < 55:
		k := g.randKey()
		if g.r.Chance(1, 3) {
			k = g.arg(false) // re-put a held key, or put a prefix / an extension of one
		}
		if g.clash && len(g.held.keys) > 0 && g.r.Chance(1, 3) {
			// aim at the known finding: a held key with 0x00 appended, or with its trailing 0x00 bytes removed
			h := hx.Pick(g.r, g.held.keys)
			if t := trimNul(h); t != h && t != "" && g.r.Bool() {
				k = t
			} else {
				k = h + "\x00"
			}
		}
		if !g.clash {
			for tries := 0; g.held.nulClash(k) && tries < 20; tries++ {
				k = g.randKey()
			}
			if g.held.nulClash(k) {
				return
			}
		}
		v := g.r.Intn(100)
		g.emit("put %s %d", enc(k), v)
		g.held.put(k, v)
	case x < 82:
		k := g.arg(false)
		g.emit("delete %s", enc(k))
		g.held.del(k)
	case x < 90:
		g.emit("deletemin")
		if len(g.held.keys) > 0 {
			g.held.del(g.held.keys[0])
		}
	case x < 98:
		g.emit("deletemax")
		if len(g.held.keys) > 0 {
			g.held.del(g.held.keys[len(g.held.keys)-1])
		}
	default:
		g.emit("deleteall")
		g.held = newOracle()
	}
	g.emit("dump")
}

func (g *gen) query() {
	switch g.r.Intn(15) {
	case 0:
		g.emit("size")
	case 1:
		g.emit("get %s", enc(g.arg(false)))
	case 2:
		g.emit("min")
	case 3:
		g.emit("max")
	case 4:
		g.emit("floor %s", enc(g.arg(true)))
	case 5:
		g.emit("ceiling %s", enc(g.arg(true)))
	case 6:
		g.emit("select %d", g.r.Range(-1, len(g.held.keys)+1))
	case 7:
		g.emit("rank %s", enc(g.arg(true)))
	case 8:
		g.emit("range %s %s", enc(g.arg(true)), enc(g.arg(true)))
	case 9:
		g.emit("rangesize %s %s", enc(g.arg(true)), enc(g.arg(true)))
	case 10:
		g.emit("all")
	case 11:
		g.emit("withprefix %s", enc(g.arg(true)))
	case 12:
		g.emit("longestprefixof %s", enc(g.arg(true)))
	default:
		g.emit("match %s", enc(g.pattern()))
	}
}

// battery: every query once, aimed at the current contents; patterns with * at every position of a held key.
func (g *gen) battery() {
	g.emit("size")
	g.emit("all")
	g.emit("min")
	g.emit("max")
	for _, q := range []string{"get", "floor", "ceiling", "rank", "withprefix", "longestprefixof"} {
		g.emit("%s %s", q, enc(g.arg(q != "get")))
	}
	g.emit("select %d", g.r.Range(-1, len(g.held.keys)))
	g.emit("range %s %s", enc(g.arg(true)), enc(g.arg(true)))
	g.emit("rangesize %s %s", enc(g.arg(true)), enc(g.arg(true)))
	if len(g.held.keys) > 0 {
		h := hx.Pick(g.r, g.held.keys)
		for i := 0; i < len(h); i++ {
			b := []byte(h)
			b[i] = '*'
			g.emit("match %s", enc(string(b)))
		}
		g.emit("match %s", enc(strings.Repeat("*", len(h))))
	}
	g.emit("match %s", enc(g.pattern()))
}

func genOps(r *hx.Rand, alpha string, n int, clash bool) []string {
	g := &gen{r: r, al: alphabets[alpha], maxLen: 4, held: newOracle(), clash: clash}
	if alpha == "ab" {
		g.maxLen = 5
	}
	for len(g.ops) < n {
		switch x := r.Intn(100); {
		case x < 40:
			g.mutate()
		case x < 94:
			g.query()
		default:
			g.battery()
		}
	}
	g.battery()
	return g.ops
}

var comps = []string{"binary", "patricia"}

// both runs one op stream on both implementations.
func both(run *hx.Run, hdr string, ops []string) {
	for _, comp := range comps {
		h := "comp=" + comp
		if hdr != "" {
			h += " " + hdr
		}
		run.Do(comp, hx.Case{Header: h, Ops: ops}, Exec)
	}
}

// exhaustive enumerates every op sequence of the given length over the alphabet.
func exhaustive(alpha []string, n int, f func([]string)) {
	idx := make([]int, n)
	for {
		ops := make([]string, n)
		for i, k := range idx {
			ops[i] = alpha[k]
		}
		f(ops)
		i := n - 1
		for i >= 0 {
			idx[i]++
			if idx[i] < len(alpha) {
				break
			}
			idx[i] = 0
			i--
		}
		if i < 0 {
			return
		}
	}
}

// fixedBattery: every query with every argument of a small universe (used after exhaustive histories).
func fixedBattery(universe []string) []string {
	ops := []string{"dump", "size", "all", "min", "max"}
	args := append([]string{""}, universe...)
	for _, a := range args {
		if a != "" {
			ops = append(ops, "get "+enc(a))
		}
		for _, q := range []string{"floor", "ceiling", "rank", "withprefix", "longestprefixof", "match"} {
			ops = append(ops, q+" "+enc(a))
		}
	}
	for _, p := range []string{"*", "**", "a*", "*b", "***", "a**", "*b*", "**b"} {
		ops = append(ops, "match "+enc(p))
	}
	for i := -1; i <= 3; i++ {
		ops = append(ops, fmt.Sprintf("select %d", i))
	}
	for _, lohi := range [][2]string{{"", "b"}, {"a", "ab"}, {"aa", "b"}, {"ab", "a"}, {"b", "bb"}} {
		ops = append(ops, "range "+enc(lohi[0])+" "+enc(lohi[1]), "rangesize "+enc(lohi[0])+" "+enc(lohi[1]))
	}
	return ops
}

func Main(run *hx.Run) {
	run.Stats.Rule = Rule
	for _, f := range hx.CorpusFiles("C06") {
		cs, _ := hx.ReadReplay(f)
		for _, c := range cs {
			run.Do(hx.HeaderGet(c.Header, "comp"), c, Exec)
		}
	}
	for _, alpha := range []string{"ab", "bytes", "abstar"} {
		r := run.R.Fork(alpha)
		n := run.Scale(120)
		for k := 0; k < n; k++ {
			length := r.Range(10, 120)
			both(run, "alpha="+alpha, genOps(r, alpha, length, false))
		}
	}
	// the neighbourhood of the known finding (Patricia: keys equal up to trailing 0x00): a fixed, small number
	// of cases, so that the finding cannot crowd other violations out of the report
	{
		r := run.R.Fork("nulclash")
		for k := 0; k < 6; k++ {
			both(run, "alpha=bytes stream=nulclash", genOps(r, "bytes", r.Range(20, 60), true))
		}
	}
	if run.Thorough() {
		// every history of length ≤ 4 over put/delete of six {a,b}-keys + DeleteMin + DeleteMax, each followed
		// by every query with every argument of the universe
		universe := []string{"a", "b", "aa", "ab", "ba", "aba"}
		var alpha []string
		for i, k := range universe {
			alpha = append(alpha, fmt.Sprintf("put %s %d", enc(k), i+1))
		}
		for _, k := range universe {
			alpha = append(alpha, "delete "+enc(k))
		}
		alpha = append(alpha, "deletemin", "deletemax")
		bat := fixedBattery(universe)
		for n := 1; n <= 4; n++ {
			exhaustive(alpha, n, func(ops []string) {
				var full []string
				for _, op := range ops {
					full = append(full, op, "dump")
				}
				both(run, "alpha=ab stream=exhaustive", append(full, bat...))
			})
		}
		run.Stats.Exhaustive = true
		run.Stats.Extra["exhaustive_part"] = "all histories of length<=4 over 14 mutators (put/delete of a,b,aa,ab,ba,aba; DeleteMin; DeleteMax), " +
			"both tries, each followed by every query with every argument of the universe"
	}
}
