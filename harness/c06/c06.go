// Package c06: binary trie and Patricia trie (trie package) against a sorted map over byte strings.
package c06

import (
	"encoding/hex"
	"fmt"
	"iter"
	"sort"
	"strconv"
	"strings"
	"time"

	"github.com/moorara/algo/generic"
	"github.com/moorara/algo/trie"

	"verifharness/hx"
)

const Rule = "cases = (implementation, op sequence) drawn from VERIF_SEED, every stream run on both tries: keys of " +
	"1-5 bytes over small alphabets whose letters differ in exactly one bit at each bit position ({a,b}, {b,c}, {a,c}, " +
	"{a,b,c,d}, {00,01}, {7f,ff}, {80,00}, 'a' with each bit flipped) and over {00,7f,80,ff,a,*}, {a,b,*}; all mutators; " +
	"every query with present / absent / prefix-of-held / extension-of-held / empty arguments; WithPrefix, " +
	"LongestPrefixOf and Match for every prefix of held keys and every one-letter variation, patterns with * at every " +
	"position; the rest of trie.Trie on two registers: Traverse in the eight orders and an unknown order with visitors " +
	"that stop at every count, AnyMatch/AllMatch/FirstMatch/SelectMatch/PartitionMatch with predicates on keys and " +
	"values (result tries dumped and used as operands), Equal on copies differing in a value or a key, Height, IsEmpty; " +
	"Put/Get/Delete of the empty key (binary trie: documented panic; Patricia trie: Model comparison only); " +
	"every insertion order of small key sets; a state dump after every mutator; threshold sweeps (stream=keylen, stream=nkeys): keys of " +
	"L-1, L, L+1, L+2 bytes that are prefixes of each other (plus a sibling differing in byte L) for L = 1, 2, 63-65, 255-257, 1023-1025 " +
	"with WithPrefix / LongestPrefixOf / Match arguments of L-2 ... L+3 bytes and wildcards at positions 62-65, 254-257, L-2 ... L and from " +
	"position 64 on, and tries of N-1 ... N+2 keys for N = 0, 1, 2, 63-65, 255-257, 1023-1025, 4096, each queried at the ranks around every " +
	"threshold, shrunk below the size and grown past it again (quick tier: the sizes 1, 2, 64, 256, 1024, which contain their neighbours); " +
	"65536 keys (thorough: 65535, 65536, 65537, 70000): binary trie against its Model, Patricia trie judged by the oracle only (its " +
	"executable Model copies the node array on every Put); keys of 65536 bytes (thorough: 65535 ... 70000): both tries judged by the oracle " +
	"only (both Models rebuild keys byte by byte), the binary trie with Put/Get/Delete/Size/Height only in the quick tier (one walk of the " +
	"real code over a 64 KiB key takes a second); every slice a query returns is overwritten and appended to by the caller before the " +
	"next op; all2 = All() run twice, nested inside another iteration, and through two pull iterators advanced alternately (one abandoned " +
	"half-way), with separately obtained sequences AND re-entrantly on ONE sequence value (for range seq nested in for range seq, two " +
	"iter.Pull2 over the same value advanced in turn); hx Huge (thorough tier / witness search / enlarged budget): Patricia keys sharing " +
	"2^17+1, 2^18, 2^20 leading bytes (oracle only); equalself = t.Equal(t); non-trivial = the history deletes (Delete/DeleteMin/DeleteMax) a " +
	"held key that is a proper prefix or a proper extension of another held key; distinct = distinct (header, op list)"

type kv struct {
	k string
	v int
}

func enc(s string) string {
	if s == "" {
		return "-"
	}
	return hex.EncodeToString([]byte(s))
}

func dec(s string) (string, bool) {
	if s == "-" {
		return "", true
	}
	b, err := hex.DecodeString(s)
	return string(b), err == nil
}

func showKV(k string, v int, ok bool) string {
	if !ok {
		return "ok none"
	}
	return "ok some " + enc(k) + " " + strconv.Itoa(v)
}

func showList(l []kv) string {
	parts := make([]string, len(l))
	for i, e := range l {
		parts[i] = enc(e.k) + ":" + strconv.Itoa(e.v)
	}
	return "ok [" + strings.Join(parts, " ") + "]"
}

func fromKVs(l []generic.KeyValue[string, int]) []kv {
	out := make([]kv, len(l))
	for i, e := range l {
		out[i] = kv{e.Key, e.Val}
	}
	return out
}

// ---------------------------------------------------------------- oracle: sorted slice of strings + values

type oracle struct {
	raw   []string // the held keys; ascending (Go string order = lexicographic on bytes) unless dirty
	dirty bool
	val   map[string]int
	trim  map[string]int // number of held keys per key-with-trailing-0x00-bytes-removed
	bytes int            // total length of the held keys
}

func newOracle() *oracle { return &oracle{val: map[string]int{}, trim: map[string]int{}} }

// ks: the held keys in ascending order (sorted on demand, so that loading n keys costs n log n)
func (o *oracle) ks() []string {
	if o.dirty {
		sort.Strings(o.raw)
		o.dirty = false
	}
	return o.raw
}

func (o *oracle) put(k string, v int) {
	if _, ok := o.val[k]; !ok {
		if n := len(o.raw); n > 0 && o.raw[n-1] >= k {
			o.dirty = true
		}
		o.raw = append(o.raw, k)
		o.trim[trimNul(k)]++
		o.bytes += len(k)
	}
	o.val[k] = v
}

func (o *oracle) del(k string) {
	if _, ok := o.val[k]; ok {
		keys := o.ks()
		i := sort.SearchStrings(keys, k)
		o.raw = append(keys[:i], keys[i+1:]...)
		delete(o.val, k)
		if t := trimNul(k); o.trim[t] <= 1 {
			delete(o.trim, t)
		} else {
			o.trim[t]--
		}
		o.bytes -= len(k)
	}
}

func (o *oracle) filter(p func(string) bool) []kv {
	out := []kv{}
	for _, k := range o.ks() {
		if p(k) {
			out = append(out, kv{k, o.val[k]})
		}
	}
	return out
}

func matches(pat, k string) bool {
	if len(pat) != len(k) {
		return false
	}
	for i := 0; i < len(pat); i++ {
		if pat[i] != '*' && pat[i] != k[i] {
			return false
		}
	}
	return true
}

func trimNul(s string) string { return strings.TrimRight(s, "\x00") }

// nulClash: some held key differs from k only by trailing 0x00 bytes.
func (o *oracle) nulClash(k string) bool {
	c := o.trim[trimNul(k)]
	if _, held := o.val[k]; held {
		c--
	}
	return c > 0
}

// related: some other held key is a proper prefix / proper extension of k.
func (o *oracle) related(k string) (hasPrefix, hasExt bool) {
	keys := o.ks()
	if len(keys) <= len(k) {
		for _, h := range keys {
			if h != k && strings.HasPrefix(k, h) {
				hasPrefix = true
			}
		}
	} else {
		for n := 0; n < len(k); n++ {
			if _, held := o.val[k[:n]]; held {
				hasPrefix = true
			}
		}
	}
	// the extensions of k follow k immediately in ascending order
	i := sort.SearchStrings(keys, k)
	if i < len(keys) && keys[i] == k {
		i++
	}
	hasExt = i < len(keys) && strings.HasPrefix(keys[i], k)
	return
}

func sameList(a, b []kv) bool {
	if len(a) != len(b) {
		return false
	}
	for i := range a {
		if a[i] != b[i] {
			return false
		}
	}
	return true
}

func sorted(l []kv) []kv {
	c := append([]kv{}, l...)
	sort.Slice(c, func(i, j int) bool { return c[i].k < c[j].k })
	return c
}

// ---------------------------------------------------------------- executor

// Exec runs one case on the real trie package and checks every outcome against the sorted-map oracle.
func Exec(c hx.Case) hx.Result {
	comp := hx.HeaderGet(c.Header, "comp")
	res := hx.Result{BadOp: -1}
	tags := map[string]bool{"comp=" + comp: true}
	eq := generic.NewEqualFunc[int]()
	// two registers: every op applies to t ("a"); SelectMatch / PartitionMatch store their result in tb ("b"), swap
	// exchanges them. o / ob are the oracle's views of the two.
	var newTrie, otherTrie func() trie.Trie[int]
	switch comp {
	case "binary":
		newTrie = func() trie.Trie[int] { return trie.NewBinary[int](eq) }
		otherTrie = func() trie.Trie[int] { return trie.NewPatricia[int](eq) }
	case "patricia":
		newTrie = func() trie.Trie[int] { return trie.NewPatricia[int](eq) }
		otherTrie = func() trie.Trie[int] { return trie.NewBinary[int](eq) }
	default:
		for range c.Ops {
			res.Outs = append(res.Outs, "bad-case")
		}
		return res
	}
	t, tb := newTrie(), newTrie()
	o, ob := newOracle(), newOracle()
	// The property quantifies over non-empty keys. The Patricia trie accepts "" (the binary trie panics); while a
	// register holds "" the oracle is silent (e.g. LongestPrefixOf never reports ""), the Model comparison is not.
	emptyHeld := false
	bad := func(i int, sig string, format string, a ...any) {
		_, e1 := o.val[""]
		_, e2 := ob.val[""]
		if emptyHeld || e1 || e2 {
			tags["oracle-silent-while-empty-key-held"] = true
			return
		}
		if res.BadOp < 0 {
			res.BadOp = i
			res.Sig = sig
			res.What = comp + ": " + fmt.Sprintf(format, a...)
		}
	}
	key := func(s string) string { k, _ := dec(s); return k }
	long := len(c.Ops) > 3000 // a sweep over the number of keys

	for i, op := range c.Ops {
		f := strings.Fields(op)
		out := "bad-op"
		mutator := false
		_, e1 := o.val[""]
		_, e2 := ob.val[""]
		emptyHeld = e1 || e2
		expectPanic := false // Put/Get/Delete("") on the binary trie: documented panic; the property is about non-empty keys
		var kind string
		// every op runs under a watchdog of its own, except the Puts of a case that loads thousands of keys (a goroutine
		// and a timer per op; the case as a whole still runs under the watchdog of hx.Run.Do)
		watch := hx.WithTimeout
		if long && strings.HasPrefix(op, "put ") {
			watch = func(_ time.Duration, f func()) bool { f(); return true }
		}
		finished := watch(60*time.Second, func() {
			kind = hx.Try(func() {
				if len(f) == 0 {
					return
				}
				switch f[0] {
				case "put":
					mutator = true
					k := key(f[1])
					v, _ := strconv.Atoi(f[2])
					expectPanic = comp == "binary" && k == ""
					if k == "" {
						tags["put-empty-key"] = true
					}
					if _, held := o.val[k]; held {
						tags["put-update"] = true
					}
					if strings.ContainsRune(k, 0) {
						tags["key-with-00"] = true
					}
					if o.nulClash(k) {
						tags["put-key-equal-to-held-key-up-to-trailing-00"] = true
					}
					if strings.IndexFunc(k, func(r rune) bool { return r >= 0x80 }) >= 0 || !isASCII(k) {
						tags["key-with-byte>=80"] = true
					}
					t.Put(k, v)
					o.put(k, v)
					out = "ok"
				case "get":
					k := key(f[1])
					expectPanic = comp == "binary" && k == ""
					v, ok := t.Get(k)
					out = optInt(v, ok)
					wv, wok := o.val[k]
					if ok != wok || (ok && v != wv) {
						bad(i, "", "Get(%q) = (%d,%v), sorted map gives (%d,%v)", k, v, ok, wv, wok)
					}
				case "delete":
					mutator = true
					k := key(f[1])
					expectPanic = comp == "binary" && k == ""
					wv, wok := o.val[k]
					if wok {
						p, e := o.related(k)
						if p {
							tags["delete-key-with-held-prefix"] = true
							res.Nontrivial = true
						}
						if e {
							tags["delete-key-with-held-extension"] = true
							res.Nontrivial = true
						}
					} else {
						tags["delete-absent"] = true
						p, e := o.related(k)
						if p || e {
							tags["delete-absent-prefix-or-extension-of-held"] = true
						}
					}
					v, ok := t.Delete(k)
					out = optInt(v, ok)
					o.del(k)
					if ok != wok || (ok && v != wv) {
						bad(i, "", "Delete(%q) = (%d,%v), sorted map gives (%d,%v)", k, v, ok, wv, wok)
					}
				case "deletemin", "deletemax":
					mutator = true
					var wk string
					wok := len(o.ks()) > 0
					if wok {
						wk = o.ks()[0]
						if f[0] == "deletemax" {
							wk = o.ks()[len(o.ks())-1]
						}
						p, e := o.related(wk)
						if p {
							tags[f[0]+"-key-with-held-prefix"] = true
							res.Nontrivial = true
						}
						if e {
							tags[f[0]+"-key-with-held-extension"] = true
							res.Nontrivial = true
						}
					}
					wv := o.val[wk]
					var k string
					var v int
					var ok bool
					if f[0] == "deletemin" {
						k, v, ok = t.DeleteMin()
					} else {
						k, v, ok = t.DeleteMax()
					}
					out = showKV(k, v, ok)
					o.del(wk)
					if ok != wok || (ok && (k != wk || v != wv)) {
						bad(i, "", "%s = (%q,%d,%v), sorted map gives (%q,%d,%v)", f[0], k, v, ok, wk, wv, wok)
					}
				case "deleteall":
					mutator = true
					t.DeleteAll()
					o = newOracle()
					out = "ok"
				case "size":
					n := t.Size()
					out = "ok " + strconv.Itoa(n)
					if n != len(o.ks()) {
						bad(i, "", "Size() = %d, sorted map holds %d keys", n, len(o.ks()))
					}
				case "min", "max":
					var k string
					var v int
					var ok bool
					if f[0] == "min" {
						k, v, ok = t.Min()
					} else {
						k, v, ok = t.Max()
					}
					out = showKV(k, v, ok)
					wok := len(o.ks()) > 0
					var wk string
					if wok {
						wk = o.ks()[0]
						if f[0] == "max" {
							wk = o.ks()[len(o.ks())-1]
						}
					}
					if ok != wok || (ok && (k != wk || v != o.val[wk])) {
						bad(i, "", "%s = (%q,%d,%v), sorted map gives (%q,%v)", f[0], k, v, ok, wk, wok)
					}
				case "floor", "ceiling":
					a := key(f[1])
					var k string
					var v int
					var ok bool
					var wk string
					var wok bool
					if f[0] == "floor" {
						k, v, ok = t.Floor(a)
						j := sort.Search(len(o.ks()), func(j int) bool { return o.ks()[j] > a })
						if j > 0 {
							wk, wok = o.ks()[j-1], true
						}
					} else {
						k, v, ok = t.Ceiling(a)
						j := sort.SearchStrings(o.ks(), a)
						if j < len(o.ks()) {
							wk, wok = o.ks()[j], true
						}
					}
					out = showKV(k, v, ok)
					if ok != wok || (ok && (k != wk || v != o.val[wk])) {
						bad(i, "", "%s(%q) = (%q,%d,%v), sorted map gives (%q,%v)", f[0], a, k, v, ok, wk, wok)
					}
				case "select":
					r, _ := strconv.Atoi(f[1])
					k, v, ok := t.Select(r)
					out = showKV(k, v, ok)
					wok := r >= 0 && r < len(o.ks())
					var wk string
					if wok {
						wk = o.ks()[r]
					}
					if ok != wok || (ok && (k != wk || v != o.val[wk])) {
						bad(i, "", "Select(%d) = (%q,%d,%v), sorted map gives (%q,%v)", r, k, v, ok, wk, wok)
					}
				case "rank":
					a := key(f[1])
					n := t.Rank(a)
					out = "ok " + strconv.Itoa(n)
					if _, held := o.val[a]; !held {
						tags["rank-absent"] = true
					}
					if w := sort.SearchStrings(o.ks(), a); n != w {
						bad(i, "", "Rank(%q) = %d, %d held keys are smaller", a, n, w)
					}
				case "range", "rangesize":
					lo, hi := key(f[1]), key(f[2])
					want := o.filter(func(k string) bool { return lo <= k && k <= hi })
					if f[0] == "range" {
						res := t.Range(lo, hi)
						got := fromKVs(res)
						scribble(res)
						out = showList(got)
						if !sameList(got, want) {
							bad(i, "", "Range(%q,%q) = %v, sorted map gives %v", lo, hi, got, want)
						}
					} else {
						n := t.RangeSize(lo, hi)
						out = "ok " + strconv.Itoa(n)
						if n != len(want) {
							bad(i, "", "RangeSize(%q,%q) = %d, sorted map gives %d", lo, hi, n, len(want))
						}
					}
				case "all":
					got := []kv{}
					for k, v := range t.All() {
						got = append(got, kv{k, v})
					}
					out = showList(got)
					if want := o.filter(func(string) bool { return true }); !sameList(got, want) {
						bad(i, "", "All() = %v, sorted map gives %v (ascending)", got, want)
					}
				case "all2":
					// the iterator sequence obtained once and run twice; a complete iteration nested inside the first step
					// of another; two pull iterators advanced alternately, the second one abandoned half-way
					seq := t.All()
					got := collect(seq)
					out = showList(got)
					want := o.filter(func(string) bool { return true })
					tags["all2"] = true
					if !sameList(got, want) {
						bad(i, "", "All() = %v, sorted map gives %v (ascending)", got, want)
					} else if again := collect(seq); !sameList(again, want) {
						bad(i, "", "the sequence returned by All(), run a second time, yields %v, sorted map gives %v", again, want)
					} else {
						var outer, inner []kv
						for k, v := range t.All() {
							if len(outer) == 0 {
								inner = collect(t.All())
							}
							outer = append(outer, kv{k, v})
						}
						if !sameList(outer, want) || !sameList(inner, want) {
							bad(i, "", "an iteration of All() nested in the first step of another: outer %v, inner %v, sorted map gives %v", outer, inner, want)
						}
						next1, stop1 := iter.Pull2(seq)
						next2, stop2 := iter.Pull2(t.All())
						var l1, l2 []kv
						for {
							k1, v1, ok1 := next1()
							if !ok1 {
								break
							}
							l1 = append(l1, kv{k1, v1})
							if len(l2) < len(want)/2 {
								if k2, v2, ok2 := next2(); ok2 {
									l2 = append(l2, kv{k2, v2})
								}
							}
						}
						stop2()
						stop1()
						if !sameList(l1, want) || !sameList(l2, want[:len(l2)]) || len(l2) != len(want)/2 {
							bad(i, "", "two pull iterators over All() advanced alternately yield %v and (stopped half-way) %v, sorted map gives %v", l1, l2, want)
						}
						// re-entrancy on ONE sequence value: a run of `seq` nested inside the first, third, middle and last step of a
						// run of the same `seq` (the last inner run abandoned after one step), and two pull iterators made from that same value
						// advanced in turn — every run must yield the held pairs, whatever the other runs are doing
						if res.BadOp < 0 {
							var outerS []kv
							okInner := true
							for k, v := range seq {
								outerS = append(outerS, kv{k, v})
								if n := len(outerS); n == 1 || n == 3 || n == len(want)/2+1 || n == len(want) {
									var in []kv
									for k2, v2 := range seq {
										in = append(in, kv{k2, v2})
										if len(outerS) == len(want) {
											break
										}
									}
									if len(outerS) == len(want) {
										okInner = okInner && sameList(in, want[:len(in)])
									} else {
										okInner = okInner && sameList(in, want)
									}
								}
							}
							if !sameList(outerS, want) || !okInner {
								bad(i, "", "`for range seq` nested inside `for range seq` of the SAME sequence value: the outer run yields %v, sorted map gives %v (inner runs correct: %v)", outerS, want, okInner)
							}
							n1, s1 := iter.Pull2(seq)
							n2, s2 := iter.Pull2(seq)
							var p1, p2 []kv
							for {
								k1, v1, ok1 := n1()
								if ok1 {
									p1 = append(p1, kv{k1, v1})
								}
								k2, v2, ok2 := n2()
								if ok2 {
									p2 = append(p2, kv{k2, v2})
								}
								if !ok1 && !ok2 {
									break
								}
							}
							s1()
							s2()
							if !sameList(p1, want) || !sameList(p2, want) {
								bad(i, "", "two pull iterators over the SAME sequence value advanced in turn yield %v and %v, sorted map gives %v", p1, p2, want)
							}
						}
					}
				case "equalself":
					e := t.Equal(t)
					out = "ok " + strconv.FormatBool(e)
					if !e {
						bad(i, "", "t.Equal(t) = false")
					}
				case "withprefix":
					p := key(f[1])
					res := t.WithPrefix(p)
					got := fromKVs(res)
					scribble(res)
					out = showList(got)
					want := o.filter(func(k string) bool { return strings.HasPrefix(k, p) })
					if len(want) > 1 {
						tags["withprefix-several"] = true
					}
					if !sameList(sorted(got), want) {
						bad(i, "", "WithPrefix(%q) = %v, held keys starting with it: %v", p, got, want)
					}
				case "longestprefixof":
					s := key(f[1])
					k, v, ok := t.LongestPrefixOf(s)
					out = showKV(k, v, ok)
					cands := o.filter(func(k string) bool { return strings.HasPrefix(s, k) })
					wok := len(cands) > 0
					var wk string
					if wok {
						wk = cands[len(cands)-1].k // prefixes of s ascend with their length
						if len(cands) > 1 {
							tags["longestprefixof-several-candidates"] = true
						}
					}
					if ok != wok || (ok && (k != wk || v != o.val[wk])) {
						bad(i, "", "LongestPrefixOf(%q) = (%q,%d,%v), sorted map gives (%q,%v)", s, k, v, ok, wk, wok)
					}
				case "match":
					pat := key(f[1])
					res := t.Match(pat)
					got := fromKVs(res)
					scribble(res)
					out = showList(got)
					want := o.filter(func(k string) bool { return matches(pat, k) })
					if strings.Contains(pat, "*") {
						tags["match-with-star"] = true
					}
					if len(want) > 1 {
						tags["match-several"] = true
					}
					if !sameList(sorted(got), want) {
						bad(i, "", "Match(%q) = %v, held keys matching: %v", pat, got, want)
					}
				case "dump":
					out = "ok " + trie.VerifDump(t)
				case "isempty":
					e := t.IsEmpty()
					out = "ok " + strconv.FormatBool(e)
					if e != (len(o.ks()) == 0) {
						bad(i, "", "IsEmpty() = %v, sorted map holds %d keys", e, len(o.ks()))
					}
				case "height":
					h := t.Height()
					out = "ok " + strconv.Itoa(h)
					want := 0
					if comp == "binary" {
						want = binaryHeight(o.ks())
					} else {
						want = critbitHeight(o.ks())
					}
					if h != want {
						bad(i, "", "Height() = %d, the trie of the held keys %q has height %d", h, o.ks(), want)
					}
				case "traverse":
					ord, named := orderByName[f[1]]
					stop, _ := strconv.Atoi(f[2])
					got := []kv{}
					t.Traverse(ord, func(k string, v int) bool {
						got = append(got, kv{k, v})
						return len(got) != stop
					})
					out = showList(got)
					tags["traverse-"+f[1]] = true
					if stop >= 1 && len(got) == stop {
						tags["traverse-stopped-by-visitor"] = true
					}
					if msg := o.checkTraverse(comp, f[1], named && f[1] != "bad", stop, got); msg != "" {
						bad(i, "", "Traverse(%s) stopping at visit %d = %v: %s", f[1], stop, got, msg)
					}
				case "anymatch", "allmatch":
					p := parsePred(f[1])
					nsat := len(o.filter(func(k string) bool { return p(k, o.val[k]) }))
					var got, want bool
					if f[0] == "anymatch" {
						got, want = t.AnyMatch(p), nsat > 0
					} else {
						got, want = t.AllMatch(p), nsat == len(o.ks())
					}
					out = "ok " + strconv.FormatBool(got)
					if got != want {
						bad(i, "", "%s(%s) = %v, %d of the %d held pairs satisfy it", f[0], f[1], got, nsat, len(o.ks()))
					}
				case "firstmatch":
					p := parsePred(f[1])
					k, v, ok := t.FirstMatch(p)
					out = showKV(k, v, ok)
					sat := o.filter(func(k string) bool { return p(k, o.val[k]) })
					if ok != (len(sat) > 0) {
						bad(i, "", "FirstMatch(%s) ok=%v, %d held pairs satisfy it", f[1], ok, len(sat))
					} else if wv, held := o.val[k]; ok && (!held || wv != v || !p(k, v)) {
						bad(i, "", "FirstMatch(%s) = (%q,%d): not a held pair satisfying the predicate", f[1], k, v)
					}
				case "selectmatch":
					p := parsePred(f[1])
					r := t.SelectMatch(p).(trie.Trie[int])
					out = "ok " + trie.VerifDump(r)
					tb, ob = r, o.selectBy(p, true)
					if msg := ob.same(r); msg != "" {
						bad(i, "", "SelectMatch(%s): %s", f[1], msg)
					}
					if fmt.Sprintf("%T", r) != fmt.Sprintf("%T", t) {
						bad(i, "", "SelectMatch(%s) returned a %T, the receiver is a %T", f[1], r, t)
					}
				case "partitionmatch":
					p := parsePred(f[1])
					m0, u0 := t.PartitionMatch(p)
					m, u := m0.(trie.Trie[int]), u0.(trie.Trie[int])
					out = "ok " + trie.VerifDump(m) + " | " + trie.VerifDump(u)
					tb, ob = u, o.selectBy(p, false)
					if msg := o.selectBy(p, true).same(m); msg != "" {
						bad(i, "", "PartitionMatch(%s), matched part: %s", f[1], msg)
					} else if msg := ob.same(u); msg != "" {
						bad(i, "", "PartitionMatch(%s), unmatched part: %s", f[1], msg)
					}
				case "equal":
					e := t.Equal(tb)
					out = "ok " + strconv.FormatBool(e)
					want := len(o.ks()) == len(ob.ks())
					for _, k := range o.ks() {
						if v, held := ob.val[k]; !held || v != o.val[k] {
							want = false
						}
					}
					tags["equal-"+strconv.FormatBool(e)] = true
					if e != want {
						bad(i, "", "Equal = %v for tries holding %v and %v", e, o.filter(func(string) bool { return true }), ob.filter(func(string) bool { return true }))
					}
				case "equalother":
					// a trie of the other implementation holding the same pairs: Equal is about tries of the same kind
					x := otherTrie()
					for _, k := range o.ks() {
						if k != "" {
							x.Put(k, o.val[k])
						}
					}
					out = "ok " + strconv.FormatBool(t.Equal(x))
				case "swap":
					mutator = true
					t, tb = tb, t
					o, ob = ob, o
					out = "ok"
				}
			})
		})
		if !finished {
			res.Outs = append(res.Outs, "hang")
			bad(i, "", "%s did not return within 60s", op)
			break
		}
		if kind != "" {
			res.Outs = append(res.Outs, "panic")
			if expectPanic && kind == "explicit" {
				tags["binary-empty-key-panics"] = true
			} else {
				bad(i, "", "%s panicked (%s)", op, kind)
			}
			break
		}
		res.Outs = append(res.Outs, out)
		// The package's own verify() is consulted for the binary trie only: for the Patricia trie it rejects valid
		// tries (bitString.Sub returns the empty string when asked for more bits than the key has, so
		// _isPatricia fails as soon as a held key is shorter than a bit position on its path, e.g. {"bbaab","b"}).
		// verify() costs two Selects and two Ranks per held key, each a walk that rebuilds every key: it is asked after
		// every mutator while the trie is small (not while a sweep case loads its thousands of keys), at every 1024th op
		// while it is of medium size, and not above that.
		if mutator && res.BadOp < 0 && comp == "binary" && ((o.bytes <= 600 && !long) || (o.bytes <= 8192 && i%1024 == 0)) {
			ok := true
			if k := hx.Try(func() { ok = trie.VerifVerify(t) }); k != "" || !ok {
				bad(i, "", "the package's own invariant check verify() fails after %s", op)
			}
		}
	}
	for tg := range tags {
		res.Tags = append(res.Tags, tg)
	}
	sort.Strings(res.Tags)
	return res
}

// scribble: the caller owns a returned slice and may do with it what it likes: every entry is overwritten and
// the slice is appended to (which writes behind its length when it has spare capacity). A trie that handed out
// something it still uses answers the next query wrongly.
func scribble(res []generic.KeyValue[string, int]) {
	for i := range res {
		res[i] = generic.KeyValue[string, int]{Key: "\x00scribbled", Val: -1 - i}
	}
	res = append(res, generic.KeyValue[string, int]{Key: "\xffappended", Val: -99})
	if len(res) < cap(res) {
		res = res[:cap(res)]
		for i := range res {
			res[i].Val = -7
		}
	}
}

func collect(seq iter.Seq2[string, int]) []kv {
	out := []kv{}
	for k, v := range seq {
		out = append(out, kv{k, v})
	}
	return out
}

func isASCII(s string) bool {
	for i := 0; i < len(s); i++ {
		if s[i] >= 0x80 {
			return false
		}
	}
	return true
}

func optInt(v int, ok bool) string {
	if ok {
		return "ok some " + strconv.Itoa(v)
	}
	return "ok none"
}

// ---------------------------------------------------------------- oracle for the rest of trie.Trie

var orderByName = map[string]generic.TraverseOrder{
	"vlr": generic.VLR, "vrl": generic.VRL, "lvr": generic.LVR, "rvl": generic.RVL, "lrv": generic.LRV, "rlv": generic.RLV,
	"asc": generic.Ascending, "desc": generic.Descending, "bad": generic.TraverseOrder(99),
}

var orderNames = []string{"vlr", "vrl", "lvr", "rvl", "lrv", "rlv", "asc", "desc", "bad"}

// parsePred: true | false | vmod:<m>:<r> | klt:<hex> | kpre:<hex> | klen:<n>
func parsePred(s string) func(string, int) bool {
	f := strings.Split(s, ":")
	switch f[0] {
	case "true":
		return func(string, int) bool { return true }
	case "vmod":
		m, _ := strconv.Atoi(f[1])
		r, _ := strconv.Atoi(f[2])
		return func(_ string, v int) bool { return v%m == r }
	case "klt":
		h, _ := dec(f[1])
		return func(k string, _ int) bool { return k < h }
	case "kpre":
		h, _ := dec(f[1])
		return func(k string, _ int) bool { return strings.HasPrefix(k, h) }
	case "klen":
		n, _ := strconv.Atoi(f[1])
		return func(k string, _ int) bool { return len(k) == n }
	}
	return func(string, int) bool { return false }
}

// selectBy: the held pairs on which p is `want`
func (o *oracle) selectBy(p func(string, int) bool, want bool) *oracle {
	r := newOracle()
	for _, k := range o.ks() {
		if p(k, o.val[k]) == want {
			r.put(k, o.val[k])
		}
	}
	return r
}

// same: t holds exactly the oracle's pairs (read through Size and All)
func (o *oracle) same(t trie.Trie[int]) string {
	got := []kv{}
	for k, v := range t.All() {
		got = append(got, kv{k, v})
	}
	want := o.filter(func(string) bool { return true })
	if !sameList(got, want) || t.Size() != len(want) {
		return fmt.Sprintf("the result holds %v (Size %d), expected %v", got, t.Size(), want)
	}
	return ""
}

// binaryHeight: height of the left-child/right-sibling tree of the sorted, non-empty keys: the distinct first bytes
// form a chain of right links, the keys below a byte hang off its left link.
func binaryHeight(keys []string) int {
	type group struct{ sub []string }
	var groups []group
	for i := 0; i < len(keys); {
		j := i
		g := group{}
		for j < len(keys) && keys[j][0] == keys[i][0] {
			if len(keys[j]) > 1 {
				g.sub = append(g.sub, keys[j][1:])
			}
			j++
		}
		groups = append(groups, g)
		i = j
	}
	h := 0
	for i := len(groups) - 1; i >= 0; i-- {
		h = 1 + max(binaryHeight(groups[i].sub), h)
	}
	return h
}

// critbitHeight: height of the crit-bit tree of the keys (n keys = n-1 branching nodes; the Patricia trie stores it in
// its downward links): branch on the first position at which the keys differ, positions being the bits of the
// zero-padded keys followed by one "has at least i bytes" position per byte.
func critbitHeight(keys []string) int {
	maxLen := 0
	for _, k := range keys {
		maxLen = max(maxLen, len(k))
	}
	return critbitFrom(keys, 0, maxLen)
}

// critbitFrom: the keys agree on every position before `from` (positions beyond the longest key of a subset never
// split it, so one numbering serves all subsets)
func critbitFrom(keys []string, from, maxLen int) int {
	if len(keys) <= 1 {
		return 0
	}
	bit := func(k string, pos int) bool {
		if pos < 8*maxLen {
			if pos/8 >= len(k) {
				return false
			}
			return k[pos/8]&(0x80>>(pos%8)) != 0
		}
		return len(k) >= pos-8*maxLen+1
	}
	for pos := from; pos < 9*maxLen; pos++ {
		ones := 0
		for _, k := range keys {
			if bit(k, pos) {
				ones++
			}
		}
		if ones == 0 || ones == len(keys) {
			continue
		}
		var zero, one []string
		for _, k := range keys {
			if bit(k, pos) {
				one = append(one, k)
			} else {
				zero = append(zero, k)
			}
		}
		return 1 + max(critbitFrom(zero, pos+1, maxLen), critbitFrom(one, pos+1, maxLen))
	}
	return 0
}

// checkTraverse: what Traverse may show a visitor that stops at its stop-th call.
// Patricia: the held pairs — each once; in ascending / descending key order for asc / desc.
// Binary: one visit per node: ("", 0) for the sentinel root and (last byte of p, value of p or 0) for every non-empty
// prefix p of a held key. An order that is not one of the eight constants visits nothing.
func (o *oracle) checkTraverse(comp, order string, valid bool, stop int, got []kv) string {
	if !valid {
		if len(got) != 0 {
			return "an unknown order must not visit anything"
		}
		return ""
	}
	var all []kv
	if comp == "patricia" {
		all = o.filter(func(string) bool { return true })
		if order == "desc" {
			for i, j := 0, len(all)-1; i < j; i, j = i+1, j-1 {
				all[i], all[j] = all[j], all[i]
			}
		}
	} else {
		all = append(all, kv{"", 0})
		seen := map[string]bool{}
		for _, k := range o.ks() {
			for n := 1; n <= len(k); n++ {
				if p := k[:n]; !seen[p] {
					seen[p] = true
					all = append(all, kv{p[n-1:], o.val[p]})
				}
			}
		}
	}
	want := len(all)
	if stop >= 1 && stop < want {
		want = stop
	}
	if len(got) != want {
		return fmt.Sprintf("%d visits, expected %d", len(got), want)
	}
	if comp == "patricia" && (order == "asc" || order == "desc") {
		if !sameList(got, all[:want]) {
			return fmt.Sprintf("expected %v", all[:want])
		}
		return ""
	}
	left := map[kv]int{}
	for _, e := range all {
		left[e]++
	}
	for _, e := range got {
		if left[e] == 0 {
			return fmt.Sprintf("visit (%q,%d) is not a node of the trie (or shown too often)", e.k, e.v)
		}
		left[e]--
	}
	return ""
}

// ---------------------------------------------------------------- generators

// alphabets: small, so that prefix relations are dense, and chosen so that letters differ in exactly one bit at
// every bit position of a byte (the Patricia trie branches on single bits: "bc" differ in the last bit only, "ac" in
// the seventh, "7fff" in the first, "flip" holds 'a' and 'a' with each single bit flipped)
var alphabets = map[string][]byte{
	"ab":     []byte("ab"),
	"bc":     []byte("bc"),
	"ac":     []byte("ac"),
	"abcd":   []byte("abcd"),
	"0001":   {0x00, 0x01},
	"7fff":   {0x7f, 0xff},
	"8000":   {0x80, 0x00},
	"flip":   {0x61, 0x60, 0x63, 0x65, 0x69, 0x71, 0x41, 0x21, 0xe1},
	"bytes":  {0x00, 0x7f, 0x80, 0xff, 'a', '*'},
	"abstar": []byte("ab*"),
	"a0bc":   {0x00, 'a', 'b', 'c'},
	"star":   {'*', '+', 'a'},
}

var alphabetNames = []string{"ab", "bc", "ac", "abcd", "0001", "7fff", "8000", "flip", "bytes", "abstar", "a0bc", "star"}

type gen struct {
	r      *hx.Rand
	al     []byte
	maxLen int
	held   *oracle // what the history holds so far in register a (to aim arguments)
	heldB  *oracle // ... in register b
	ops    []string
	clash  bool // aim at keys equal up to trailing 0x00 bytes
}

func (g *gen) randKey() string {
	n := g.r.Range(1, g.maxLen)
	b := make([]byte, n)
	for i := range b {
		b[i] = hx.Pick(g.r, g.al)
	}
	return string(b)
}

// arg draws a query/delete argument: random, held, extension of held, prefix of held, (for queries) empty.
func (g *gen) arg(allowEmpty bool) string {
	x := g.r.Intn(100)
	if len(g.held.ks()) == 0 || x < 25 {
		return g.randKey()
	}
	h := hx.Pick(g.r, g.held.ks())
	switch {
	case x < 55:
		return h
	case x < 75:
		return h + string(hx.Pick(g.r, g.al))
	case x < 92:
		if len(h) > 1 {
			return h[:len(h)-g.r.Range(1, len(h)-1)]
		}
		return h
	default:
		if allowEmpty {
			return ""
		}
		return h
	}
}

func (g *gen) pattern() string {
	b := []byte(g.arg(true))
	switch g.r.Intn(4) {
	case 0: // one star, any position
		if len(b) > 0 {
			b[g.r.Intn(len(b))] = '*'
		}
	case 1, 2:
		for i := range b {
			if g.r.Chance(1, 3) {
				b[i] = '*'
			}
		}
	}
	return string(b)
}

// pred draws a predicate over (key, value), aimed at the current contents.
func (g *gen) pred() string {
	switch g.r.Intn(9) {
	case 0:
		return "true"
	case 1:
		return "false"
	case 2:
		return "vmod:2:" + strconv.Itoa(g.r.Intn(2))
	case 3:
		return "vmod:3:" + strconv.Itoa(g.r.Intn(3))
	case 4, 5:
		return "klt:" + enc(g.arg(true))
	case 6, 7:
		return "kpre:" + enc(g.arg(true))
	default:
		return "klen:" + strconv.Itoa(g.r.Range(0, g.maxLen))
	}
}

func (g *gen) b() *oracle {
	if g.heldB == nil {
		g.heldB = newOracle()
	}
	return g.heldB
}

func (g *gen) traverse() {
	o := hx.Pick(g.r, orderNames)
	if o == "bad" && g.r.Bool() { // the unknown order half as often
		o = hx.Pick(g.r, orderNames)
	}
	stop := -1
	if g.r.Bool() {
		stop = g.r.Range(0, 2*len(g.held.ks())+2)
	}
	g.emit("traverse %s %d", o, stop)
}

// pairOp: an operation that involves register b
func (g *gen) pairOp() {
	switch x := g.r.Intn(100); {
	case x < 30:
		p := g.pred()
		g.emit("selectmatch %s", p)
		g.heldB = g.held.selectBy(parsePred(p), true)
	case x < 50:
		p := g.pred()
		g.emit("partitionmatch %s", p)
		g.heldB = g.held.selectBy(parsePred(p), false)
	case x < 75:
		g.emit("swap")
		g.held, g.heldB = g.b(), g.held
		g.emit("dump")
	case x < 95:
		g.emit("equal")
	default:
		g.emit("equalother")
	}
}

// pairBattery: Equal on a copy, on a copy differing in one value, in one key (both inclusions), after a partition.
func (g *gen) pairBattery() {
	g.emit("selectmatch true")
	g.heldB = g.held.selectBy(parsePred("true"), true)
	g.emit("equal")
	g.emit("equalother")
	if len(g.held.ks()) > 0 {
		h := hx.Pick(g.r, g.held.ks())
		if h != "" {
			v := g.held.val[h]
			g.emit("put %s %d", enc(h), v+1)
			g.emit("equal")
			g.emit("swap")
			g.emit("equal")
			g.emit("swap")
			g.emit("put %s %d", enc(h), v)
			g.emit("equal")
			g.emit("delete %s", enc(h))
			g.held.del(h)
			g.emit("dump")
			g.emit("equal")
			g.emit("swap")
			g.emit("equal")
			g.emit("swap")
		}
	}
	p := g.pred()
	g.emit("partitionmatch %s", p)
	g.heldB = g.held.selectBy(parsePred(p), false)
	g.emit("equal")
}

func (g *gen) emit(format string, a ...any) { g.ops = append(g.ops, fmt.Sprintf(format, a...)) }

func (g *gen) mutate() {
	x := g.r.Intn(100)
	switch {
	case x < 55:
		k := g.randKey()
		if g.r.Chance(1, 3) {
			k = g.arg(false) // re-put a held key, or put a prefix / an extension of one
		}
		if g.clash && len(g.held.ks()) > 0 && g.r.Chance(1, 3) {
			// aim at keys that differ by trailing 0x00 bytes only (D9e): a held key with 0x00 appended, or with its
			// trailing 0x00 bytes removed
			h := hx.Pick(g.r, g.held.ks())
			if t := trimNul(h); t != h && t != "" && g.r.Bool() {
				k = t
			} else {
				k = h + "\x00"
			}
		}
		v := g.r.Intn(100)
		g.emit("put %s %d", enc(k), v)
		g.held.put(k, v)
	case x < 82:
		k := g.arg(false)
		g.emit("delete %s", enc(k))
		g.held.del(k)
	case x < 90:
		g.emit("deletemin")
		if len(g.held.ks()) > 0 {
			g.held.del(g.held.ks()[0])
		}
	case x < 98:
		g.emit("deletemax")
		if len(g.held.ks()) > 0 {
			g.held.del(g.held.ks()[len(g.held.ks())-1])
		}
	default:
		g.emit("deleteall")
		g.held = newOracle()
	}
	g.emit("dump")
}

func (g *gen) query() {
	switch g.r.Intn(24) {
	case 22:
		g.emit("all2")
	case 23:
		g.emit("equalself")
	case 15:
		g.emit("isempty")
	case 16:
		g.emit("height")
	case 17, 18:
		g.traverse()
	case 19:
		g.emit("anymatch %s", g.pred())
	case 20:
		g.emit("allmatch %s", g.pred())
	case 21:
		g.emit("firstmatch %s", g.pred())
	case 0:
		g.emit("size")
	case 1:
		g.emit("get %s", enc(g.arg(false)))
	case 2:
		g.emit("min")
	case 3:
		g.emit("max")
	case 4:
		g.emit("floor %s", enc(g.arg(true)))
	case 5:
		g.emit("ceiling %s", enc(g.arg(true)))
	case 6:
		g.emit("select %d", g.r.Range(-1, len(g.held.ks())+1))
	case 7:
		g.emit("rank %s", enc(g.arg(true)))
	case 8:
		g.emit("range %s %s", enc(g.arg(true)), enc(g.arg(true)))
	case 9:
		g.emit("rangesize %s %s", enc(g.arg(true)), enc(g.arg(true)))
	case 10:
		g.emit("all")
	case 11:
		g.emit("withprefix %s", enc(g.arg(true)))
	case 12:
		g.emit("longestprefixof %s", enc(g.arg(true)))
	default:
		g.emit("match %s", enc(g.pattern()))
	}
}

// battery: every query once, aimed at the current contents; patterns with * at every position of a held key.
func (g *gen) battery() {
	g.emit("size")
	g.emit("all")
	g.emit("all2")
	g.emit("equalself")
	g.emit("min")
	g.emit("max")
	for _, q := range []string{"get", "floor", "ceiling", "rank", "withprefix", "longestprefixof"} {
		g.emit("%s %s", q, enc(g.arg(q != "get")))
	}
	g.emit("select %d", g.r.Range(-1, len(g.held.ks())))
	g.emit("range %s %s", enc(g.arg(true)), enc(g.arg(true)))
	g.emit("rangesize %s %s", enc(g.arg(true)), enc(g.arg(true)))
	if len(g.held.ks()) > 0 {
		h := hx.Pick(g.r, g.held.ks())
		for i := 0; i < len(h); i++ {
			b := []byte(h)
			b[i] = '*'
			g.emit("match %s", enc(string(b)))
		}
		g.emit("match %s", enc(strings.Repeat("*", len(h))))
	}
	g.emit("match %s", enc(g.pattern()))
	g.emit("isempty")
	g.emit("height")
	g.traverse()
	g.traverse()
	g.emit("anymatch %s", g.pred())
	g.emit("allmatch %s", g.pred())
	g.emit("firstmatch %s", g.pred())
}

// variations of k: k itself and k with each single position replaced by every other letter of the alphabet
func (g *gen) variations(k string) []string {
	out := []string{k}
	for i := 0; i < len(k); i++ {
		for _, c := range g.al {
			if c != k[i] {
				b := []byte(k)
				b[i] = c
				out = append(out, string(b))
			}
		}
	}
	return out
}

// denseBattery: the string queries for every prefix of every held key (at most `limit` keys) and every one-letter
// variation of it; every one-letter extension for LongestPrefixOf; Match with a wildcard at each position of the key and
// of its variations.
func (g *gen) denseBattery(limit int) {
	keys := g.held.ks()
	if len(keys) > limit {
		i := g.r.Intn(len(keys) - limit + 1)
		keys = keys[i : i+limit]
	}
	seenP, seenL, seenM := map[string]bool{}, map[string]bool{}, map[string]bool{}
	g.emit("withprefix -")
	g.emit("longestprefixof -")
	for _, h := range keys {
		for n := 1; n <= len(h); n++ {
			for _, p := range g.variations(h[:n]) {
				if !seenP[p] {
					seenP[p] = true
					g.emit("withprefix %s", enc(p))
				}
				if !seenL[p] {
					seenL[p] = true
					g.emit("longestprefixof %s", enc(p))
				}
			}
		}
		for _, c := range g.al {
			if e := h + string(c); !seenL[e] {
				seenL[e] = true
				g.emit("longestprefixof %s", enc(e))
			}
		}
		pats := []string{strings.Repeat("*", len(h))}
		for _, vk := range g.variations(h) {
			pats = append(pats, vk)
			for i := 0; i < len(vk); i++ {
				b := []byte(vk)
				b[i] = '*'
				pats = append(pats, string(b))
			}
		}
		if len(h) > 1 {
			pats = append(pats, h[:len(h)-1], h[:len(h)-1]+"*", "*"+h[1:])
		}
		pats = append(pats, h+"*")
		for _, p := range pats {
			if !seenM[p] {
				seenM[p] = true
				g.emit("match %s", enc(p))
			}
		}
	}
}

func genOps(r *hx.Rand, alpha string, n int, clash bool) []string {
	g := &gen{r: r, al: alphabets[alpha], maxLen: 4, held: newOracle(), clash: clash}
	if alpha == "ab" {
		g.maxLen = 5
	}
	if r.Chance(1, 3) { // the first key is the longest
		b := make([]byte, g.maxLen+2)
		for i := range b {
			b[i] = hx.Pick(r, g.al)
		}
		g.emit("put %s %d", enc(string(b)), r.Intn(100))
		g.held.put(string(b), 0)
		g.emit("dump")
	}
	for len(g.ops) < n {
		switch x := r.Intn(100); {
		case x < 38:
			g.mutate()
		case x < 88:
			g.query()
		case x < 93:
			g.pairOp()
		case x < 94:
			g.pairBattery()
		case x < 97:
			g.battery()
		default:
			g.denseBattery(3)
		}
	}
	g.battery()
	g.denseBattery(6)
	if r.Chance(1, 3) {
		g.pairBattery()
	}
	return g.ops
}

// ---------------------------------------------------------------- threshold sweeps (sizes at which code switches)

// sweepSizes: the sizes programmers pick as thresholds (a uint64 mask, a uint8, a block, a uint16) and their
// neighbours; used for the length of a key in bytes and for the number of held keys.
var sweepSizes = []int{1, 2, 63, 64, 65, 255, 256, 257, 1023, 1024, 1025}

func stars(n int) string { return strings.Repeat("*", n) }

func starAt(k string, pos ...int) string {
	b := []byte(k)
	for _, i := range pos {
		if i >= 0 && i < len(b) {
			b[i] = '*'
		}
	}
	return string(b)
}

func clip(s string, n int) string {
	if n < 0 {
		n = 0
	}
	if n > len(s) {
		n = len(s)
	}
	return s[:n]
}

func uniq(xs []string) []string {
	seen := map[string]bool{}
	out := []string{}
	for _, x := range xs {
		if !seen[x] {
			seen[x] = true
			out = append(out, x)
		}
	}
	return out
}

// keyLenOps: a trie whose longest keys have L-1, L and L+1 bytes and are prefixes / extensions of each other (plus a
// sibling that differs in byte L only, an extension of the sibling and a few short prefixes), queried with WithPrefix,
// LongestPrefixOf and Match arguments of L-2 … L+3 bytes and wildcards at positions 62 … 65, 254 … 257 and L-2 … L;
// then the longest keys are deleted one by one (shrinking below L), put back (growing past L) and queried on each side.
// weight 0: Put/Get/Delete/Size/Height only (the binary trie rebuilds every key byte by byte on every walk: one query
// on a 64 KiB key takes a second); 1: the string queries and the ordered queries; 2: plus dumps, traversals and the
// queries that print every key.
func keyLenOps(r *hx.Rand, al []byte, L, weight int) []string {
	g := &gen{r: r, al: al, maxLen: 4, held: newOracle()}
	b := make([]byte, L+3)
	uniform := r.Chance(1, 3)
	for i := range b {
		b[i] = hx.Pick(r, al)
		if uniform {
			b[i] = b[0] // one letter throughout: with 0x00 the keys differ in their length positions only
		}
	}
	B := string(b)
	c := al[0] // a letter other than byte L of B
	for _, x := range al {
		if x != B[L-1] {
			c = x
		}
	}
	sib := B[:L-1] + string(c)
	keys := uniq([]string{B[:L], B[:L+1], sib, sib + B[L:L+1], clip(B, L-1), clip(B, 1), clip(B, 2), clip(B, L/2), clip(B, L-2) + string(c)})
	r2 := r.Fork("order")
	for i := len(keys) - 1; i > 0; i-- {
		j := r2.Intn(i + 1)
		keys[i], keys[j] = keys[j], keys[i]
	}
	put := func(k string) {
		if k != "" {
			v := r.Intn(100)
			g.emit("put %s %d", enc(k), v)
			g.held.put(k, v)
			if weight >= 2 {
				g.emit("dump")
			}
		}
	}
	del := func(k string) {
		if k != "" {
			g.emit("delete %s", enc(k))
			g.held.del(k)
			if weight >= 2 {
				g.emit("dump")
			}
		}
	}
	strQueries := func() {
		for _, p := range uniq([]string{clip(B, L-2), clip(B, L-1), B[:L], B[:L+1], B[:L+2], sib, sib + B[L:L+1], clip(B, 1), clip(B, L/2), clip(B, 64), clip(B, 256)}) {
			g.emit("withprefix %s", enc(p))
		}
		for _, q := range uniq([]string{B, B[:L+2], B[:L+1], B[:L], clip(B, L-1), clip(B, L-2), sib + B[L:], sib, B[:L] + string(c), clip(B, L/2) + string(c), clip(B, 65), clip(B, 257)}) {
			g.emit("longestprefixof %s", enc(q))
		}
		pats := []string{B[:L], starAt(B[:L], 0), starAt(B[:L], L-1), starAt(B[:L], L-2), starAt(B[:L+1], L), starAt(B[:L+1], L-1, L),
			starAt(B[:L], 62), starAt(B[:L], 63), starAt(B[:L], 64), starAt(B[:L], 65), starAt(B[:L+1], 63, 64), starAt(B[:L], 254), starAt(B[:L], 255),
			starAt(B[:L], 256), starAt(B[:L], 257), starAt(B[:L+1], 1023, 1024), clip(B, L-1) + "*", clip(B, L-1) + "**", "*" + B[1:L],
			stars(L - 1), stars(L), stars(L + 1), stars(L + 2)}
		if L > 64 { // every position from 64 on is a wildcard
			pats = append(pats, B[:64]+stars(L-64), B[:64]+stars(L-63), B[:63]+stars(L-63))
		}
		for _, p := range uniq(pats) {
			g.emit("match %s", enc(p))
		}
	}
	ordQueries := func() {
		g.emit("min")
		g.emit("max")
		for _, a := range uniq([]string{B[:L], B[:L] + string(c), B[:L+2], clip(B, L-1), sib}) {
			g.emit("floor %s", enc(a))
			g.emit("ceiling %s", enc(a))
			g.emit("rank %s", enc(a))
		}
		for i := -1; i <= len(g.held.ks()); i++ {
			g.emit("select %d", i)
		}
		g.emit("range %s %s", enc(clip(B, L-1)), enc(B[:L+1]))
		g.emit("rangesize %s %s", enc(clip(B, 1)), enc(B[:L+2]))
		g.emit("rangesize %s %s", enc(sib), enc(sib+B[L:]))
	}
	queries := func() {
		g.emit("size")
		g.emit("height")
		for _, k := range uniq([]string{B[:L], B[:L+1], B[:L+2], clip(B, L-1), sib}) {
			if k != "" {
				g.emit("get %s", enc(k))
			}
		}
		if weight >= 1 {
			strQueries()
			ordQueries()
		}
		if weight >= 2 {
			g.emit("all")
			g.emit("all2")
			g.emit("equalself")
			g.emit("withprefix -")
			g.emit("traverse asc -1")
			g.emit("traverse vlr %d", r.Range(1, 4))
			g.emit("firstmatch klen:%d", L)
			g.emit("anymatch klen:%d", L+1)
			g.emit("allmatch kpre:%s", enc(clip(B, 1)))
			g.emit("selectmatch klen:%d", L)
			g.emit("equal")
		}
	}
	// after a mutation: everything again, or (long keys: the binary trie and both Models rebuild every key byte by byte on
	// every walk, and a 64 KiB argument is 128 KiB of text) the queries whose
	// answer the mutation changes
	again := queries
	if L > 512 {
		again = func() {
			g.emit("size")
			g.emit("get %s", enc(B[:L]))
			g.emit("get %s", enc(B[:L+1]))
			if weight >= 1 {
				g.emit("longestprefixof %s", enc(B))
				g.emit("longestprefixof %s", enc(sib+B[L:]))
				g.emit("withprefix %s", enc(clip(B, L-1)))
				g.emit("match %s", enc(stars(L)))
				g.emit("match %s", enc(B[:64]+stars(L-63)))
				g.emit("rank %s", enc(B[:L+1]))
				g.emit("max")
			}
		}
	}
	for _, k := range keys {
		put(k)
	}
	queries()
	del(B[:L]) // a key that is a prefix and an extension of held keys
	again()
	del(B[:L+1]) // the longest held key now has L bytes (the sibling and its extension) or L-1
	del(sib + B[L:L+1])
	again()
	put(B[:L]) // back to L, then past it
	put(B[:L+2])
	again()
	if weight >= 1 {
		g.emit("deletemax")
		g.emit("deletemin")
	}
	g.emit("size")
	if weight >= 1 {
		g.emit("longestprefixof %s", enc(B))
		g.emit("withprefix %s", enc(clip(B, L-1)))
		g.emit("match %s", enc(stars(L)))
	}
	if weight >= 2 {
		g.emit("dump")
		g.emit("all")
	}
	return g.ops
}

// distinctKeys draws n distinct non-empty keys over the alphabet, as short as the alphabet allows (so that prefix
// relations stay dense).
func distinctKeys(r *hx.Rand, al []byte, n int) []string {
	maxLen, room := 1, len(al)
	for room < 3*n+8 {
		maxLen++
		room = room*len(al) + len(al)
	}
	seen := map[string]bool{}
	out := make([]string, 0, n)
	for len(out) < n {
		b := make([]byte, r.Range(1, maxLen))
		for i := range b {
			b[i] = hx.Pick(r, al)
		}
		if k := string(b); !seen[k] {
			seen[k] = true
			out = append(out, k)
		}
	}
	return out
}

// nKeysOps: N-1 keys are put (in random, ascending or descending order), then the N-th, the N+1-th and the N+2-th, each
// followed by a battery of queries aimed at the ranks around every threshold; then three keys are deleted (back below
// N), the battery again, DeleteMin / DeleteMax, the battery again. small: every battery is the full one, with a state
// dump and the queries that print the whole trie. Otherwise (tens of thousands of keys; Rank, Floor and Ceiling of
// both tries walk the whole trie) the full battery runs once, with exactly N keys, and the other sizes get the brief
// one - unless `dense` (thorough tier).
func nKeysOps(r *hx.Rand, al []byte, N int, small, dense bool) []string {
	g := &gen{r: r, al: al, maxLen: 4, held: newOracle()}
	keys := distinctKeys(r, al, N+3)
	first := keys[:max(N-1, 0)]
	switch r.Intn(3) {
	case 0:
		sort.Strings(first)
	case 1:
		sort.Sort(sort.Reverse(sort.StringSlice(first)))
	}
	put := func(k string, i int) {
		g.emit("put %s %d", enc(k), i)
		g.held.put(k, i)
	}
	low, high := string(al[0]), string(al[len(al)-1])
	battery := func(full bool) {
		ks := g.held.ks()
		n := len(ks)
		g.emit("size")
		g.emit("isempty")
		if full {
			g.emit("height")
		}
		g.emit("min")
		g.emit("max")
		ranks := []int{-1, 0, n - 1, n}
		if full {
			ranks = append(ranks, n/2, n+1)
			if small {
				ranks = append(ranks, 1, 2, n-2)
			}
			for _, t := range []int{64, 256, 1024, 65536} {
				if n >= t-2 && (small || t > 1024) {
					ranks = append(ranks, t-2, t-1, t, t+1)
				}
			}
		}
		seen := map[int]bool{}
		for _, i := range ranks {
			if seen[i] || i < -1 || i > n+1 {
				continue
			}
			seen[i] = true
			g.emit("select %d", i)
			if i >= 0 && i < n {
				k := ks[i]
				g.emit("get %s", enc(k))
				g.emit("rank %s", enc(k))
				if full {
					absent := k + low // the successor of k among all strings over the alphabet, mostly absent
					if small || i%2 == 0 {
						g.emit("floor %s", enc(absent))
						g.emit("rank %s", enc(absent))
					}
					if small || i%2 == 1 {
						g.emit("ceiling %s", enc(absent))
					}
					g.emit("longestprefixof %s", enc(absent+high))
				}
			}
		}
		if !full {
			return
		}
		if n >= 2 {
			g.emit("rangesize %s %s", enc(ks[0]), enc(ks[n-1]))
			g.emit("rangesize %s %s", enc(ks[1]), enc(ks[n-2]))
			lo, hi := max(0, min(n-1, 60)), min(n-1, 70)
			g.emit("range %s %s", enc(ks[lo]), enc(ks[hi]))
			lo, hi = max(0, n-5), n-1
			g.emit("range %s %s", enc(ks[lo]), enc(ks[hi]))
			g.emit("rangesize %s %s", enc(ks[n/2]), enc(ks[n/3]))
		}
		for _, x := range al[:min(len(al), 2)] {
			g.emit("withprefix %s", enc(string(x)+high))
			g.emit("match %s", enc(string(x)+"**"))
		}
		g.emit("match %s", enc(stars(2)))
		g.emit("match %s", enc(starAt(g.arg(false), 0)))
		g.emit("longestprefixof %s", enc(g.arg(false)+low+low))
		g.emit("traverse asc %d", hx.Pick(r, []int{1, 63, 64, 65, 255, 256, 257}))
		g.emit("traverse desc %d", hx.Pick(r, []int{1, 63, 64, 65, 255, 256, 257}))
		g.emit("anymatch klt:%s", enc(low))
		g.emit("allmatch klt:%s", enc(high+high))
		g.emit("firstmatch vmod:%d:%d", max(n, 1), max(n, 1)-1)
		if small {
			g.emit("dump")
			g.emit("all")
			g.emit("all2")
			g.emit("equalself")
			g.emit("withprefix -")
			g.emit("withprefix %s", enc(low))
			g.emit("traverse lvr -1")
			g.emit("selectmatch vmod:2:0")
			g.emit("equal")
		}
	}
	for i, k := range first {
		put(k, i)
	}
	battery(small || dense)
	for j := max(N-1, 0); j < N+2; j++ {
		put(keys[j], j)
		battery(small || dense || j == N-1)
	}
	if !small {
		// the whole content once: in ascending order, and copied by SelectMatch into the other register
		g.emit("all")
		g.emit("all2")
		g.emit("equalself")
		g.emit("selectmatch vmod:3:1")
		g.emit("equal")
		g.emit("swap")
		g.emit("size")
		g.emit("height")
		g.emit("swap")
	}
	for j := 0; j < 3 && len(g.held.ks()) > 0; j++ {
		k := hx.Pick(r, g.held.ks())
		g.emit("delete %s", enc(k))
		g.held.del(k)
	}
	battery(small || dense)
	g.emit("deletemin")
	if ks := g.held.ks(); len(ks) > 0 {
		g.held.del(ks[0])
	}
	g.emit("deletemax")
	if ks := g.held.ks(); len(ks) > 0 {
		g.held.del(ks[len(ks)-1])
	}
	battery(small)
	return g.ops
}

// sweepAlphabets: dense prefixes; bytes at both ends of the range (0x00: keys that differ in their length only);
// four letters; arbitrary bytes with the wildcard character
var sweepAlphabets = []string{"ab", "0001", "7fff", "abcd", "bytes"}

func sweeps(run *hx.Run) {
	r := run.R.Fork("sweeps")
	rot := int(run.Seed % 1000)
	pickAlpha := func(i int) string { return sweepAlphabets[(i+rot)%len(sweepAlphabets)] }
	// a case of size S holds S-1 … S+2 (bytes, keys): the quick tier runs the sizes 0, 1, 2, 64, 256, 1024 (which cover
	// 63-66, 255-258, 1023-1026), the thorough tier every size, each with every alphabet
	reps, sizes := 1, []int{1, 2, 64, 256, 1024}
	if run.Thorough() {
		reps, sizes = len(sweepAlphabets), sweepSizes
	}
	one := func(comp, hdr string, ops []string, noModel bool) {
		run.Do(comp, hx.Case{Header: "comp=" + comp + " " + hdr, Ops: ops, NoModel: noModel}, Exec)
	}
	for rep := 0; rep < reps; rep++ {
		// ---- length of a key
		for i, L := range sizes {
			alpha := pickAlpha(i + rep)
			both(run, fmt.Sprintf("alpha=%s stream=keylen len=%d", alpha, L), keyLenOps(r, alphabets[alpha], L, 2))
		}
		// ---- number of keys
		for i, N := range append([]int{0}, sizes...) {
			alpha := pickAlpha(i + rep + 2)
			both(run, fmt.Sprintf("alpha=%s stream=nkeys n=%d", alpha, N), nKeysOps(r, alphabets[alpha], N, true, false))
		}
		// 4096 keys: the largest size at which both Models keep up with every query
		alpha := pickAlpha(rep + 1)
		both(run, fmt.Sprintf("alpha=%s stream=nkeys n=4096", alpha), nKeysOps(r, alphabets[alpha], 4096, false, false))
	}
	// ---- 64 KiB keys, judged by the oracle only (both Models rebuild keys byte by byte: minutes). Patricia trie: the
	// string and ordered queries. Binary trie: Put/Get/Delete/Size/Height in the quick tier, the queries (about a second
	// each: every walk rebuilds the key byte by byte) once in the thorough tier.
	bigL := []int{65536}
	if run.Thorough() {
		bigL = []int{65535, 65536, 65537, 70000}
	}
	for i, L := range bigL {
		alpha := pickAlpha(i)
		hdr := fmt.Sprintf("alpha=%s stream=keylen len=%d", alpha, L)
		one("patricia", hdr, keyLenOps(r, alphabets[alpha], L, 1), true)
		w := 0
		if run.Thorough() && i == 1 {
			w = 1
		}
		one("binary", hdr, keyLenOps(r, alphabets[alpha], L, w), true)
	}
	// ---- 65535 … 70000 keys: one case walks through N-1, N, N+1, N+2 keys and back. The binary trie is compared with
	// its Model; the Patricia Model copies its node array on every Put (a minute for 65536 keys): oracle only.
	bigN := []int{65536}
	if run.Thorough() {
		bigN = []int{65535, 65536, 65537, 70000}
	}
	for i, N := range bigN {
		alpha := pickAlpha(i + 3)
		ops := nKeysOps(r, alphabets[alpha], N, false, run.Thorough() && i == 1)
		hdr := fmt.Sprintf("alpha=%s stream=nkeys n=%d", alpha, N)
		one("binary", hdr, ops, false)
		one("patricia", hdr, ops, true)
	}
	// ---- Patricia keys that agree on more than 2^17 leading bytes (first differing bit beyond position 2^20): too much
	// text for every quick run (hx Huge: thorough tier, witness search, enlarged budget), oracle only. LongestPrefixOf
	// is asked only where it answers at once (it looks up every prefix of its argument).
	if run.Huge() {
		for i, share := range []int{1<<17 + 1, 1 << 18, 1 << 20} {
			al := alphabets[pickAlpha(i)]
			b := make([]byte, share)
			for j := range b {
				b[j] = hx.Pick(r, al)
			}
			P := string(b)
			x, y := string(al[0]), string(al[len(al)-1])
			k1, k2, k3 := P+x, P+y, P+y+x
			ops := []string{"put " + enc(k1) + " 1", "size", "put " + enc(k2) + " 2", "put " + enc(k3) + " 3", "size",
				"get " + enc(k1), "get " + enc(k2), "get " + enc(k3), "get " + enc(P), "min", "max", "all", "all2",
				"rank " + enc(k2), "floor " + enc(P+y), "ceiling " + enc(P), "select 1", "withprefix " + enc(P), "withprefix " + enc(P+y),
				"match " + enc(P+"*"), "longestprefixof " + enc(k3), "rangesize " + enc(k1) + " " + enc(k3),
				"delete " + enc(k2), "get " + enc(k2), "get " + enc(k3), "all", "put " + enc(P) + " 4", "get " + enc(P), "withprefix " + enc(P),
				"deletemax", "deletemin", "all", "size"}
			one("patricia", fmt.Sprintf("alpha=%s stream=sharedprefix share=%d", pickAlpha(i), share), ops, true)
		}
		run.Stats.Extra["huge"] = "Patricia trie: keys sharing 2^17+1, 2^18 and 2^20 leading bytes (oracle only)"
	}
	run.Stats.Extra["threshold_sweeps"] = fmt.Sprintf("key length L and number of keys N at 0/1/2, 63-65, 255-257, 1023-1025 and N=4096 (%d alphabets each), compared with the Models; "+
		"%v-byte keys (oracle only), %v keys (binary trie vs Model, Patricia trie oracle only); each case holds L-1/L/L+1-byte keys that are prefixes of "+
		"each other (N-1 … N+2 keys), runs the battery, shrinks below the size, grows past it again", reps, bigL, bigN)
}

var comps = []string{"binary", "patricia"}

// both runs one op stream on both implementations.
func both(run *hx.Run, hdr string, ops []string) {
	for _, comp := range comps {
		h := "comp=" + comp
		if hdr != "" {
			h += " " + hdr
		}
		run.Do(comp, hx.Case{Header: h, Ops: ops}, Exec)
	}
}

// exhaustive enumerates every op sequence of the given length over the alphabet.
func exhaustive(alpha []string, n int, f func([]string)) {
	idx := make([]int, n)
	for {
		ops := make([]string, n)
		for i, k := range idx {
			ops[i] = alpha[k]
		}
		f(ops)
		i := n - 1
		for i >= 0 {
			idx[i]++
			if idx[i] < len(alpha) {
				break
			}
			idx[i] = 0
			i--
		}
		if i < 0 {
			return
		}
	}
}

// fixedBattery: every query with every argument of a small universe over the letters x < y (used after exhaustive
// histories and insertion orders).
func fixedBattery(universe []string, x, y byte) []string {
	X, Y := string(x), string(y)
	ops := []string{"dump", "size", "all", "all2", "equalself", "min", "max"}
	args := append([]string{""}, universe...)
	for _, a := range args {
		if a != "" {
			ops = append(ops, "get "+enc(a))
		}
		for _, q := range []string{"floor", "ceiling", "rank", "withprefix", "longestprefixof", "match"} {
			ops = append(ops, q+" "+enc(a))
		}
	}
	for _, p := range []string{"*", "**", X + "*", "*" + Y, "*" + X, Y + "*", "***", X + "**", "*" + Y + "*", "**" + Y, X + "*" + X} {
		ops = append(ops, "match "+enc(p))
	}
	for _, p := range []string{X + Y + X + Y, Y + Y + Y, X + X + X, Y + X + X} {
		ops = append(ops, "longestprefixof "+enc(p), "withprefix "+enc(p))
	}
	for i := -1; i <= 3; i++ {
		ops = append(ops, fmt.Sprintf("select %d", i))
	}
	for _, lohi := range [][2]string{{"", Y}, {X, X + Y}, {X + X, Y}, {X + Y, X}, {Y, Y + Y}} {
		ops = append(ops, "range "+enc(lohi[0])+" "+enc(lohi[1]), "rangesize "+enc(lohi[0])+" "+enc(lohi[1]))
	}
	ops = append(ops, "isempty", "height")
	for _, o := range orderNames {
		ops = append(ops, "traverse "+o+" -1")
	}
	ops = append(ops, "traverse lvr 2", "traverse rlv 1", "traverse asc 2", "traverse desc 2")
	for _, p := range []string{"vmod:2:0", "klt:" + enc(X+Y), "kpre:" + enc(Y)} {
		ops = append(ops, "anymatch "+p, "allmatch "+p, "firstmatch "+p)
	}
	ops = append(ops, "selectmatch vmod:2:1", "equal", "swap", "equal", "swap", "partitionmatch kpre:"+enc(X), "equal", "selectmatch true", "equal", "equalother")
	return ops
}

// universeOf: the six keys x, y, xx, xy, yx, xyx
func universeOf(x, y byte) []string {
	X, Y := string(x), string(y)
	return []string{X, Y, X + X, X + Y, Y + X, X + Y + X}
}

// orders calls f with every ordered selection of k distinct elements of xs.
func orders(xs []string, k int, f func([]string)) {
	used := make([]bool, len(xs))
	cur := []string{}
	var rec func()
	rec = func() {
		if len(cur) == k {
			f(append([]string{}, cur...))
			return
		}
		for i, x := range xs {
			if !used[i] {
				used[i] = true
				cur = append(cur, x)
				rec()
				cur = cur[:len(cur)-1]
				used[i] = false
			}
		}
	}
	rec()
}

// letter pairs whose members differ in exactly one bit, one pair per bit position, plus {a,b}
var pairs = [][2]byte{{'b', 'c'}, {'a', 'c'}, {'a', 'e'}, {'a', 'i'}, {'a', 'q'}, {'A', 'a'}, {'!', 'a'}, {0x7f, 0xff}, {'a', 'b'}, {0x01, 0x02},
	{'*', 'a'}, {'*', '+'}, {0x00, 'a'}}

// explicit universes: keys with an interior 0x00 below a shorter key, keys with literal '*' bytes, a long first key
var universes = [][]string{
	{"a", "a\x00b", "a\x00c", "a\x00", "ab"},
	{"a", "a\x00\x00b", "a\x00", "a\x00b", "b"},
	{"*", "a", "*a", "a*", "**", "+"},
	{"abcab", "ab", "abc", "a", "abcabc"},
}

func Main(run *hx.Run) {
	run.Stats.Rule = Rule
	for _, f := range hx.CorpusFiles("C06") {
		cs, _ := hx.ReadReplay(f)
		for _, c := range cs {
			run.Do(hx.HeaderGet(c.Header, "comp"), c, Exec)
		}
	}
	for _, alpha := range alphabetNames {
		r := run.R.Fork(alpha)
		n := run.Scale(40)
		for k := 0; k < n; k++ {
			length := r.Range(10, 100)
			both(run, "alpha="+alpha, genOps(r, alpha, length, false))
		}
	}
	// every insertion order of every set of up to 3 (thorough: 5) keys out of x, y, xx, xy, yx, xyx, for letter pairs
	// differing in one bit at each bit position, followed by every query with every argument of the universe
	{
		maxSet := 3
		if run.Thorough() {
			maxSet = 5
		}
		for _, pr := range pairs {
			u := universeOf(pr[0], pr[1])
			bat := fixedBattery(u, pr[0], pr[1])
			for k := 1; k <= maxSet; k++ {
				orders(u, k, func(keys []string) {
					var ops []string
					for i, key := range keys {
						ops = append(ops, fmt.Sprintf("put %s %d", enc(key), i+1))
					}
					both(run, fmt.Sprintf("alpha=%02x%02x stream=orders", pr[0], pr[1]), append(ops, bat...))
				})
			}
		}
		for ui, u := range universes {
			letters := map[byte]bool{}
			for _, k := range u {
				for i := 0; i < len(k); i++ {
					letters[k[i]] = true
				}
			}
			g := &gen{r: run.R.Fork(fmt.Sprintf("universe%d", ui)), held: newOracle()}
			for c := range letters {
				g.al = append(g.al, c)
			}
			sort.Slice(g.al, func(i, j int) bool { return g.al[i] < g.al[j] })
			for _, k := range u {
				g.held.put(k, 0)
			}
			g.emit("dump")
			g.emit("all")
			g.denseBattery(len(u))
			bat := g.ops
			maxU := maxSet + 1
			if maxU > len(u) {
				maxU = len(u)
			}
			for k := 1; k <= maxU; k++ {
				orders(u, k, func(keys []string) {
					var ops []string
					for i, key := range keys {
						ops = append(ops, fmt.Sprintf("put %s %d", enc(key), i+1))
					}
					both(run, fmt.Sprintf("universe=%d stream=orders", ui), append(ops, bat...))
				})
			}
		}
		run.Stats.Extra["insertion_orders"] = fmt.Sprintf("all ordered selections of up to %d of the keys x,y,xx,xy,yx,xyx for %d letter pairs, both tries", maxSet, len(pairs))
	}
	sweeps(run)
	// keys equal up to trailing 0x00 bytes (D9e): the zero-padded bit strings coincide, only the length positions differ
	for _, alpha := range []string{"bytes", "0001", "8000"} {
		r := run.R.Fork("nul-" + alpha)
		for k := 0; k < run.Scale(15); k++ {
			both(run, "alpha="+alpha+" stream=trailing-nul", genOps(r, alpha, r.Range(20, 60), true))
		}
	}
	// the empty key: Put/Get/Delete("") end a case on the binary trie (documented panic); the Patricia trie goes on with
	// "" among its keys (Model comparison only: the property is about non-empty keys)
	{
		r := run.R.Fork("emptykey")
		for k := 0; k < run.Scale(12); k++ {
			alpha := hx.Pick(r, []string{"ab", "a0bc", "0001"})
			ops := genOps(r, alpha, r.Range(8, 40), false)
			at := r.Intn(len(ops)/2 + 1)
			ins := []string{hx.Pick(r, []string{fmt.Sprintf("put - %d", r.Intn(100)), "get -", "delete -"})}
			if r.Bool() {
				ins = []string{fmt.Sprintf("put - %d", r.Intn(100)), "dump", "get -", "all", "delete -", "dump"}[:r.Range(1, 6)]
			}
			full := append(append(append([]string{}, ops[:at]...), ins...), ops[at:]...)
			both(run, "alpha="+alpha+" stream=emptykey", full)
		}
	}
	if run.Thorough() {
		// every history of length ≤ 4 over put/delete of six {b,c}-keys (the letters differ in the last bit only) + DeleteMin + DeleteMax, each followed
		// by every query with every argument of the universe
		universe := universeOf('b', 'c')
		var alpha []string
		for i, k := range universe {
			alpha = append(alpha, fmt.Sprintf("put %s %d", enc(k), i+1))
		}
		for _, k := range universe {
			alpha = append(alpha, "delete "+enc(k))
		}
		alpha = append(alpha, "deletemin", "deletemax")
		bat := fixedBattery(universe, 'b', 'c')
		for n := 1; n <= 4; n++ {
			exhaustive(alpha, n, func(ops []string) {
				var full []string
				for _, op := range ops {
					full = append(full, op, "dump")
				}
				both(run, "alpha=bc stream=exhaustive", append(full, bat...))
			})
		}
		run.Stats.Exhaustive = true
		run.Stats.Extra["exhaustive_part"] = "all histories of length<=4 over 14 mutators (put/delete of b,c,bb,bc,cb,bcb; DeleteMin; DeleteMax), " +
			"both tries, each followed by every query with every argument of the universe"
	}
}
