// Package c06: binary trie and Patricia trie (trie package) against a sorted map over byte strings.
package c06

import (
	"encoding/hex"
	"fmt"
	"sort"
	"strconv"
	"strings"
	"time"

	"github.com/moorara/algo/generic"
	"github.com/moorara/algo/trie"

	"verifharness/hx"
)

const Rule = "cases = (implementation, op sequence) drawn from VERIF_SEED, every stream run on both tries: keys of " +
	"1-5 bytes over small alphabets whose letters differ in exactly one bit at each bit position ({a,b}, {b,c}, {a,c}, " +
	"{a,b,c,d}, {00,01}, {7f,ff}, {80,00}, 'a' with each bit flipped) and over {00,7f,80,ff,a,*}, {a,b,*}; all mutators; " +
	"every query with present / absent / prefix-of-held / extension-of-held / empty arguments; WithPrefix, " +
	"LongestPrefixOf and Match for every prefix of held keys and every one-letter variation, patterns with * at every " +
	"position; the rest of trie.Trie on two registers: Traverse in the eight orders and an unknown order with visitors " +
	"that stop at every count, AnyMatch/AllMatch/FirstMatch/SelectMatch/PartitionMatch with predicates on keys and " +
	"values (result tries dumped and used as operands), Equal on copies differing in a value or a key, Height, IsEmpty; " +
	"Put/Get/Delete of the empty key (binary trie: documented panic; Patricia trie: Model comparison only); " +
	"every insertion order of small key sets; a state dump after every mutator; non-trivial = the history deletes (Delete/DeleteMin/DeleteMax) a " +
	"held key that is a proper prefix or a proper extension of another held key; distinct = distinct (header, op list)"

type kv struct {
	k string
	v int
}

func enc(s string) string {
	if s == "" {
		return "-"
	}
	return hex.EncodeToString([]byte(s))
}

func dec(s string) (string, bool) {
	if s == "-" {
		return "", true
	}
	b, err := hex.DecodeString(s)
	return string(b), err == nil
}

func showKV(k string, v int, ok bool) string {
	if !ok {
		return "ok none"
	}
	return "ok some " + enc(k) + " " + strconv.Itoa(v)
}

func showList(l []kv) string {
	parts := make([]string, len(l))
	for i, e := range l {
		parts[i] = enc(e.k) + ":" + strconv.Itoa(e.v)
	}
	return "ok [" + strings.Join(parts, " ") + "]"
}

func fromKVs(l []generic.KeyValue[string, int]) []kv {
	out := make([]kv, len(l))
	for i, e := range l {
		out[i] = kv{e.Key, e.Val}
	}
	return out
}

// ---------------------------------------------------------------- oracle: sorted slice of strings + values

type oracle struct {
	keys []string // ascending (Go string order = lexicographic on bytes)
	val  map[string]int
}

func newOracle() *oracle { return &oracle{val: map[string]int{}} }

func (o *oracle) put(k string, v int) {
	if _, ok := o.val[k]; !ok {
		i := sort.SearchStrings(o.keys, k)
		o.keys = append(o.keys, "")
		copy(o.keys[i+1:], o.keys[i:])
		o.keys[i] = k
	}
	o.val[k] = v
}

func (o *oracle) del(k string) {
	if _, ok := o.val[k]; ok {
		i := sort.SearchStrings(o.keys, k)
		o.keys = append(o.keys[:i], o.keys[i+1:]...)
		delete(o.val, k)
	}
}

func (o *oracle) filter(p func(string) bool) []kv {
	out := []kv{}
	for _, k := range o.keys {
		if p(k) {
			out = append(out, kv{k, o.val[k]})
		}
	}
	return out
}

func matches(pat, k string) bool {
	if len(pat) != len(k) {
		return false
	}
	for i := 0; i < len(pat); i++ {
		if pat[i] != '*' && pat[i] != k[i] {
			return false
		}
	}
	return true
}

func trimNul(s string) string { return strings.TrimRight(s, "\x00") }

// nulClash: some held key differs from k only by trailing 0x00 bytes.
func (o *oracle) nulClash(k string) bool {
	for _, h := range o.keys {
		if h != k && trimNul(h) == trimNul(k) {
			return true
		}
	}
	return false
}

// related: some other held key is a proper prefix / proper extension of k.
func (o *oracle) related(k string) (hasPrefix, hasExt bool) {
	for _, h := range o.keys {
		if h == k {
			continue
		}
		if strings.HasPrefix(k, h) {
			hasPrefix = true
		}
		if strings.HasPrefix(h, k) {
			hasExt = true
		}
	}
	return
}

func sameList(a, b []kv) bool {
	if len(a) != len(b) {
		return false
	}
	for i := range a {
		if a[i] != b[i] {
			return false
		}
	}
	return true
}

func sorted(l []kv) []kv {
	c := append([]kv{}, l...)
	sort.Slice(c, func(i, j int) bool { return c[i].k < c[j].k })
	return c
}

// ---------------------------------------------------------------- executor

// Exec runs one case on the real trie package and checks every outcome against the sorted-map oracle.
func Exec(c hx.Case) hx.Result {
	comp := hx.HeaderGet(c.Header, "comp")
	res := hx.Result{BadOp: -1}
	tags := map[string]bool{"comp=" + comp: true}
	eq := generic.NewEqualFunc[int]()
	// two registers: every op applies to t ("a"); SelectMatch / PartitionMatch store their result in tb ("b"), swap
	// exchanges them. o / ob are the oracle's views of the two.
	var newTrie, otherTrie func() trie.Trie[int]
	switch comp {
	case "binary":
		newTrie = func() trie.Trie[int] { return trie.NewBinary[int](eq) }
		otherTrie = func() trie.Trie[int] { return trie.NewPatricia[int](eq) }
	case "patricia":
		newTrie = func() trie.Trie[int] { return trie.NewPatricia[int](eq) }
		otherTrie = func() trie.Trie[int] { return trie.NewBinary[int](eq) }
	default:
		for range c.Ops {
			res.Outs = append(res.Outs, "bad-case")
		}
		return res
	}
	t, tb := newTrie(), newTrie()
	o, ob := newOracle(), newOracle()
	// The property quantifies over non-empty keys. The Patricia trie accepts "" (the binary trie panics); while a
	// register holds "" the oracle is silent (e.g. LongestPrefixOf never reports ""), the Model comparison is not.
	emptyHeld := false
	bad := func(i int, sig string, format string, a ...any) {
		_, e1 := o.val[""]
		_, e2 := ob.val[""]
		if emptyHeld || e1 || e2 {
			tags["oracle-silent-while-empty-key-held"] = true
			return
		}
		if res.BadOp < 0 {
			res.BadOp = i
			res.Sig = sig
			res.What = comp + ": " + fmt.Sprintf(format, a...)
		}
	}
	key := func(s string) string { k, _ := dec(s); return k }

	for i, op := range c.Ops {
		f := strings.Fields(op)
		out := "bad-op"
		mutator := false
		_, e1 := o.val[""]
		_, e2 := ob.val[""]
		emptyHeld = e1 || e2
		expectPanic := false // Put/Get/Delete("") on the binary trie: documented panic; the property is about non-empty keys
		var kind string
		finished := hx.WithTimeout(5*time.Second, func() {
			kind = hx.Try(func() {
				if len(f) == 0 {
					return
				}
				switch f[0] {
				case "put":
					mutator = true
					k := key(f[1])
					v, _ := strconv.Atoi(f[2])
					expectPanic = comp == "binary" && k == ""
					if k == "" {
						tags["put-empty-key"] = true
					}
					if _, held := o.val[k]; held {
						tags["put-update"] = true
					}
					if strings.ContainsRune(k, 0) {
						tags["key-with-00"] = true
					}
					if o.nulClash(k) {
						tags["put-key-equal-to-held-key-up-to-trailing-00"] = true
					}
					if strings.IndexFunc(k, func(r rune) bool { return r >= 0x80 }) >= 0 || !isASCII(k) {
						tags["key-with-byte>=80"] = true
					}
					t.Put(k, v)
					o.put(k, v)
					out = "ok"
				case "get":
					k := key(f[1])
					expectPanic = comp == "binary" && k == ""
					v, ok := t.Get(k)
					out = optInt(v, ok)
					wv, wok := o.val[k]
					if ok != wok || (ok && v != wv) {
						bad(i, "", "Get(%q) = (%d,%v), sorted map gives (%d,%v)", k, v, ok, wv, wok)
					}
				case "delete":
					mutator = true
					k := key(f[1])
					expectPanic = comp == "binary" && k == ""
					wv, wok := o.val[k]
					if wok {
						p, e := o.related(k)
						if p {
							tags["delete-key-with-held-prefix"] = true
							res.Nontrivial = true
						}
						if e {
							tags["delete-key-with-held-extension"] = true
							res.Nontrivial = true
						}
					} else {
						tags["delete-absent"] = true
						p, e := o.related(k)
						if p || e {
							tags["delete-absent-prefix-or-extension-of-held"] = true
						}
					}
					v, ok := t.Delete(k)
					out = optInt(v, ok)
					o.del(k)
					if ok != wok || (ok && v != wv) {
						bad(i, "", "Delete(%q) = (%d,%v), sorted map gives (%d,%v)", k, v, ok, wv, wok)
					}
				case "deletemin", "deletemax":
					mutator = true
					var wk string
					wok := len(o.keys) > 0
					if wok {
						wk = o.keys[0]
						if f[0] == "deletemax" {
							wk = o.keys[len(o.keys)-1]
						}
						p, e := o.related(wk)
						if p {
							tags[f[0]+"-key-with-held-prefix"] = true
							res.Nontrivial = true
						}
						if e {
							tags[f[0]+"-key-with-held-extension"] = true
							res.Nontrivial = true
						}
					}
					wv := o.val[wk]
					var k string
					var v int
					var ok bool
					if f[0] == "deletemin" {
						k, v, ok = t.DeleteMin()
					} else {
						k, v, ok = t.DeleteMax()
					}
					out = showKV(k, v, ok)
					o.del(wk)
					if ok != wok || (ok && (k != wk || v != wv)) {
						bad(i, "", "%s = (%q,%d,%v), sorted map gives (%q,%d,%v)", f[0], k, v, ok, wk, wv, wok)
					}
				case "deleteall":
					mutator = true
					t.DeleteAll()
					o = newOracle()
					out = "ok"
				case "size":
					n := t.Size()
					out = "ok " + strconv.Itoa(n)
					if n != len(o.keys) {
						bad(i, "", "Size() = %d, sorted map holds %d keys", n, len(o.keys))
					}
				case "min", "max":
					var k string
					var v int
					var ok bool
					if f[0] == "min" {
						k, v, ok = t.Min()
					} else {
						k, v, ok = t.Max()
					}
					out = showKV(k, v, ok)
					wok := len(o.keys) > 0
					var wk string
					if wok {
						wk = o.keys[0]
						if f[0] == "max" {
							wk = o.keys[len(o.keys)-1]
						}
					}
					if ok != wok || (ok && (k != wk || v != o.val[wk])) {
						bad(i, "", "%s = (%q,%d,%v), sorted map gives (%q,%v)", f[0], k, v, ok, wk, wok)
					}
				case "floor", "ceiling":
					a := key(f[1])
					var k string
					var v int
					var ok bool
					var wk string
					var wok bool
					if f[0] == "floor" {
						k, v, ok = t.Floor(a)
						j := sort.Search(len(o.keys), func(j int) bool { return o.keys[j] > a })
						if j > 0 {
							wk, wok = o.keys[j-1], true
						}
					} else {
						k, v, ok = t.Ceiling(a)
						j := sort.SearchStrings(o.keys, a)
						if j < len(o.keys) {
							wk, wok = o.keys[j], true
						}
					}
					out = showKV(k, v, ok)
					if ok != wok || (ok && (k != wk || v != o.val[wk])) {
						bad(i, "", "%s(%q) = (%q,%d,%v), sorted map gives (%q,%v)", f[0], a, k, v, ok, wk, wok)
					}
				case "select":
					r, _ := strconv.Atoi(f[1])
					k, v, ok := t.Select(r)
					out = showKV(k, v, ok)
					wok := r >= 0 && r < len(o.keys)
					var wk string
					if wok {
						wk = o.keys[r]
					}
					if ok != wok || (ok && (k != wk || v != o.val[wk])) {
						bad(i, "", "Select(%d) = (%q,%d,%v), sorted map gives (%q,%v)", r, k, v, ok, wk, wok)
					}
				case "rank":
					a := key(f[1])
					n := t.Rank(a)
					out = "ok " + strconv.Itoa(n)
					if _, held := o.val[a]; !held {
						tags["rank-absent"] = true
					}
					if w := sort.SearchStrings(o.keys, a); n != w {
						bad(i, "", "Rank(%q) = %d, %d held keys are smaller", a, n, w)
					}
				case "range", "rangesize":
					lo, hi := key(f[1]), key(f[2])
					want := o.filter(func(k string) bool { return lo <= k && k <= hi })
					if f[0] == "range" {
						got := fromKVs(t.Range(lo, hi))
						out = showList(got)
						if !sameList(got, want) {
							bad(i, "", "Range(%q,%q) = %v, sorted map gives %v", lo, hi, got, want)
						}
					} else {
						n := t.RangeSize(lo, hi)
						out = "ok " + strconv.Itoa(n)
						if n != len(want) {
							bad(i, "", "RangeSize(%q,%q) = %d, sorted map gives %d", lo, hi, n, len(want))
						}
					}
				case "all":
					got := []kv{}
					for k, v := range t.All() {
						got = append(got, kv{k, v})
					}
					out = showList(got)
					if want := o.filter(func(string) bool { return true }); !sameList(got, want) {
						bad(i, "", "All() = %v, sorted map gives %v (ascending)", got, want)
					}
				case "withprefix":
					p := key(f[1])
					got := fromKVs(t.WithPrefix(p))
					out = showList(got)
					want := o.filter(func(k string) bool { return strings.HasPrefix(k, p) })
					if len(want) > 1 {
						tags["withprefix-several"] = true
					}
					if !sameList(sorted(got), want) {
						bad(i, "", "WithPrefix(%q) = %v, held keys starting with it: %v", p, got, want)
					}
				case "longestprefixof":
					s := key(f[1])
					k, v, ok := t.LongestPrefixOf(s)
					out = showKV(k, v, ok)
					cands := o.filter(func(k string) bool { return strings.HasPrefix(s, k) })
					wok := len(cands) > 0
					var wk string
					if wok {
						wk = cands[len(cands)-1].k // prefixes of s ascend with their length
						if len(cands) > 1 {
							tags["longestprefixof-several-candidates"] = true
						}
					}
					if ok != wok || (ok && (k != wk || v != o.val[wk])) {
						bad(i, "", "LongestPrefixOf(%q) = (%q,%d,%v), sorted map gives (%q,%v)", s, k, v, ok, wk, wok)
					}
				case "match":
					pat := key(f[1])
					got := fromKVs(t.Match(pat))
					out = showList(got)
					want := o.filter(func(k string) bool { return matches(pat, k) })
					if strings.Contains(pat, "*") {
						tags["match-with-star"] = true
					}
					if len(want) > 1 {
						tags["match-several"] = true
					}
					if !sameList(sorted(got), want) {
						bad(i, "", "Match(%q) = %v, held keys matching: %v", pat, got, want)
					}
				case "dump":
					out = "ok " + trie.VerifDump(t)
				case "isempty":
					e := t.IsEmpty()
					out = "ok " + strconv.FormatBool(e)
					if e != (len(o.keys) == 0) {
						bad(i, "", "IsEmpty() = %v, sorted map holds %d keys", e, len(o.keys))
					}
				case "height":
					h := t.Height()
					out = "ok " + strconv.Itoa(h)
					want := 0
					if comp == "binary" {
						want = binaryHeight(o.keys)
					} else {
						want = critbitHeight(o.keys)
					}
					if h != want {
						bad(i, "", "Height() = %d, the trie of the held keys %q has height %d", h, o.keys, want)
					}
				case "traverse":
					ord, named := orderByName[f[1]]
					stop, _ := strconv.Atoi(f[2])
					got := []kv{}
					t.Traverse(ord, func(k string, v int) bool {
						got = append(got, kv{k, v})
						return len(got) != stop
					})
					out = showList(got)
					tags["traverse-"+f[1]] = true
					if stop >= 1 && len(got) == stop {
						tags["traverse-stopped-by-visitor"] = true
					}
					if msg := o.checkTraverse(comp, f[1], named && f[1] != "bad", stop, got); msg != "" {
						bad(i, "", "Traverse(%s) stopping at visit %d = %v: %s", f[1], stop, got, msg)
					}
				case "anymatch", "allmatch":
					p := parsePred(f[1])
					nsat := len(o.filter(func(k string) bool { return p(k, o.val[k]) }))
					var got, want bool
					if f[0] == "anymatch" {
						got, want = t.AnyMatch(p), nsat > 0
					} else {
						got, want = t.AllMatch(p), nsat == len(o.keys)
					}
					out = "ok " + strconv.FormatBool(got)
					if got != want {
						bad(i, "", "%s(%s) = %v, %d of the %d held pairs satisfy it", f[0], f[1], got, nsat, len(o.keys))
					}
				case "firstmatch":
					p := parsePred(f[1])
					k, v, ok := t.FirstMatch(p)
					out = showKV(k, v, ok)
					sat := o.filter(func(k string) bool { return p(k, o.val[k]) })
					if ok != (len(sat) > 0) {
						bad(i, "", "FirstMatch(%s) ok=%v, %d held pairs satisfy it", f[1], ok, len(sat))
					} else if wv, held := o.val[k]; ok && (!held || wv != v || !p(k, v)) {
						bad(i, "", "FirstMatch(%s) = (%q,%d): not a held pair satisfying the predicate", f[1], k, v)
					}
				case "selectmatch":
					p := parsePred(f[1])
					r := t.SelectMatch(p).(trie.Trie[int])
					out = "ok " + trie.VerifDump(r)
					tb, ob = r, o.selectBy(p, true)
					if msg := ob.same(r); msg != "" {
						bad(i, "", "SelectMatch(%s): %s", f[1], msg)
					}
					if fmt.Sprintf("%T", r) != fmt.Sprintf("%T", t) {
						bad(i, "", "SelectMatch(%s) returned a %T, the receiver is a %T", f[1], r, t)
					}
				case "partitionmatch":
					p := parsePred(f[1])
					m0, u0 := t.PartitionMatch(p)
					m, u := m0.(trie.Trie[int]), u0.(trie.Trie[int])
					out = "ok " + trie.VerifDump(m) + " | " + trie.VerifDump(u)
					tb, ob = u, o.selectBy(p, false)
					if msg := o.selectBy(p, true).same(m); msg != "" {
						bad(i, "", "PartitionMatch(%s), matched part: %s", f[1], msg)
					} else if msg := ob.same(u); msg != "" {
						bad(i, "", "PartitionMatch(%s), unmatched part: %s", f[1], msg)
					}
				case "equal":
					e := t.Equal(tb)
					out = "ok " + strconv.FormatBool(e)
					want := len(o.keys) == len(ob.keys)
					for _, k := range o.keys {
						if v, held := ob.val[k]; !held || v != o.val[k] {
							want = false
						}
					}
					tags["equal-"+strconv.FormatBool(e)] = true
					if e != want {
						bad(i, "", "Equal = %v for tries holding %v and %v", e, o.filter(func(string) bool { return true }), ob.filter(func(string) bool { return true }))
					}
				case "equalother":
					// a trie of the other implementation holding the same pairs: Equal is about tries of the same kind
					x := otherTrie()
					for _, k := range o.keys {
						if k != "" {
							x.Put(k, o.val[k])
						}
					}
					out = "ok " + strconv.FormatBool(t.Equal(x))
				case "swap":
					mutator = true
					t, tb = tb, t
					o, ob = ob, o
					out = "ok"
				}
			})
		})
		if !finished {
			res.Outs = append(res.Outs, "hang")
			bad(i, "", "%s did not return within 5s", op)
			break
		}
		if kind != "" {
			res.Outs = append(res.Outs, "panic")
			if expectPanic && kind == "explicit" {
				tags["binary-empty-key-panics"] = true
			} else {
				bad(i, "", "%s panicked (%s)", op, kind)
			}
			break
		}
		res.Outs = append(res.Outs, out)
		// The package's own verify() is consulted for the binary trie only: for the Patricia trie it rejects valid
		// tries (bitString.Sub returns the empty string when asked for more bits than the key has, so
		// _isPatricia fails as soon as a held key is shorter than a bit position on its path, e.g. {"bbaab","b"}).
		if mutator && res.BadOp < 0 && comp == "binary" {
			ok := true
			if k := hx.Try(func() { ok = trie.VerifVerify(t) }); k != "" || !ok {
				bad(i, "", "the package's own invariant check verify() fails after %s", op)
			}
		}
	}
	for tg := range tags {
		res.Tags = append(res.Tags, tg)
	}
	sort.Strings(res.Tags)
	return res
}

func isASCII(s string) bool {
	for i := 0; i < len(s); i++ {
		if s[i] >= 0x80 {
			return false
		}
	}
	return true
}

func optInt(v int, ok bool) string {
	if ok {
		return "ok some " + strconv.Itoa(v)
	}
	return "ok none"
}

// ---------------------------------------------------------------- oracle for the rest of trie.Trie

var orderByName = map[string]generic.TraverseOrder{
	"vlr": generic.VLR, "vrl": generic.VRL, "lvr": generic.LVR, "rvl": generic.RVL, "lrv": generic.LRV, "rlv": generic.RLV,
	"asc": generic.Ascending, "desc": generic.Descending, "bad": generic.TraverseOrder(99),
}

var orderNames = []string{"vlr", "vrl", "lvr", "rvl", "lrv", "rlv", "asc", "desc", "bad"}

// parsePred: true | false | vmod:<m>:<r> | klt:<hex> | kpre:<hex> | klen:<n>
func parsePred(s string) func(string, int) bool {
	f := strings.Split(s, ":")
	switch f[0] {
	case "true":
		return func(string, int) bool { return true }
	case "vmod":
		m, _ := strconv.Atoi(f[1])
		r, _ := strconv.Atoi(f[2])
		return func(_ string, v int) bool { return v%m == r }
	case "klt":
		h, _ := dec(f[1])
		return func(k string, _ int) bool { return k < h }
	case "kpre":
		h, _ := dec(f[1])
		return func(k string, _ int) bool { return strings.HasPrefix(k, h) }
	case "klen":
		n, _ := strconv.Atoi(f[1])
		return func(k string, _ int) bool { return len(k) == n }
	}
	return func(string, int) bool { return false }
}

// selectBy: the held pairs on which p is `want`
func (o *oracle) selectBy(p func(string, int) bool, want bool) *oracle {
	r := newOracle()
	for _, k := range o.keys {
		if p(k, o.val[k]) == want {
			r.put(k, o.val[k])
		}
	}
	return r
}

// same: t holds exactly the oracle's pairs (read through Size and All)
func (o *oracle) same(t trie.Trie[int]) string {
	got := []kv{}
	for k, v := range t.All() {
		got = append(got, kv{k, v})
	}
	want := o.filter(func(string) bool { return true })
	if !sameList(got, want) || t.Size() != len(want) {
		return fmt.Sprintf("the result holds %v (Size %d), expected %v", got, t.Size(), want)
	}
	return ""
}

// binaryHeight: height of the left-child/right-sibling tree of the sorted, non-empty keys: the distinct first bytes
// form a chain of right links, the keys below a byte hang off its left link.
func binaryHeight(keys []string) int {
	type group struct{ sub []string }
	var groups []group
	for i := 0; i < len(keys); {
		j := i
		g := group{}
		for j < len(keys) && keys[j][0] == keys[i][0] {
			if len(keys[j]) > 1 {
				g.sub = append(g.sub, keys[j][1:])
			}
			j++
		}
		groups = append(groups, g)
		i = j
	}
	h := 0
	for i := len(groups) - 1; i >= 0; i-- {
		h = 1 + max(binaryHeight(groups[i].sub), h)
	}
	return h
}

// critbitHeight: height of the crit-bit tree of the keys (n keys = n-1 branching nodes; the Patricia trie stores it in
// its downward links): branch on the first position at which the keys differ, positions being the bits of the
// zero-padded keys followed by one "has at least i bytes" position per byte.
func critbitHeight(keys []string) int {
	if len(keys) <= 1 {
		return 0
	}
	maxLen := 0
	for _, k := range keys {
		maxLen = max(maxLen, len(k))
	}
	bit := func(k string, pos int) bool {
		if pos < 8*maxLen {
			if pos/8 >= len(k) {
				return false
			}
			return k[pos/8]&(0x80>>(pos%8)) != 0
		}
		return len(k) >= pos-8*maxLen+1
	}
	for pos := 0; pos < 9*maxLen; pos++ {
		var zero, one []string
		for _, k := range keys {
			if bit(k, pos) {
				one = append(one, k)
			} else {
				zero = append(zero, k)
			}
		}
		if len(zero) > 0 && len(one) > 0 {
			return 1 + max(critbitHeight(zero), critbitHeight(one))
		}
	}
	return 0
}

// checkTraverse: what Traverse may show a visitor that stops at its stop-th call.
// Patricia: the held pairs — each once; in ascending / descending key order for asc / desc.
// Binary: one visit per node: ("", 0) for the sentinel root and (last byte of p, value of p or 0) for every non-empty
// prefix p of a held key. An order that is not one of the eight constants visits nothing.
func (o *oracle) checkTraverse(comp, order string, valid bool, stop int, got []kv) string {
	if !valid {
		if len(got) != 0 {
			return "an unknown order must not visit anything"
		}
		return ""
	}
	var all []kv
	if comp == "patricia" {
		all = o.filter(func(string) bool { return true })
		if order == "desc" {
			for i, j := 0, len(all)-1; i < j; i, j = i+1, j-1 {
				all[i], all[j] = all[j], all[i]
			}
		}
	} else {
		all = append(all, kv{"", 0})
		seen := map[string]bool{}
		for _, k := range o.keys {
			for n := 1; n <= len(k); n++ {
				if p := k[:n]; !seen[p] {
					seen[p] = true
					all = append(all, kv{p[n-1:], o.val[p]})
				}
			}
		}
	}
	want := len(all)
	if stop >= 1 && stop < want {
		want = stop
	}
	if len(got) != want {
		return fmt.Sprintf("%d visits, expected %d", len(got), want)
	}
	if comp == "patricia" && (order == "asc" || order == "desc") {
		if !sameList(got, all[:want]) {
			return fmt.Sprintf("expected %v", all[:want])
		}
		return ""
	}
	left := map[kv]int{}
	for _, e := range all {
		left[e]++
	}
	for _, e := range got {
		if left[e] == 0 {
			return fmt.Sprintf("visit (%q,%d) is not a node of the trie (or shown too often)", e.k, e.v)
		}
		left[e]--
	}
	return ""
}

// ---------------------------------------------------------------- generators

// alphabets: small, so that prefix relations are dense, and chosen so that letters differ in exactly one bit at
// every bit position of a byte (the Patricia trie branches on single bits: "bc" differ in the last bit only, "ac" in
// the seventh, "7fff" in the first, "flip" holds 'a' and 'a' with each single bit flipped)
var alphabets = map[string][]byte{
	"ab":     []byte("ab"),
	"bc":     []byte("bc"),
	"ac":     []byte("ac"),
	"abcd":   []byte("abcd"),
	"0001":   {0x00, 0x01},
	"7fff":   {0x7f, 0xff},
	"8000":   {0x80, 0x00},
	"flip":   {0x61, 0x60, 0x63, 0x65, 0x69, 0x71, 0x41, 0x21, 0xe1},
	"bytes":  {0x00, 0x7f, 0x80, 0xff, 'a', '*'},
	"abstar": []byte("ab*"),
	"a0bc":   {0x00, 'a', 'b', 'c'},
	"star":   {'*', '+', 'a'},
}

var alphabetNames = []string{"ab", "bc", "ac", "abcd", "0001", "7fff", "8000", "flip", "bytes", "abstar", "a0bc", "star"}

type gen struct {
	r      *hx.Rand
	al     []byte
	maxLen int
	held   *oracle // what the history holds so far in register a (to aim arguments)
	heldB  *oracle // ... in register b
	ops    []string
	clash  bool // aim at keys equal up to trailing 0x00 bytes
}

func (g *gen) randKey() string {
	n := g.r.Range(1, g.maxLen)
	b := make([]byte, n)
	for i := range b {
		b[i] = hx.Pick(g.r, g.al)
	}
	return string(b)
}

// arg draws a query/delete argument: random, held, extension of held, prefix of held, (for queries) empty.
func (g *gen) arg(allowEmpty bool) string {
	x := g.r.Intn(100)
	if len(g.held.keys) == 0 || x < 25 {
		return g.randKey()
	}
	h := hx.Pick(g.r, g.held.keys)
	switch {
	case x < 55:
		return h
	case x < 75:
		return h + string(hx.Pick(g.r, g.al))
	case x < 92:
		if len(h) > 1 {
			return h[:len(h)-g.r.Range(1, len(h)-1)]
		}
		return h
	default:
		if allowEmpty {
			return ""
		}
		return h
	}
}

func (g *gen) pattern() string {
	b := []byte(g.arg(true))
	switch g.r.Intn(4) {
	case 0: // one star, any position
		if len(b) > 0 {
			b[g.r.Intn(len(b))] = '*'
		}
	case 1, 2:
		for i := range b {
			if g.r.Chance(1, 3) {
				b[i] = '*'
			}
		}
	}
	return string(b)
}

// pred draws a predicate over (key, value), aimed at the current contents.
func (g *gen) pred() string {
	switch g.r.Intn(9) {
	case 0:
		return "true"
	case 1:
		return "false"
	case 2:
		return "vmod:2:" + strconv.Itoa(g.r.Intn(2))
	case 3:
		return "vmod:3:" + strconv.Itoa(g.r.Intn(3))
	case 4, 5:
		return "klt:" + enc(g.arg(true))
	case 6, 7:
		return "kpre:" + enc(g.arg(true))
	default:
		return "klen:" + strconv.Itoa(g.r.Range(0, g.maxLen))
	}
}

func (g *gen) b() *oracle {
	if g.heldB == nil {
		g.heldB = newOracle()
	}
	return g.heldB
}

func (g *gen) traverse() {
	o := hx.Pick(g.r, orderNames)
	if o == "bad" && g.r.Bool() { // the unknown order half as often
		o = hx.Pick(g.r, orderNames)
	}
	stop := -1
	if g.r.Bool() {
		stop = g.r.Range(0, 2*len(g.held.keys)+2)
	}
	g.emit("traverse %s %d", o, stop)
}

// pairOp: an operation that involves register b
func (g *gen) pairOp() {
	switch x := g.r.Intn(100); {
	case x < 30:
		p := g.pred()
		g.emit("selectmatch %s", p)
		g.heldB = g.held.selectBy(parsePred(p), true)
	case x < 50:
		p := g.pred()
		g.emit("partitionmatch %s", p)
		g.heldB = g.held.selectBy(parsePred(p), false)
	case x < 75:
		g.emit("swap")
		g.held, g.heldB = g.b(), g.held
		g.emit("dump")
	case x < 95:
		g.emit("equal")
	default:
		g.emit("equalother")
	}
}

// pairBattery: Equal on a copy, on a copy differing in one value, in one key (both inclusions), after a partition.
func (g *gen) pairBattery() {
	g.emit("selectmatch true")
	g.heldB = g.held.selectBy(parsePred("true"), true)
	g.emit("equal")
	g.emit("equalother")
	if len(g.held.keys) > 0 {
		h := hx.Pick(g.r, g.held.keys)
		if h != "" {
			v := g.held.val[h]
			g.emit("put %s %d", enc(h), v+1)
			g.emit("equal")
			g.emit("swap")
			g.emit("equal")
			g.emit("swap")
			g.emit("put %s %d", enc(h), v)
			g.emit("equal")
			g.emit("delete %s", enc(h))
			g.held.del(h)
			g.emit("dump")
			g.emit("equal")
			g.emit("swap")
			g.emit("equal")
			g.emit("swap")
		}
	}
	p := g.pred()
	g.emit("partitionmatch %s", p)
	g.heldB = g.held.selectBy(parsePred(p), false)
	g.emit("equal")
}

func (g *gen) emit(format string, a ...any) { g.ops = append(g.ops, fmt.Sprintf(format, a...)) }

func (g *gen) mutate() {
	x := g.r.Intn(100)
	switch {
	case x < 55:
		k := g.randKey()
		if g.r.Chance(1, 3) {
			k = g.arg(false) // re-put a held key, or put a prefix / an extension of one
		}
		if g.clash && len(g.held.keys) > 0 && g.r.Chance(1, 3) {
			// aim at keys that differ by trailing 0x00 bytes only (D9e): a held key with 0x00 appended, or with its
			// trailing 0x00 bytes removed
			h := hx.Pick(g.r, g.held.keys)
			if t := trimNul(h); t != h && t != "" && g.r.Bool() {
				k = t
			} else {
				k = h + "\x00"
			}
		}
		v := g.r.Intn(100)
		g.emit("put %s %d", enc(k), v)
		g.held.put(k, v)
	case x < 82:
		k := g.arg(false)
		g.emit("delete %s", enc(k))
		g.held.del(k)
	case x < 90:
		g.emit("deletemin")
		if len(g.held.keys) > 0 {
			g.held.del(g.held.keys[0])
		}
	case x < 98:
		g.emit("deletemax")
		if len(g.held.keys) > 0 {
			g.held.del(g.held.keys[len(g.held.keys)-1])
		}
	default:
		g.emit("deleteall")
		g.held = newOracle()
	}
	g.emit("dump")
}

func (g *gen) query() {
	switch g.r.Intn(22) {
	case 15:
		g.emit("isempty")
	case 16:
		g.emit("height")
	case 17, 18:
		g.traverse()
	case 19:
		g.emit("anymatch %s", g.pred())
	case 20:
		g.emit("allmatch %s", g.pred())
	case 21:
		g.emit("firstmatch %s", g.pred())
	case 0:
		g.emit("size")
	case 1:
		g.emit("get %s", enc(g.arg(false)))
	case 2:
		g.emit("min")
	case 3:
		g.emit("max")
	case 4:
		g.emit("floor %s", enc(g.arg(true)))
	case 5:
		g.emit("ceiling %s", enc(g.arg(true)))
	case 6:
		g.emit("select %d", g.r.Range(-1, len(g.held.keys)+1))
	case 7:
		g.emit("rank %s", enc(g.arg(true)))
	case 8:
		g.emit("range %s %s", enc(g.arg(true)), enc(g.arg(true)))
	case 9:
		g.emit("rangesize %s %s", enc(g.arg(true)), enc(g.arg(true)))
	case 10:
		g.emit("all")
	case 11:
		g.emit("withprefix %s", enc(g.arg(true)))
	case 12:
		g.emit("longestprefixof %s", enc(g.arg(true)))
	default:
		g.emit("match %s", enc(g.pattern()))
	}
}

// battery: every query once, aimed at the current contents; patterns with * at every position of a held key.
func (g *gen) battery() {
	g.emit("size")
	g.emit("all")
	g.emit("min")
	g.emit("max")
	for _, q := range []string{"get", "floor", "ceiling", "rank", "withprefix", "longestprefixof"} {
		g.emit("%s %s", q, enc(g.arg(q != "get")))
	}
	g.emit("select %d", g.r.Range(-1, len(g.held.keys)))
	g.emit("range %s %s", enc(g.arg(true)), enc(g.arg(true)))
	g.emit("rangesize %s %s", enc(g.arg(true)), enc(g.arg(true)))
	if len(g.held.keys) > 0 {
		h := hx.Pick(g.r, g.held.keys)
		for i := 0; i < len(h); i++ {
			b := []byte(h)
			b[i] = '*'
			g.emit("match %s", enc(string(b)))
		}
		g.emit("match %s", enc(strings.Repeat("*", len(h))))
	}
	g.emit("match %s", enc(g.pattern()))
	g.emit("isempty")
	g.emit("height")
	g.traverse()
	g.traverse()
	g.emit("anymatch %s", g.pred())
	g.emit("allmatch %s", g.pred())
	g.emit("firstmatch %s", g.pred())
}

// variations of k: k itself and k with each single position replaced by every other letter of the alphabet
func (g *gen) variations(k string) []string {
	out := []string{k}
	for i := 0; i < len(k); i++ {
		for _, c := range g.al {
			if c != k[i] {
				b := []byte(k)
				b[i] = c
				out = append(out, string(b))
			}
		}
	}
	return out
}

// denseBattery: the string queries for every prefix of every held key (at most `limit` keys) and every one-letter
// variation of it; every one-letter extension for LongestPrefixOf; Match with a wildcard at each position of the key and
// of its variations.
func (g *gen) denseBattery(limit int) {
	keys := g.held.keys
	if len(keys) > limit {
		i := g.r.Intn(len(keys) - limit + 1)
		keys = keys[i : i+limit]
	}
	seenP, seenL, seenM := map[string]bool{}, map[string]bool{}, map[string]bool{}
	g.emit("withprefix -")
	g.emit("longestprefixof -")
	for _, h := range keys {
		for n := 1; n <= len(h); n++ {
			for _, p := range g.variations(h[:n]) {
				if !seenP[p] {
					seenP[p] = true
					g.emit("withprefix %s", enc(p))
				}
				if !seenL[p] {
					seenL[p] = true
					g.emit("longestprefixof %s", enc(p))
				}
			}
		}
		for _, c := range g.al {
			if e := h + string(c); !seenL[e] {
				seenL[e] = true
				g.emit("longestprefixof %s", enc(e))
			}
		}
		pats := []string{strings.Repeat("*", len(h))}
		for _, vk := range g.variations(h) {
			pats = append(pats, vk)
			for i := 0; i < len(vk); i++ {
				b := []byte(vk)
				b[i] = '*'
				pats = append(pats, string(b))
			}
		}
		if len(h) > 1 {
			pats = append(pats, h[:len(h)-1], h[:len(h)-1]+"*", "*"+h[1:])
		}
		pats = append(pats, h+"*")
		for _, p := range pats {
			if !seenM[p] {
				seenM[p] = true
				g.emit("match %s", enc(p))
			}
		}
	}
}

func genOps(r *hx.Rand, alpha string, n int, clash bool) []string {
	g := &gen{r: r, al: alphabets[alpha], maxLen: 4, held: newOracle(), clash: clash}
	if alpha == "ab" {
		g.maxLen = 5
	}
	if r.Chance(1, 3) { // the first key is the longest
		b := make([]byte, g.maxLen+2)
		for i := range b {
			b[i] = hx.Pick(r, g.al)
		}
		g.emit("put %s %d", enc(string(b)), r.Intn(100))
		g.held.put(string(b), 0)
		g.emit("dump")
	}
	for len(g.ops) < n {
		switch x := r.Intn(100); {
		case x < 38:
			g.mutate()
		case x < 88:
			g.query()
		case x < 93:
			g.pairOp()
		case x < 94:
			g.pairBattery()
		case x < 97:
			g.battery()
		default:
			g.denseBattery(3)
		}
	}
	g.battery()
	g.denseBattery(6)
	if r.Chance(1, 3) {
		g.pairBattery()
	}
	return g.ops
}

var comps = []string{"binary", "patricia"}

// both runs one op stream on both implementations.
func both(run *hx.Run, hdr string, ops []string) {
	for _, comp := range comps {
		h := "comp=" + comp
		if hdr != "" {
			h += " " + hdr
		}
		run.Do(comp, hx.Case{Header: h, Ops: ops}, Exec)
	}
}

// exhaustive enumerates every op sequence of the given length over the alphabet.
func exhaustive(alpha []string, n int, f func([]string)) {
	idx := make([]int, n)
	for {
		ops := make([]string, n)
		for i, k := range idx {
			ops[i] = alpha[k]
		}
		f(ops)
		i := n - 1
		for i >= 0 {
			idx[i]++
			if idx[i] < len(alpha) {
				break
			}
			idx[i] = 0
			i--
		}
		if i < 0 {
			return
		}
	}
}

// fixedBattery: every query with every argument of a small universe over the letters x < y (used after exhaustive
// histories and insertion orders).
func fixedBattery(universe []string, x, y byte) []string {
	X, Y := string(x), string(y)
	ops := []string{"dump", "size", "all", "min", "max"}
	args := append([]string{""}, universe...)
	for _, a := range args {
		if a != "" {
			ops = append(ops, "get "+enc(a))
		}
		for _, q := range []string{"floor", "ceiling", "rank", "withprefix", "longestprefixof", "match"} {
			ops = append(ops, q+" "+enc(a))
		}
	}
	for _, p := range []string{"*", "**", X + "*", "*" + Y, "*" + X, Y + "*", "***", X + "**", "*" + Y + "*", "**" + Y, X + "*" + X} {
		ops = append(ops, "match "+enc(p))
	}
	for _, p := range []string{X + Y + X + Y, Y + Y + Y, X + X + X, Y + X + X} {
		ops = append(ops, "longestprefixof "+enc(p), "withprefix "+enc(p))
	}
	for i := -1; i <= 3; i++ {
		ops = append(ops, fmt.Sprintf("select %d", i))
	}
	for _, lohi := range [][2]string{{"", Y}, {X, X + Y}, {X + X, Y}, {X + Y, X}, {Y, Y + Y}} {
		ops = append(ops, "range "+enc(lohi[0])+" "+enc(lohi[1]), "rangesize "+enc(lohi[0])+" "+enc(lohi[1]))
	}
	ops = append(ops, "isempty", "height")
	for _, o := range orderNames {
		ops = append(ops, "traverse "+o+" -1")
	}
	ops = append(ops, "traverse lvr 2", "traverse rlv 1", "traverse asc 2", "traverse desc 2")
	for _, p := range []string{"vmod:2:0", "klt:" + enc(X+Y), "kpre:" + enc(Y)} {
		ops = append(ops, "anymatch "+p, "allmatch "+p, "firstmatch "+p)
	}
	ops = append(ops, "selectmatch vmod:2:1", "equal", "swap", "equal", "swap", "partitionmatch kpre:"+enc(X), "equal", "selectmatch true", "equal", "equalother")
	return ops
}

// universeOf: the six keys x, y, xx, xy, yx, xyx
func universeOf(x, y byte) []string {
	X, Y := string(x), string(y)
	return []string{X, Y, X + X, X + Y, Y + X, X + Y + X}
}

// orders calls f with every ordered selection of k distinct elements of xs.
func orders(xs []string, k int, f func([]string)) {
	used := make([]bool, len(xs))
	cur := []string{}
	var rec func()
	rec = func() {
		if len(cur) == k {
			f(append([]string{}, cur...))
			return
		}
		for i, x := range xs {
			if !used[i] {
				used[i] = true
				cur = append(cur, x)
				rec()
				cur = cur[:len(cur)-1]
				used[i] = false
			}
		}
	}
	rec()
}

// letter pairs whose members differ in exactly one bit, one pair per bit position, plus {a,b}
var pairs = [][2]byte{{'b', 'c'}, {'a', 'c'}, {'a', 'e'}, {'a', 'i'}, {'a', 'q'}, {'A', 'a'}, {'!', 'a'}, {0x7f, 0xff}, {'a', 'b'}, {0x01, 0x02},
	{'*', 'a'}, {'*', '+'}, {0x00, 'a'}}

// explicit universes: keys with an interior 0x00 below a shorter key, keys with literal '*' bytes, a long first key
var universes = [][]string{
	{"a", "a\x00b", "a\x00c", "a\x00", "ab"},
	{"a", "a\x00\x00b", "a\x00", "a\x00b", "b"},
	{"*", "a", "*a", "a*", "**", "+"},
	{"abcab", "ab", "abc", "a", "abcabc"},
}

func Main(run *hx.Run) {
	run.Stats.Rule = Rule
	for _, f := range hx.CorpusFiles("C06") {
		cs, _ := hx.ReadReplay(f)
		for _, c := range cs {
			run.Do(hx.HeaderGet(c.Header, "comp"), c, Exec)
		}
	}
	for _, alpha := range alphabetNames {
		r := run.R.Fork(alpha)
		n := run.Scale(40)
		for k := 0; k < n; k++ {
			length := r.Range(10, 100)
			both(run, "alpha="+alpha, genOps(r, alpha, length, false))
		}
	}
	// every insertion order of every set of up to 3 (thorough: 5) keys out of x, y, xx, xy, yx, xyx, for letter pairs
	// differing in one bit at each bit position, followed by every query with every argument of the universe
	{
		maxSet := 3
		if run.Thorough() {
			maxSet = 5
		}
		for _, pr := range pairs {
			u := universeOf(pr[0], pr[1])
			bat := fixedBattery(u, pr[0], pr[1])
			for k := 1; k <= maxSet; k++ {
				orders(u, k, func(keys []string) {
					var ops []string
					for i, key := range keys {
						ops = append(ops, fmt.Sprintf("put %s %d", enc(key), i+1))
					}
					both(run, fmt.Sprintf("alpha=%02x%02x stream=orders", pr[0], pr[1]), append(ops, bat...))
				})
			}
		}
		for ui, u := range universes {
			letters := map[byte]bool{}
			for _, k := range u {
				for i := 0; i < len(k); i++ {
					letters[k[i]] = true
				}
			}
			g := &gen{r: run.R.Fork(fmt.Sprintf("universe%d", ui)), held: newOracle()}
			for c := range letters {
				g.al = append(g.al, c)
			}
			sort.Slice(g.al, func(i, j int) bool { return g.al[i] < g.al[j] })
			for _, k := range u {
				g.held.put(k, 0)
			}
			g.emit("dump")
			g.emit("all")
			g.denseBattery(len(u))
			bat := g.ops
			maxU := maxSet + 1
			if maxU > len(u) {
				maxU = len(u)
			}
			for k := 1; k <= maxU; k++ {
				orders(u, k, func(keys []string) {
					var ops []string
					for i, key := range keys {
						ops = append(ops, fmt.Sprintf("put %s %d", enc(key), i+1))
					}
					both(run, fmt.Sprintf("universe=%d stream=orders", ui), append(ops, bat...))
				})
			}
		}
		run.Stats.Extra["insertion_orders"] = fmt.Sprintf("all ordered selections of up to %d of the keys x,y,xx,xy,yx,xyx for %d letter pairs, both tries", maxSet, len(pairs))
	}
	// keys equal up to trailing 0x00 bytes (D9e): the zero-padded bit strings coincide, only the length positions differ
	for _, alpha := range []string{"bytes", "0001", "8000"} {
		r := run.R.Fork("nul-" + alpha)
		for k := 0; k < run.Scale(15); k++ {
			both(run, "alpha="+alpha+" stream=trailing-nul", genOps(r, alpha, r.Range(20, 60), true))
		}
	}
	// the empty key: Put/Get/Delete("") end a case on the binary trie (documented panic); the Patricia trie goes on with
	// "" among its keys (Model comparison only: the property is about non-empty keys)
	{
		r := run.R.Fork("emptykey")
		for k := 0; k < run.Scale(12); k++ {
			alpha := hx.Pick(r, []string{"ab", "a0bc", "0001"})
			ops := genOps(r, alpha, r.Range(8, 40), false)
			at := r.Intn(len(ops)/2 + 1)
			ins := []string{hx.Pick(r, []string{fmt.Sprintf("put - %d", r.Intn(100)), "get -", "delete -"})}
			if r.Bool() {
				ins = []string{fmt.Sprintf("put - %d", r.Intn(100)), "dump", "get -", "all", "delete -", "dump"}[:r.Range(1, 6)]
			}
			full := append(append(append([]string{}, ops[:at]...), ins...), ops[at:]...)
			both(run, "alpha="+alpha+" stream=emptykey", full)
		}
	}
	if run.Thorough() {
		// every history of length ≤ 4 over put/delete of six {b,c}-keys (the letters differ in the last bit only) + DeleteMin + DeleteMax, each followed
		// by every query with every argument of the universe
		universe := universeOf('b', 'c')
		var alpha []string
		for i, k := range universe {
			alpha = append(alpha, fmt.Sprintf("put %s %d", enc(k), i+1))
		}
		for _, k := range universe {
			alpha = append(alpha, "delete "+enc(k))
		}
		alpha = append(alpha, "deletemin", "deletemax")
		bat := fixedBattery(universe, 'b', 'c')
		for n := 1; n <= 4; n++ {
			exhaustive(alpha, n, func(ops []string) {
				var full []string
				for _, op := range ops {
					full = append(full, op, "dump")
				}
				both(run, "alpha=bc stream=exhaustive", append(full, bat...))
			})
		}
		run.Stats.Exhaustive = true
		run.Stats.Extra["exhaustive_part"] = "all histories of length<=4 over 14 mutators (put/delete of b,c,bb,bc,cb,bcb; DeleteMin; DeleteMax), " +
			"both tries, each followed by every query with every argument of the universe"
	}
}
