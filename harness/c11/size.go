package c11

import (
	"fmt"
	"strings"

	"verifharness/gx"
	"verifharness/hx"
)

// ---------------------------------------------------------------- Axis 1: size thresholds
//
// Structured grammar families in which ONE size-like dimension is swept over the thresholds programmers pick (64: a
// uint64 mask, 256: a uint8 or a packed rank such as state<<8+item, 1024: a block) while everything else stays small.
// The library's constructions are cubic and worse in the size of the largest item set (sets are lists with linear
// membership tests; the kernel automaton recomputes CLOSURE(I) for every GOTO(I,X)), so a dimension at 257 costs seconds:
// the quick tier takes every dimension at 63/64/65 (with the Model) and a few at 257 (the rest rotates with the seed);
// the thorough tier takes all of them at 255/256/257 and the cheap ones at 1025.  At 257 and above the executable Model
// (lists, written for the proofs; about 2.5x the library's time) would dominate the run, so most of those cases are
// oracle-only (hx.Case.NoModel): judged by bounded-language / Earley membership, the derivation replay, the yield, the
// chain SLR => LALR => LR(1) and the agreement of the constructions.  65536 states / items are out of reach of the
// library itself (hours); input length and stack depth do go there.

type sizeFam struct {
	name string
	// dimension(s) that n sweeps
	dims  string
	build func(n int) (gx.G, [][]string)
}

func tN(prefix string, i int) string { return fmt.Sprintf("%s%03d", prefix, i) }

func rep(s string, n int) []string {
	out := make([]string, n)
	for i := range out {
		out[i] = s
	}
	return out
}

var sizeFams = map[string]sizeFam{
	// keyword table: A → a u v for n pairs of letters: ONE LR(0) state (after a) with n kernel items, n alternatives
	// of one head sharing a first symbol; SLR(1) for every n (FOLLOW(A)={c}, FOLLOW(B)={d}, FOLLOW(C)={f})
	"kw": {"kw", "kernel-items-in-a-state,alternatives-with-a-common-first-symbol", func(n int) (gx.G, [][]string) {
		L := 2
		for L*L < n {
			L++
		}
		g := gx.G{NonTerms: []string{"S", "A", "B", "C"}, Start: "S", Terms: []string{"a", "c", "d", "e", "f"}}
		for i := 0; i < L; i++ {
			g.Terms = append(g.Terms, tN("t", i))
		}
		g.Prods = []gx.P{{Head: "S", Body: []string{"A", "c"}}, {Head: "S", Body: []string{"B", "d"}}, {Head: "S", Body: []string{"C", "f"}},
			{Head: "B", Body: []string{"e"}}, {Head: "C", Body: []string{"e", "c"}}}
		for k := 0; k < n; k++ {
			g.Prods = append(g.Prods, gx.P{Head: "A", Body: []string{"a", tN("t", k/L), tN("t", k%L)}})
		}
		ws := [][]string{{}, {"e"}, {"e", "d"}, {"e", "c"}, {"e", "c", "f"}, {"e", "f"}, {"e", "c", "d"}, {"a"}, {"a", "c"}, {"c"}, {"e", "e", "d"}, {"e", "c", "f", "f"}}
		for _, k := range []int{0, 1, n / 2, 62, 63, 64, 254, 255, 256, 257, n - 2, n - 1, n, n + 1} {
			if k < 0 || k >= L*L {
				continue
			}
			u, v := tN("t", k/L), tN("t", k%L)
			ws = append(ws, []string{"a", u, v, "c"}, []string{"a", u, v, "d"}, []string{"a", u, v}, []string{"a", u, "c"})
		}
		return g, ws
	}},
	// fan: S → t for n terminals: n terminals, n alternatives, n+2 states, a state-0 row with n shifts
	"fan": {"fan", "terminals,alternatives,states", func(n int) (gx.G, [][]string) {
		g := gx.G{NonTerms: []string{"S"}, Start: "S"}
		for i := 0; i < n; i++ {
			g.Terms = append(g.Terms, tN("t", i))
			g.Prods = append(g.Prods, gx.P{Head: "S", Body: []string{tN("t", i)}})
		}
		ws := [][]string{{}}
		for _, k := range []int{0, 1, 63, 64, 255, 256, 1023, 1024, n - 1} {
			if k >= 0 && k < n {
				ws = append(ws, []string{tN("t", k)}, []string{tN("t", k), tN("t", 0)})
			}
		}
		return g, ws
	}},
	// unit chain: S → A1 → … → a: n non-terminals, a state-0 closure with n+1 items
	"chain": {"chain", "non-terminals,items-in-a-closure", func(n int) (gx.G, [][]string) {
		g := gx.G{Terms: []string{"a"}, Start: "S"}
		names := []string{"S"}
		for i := 1; i < n; i++ {
			names = append(names, tN("A", i))
		}
		g.NonTerms = names
		for i := 0; i+1 < n; i++ {
			g.Prods = append(g.Prods, gx.P{Head: names[i], Body: []string{names[i+1]}})
		}
		g.Prods = append(g.Prods, gx.P{Head: names[n-1], Body: []string{"a"}})
		return g, [][]string{{}, {"a"}, {"a", "a"}}
	}},
	// one long body: S → a^n: body length n, a chain of n+2 states, stack depth n
	"body": {"body", "body-length,states,stack-depth", func(n int) (gx.G, [][]string) {
		g := gx.G{Terms: []string{"a"}, NonTerms: []string{"S"}, Start: "S", Prods: []gx.P{{Head: "S", Body: rep("a", n)}}}
		ws := [][]string{rep("a", n)}
		if n > 0 {
			ws = append(ws, rep("a", n-1))
		}
		return g, append(ws, rep("a", n+1))
	}},
	// lookahead sets: S → A t for n terminals, A → x: the item A → x• has n lookaheads (one LR(1) state with n items)
	"la": {"la", "lookahead-set-size,items-in-an-LR(1)-state", func(n int) (gx.G, [][]string) {
		g := gx.G{NonTerms: []string{"S", "A"}, Start: "S"}
		for i := 0; i < n; i++ {
			g.Terms = append(g.Terms, tN("t", i))
			g.Prods = append(g.Prods, gx.P{Head: "S", Body: []string{"A", tN("t", i)}})
		}
		g.Terms = append(g.Terms, "x")
		g.Prods = append(g.Prods, gx.P{Head: "A", Body: []string{"x"}})
		ws := [][]string{{}, {"x"}, {"x", "x"}}
		for _, k := range []int{0, 63, 64, 255, 256, n - 1} {
			if k >= 0 && k < n {
				ws = append(ws, []string{"x", tN("t", k)}, []string{tN("t", k)})
			}
		}
		return g, ws
	}},
	// input length / stack depth (the parser's stack and the AST's node stack are lists of blocks of 1024)
	"right": {"right", "input-length,stack-depth", func(n int) (gx.G, [][]string) {
		g := gx.G{Terms: []string{"a", "b"}, NonTerms: []string{"S"}, Start: "S", Prods: []gx.P{{Head: "S", Body: []string{"a", "S"}}, {Head: "S", Body: []string{"b"}}}}
		return g, [][]string{append(rep("a", n), "b"), rep("a", n), append(rep("a", n), "b", "b")}
	}},
	"left": {"left", "input-length", func(n int) (gx.G, [][]string) {
		g := gx.G{Terms: []string{"a", "b"}, NonTerms: []string{"S"}, Start: "S", Prods: []gx.P{{Head: "S", Body: []string{"S", "a"}}, {Head: "S", Body: []string{"b"}}}}
		return g, [][]string{append([]string{"b"}, rep("a", n)...), rep("a", n), append(append([]string{"b"}, rep("a", n)...), "b")}
	}},
	"paren": {"paren", "input-length,stack-depth,nesting", func(n int) (gx.G, [][]string) {
		g := gx.G{Terms: []string{"(", ")", "x"}, NonTerms: []string{"S"}, Start: "S", Prods: []gx.P{{Head: "S", Body: []string{"(", "S", ")"}}, {Head: "S", Body: []string{"x"}}}}
		w := append(append(rep("(", n), "x"), rep(")", n)...)
		return g, [][]string{w, w[:len(w)-1], append(append([]string{}, w...), ")")}
	}},
	// ε-productions: S → A1 … An, Ai → ε | ti: n nullable non-terminals in one body (FIRST(βa) runs over all of them)
	"eps": {"eps", "nullable-symbols-in-a-body,non-terminals", func(n int) (gx.G, [][]string) {
		g := gx.G{NonTerms: []string{"S"}, Start: "S"}
		var body []string
		for i := 0; i < n; i++ {
			body = append(body, tN("A", i))
			g.NonTerms = append(g.NonTerms, tN("A", i))
			g.Terms = append(g.Terms, tN("t", i))
		}
		g.Prods = append(g.Prods, gx.P{Head: "S", Body: body})
		for i := 0; i < n; i++ {
			g.Prods = append(g.Prods, gx.P{Head: tN("A", i), Body: nil}, gx.P{Head: tN("A", i), Body: []string{tN("t", i)}})
		}
		ws := [][]string{{}, {tN("t", 0)}, {tN("t", n-1)}, {tN("t", 0), tN("t", n-1)}, {tN("t", n-1), tN("t", 0)}, {tN("t", n/2), tN("t", n/2)}}
		return g, ws
	}},
}

// sizeCase: the grammar of a family at size n, the listed constructions, the family's inputs on each of them.
// asts: also build the tree (not for inputs whose tree is deeper than the Model's printer can recurse).
func sizeCase(fam string, n int, ks []string, shuffle int, checks, asts, noModel bool) hx.Case {
	f := sizeFams[fam]
	g, ws := f.build(n)
	// every family is SLR(1) by construction (see the comments above): expect=table makes a conflict verdict of any
	// construction inadmissible by itself, also when the SLR construction is not run next to it
	c := hx.Case{Header: fmt.Sprintf("comp=lrsize shuffle=%d size=%s:%d expect=table", shuffle, fam, n), NoModel: noModel}
	c.Ops = append(c.Ops, g.Lines()...)
	for _, k := range ks {
		c.Ops = append(c.Ops, "build "+k)
	}
	if checks {
		for _, k := range ks {
			c.Ops = append(c.Ops, "check "+k)
		}
		if len(ks) == 3 {
			c.Ops = append(c.Ops, "chain")
		}
	}
	for _, k := range ks {
		for _, w := range ws {
			c.Ops = append(c.Ops, strings.TrimSpace("parse "+k+" "+strings.Join(w, " ")))
			if asts {
				c.Ops = append(c.Ops, strings.TrimSpace("ast "+k+" "+strings.Join(w, " ")))
			}
		}
	}
	return c
}

// precSizeCase: n precedence levels (one operator each) and one level with n operators; Compare / resolveConflict
// between handles whose levels lie at the thresholds.
func precSizeCase(n int, shuffle int) hx.Case {
	c := hx.Case{Header: fmt.Sprintf("comp=resolve shuffle=%d size=levels:%d", shuffle, n)}
	terms := []string{"id"}
	for i := 0; i < n; i++ {
		terms = append(terms, tN("o", i))
	}
	for i := 0; i < n; i++ {
		terms = append(terms, tN("w", i))
	}
	c.Ops = append(c.Ops, "terms "+strings.Join(terms, " "), "nonterms E", "start E", "prod E : id")
	assoc := []string{"left", "right", "none"}
	for i := 0; i < n; i++ {
		c.Ops = append(c.Ops, "prec "+assoc[i%3]+" "+tN("o", i))
	}
	wide := "prec left"
	for i := 0; i < n; i++ {
		wide += " " + tN("w", i)
	}
	c.Ops = append(c.Ops, wide)
	marks := []int{0, 1, 2, 62, 63, 64, 65, 254, 255, 256, 257, 1022, 1023, 1024, 1025, n - 2, n - 1}
	if n > 512 { // both sides check the level list (no handle twice: quadratic) for every op: 50 ms per op
		marks = []int{0, 256, 1023, 1024, n - 1}
	}
	var idx []int
	seen := map[int]bool{}
	for _, m := range marks {
		if m >= 0 && m < n && !seen[m] {
			seen[m] = true
			idx = append(idx, m)
		}
	}
	red := func(p string, i int) string { return "r[E:E," + tN(p, i) + ",E]" }
	// the target of the shift plays no part in the decision: state numbers at the thresholds, negative and huge
	shifts := []string{"s3", "s0", "s255", "s256", "s65536", "s-1", "s9223372036854775807", "s1024"}
	sh := func(k int) string { return shifts[k%len(shifts)] }
	reach := 2
	if n > 512 {
		reach = 1
	}
	for a := 0; a < len(idx); a++ {
		for b := a; b < len(idx) && b <= a+reach; b++ {
			if n > 512 && a == b && a%2 == 1 {
				continue
			}
			i, j := idx[a], idx[b]
			// reduce by E → E o_i E against a shift of o_j, both ways round, inside the wide level, across the two kinds
			// of level, and two reduces
			c.Ops = append(c.Ops,
				fmt.Sprintf("compare %s | %s %s", tN("o", j), red("o", i), sh(a+b)),
				fmt.Sprintf("compare %s | %s %s", tN("o", i), sh(a+2*b), red("o", j)),
				fmt.Sprintf("compare %s | %s s2", tN("w", j), red("w", i)),
				fmt.Sprintf("compare %s | %s s2", tN("w", j), red("o", i)),
				fmt.Sprintf("compare %s | %s s2", tN("o", j), red("w", i)))
			if i != j {
				c.Ops = append(c.Ops, fmt.Sprintf("compare %s | %s %s", tN("o", j), red("o", i), red("o", j)))
			}
			// ResolveConflicts verifies the level list first (quadratic in its size: 0.1 s for 1025 levels): few of those
			if n <= 512 || (a+b)%5 == 0 {
				c.Ops = append(c.Ops,
					fmt.Sprintf("resolve %s | %s %s", tN("o", j), red("o", i), sh(a+b+1)),
					fmt.Sprintf("resolve %s | %s %s", tN("o", i), sh(2*a+b), red("o", j)),
					fmt.Sprintf("resolve %s | %s s2", tN("w", j), red("w", i)))
				if i != j {
					c.Ops = append(c.Ops, fmt.Sprintf("resolve %s | %s %s s1", tN("o", j), red("o", i), red("o", j)))
				}
			}
		}
	}
	return c
}

// manyOpsCase: E → E op E | id with n operators, one level each (alternating associativity) or all in few levels:
// n+1 kernel items in each of the n conflict states.
func manyOpsCase(r *hx.Rand, n int, shuffle int, noModel bool) hx.Case {
	ops := make([]string, n)
	for i := range ops {
		ops[i] = tN("o", i)
	}
	var levels [][]string
	var assoc []string
	per := 1
	if r.Chance(1, 2) {
		per = 1 + r.Intn(4)
	}
	for i := 0; i < n; i += per {
		j := i + per
		if j > n {
			j = n
		}
		levels = append(levels, ops[i:j])
		assoc = append(assoc, hx.Pick(r, []string{"left", "right", "left", "right", "none"}))
	}
	var exprs [][]string
	for _, pair := range [][2]int{{0, n - 1}, {n - 1, 0}, {n / 2, n / 2}, {63 % n, 64 % n}, {64 % n, 63 % n}, {r.Intn(n), r.Intn(n)}, {r.Intn(n), r.Intn(n)}} {
		exprs = append(exprs, []string{"id", ops[pair[0]], "id", ops[pair[1]], "id"})
	}
	exprs = append(exprs, []string{"id"}, []string{"id", "id"}, []string{"id", ops[n-1]})
	c := exprCase(ops, levels, assoc, exprs, shuffle)
	c.Header += fmt.Sprintf(" size=operators:%d", n)
	c.NoModel = noModel
	return c
}
