package c11

import (
	"fmt"
	"strings"

	"github.com/moorara/algo/parser/lr"

	"verifharness/gx"
	"verifharness/hx"
)

// ---------------------------------------------------------------- Axis 2: unusual but legal ways of using the API
//
// The Model is a pure function of the op lines; HOW the harness drives the library is said in the header and must not
// change a single output line:
//
//	cfg=keep       one *grammar.CFG for the whole case: the same object goes to all three constructors (and to the
//	               dumps and the validator), and grammar lines after a build edit it in place (Productions.Add/Remove,
//	               Terminals.Add, …) before the next construction; tables built earlier stay in use
//	layout=…       production bodies that share backing arrays (see layouts)
//	parser=reuse   one lr.Parser per table, handed a new lexer for every parse
//	lex=wrap|junk  the end of input as a wrapped io.EOF / a junk token together with io.EOF
//
// plus the ops `grammar` (the object must still read as the caller built it), `parsefail` (the lexer fails), builds of
// one kind repeated, and the three kinds built in every order.

// useWords: some words over the terminals, all short ones first.
func useWords(g gx.G, limit int) []string {
	ws := g.Words(wordBound(len(g.Terms), limit))
	if len(ws) > limit {
		ws = ws[:limit]
	}
	return ws
}

// editGrammar adds or removes one production such that the grammar stays reduced (the property's precondition) and
// valid; ok=false if no such edit was found.
func editGrammar(r *hx.Rand, g gx.G) (op string, h gx.G, ok bool) {
	for try := 0; try < 12; try++ {
		h = cloneGX(g)
		if r.Chance(1, 2) && len(g.Prods) > 1 {
			k := r.Intn(len(h.Prods))
			p := h.Prods[k]
			h.Prods = append(h.Prods[:k:k], h.Prods[k+1:]...)
			// every copy of it
			var rest []gx.P
			for _, q := range h.Prods {
				if q.Head != p.Head || strings.Join(q.Body, "\x00") != strings.Join(p.Body, "\x00") || len(q.Body) != len(p.Body) {
					rest = append(rest, q)
				}
			}
			h.Prods = rest
			op = strings.TrimSpace("unprod " + p.Head + " : " + strings.Join(p.Body, " "))
		} else {
			p := gx.P{Head: hx.Pick(r, g.NonTerms)}
			for l := r.Intn(4); l > 0; l-- {
				if len(g.Terms) == 0 || r.Chance(2, 5) {
					p.Body = append(p.Body, hx.Pick(r, g.NonTerms))
				} else {
					p.Body = append(p.Body, hx.Pick(r, g.Terms))
				}
			}
			h.Prods = append(h.Prods, p)
			op = strings.TrimSpace("prod " + p.Head + " : " + strings.Join(p.Body, " "))
		}
		if validGrammar(h) && h.Reduced() {
			return op, h, true
		}
	}
	return "", g, false
}

func useCase(r *hx.Rand, g gx.G, shuffle int, layout string) hx.Case {
	if layout == "" {
		layout = hx.Pick(r, []string{"arena", "prefix", "arena", "prefix", "exact", "fresh"})
	}
	lex := hx.Pick(r, []string{"plain", "wrap", "junk"})
	c := hx.Case{Header: fmt.Sprintf("comp=lruse shuffle=%d cfg=keep layout=%s parser=reuse lex=%s", shuffle, layout, lex)}
	c.Ops = append(c.Ops, g.Lines()...)
	c.Ops = append(c.Ops, "grammar")
	var usable []string // the kinds whose current table is conflict-free
	round := func(g gx.G, limit int) {
		order := append([]string{}, kinds...)
		for i := len(order) - 1; i > 0; i-- {
			j := r.Intn(i + 1)
			order[i], order[j] = order[j], order[i]
		}
		if r.Chance(1, 2) {
			order = append(order, hx.Pick(r, kinds)) // one construction twice on the same object
		}
		for _, k := range order {
			c.Ops = append(c.Ops, "build "+k)
			if r.Chance(1, 3) {
				c.Ops = append(c.Ops, "grammar")
			}
		}
		c.Ops = append(c.Ops, "grammar", "check "+hx.Pick(r, kinds), "chain")
		if r.Chance(1, 3) {
			c.Ops = append(c.Ops, "dump "+hx.Pick(r, kinds))
		}
		// parses only on the conflict-free tables (termination is promised for those only)
		var ok []string
		for _, k := range kinds {
			var err error
			var T *lr.ParsingTable
			if hx.Try(func() { T, err = builders[k](toCFG(g), nil) }) == "" && err == nil && T != nil {
				ok = append(ok, k)
			}
		}
		usable = ok
		if len(ok) == 0 {
			return
		}
		lang := g.LangK(6)
		ws := useWords(g, limit)
		for _, w := range ws {
			// the parsers alternate: every parse op goes to another table's parser object
			for _, k := range ok {
				c.Ops = append(c.Ops, strings.TrimSpace("parse "+k+" "+w))
			}
			if lang[w] {
				c.Ops = append(c.Ops, strings.TrimSpace("ast "+hx.Pick(r, ok)+" "+w))
				n := len(strings.Fields(w))
				c.Ops = append(c.Ops, strings.TrimSpace(fmt.Sprintf("parsefail %s %d %s", hx.Pick(r, ok), r.Intn(n+1), w)))
			}
		}
	}
	round(g, 40)
	for e := r.Range(1, 2); e > 0; e-- {
		op, h, ok := editGrammar(r, g)
		if !ok {
			break
		}
		// the old tables are still there: a few parses on them after the caller has edited its grammar
		c.Ops = append(c.Ops, op, "grammar")
		for _, w := range useWords(g, 6) {
			if len(usable) > 0 {
				c.Ops = append(c.Ops, strings.TrimSpace("parse "+hx.Pick(r, usable)+" "+w))
			}
		}
		g = h
		round(g, 25)
	}
	return c
}

// sharedBodies: grammars in which one body is a prefix of another and the shorter one ends in (or is) a non-terminal
// — where an in-place append to a sub-slice of a body lands in the longer body (layout=prefix) or in the next one (arena).
var sharedBodies = []string{
	"L -> E | E , L ; E -> x | ( L )",
	"S -> A | A b S ; A -> a | a A c",
	"S -> A B | A B c ; A -> a | ; B -> b | b B",
	"E -> T | T + E ; T -> F | F * T ; F -> id | ( E )",
	"S -> | S a | S a b",
	"S -> A | A A ; A -> x | x y",
	"S -> a B | a B c S ; B -> b |",
}
