// Package c11: SLR / LALR / canonical LR(1) table construction, the LR driver and precedence resolution
// (parser/lr/**) against independent oracles: the exact bounded language (gx.LangK), a step-by-step replay
// of the emitted derivation, the inclusion chain SLR ⊆ LALR ⊆ LR(1), agreement of the constructions,
// a table validator and a precedence-climbing reference parser.
package c11

import (
	"errors"
	"fmt"
	"io"
	"sort"
	"strconv"
	"strings"
	"time"

	"github.com/moorara/algo/grammar"
	"github.com/moorara/algo/lexer"
	"github.com/moorara/algo/parser"
	"github.com/moorara/algo/parser/lr"
	"github.com/moorara/algo/parser/lr/canonical"
	"github.com/moorara/algo/parser/lr/lookahead"
	"github.com/moorara/algo/parser/lr/simple"
	"github.com/moorara/algo/set"
	"github.com/moorara/algo/symboltable"

	"verifharness/c10"
	"verifharness/gx"
	"verifharness/hx"
)

const Rule = "cases = (grammar, optional precedence levels, op list) drawn from VERIF_SEED: random *reduced* grammars " +
	"(gx.Random filtered by gx.Reduced; ε-productions, unit and left-recursive alternatives, common prefixes; two out of five with " +
	"their symbols renamed into the name schemes of harness/c10: concatenations, written-terminal look-alikes, the primes augment " +
	"appends, empty/blank/$/ε names, spaces, terminal = non-terminal names), a hand-written " +
	"family on the LR(0)/SLR/LALR/LR(1) boundaries, operator grammars E→E op E|id with up to 4 (sweep: 8) operators and all kinds of " +
	"level/associativity assignments, and direct resolveConflict/Compare cases; ops = build/dump/check for the three " +
	"constructions, parse+ast of ALL token strings up to a length bound (members and non-members) or of random expressions. " +
	"API-use family (comp=lruse): ONE *grammar.CFG object handed to all constructors (in every order, one of them twice), production " +
	"bodies that share backing arrays (arena: one array for all bodies; prefix: a body that is a prefix of another is its sub-slice), " +
	"the grammar edited in place between constructions while the old tables stay in use, one lr.Parser object per table reused for " +
	"every parse, the end of input as a wrapped io.EOF or a junk token with io.EOF, a lexer that fails at token k (parsefail), and the " +
	"`grammar` op (the object handed in must still read as the caller built it). " +
	"Size-threshold sweep (comp=lrsize, and size= cases of resolve/expr): structured SLR(1) families with ONE dimension at " +
	"1,2,63,64,65 (Model compared) and 255,256,257 (+258,300; 1025 where the library takes seconds): kernel items of one state / " +
	"alternatives with a common first symbol (keyword table), terminals / alternatives / states (fan), non-terminals / closure size " +
	"(unit chain), body length / states / stack depth (one long body), lookahead-set size (la), nullable symbols in a body (eps), " +
	"input length / stack depth / nesting at 1023,1024,1025,2047..2049,4097,65537,70000, precedence levels and handles per level up " +
	"to 1025, operators of an expression grammar up to 8. The library is cubic and worse in the size of the largest item set " +
	"(257 kernel items: 6 s for LALR; 9 operators: 13 s), so quick takes 63/64/65 everywhere, the kernel-item dimension at 257+ on " +
	"every run and one more dimension at 257 (rotating with the seed); 65536 states are out of the library's reach. Cases at 255+ " +
	"whose executable Model would take longer than the library are ORACLE-ONLY (hx.Case.NoModel, counted in oracle_only_cases): " +
	"judged by Earley membership, derivation replay, yield, SLR=>LALR=>LR(1), agreement of the constructions and `expect=table` " +
	"(the family is SLR(1) by construction: a conflict verdict is inadmissible); thorough compares kw:257, fan:256, la:257 with the Model too. " +
	"Second round: (a) bucket cases: 17-23 terminal (non-terminal) names found by gx.SameBucketNames - which calls grammar.HashTerminal / " +
	"HashNonTerminal - to share one probe path of the 31-slot quadratic ACTION (GOTO) row, 34-50 for the 67-slot row, all in the row of ONE " +
	"state (state 0, a non-initial state, the lookaheads of one reduce, the GOTO row), three constructions + parses, under the watchdog; " +
	"(b) comp=lralike: alternatives of one head that are different symbol strings with equal numbers of terminals and non-terminals and " +
	"the same String() rendering (non-terminal names with blanks, a non-terminal named like a written terminal), LL(1) by construction, " +
	"ORACLE-ONLY because the numbering of tied states follows the iteration order of the item sets (and without the table validator, " +
	"which recomputes the item sets); (c) every input length 0..200 on the input-length families; (d) the keyword table at 63-65 (thorough: " +
	"257) next to an LR(1)-not-LALR / LALR-not-SLR gadget; thorough also every size 1..48 of kw/fan/la. " +
	"non-trivial = a construction produced a conflict-free table on which at least one string was accepted and one rejected, " +
	"or the constructions differed (boundary), or precedence resolved at least one conflict cell and a tree was compared with " +
	"the precedence-climbing reference, or a resolve/compare op reached a decision between two listed handles; " +
	"distinct = distinct (header, op list)"

var kinds = []string{"slr", "lalr", "lr1"}

type builder func(*grammar.CFG, lr.PrecedenceLevels) (*lr.ParsingTable, error)

var builders = map[string]builder{
	"slr":  simple.BuildParsingTable,
	"lalr": lookahead.BuildParsingTable,
	"lr1":  canonical.BuildParsingTable,
}

// ---------------------------------------------------------------- shuffle control

// identitySource makes rand.Shuffle the identity permutation (int31n(n) returns n-1 for every n), so that
// an unordered set is traversed in insertion order.
type identitySource struct{}

func (identitySource) Int63() int64 { return 1<<63 - 1 }
func (identitySource) Seed(int64)   {}

func seedShuffles(seed int64) {
	set.VerifSetShuffleSeed(seed)
	symboltable.VerifSetShuffleSeed(seed)
}

// ---------------------------------------------------------------- names
//
// Symbols are written as words as in harness/c10: word = [marker] + c10.EncName(name).  The grammar protocol decides
// "non-terminal iff listed in nonterms" by word, so a terminal that has the same name as a non-terminal (legal for the
// library: Terminal("S") and NonTerminal("S") are different symbols) is spelled 'S in case files; EncName writes the
// empty name as %, and as %XX every byte <= 0x20, 0x7F, '%', the arrow, a leading ' or ^ and the names "$" and "ε"
// altogether.  Words are decoded when the library symbol is made and names are encoded when something is printed, on
// both sides (Go here, Lean in Driver/C11.lean), so the code under test and the Model run on the real names.

// stripQ is the name of the terminal a word stands for.
func stripQ(w string) string { return c10.Bare(w) }

// ntName is the name of the non-terminal a word stands for.
func ntName(w string) string { return c10.DecName(w) }

func enc(name string) string { return c10.EncName(name) }

// gxName is the case-file spelling of a library symbol.
func gxName(g gx.G, s grammar.Symbol) string {
	w := enc(s.Name())
	if s.IsTerminal() && g.IsNonTerm(w) {
		return "'" + w
	}
	return w
}

// symOf is the library symbol a body word stands for.
func symOf(g gx.G, w string) grammar.Symbol {
	if g.IsNonTerm(w) {
		return grammar.NonTerminal(ntName(w))
	}
	return grammar.Terminal(stripQ(w))
}

// The layouts in which the production bodies handed to the library can be allocated.  All of them are ordinary Go:
//
//	fresh   every body built by append into a slice of its own (spare capacity as append leaves it)
//	exact   every body a slice of its own with cap == len (a slice literal)
//	arena   all bodies cut out of ONE backing array, one behind the other, each with the capacity up to the end of
//	        the array (body := arena[i:j]): an append to a body writes into the body that follows it
//	prefix  a body that is a prefix of a longer body of the grammar is that body's sub-slice (long[:k], capacity up to
//	        the end of long); the others as in exact
//
// The library may read the bodies it is given, never write to them nor append to (a sub-slice of) them in place.
var layouts = []string{"fresh", "exact", "arena", "prefix"}

func makeBodies(g gx.G, layout string) []grammar.String[grammar.Symbol] {
	bodies := make([]grammar.String[grammar.Symbol], len(g.Prods))
	switch layout {
	case "arena":
		total := 0
		for _, p := range g.Prods {
			total += len(p.Body)
		}
		arena := make(grammar.String[grammar.Symbol], 0, total)
		for i, p := range g.Prods {
			from := len(arena)
			for _, x := range p.Body {
				arena = append(arena, symOf(g, x))
			}
			bodies[i] = arena[from:len(arena)] // capacity: up to the end of the arena
		}
	case "prefix":
		isPrefix := func(a, b []string) bool {
			if len(a) > len(b) {
				return false
			}
			for i := range a {
				if a[i] != b[i] {
					return false
				}
			}
			return true
		}
		host := make([]int, len(g.Prods))
		for i, p := range g.Prods {
			// the longest body of the grammar that p.Body is a proper prefix of (the first of them); it is a prefix of
			// no other body itself
			host[i] = -1
			for j, q := range g.Prods {
				if len(q.Body) > len(p.Body) && isPrefix(p.Body, q.Body) && (host[i] < 0 || len(q.Body) > len(g.Prods[host[i]].Body)) {
					host[i] = j
				}
			}
			if host[i] < 0 {
				b := make(grammar.String[grammar.Symbol], len(p.Body))
				for k, x := range p.Body {
					b[k] = symOf(g, x)
				}
				bodies[i] = b
			}
		}
		for i, p := range g.Prods {
			if host[i] >= 0 {
				bodies[i] = bodies[host[i]][:len(p.Body)]
			}
		}
	case "exact":
		for i, p := range g.Prods {
			b := make(grammar.String[grammar.Symbol], len(p.Body))
			for k, x := range p.Body {
				b[k] = symOf(g, x)
			}
			bodies[i] = b
		}
	default:
		for i, p := range g.Prods {
			body := grammar.String[grammar.Symbol]{}
			for _, x := range p.Body {
				body = append(body, symOf(g, x))
			}
			bodies[i] = body
		}
	}
	return bodies
}

// toCFGLayout builds the library grammar with the production bodies allocated as the layout says.
func toCFGLayout(g gx.G, layout string) *grammar.CFG {
	ts := make([]grammar.Terminal, len(g.Terms))
	for i, t := range g.Terms {
		ts[i] = grammar.Terminal(stripQ(t))
	}
	ns := make([]grammar.NonTerminal, len(g.NonTerms))
	for i, n := range g.NonTerms {
		ns[i] = grammar.NonTerminal(ntName(n))
	}
	bodies := makeBodies(g, layout)
	ps := make([]*grammar.Production, len(g.Prods))
	for i, p := range g.Prods {
		ps[i] = &grammar.Production{Head: grammar.NonTerminal(ntName(p.Head)), Body: bodies[i]}
	}
	return grammar.NewCFG(ts, ns, ps, grammar.NonTerminal(ntName(g.Start)))
}

// toCFG builds the library grammar (gx.G.ToCFG with the word convention).
func toCFG(g gx.G) *grammar.CFG { return toCFGLayout(g, "fresh") }

// canonG respells a grammar given in the words of a case file in canonical words (what showLive and gxName write): old
// case files write names such as ^ as they are.
func canonG(g gx.G) gx.G {
	isNT := map[string]bool{}
	out := gx.G{}
	for _, n := range g.NonTerms {
		w := enc(ntName(n))
		isNT[w] = true
		out.NonTerms = append(out.NonTerms, w)
	}
	word := func(w string) string {
		if g.IsNonTerm(w) {
			return enc(ntName(w))
		}
		cw := enc(stripQ(w))
		if isNT[cw] {
			return "'" + cw
		}
		return cw
	}
	for _, t := range g.Terms {
		out.Terms = append(out.Terms, word(t))
	}
	out.Start = enc(ntName(g.Start))
	for _, p := range g.Prods {
		q := gx.P{Head: enc(ntName(p.Head))}
		for _, x := range p.Body {
			q.Body = append(q.Body, word(x))
		}
		out.Prods = append(out.Prods, q)
	}
	return out
}

// canonTokens respells the tokens of an input (cg: the grammar in canonical words).
func canonTokens(cg gx.G, w []string) []string {
	isNT := map[string]bool{}
	for _, n := range cg.NonTerms {
		isNT[n] = true
	}
	out := make([]string, len(w))
	for i, t := range w {
		out[i] = enc(stripQ(t))
		if isNT[out[i]] {
			out[i] = "'" + out[i]
		}
	}
	return out
}

// showLive renders a library grammar in the format of gx.G.Show (words, everything sorted).
func showLive(G *grammar.CFG) string {
	isNT := map[string]bool{}
	var ts, ns, ps []string
	for n := range G.NonTerminals.All() {
		isNT[enc(string(n))] = true
		ns = append(ns, enc(string(n)))
	}
	word := func(x grammar.Symbol) string {
		w := enc(x.Name())
		if x.IsTerminal() && isNT[w] {
			return "'" + w
		}
		return w
	}
	for t := range G.Terminals.All() {
		ts = append(ts, word(t))
	}
	for p := range G.Productions.All() {
		body := "ε"
		if len(p.Body) > 0 {
			ws := make([]string, len(p.Body))
			for i, x := range p.Body {
				ws[i] = word(x)
			}
			body = strings.Join(ws, " ")
		}
		ps = append(ps, enc(string(p.Head))+"→"+body)
	}
	sort.Strings(ts)
	sort.Strings(ns)
	sort.Strings(ps)
	return fmt.Sprintf("start=%s T={%s} N={%s} P={%s}", enc(string(G.Start)), strings.Join(ts, ","), strings.Join(ns, ","), strings.Join(ps, "; "))
}

// ---------------------------------------------------------------- lexer

// sliceLexer hands out the tokens of a case.  How it signals the end of input is a parameter: lexer.Lexer only says
// "it may also return an error", and Parser.nextToken tests errors.Is(err, io.EOF).
//
//	plain  (zero token, io.EOF)
//	wrap   (zero token, an error that wraps io.EOF)
//	junk   (a token with a terminal and a lexeme of the grammar, io.EOF): what came with the error does not count
//
// failAt >= 0: the call number failAt returns an error that is not io.EOF (an I/O failure of the source).
type sliceLexer struct {
	toks   []string
	i      int
	mode   string
	failAt int
	calls  int
}

var errLexer = errors.New("lexer: the source failed")

func (l *sliceLexer) NextToken() (lexer.Token, error) {
	call := l.calls
	l.calls++
	if l.failAt >= 0 && call == l.failAt {
		return lexer.Token{}, errLexer
	}
	// Offset = token index + 1 (Parser.nextToken keeps the position of the token returned together with io.EOF)
	if l.i >= len(l.toks) {
		pos := lexer.Position{Offset: len(l.toks) + 1}
		switch l.mode {
		case "wrap":
			return lexer.Token{Pos: pos}, fmt.Errorf("lexer: no more input: %w", io.EOF)
		case "junk":
			t := lexer.Token{Terminal: "junk", Lexeme: "junk", Pos: pos}
			if len(l.toks) > 0 {
				t.Terminal, t.Lexeme = grammar.Terminal(stripQ(l.toks[0])), l.toks[0]
			}
			return t, io.EOF
		}
		return lexer.Token{Pos: pos}, io.EOF
	}
	t := l.toks[l.i]
	l.i++
	return lexer.Token{Terminal: grammar.Terminal(stripQ(t)), Lexeme: t, Pos: lexer.Position{Offset: l.i}}, nil
}

// ---------------------------------------------------------------- rendering (byte-identical to the Lean driver)

func tname(t grammar.Terminal) string {
	if t == grammar.Endmarker {
		return "$"
	}
	return enc(string(t))
}

func showProd(p *grammar.Production) string {
	ss := make([]string, len(p.Body))
	for i, s := range p.Body {
		ss[i] = enc(s.Name())
	}
	return enc(string(p.Head)) + "→" + strings.Join(ss, ".")
}

func showAction(a *lr.Action) string {
	switch a.Type {
	case lr.SHIFT:
		return "s" + strconv.Itoa(int(a.State))
	case lr.REDUCE:
		return "r(" + showProd(a.Production) + ")"
	case lr.ACCEPT:
		return "acc"
	}
	return "err"
}

// cellActions reads ACTION[s,a] through the public API: the single action, all conflicting actions, or none.
func cellActions(T *lr.ParsingTable, s lr.State, a grammar.Terminal) []*lr.Action {
	act, err := T.ACTION(s, a)
	if err == nil {
		return []*lr.Action{act}
	}
	var ce *lr.ConflictError
	if errors.As(err, &ce) {
		var out []*lr.Action
		for x := range ce.Actions.All() {
			out = append(out, x)
		}
		sort.Slice(out, func(i, j int) bool { return showAction(out[i]) < showAction(out[j]) })
		return out
	}
	return nil
}

func showCell(acts []*lr.Action) string {
	ss := make([]string, len(acts))
	for i, a := range acts {
		ss[i] = showAction(a)
	}
	sort.Strings(ss)
	return strings.Join(ss, "/")
}

func showTable(T *lr.ParsingTable) string {
	var b strings.Builder
	fmt.Fprintf(&b, "n=%d", len(T.States))
	for _, s := range T.States {
		var acts, gts []string
		for _, a := range T.Terminals {
			if c := cellActions(T, s, a); len(c) > 0 {
				acts = append(acts, tname(a)+"="+showCell(c))
			}
		}
		for _, A := range T.NonTerminals {
			if t, err := T.GOTO(s, A); err == nil {
				gts = append(gts, enc(string(A))+"=>"+strconv.Itoa(int(t)))
			}
		}
		sort.Strings(acts)
		sort.Strings(gts)
		fmt.Fprintf(&b, " %d:%s", int(s), strings.Join(append(acts, gts...), ","))
	}
	return b.String()
}

func showItem(it lr.Item) string {
	var p *grammar.Production
	var dot int
	la := ""
	switch v := it.(type) {
	case *lr.Item0:
		p, dot = v.Production, v.Dot
	case *lr.Item1:
		p, dot = v.Production, v.Dot
		la = "," + tname(v.Lookahead)
	}
	ss := make([]string, len(p.Body))
	for i, s := range p.Body {
		ss[i] = enc(s.Name())
	}
	return enc(string(p.Head)) + "→" + strings.Join(ss[:dot], ".") + "•" + strings.Join(ss[dot:], ".") + la
}

// stateItems returns the item sets of the states of a construction, in state order, through the public API
// (for LALR: the closures of the kernels, as BuildParsingTable uses them).
func stateItems(kind string, G *grammar.CFG) [][]lr.Item {
	var S lr.StateMap
	switch kind {
	case "slr":
		S = lr.BuildStateMap(lr.NewGrammarWithLR0(G).Canonical())
	case "lr1":
		S = lr.BuildStateMap(lr.NewGrammarWithLR1(G).Canonical())
	case "lalr":
		G1 := lr.NewGrammarWithLR1Kernel(G)
		K := lr.BuildStateMap(lookahead.ComputeLALR1Kernels(G))
		for s := range K {
			var items []lr.Item
			for it := range G1.CLOSURE(K.ItemSet(lr.State(s))).All() {
				items = append(items, it)
			}
			sort.Slice(items, func(i, j int) bool { return lr.CmpItem(items[i], items[j]) < 0 })
			S = append(S, items)
		}
	}
	return S
}

func showStates(S [][]lr.Item) string {
	parts := make([]string, len(S))
	for s, items := range S {
		ss := make([]string, len(items))
		for i, it := range items {
			ss[i] = showItem(it)
		}
		parts[s] = strconv.Itoa(s) + ":" + strings.Join(ss, ";")
	}
	return strings.Join(parts, " ")
}

func showTree(n parser.Node) string {
	switch v := n.(type) {
	case *parser.LeafNode:
		return tname(v.Terminal)
	case *parser.InternalNode:
		ss := []string{enc(string(v.NonTerminal))}
		for _, c := range v.Children {
			ss = append(ss, showTree(c))
		}
		return "(" + strings.Join(ss, " ") + ")"
	}
	return "nil"
}

func yieldOf(n parser.Node, out *[]string) {
	switch v := n.(type) {
	case *parser.LeafNode:
		*out = append(*out, string(v.Terminal))
	case *parser.InternalNode:
		for _, c := range v.Children {
			yieldOf(c, out)
		}
	}
}

// ---------------------------------------------------------------- op argument parsing

func mkProd(g gx.G, w string) (*grammar.Production, bool) {
	if !strings.HasPrefix(w, "[") || !strings.HasSuffix(w, "]") {
		return nil, false
	}
	hb := strings.SplitN(w[1:len(w)-1], ":", 2) // the head has no colon; the body may contain the terminal ":"
	if len(hb) != 2 {
		return nil, false
	}
	body := grammar.String[grammar.Symbol]{}
	for _, s := range strings.Split(hb[1], ",") {
		if s == "" {
			continue
		}
		body = append(body, symOf(g, s))
	}
	return &grammar.Production{Head: grammar.NonTerminal(ntName(hb[0])), Body: body}, true
}

func mkAction(g gx.G, w string) (*lr.Action, bool) {
	switch {
	case w == "acc":
		return &lr.Action{Type: lr.ACCEPT}, true
	case strings.HasPrefix(w, "s"):
		n, err := strconv.Atoi(w[1:])
		if err != nil {
			return nil, false
		}
		return &lr.Action{Type: lr.SHIFT, State: lr.State(n)}, true
	case strings.HasPrefix(w, "r"):
		p, ok := mkProd(g, w[1:])
		if !ok {
			return nil, false
		}
		return &lr.Action{Type: lr.REDUCE, Production: p}, true
	}
	return nil, false
}

// ---------------------------------------------------------------- reference of the precedence rule (oracle)

// refLevel is one declared level; a handle is "t:<terminal>" or "p:<production>".
type refLevel struct {
	assoc   string
	handles map[string]bool
}

func refHandle(a string, act *lr.Action) (string, bool) {
	switch act.Type {
	case lr.SHIFT:
		return "t:" + a, true
	case lr.REDUCE:
		for _, s := range act.Production.Body {
			if s.IsTerminal() {
				return "t:" + s.Name(), true
			}
		}
		return "p:" + showProd(act.Production), true
	}
	return "", false
}

func refLevelOf(ls []refLevel, h string) int {
	for i, l := range ls {
		if l.handles[h] {
			return i
		}
	}
	return -1
}

// refPrefer: between two different (action, handle) pairs, +1 = the first wins, -1 = the second wins, 0 = no
// decision (error).  Stated from the documentation of yacc-style precedence, not from the code:
// the handle listed earlier wins; on the same level LEFT prefers the reduce, RIGHT the shift; NONE, unlisted
// handles and two reduces (or two shifts) of one level give no decision.
func refPrefer(ls []refLevel, a string, x, y *lr.Action) int {
	hx1, ok1 := refHandle(a, x)
	hy1, ok2 := refHandle(a, y)
	if !ok1 || !ok2 {
		return 0
	}
	lx, ly := refLevelOf(ls, hx1), refLevelOf(ls, hy1)
	if lx < 0 || ly < 0 {
		return 0
	}
	if lx != ly {
		if lx < ly {
			return 1
		}
		return -1
	}
	xs, ys := x.Type == lr.SHIFT, y.Type == lr.SHIFT
	if xs == ys {
		return 0
	}
	switch ls[lx].assoc {
	case "left":
		if xs {
			return -1
		}
		return 1
	case "right":
		if xs {
			return 1
		}
		return -1
	}
	return 0
}

// refResolve: the running-maximum scan over the actions in the given order; "" = no decision.
func refResolve(ls []refLevel, a string, acts []*lr.Action) string {
	for _, x := range acts {
		if _, ok := refHandle(a, x); !ok {
			return ""
		}
	}
	best := acts[0]
	for _, x := range acts {
		if x.Equal(best) {
			continue
		}
		switch refPrefer(ls, a, x, best) {
		case 0:
			return ""
		case 1:
			best = x
		}
	}
	return showAction(best)
}

func permutations(n int, f func([]int)) {
	idx := make([]int, n)
	for i := range idx {
		idx[i] = i
	}
	var rec func(k int)
	rec = func(k int) {
		if k == n {
			f(idx)
			return
		}
		for i := k; i < n; i++ {
			idx[k], idx[i] = idx[i], idx[k]
			rec(k + 1)
			idx[k], idx[i] = idx[i], idx[k]
		}
	}
	rec(0)
}

// refOutcomes: the set of outcomes of refResolve over all iteration orders.
func refOutcomes(ls []refLevel, a string, acts []*lr.Action) map[string]bool {
	out := map[string]bool{}
	permutations(len(acts), func(idx []int) {
		p := make([]*lr.Action, len(acts))
		for i, k := range idx {
			p[i] = acts[k]
		}
		out[refResolve(ls, a, p)] = true
	})
	return out
}

// ---------------------------------------------------------------- precedence climbing reference (oracle)

type expr struct {
	l, r *expr
	op   string
}

func (e *expr) String() string {
	if e.l == nil {
		return "(E id)"
	}
	return "(E " + e.l.String() + " " + enc(stripQ(e.op)) + " " + e.r.String() + ")"
}

// climb parses  id (op id)*  grouping by declared strength; nil = not an expression or an operator that is
// unlisted / non-associative.
func climb(ls []refLevel, toks []string) *expr {
	pos := 0
	bad := false
	var parseE func(min int) *expr
	parseE = func(min int) *expr {
		if pos >= len(toks) || toks[pos] != "id" {
			bad = true
			return nil
		}
		pos++
		lhs := &expr{}
		for pos < len(toks) && !bad {
			op := toks[pos]
			lv := refLevelOf(ls, "t:"+stripQ(op))
			if lv < 0 || ls[lv].assoc == "none" {
				bad = true
				return nil
			}
			s := len(ls) - lv
			if s < min {
				break
			}
			pos++
			next := s + 1
			if ls[lv].assoc == "right" {
				next = s
			}
			rhs := parseE(next)
			if bad {
				return nil
			}
			lhs = &expr{l: lhs, r: rhs, op: op}
		}
		return lhs
	}
	e := parseE(0)
	if bad || pos != len(toks) {
		return nil
	}
	return e
}

// ---------------------------------------------------------------- derivation replay (oracle)

// replay checks that prods (in emission order), applied in reverse, each to the rightmost non-terminal, lead
// from the start symbol to w.  Linear in the length of the derivation: the sentential form is kept as the part up to
// and including its rightmost non-terminal (a stack) and the terminal suffix behind it (collected back to front).
func replay(g gx.G, prods []*grammar.Production, w []string) string {
	isNT := map[string]bool{}
	for _, n := range g.NonTerms {
		isNT[n] = true
	}
	isProd := map[string]bool{}
	for _, q := range g.Prods {
		isProd[q.Head+"\x00"+strings.Join(q.Body, "\x00")] = true
	}
	left := []string{g.Start}
	var suffixRev []string
	settle := func() { // move the terminals at the end of left over to the suffix
		for len(left) > 0 && !isNT[left[len(left)-1]] {
			suffixRev = append(suffixRev, left[len(left)-1])
			left = left[:len(left)-1]
		}
	}
	settle()
	for i := len(prods) - 1; i >= 0; i-- {
		p := prods[i]
		if len(left) == 0 {
			return "no non-terminal left for " + showProd(p)
		}
		top := left[len(left)-1]
		if top != enc(string(p.Head)) {
			return fmt.Sprintf("rightmost non-terminal is %s, production is %s", top, showProd(p))
		}
		body := make([]string, len(p.Body))
		for x, sym := range p.Body {
			body[x] = gxName(g, sym)
		}
		if !isProd[top+"\x00"+strings.Join(body, "\x00")] {
			return "not a production of the grammar: " + showProd(p)
		}
		left = append(left[:len(left)-1], body...)
		settle()
	}
	if len(left) > 0 {
		return "derivation ends with the non-terminal " + left[len(left)-1] + " left"
	}
	if len(suffixRev) != len(w) {
		return fmt.Sprintf("derivation ends in a string of %d tokens", len(suffixRev))
	}
	for i := range w {
		if suffixRev[len(w)-1-i] != w[i] {
			return fmt.Sprintf("derivation ends in a string that differs from the input at token %d", i)
		}
	}
	return ""
}

// earley decides w ∈ L(g) for any context-free grammar (ε-productions included); independent of the library and of
// gx.LangK; used for the inputs that are too long for the bounded-language table.
func earley(g gx.G, w []string) bool {
	type item struct{ p, dot, orig int }
	isNT := map[string]bool{}
	for _, n := range g.NonTerms {
		isNT[n] = true
	}
	prods := append([]gx.P{{Head: "\x00start", Body: []string{g.Start}}}, g.Prods...)
	nullable := g.Nullable()
	byHead := map[string][]int{}
	for i, p := range prods {
		byHead[p.Head] = append(byHead[p.Head], i)
	}
	n := len(w)
	sets := make([]map[item]bool, n+1)
	lists := make([][]item, n+1)
	add := func(k int, it item) {
		if sets[k] == nil {
			sets[k] = map[item]bool{}
		}
		if !sets[k][it] {
			sets[k][it] = true
			lists[k] = append(lists[k], it)
		}
	}
	add(0, item{0, 0, 0})
	for k := 0; k <= n; k++ {
		predicted := map[string]bool{}
		for idx := 0; idx < len(lists[k]); idx++ {
			it := lists[k][idx]
			body := prods[it.p].Body
			if it.dot < len(body) {
				x := body[it.dot]
				if isNT[x] {
					if !predicted[x] {
						predicted[x] = true
						for _, q := range byHead[x] {
							add(k, item{q, 0, k})
						}
					}
					if nullable[x] {
						add(k, item{it.p, it.dot + 1, it.orig})
					}
				} else if k < n && w[k] == x {
					add(k+1, item{it.p, it.dot + 1, it.orig})
				}
			} else {
				h := prods[it.p].Head
				for j := 0; j < len(lists[it.orig]); j++ {
					pt := lists[it.orig][j]
					b := prods[pt.p].Body
					if pt.dot < len(b) && b[pt.dot] == h {
						add(k, item{pt.p, pt.dot + 1, pt.orig})
					}
				}
			}
		}
	}
	return sets[n][item{0, 1, 0}]
}

// ---------------------------------------------------------------- executing one case

type built struct {
	T       *lr.ParsingTable
	raw     *lr.ParsingTable // before ResolveConflicts (= T when there are no precedence levels)
	verdict string           // table | conflict
	usable  bool
	plain   bool // built without precedence levels
	// the grammar the table was built for (the caller may edit its grammar afterwards: the table stays what it was)
	g    gx.G
	gen  int
	lang map[int]map[string]bool
	cg   *gx.G
}

func (b *built) canon() gx.G {
	if b.cg == nil {
		g := canonG(b.g)
		b.cg = &g
	}
	return *b.cg
}

func cloneGX(g gx.G) gx.G {
	h := gx.G{Start: g.Start, Terms: append([]string{}, g.Terms...), NonTerms: append([]string{}, g.NonTerms...)}
	for _, p := range g.Prods {
		h.Prods = append(h.Prods, gx.P{Head: p.Head, Body: append([]string{}, p.Body...)})
	}
	return h
}

// member: w ∈ L(G) for the grammar the table was built for.
func (b *built) member(w []string) bool {
	n := len(w)
	if n > maxLangK || len(b.g.Prods) > 40 {
		// (the table of all short sentences explodes for the large grammars of the size sweep)
		return earley(b.g, w)
	}
	if n < 5 {
		n = 5
	}
	if b.lang == nil {
		b.lang = map[int]map[string]bool{}
	}
	if b.lang[n] == nil {
		b.lang[n] = b.g.LangK(n)
	}
	return b.lang[n][strings.Join(w, " ")]
}

type state struct {
	g      gx.G
	levels lr.PrecedenceLevels
	ref    []refLevel
	tabs   map[string]*built
	gen    int // counts the edits of the grammar
	// accepted[kind][word] for the agreement oracle
	accepted map[string]map[string]bool

	// how the API is used (header keys; the Model is a pure function of the op lines and does not see them)
	keep    bool                  // cfg=keep: ONE *grammar.CFG for the whole case, edited in place by later grammar lines
	layout  string                // layout=: how the production bodies share backing arrays
	reuse   bool                  // parser=reuse: one lr.Parser per table, its lexer replaced for every parse
	lexMode string                // lex=: how the lexer signals the end of input
	cfg     *grammar.CFG          // the kept object (cfg=keep)
	parsers map[string]*lr.Parser // parser=reuse
	edited  bool                  // a grammar line arrived after a build
	cg      *gx.G                 // st.g in canonical words (cache)
	// expect=table: the generator states that the grammar is SLR(1) by construction (a structured family)
	expectTable bool
}

func (st *state) canon() gx.G {
	if st.cg == nil {
		g := canonG(st.g)
		st.cg = &g
	}
	return *st.cg
}

// maxLangK: sentences up to this length are decided by the bounded-language table (for grammars of up to 40
// productions), longer ones by earley.
const maxLangK = 6

// theCFG is the grammar object handed to the library: the kept one, or a fresh one.
func (st *state) theCFG() *grammar.CFG {
	if !st.keep {
		return toCFGLayout(st.g, st.layout)
	}
	if st.cfg == nil {
		st.cfg = toCFGLayout(st.g, st.layout)
	}
	return st.cfg
}

// cfgOf is a library grammar for the grammar a table was built for: the caller's object while it still is that grammar.
func (st *state) cfgOf(b *built) *grammar.CFG {
	if b.gen == st.gen {
		return st.theCFG()
	}
	return toCFG(b.g)
}

// grammarChanged invalidates what was computed for the grammar as it was.
func (st *state) grammarChanged() {
	st.gen++
	st.cg = nil
	if len(st.tabs) > 0 {
		st.edited = true
	}
}

// opTimeout: the watchdog of one build / parse (a hang of the code under test).  The constructions are cubic and worse in
// the size of the largest item set: the sweep over size thresholds gets more time.
func (st *state) opTimeout() time.Duration {
	if len(st.g.Prods) > 48 || len(st.g.Terms) > 48 {
		return 150 * time.Second
	}
	return 10 * time.Second
}

func isOperatorGrammar(g gx.G) bool {
	if len(g.NonTerms) != 1 || g.NonTerms[0] != "E" || g.Start != "E" {
		return false
	}
	sawID := false
	for _, p := range g.Prods {
		switch {
		case len(p.Body) == 1 && p.Body[0] == "id":
			sawID = true
		case len(p.Body) == 3 && p.Body[0] == "E" && p.Body[2] == "E" && p.Body[1] != "E" && p.Body[1] != "id":
		default:
			return false
		}
	}
	return sawID
}

// validGrammar: the well-formedness the library's Verify() asks for (stated independently); the property
// quantifies over valid grammars only.
func validGrammar(g gx.G) bool {
	isT := map[string]bool{}
	for _, t := range g.Terms {
		isT[t] = true
		if g.IsNonTerm(t) || stripQ(t) == string(grammar.Endmarker) {
			return false
		}
	}
	if !g.IsNonTerm(g.Start) {
		return false
	}
	has := map[string]bool{}
	for _, p := range g.Prods {
		if !g.IsNonTerm(p.Head) {
			return false
		}
		has[p.Head] = true
		for _, s := range p.Body {
			if !isT[s] && !g.IsNonTerm(s) {
				return false
			}
		}
	}
	for _, n := range g.NonTerms {
		if !has[n] {
			return false
		}
	}
	return true
}

// Exec runs one case on the real parser/lr packages.
func Exec(c hx.Case) hx.Result {
	res := hx.Result{BadOp: -1}
	bad := func(i int, sig string, format string, a ...any) {
		if res.BadOp < 0 {
			res.BadOp = i
			res.What = strings.NewReplacer("\n", " ", "\r", " ").Replace(fmt.Sprintf(format, a...)) // one line in the replay file
			res.Sig = sig
		}
	}
	tags := map[string]bool{}
	seed := int64(1)
	if v := hx.HeaderGet(c.Header, "shuffle"); v != "" {
		if n, err := strconv.ParseInt(v, 10, 64); err == nil {
			seed = n
		}
	}
	seedShuffles(seed)
	st := &state{tabs: map[string]*built{}, accepted: map[string]map[string]bool{},
		parsers: map[string]*lr.Parser{}}
	st.keep = hx.HeaderGet(c.Header, "cfg") == "keep"
	st.layout = hx.HeaderGet(c.Header, "layout")
	if st.layout == "" {
		st.layout = "fresh"
	}
	st.reuse = hx.HeaderGet(c.Header, "parser") == "reuse"
	st.lexMode = hx.HeaderGet(c.Header, "lex")
	st.expectTable = hx.HeaderGet(c.Header, "expect") == "table"
	if v := hx.HeaderGet(c.Header, "names"); v != "" && v != "plain" {
		tags["names:"+v] = true
	}
	if v := hx.HeaderGet(c.Header, "size"); v != "" {
		tags["size:"+v] = true
	}
	lexFailed := false
	sawAccept, sawReject, boundary, resolvedCmp, decided := false, false, false, false, false

	for i, op := range c.Ops {
		f := strings.Fields(op)
		if len(f) == 0 {
			res.Outs = append(res.Outs, "bad-op")
			continue
		}
		out := "bad-op"
		stop := false
		switch f[0] {
		case "terms":
			st.g.Terms = append(st.g.Terms, f[1:]...)
			st.grammarChanged()
			if st.cfg != nil { // the caller edits the grammar it has already handed to a construction
				for _, t := range f[1:] {
					st.cfg.Terminals.Add(grammar.Terminal(stripQ(t)))
				}
			}
			out = "ok"
		case "nonterms":
			st.g.NonTerms = append(st.g.NonTerms, f[1:]...)
			st.grammarChanged()
			if st.cfg != nil {
				for _, n := range f[1:] {
					st.cfg.NonTerminals.Add(grammar.NonTerminal(ntName(n)))
				}
			}
			out = "ok"
		case "start":
			if len(f) == 2 {
				st.g.Start = f[1]
				st.grammarChanged()
				if st.cfg != nil {
					st.cfg.Start = grammar.NonTerminal(ntName(f[1]))
				}
				out = "ok"
			}
		case "prod", "unprod":
			if len(f) >= 3 && f[2] == ":" {
				p := gx.P{Head: f[1], Body: append([]string{}, f[3:]...)}
				body := make(grammar.String[grammar.Symbol], len(p.Body))
				for k, x := range p.Body {
					body[k] = symOf(st.g, x)
				}
				lp := &grammar.Production{Head: grammar.NonTerminal(ntName(p.Head)), Body: body}
				if f[0] == "prod" {
					st.g.Prods = append(st.g.Prods, p)
					if st.cfg != nil {
						st.cfg.Productions.Add(lp)
					}
				} else {
					var rest []gx.P
					for _, q := range st.g.Prods {
						if q.Head != p.Head || strings.Join(q.Body, "\x00") != strings.Join(p.Body, "\x00") || len(q.Body) != len(p.Body) {
							rest = append(rest, q)
						}
					}
					st.g.Prods = rest
					if st.cfg != nil {
						st.cfg.Productions.Remove(lp)
					}
				}
				st.grammarChanged()
				out = "ok"
			}
		case "grammar":
			// the grammar as the library object holds it (the kept object if there is one): a construction must not have
			// written to the grammar it was given
			if len(f) == 1 {
				var shown string
				kind := hx.Try(func() { shown = showLive(st.theCFG()) })
				if kind != "" {
					out, stop = "panic", true
					bad(i, "", "rendering the grammar panicked (%s)", kind)
				} else {
					out = "ok " + shown
					if want := st.canon().Show(); shown != want {
						bad(i, "", "the grammar object handed to the constructions now reads %s, the caller built it as %s", shown, want)
					}
				}
			}
		case "prec":
			if len(f) >= 2 {
				var as lr.Associativity
				okA := true
				switch f[1] {
				case "left":
					as = lr.LEFT
				case "right":
					as = lr.RIGHT
				case "none":
					as = lr.NONE
				default:
					okA = false
				}
				if okA {
					hs := lr.NewPrecedenceHandles()
					rl := refLevel{assoc: f[1], handles: map[string]bool{}}
					for _, w := range f[2:] {
						if p, ok := mkProd(st.g, w); ok {
							hs.Add(&lr.PrecedenceHandle{Production: p})
							rl.handles["p:"+showProd(p)] = true
						} else {
							hs.Add(lr.PrecedenceHandleForTerminal(grammar.Terminal(stripQ(w))))
							rl.handles["t:"+stripQ(w)] = true
						}
					}
					st.levels = append(st.levels, &lr.PrecedenceLevel{Associativity: as, Handles: hs})
					st.ref = append(st.ref, rl)
					out = "ok"
				}
			}
		case "build":
			if len(f) == 2 && builders[f[1]] != nil {
				if !validGrammar(st.g) {
					out = "ok invalid-grammar"
					break
				}
				out, stop = st.build(i, f[1], bad, tags)
			}
		case "dump":
			if len(f) == 2 && builders[f[1]] != nil {
				if st.tabs[f[1]] == nil {
					out = "ok no-table"
				} else {
					var s string
					kind := hx.Try(func() { s = showStates(stateItems(f[1], st.cfgOf(st.tabs[f[1]]))) })
					if kind != "" {
						out, stop = "panic", true
						bad(i, "", "dump %s panicked (%s)", f[1], kind)
					} else {
						out = "ok " + s
					}
				}
			}
		case "check":
			if len(f) == 2 && builders[f[1]] != nil {
				if b := st.tabs[f[1]]; b == nil {
					out = "ok no-table"
				} else {
					why := ""
					kind := hx.Try(func() { why = st.validate(f[1]) })
					switch {
					case kind != "":
						out, stop = "panic", true
						bad(i, "", "validator for %s panicked (%s)", f[1], kind)
					case why == "":
						out = "ok valid"
					default:
						out = "ok invalid " + why
						bad(i, "", "%s table fails the validator: %s", f[1], why)
					}
				}
			}
		case "parse", "ast", "parsefail":
			if len(f) >= 2 && builders[f[1]] != nil {
				k, w := f[1], f[2:]
				failAt := -1
				if f[0] == "parsefail" {
					if len(f) < 3 {
						break
					}
					n, err := strconv.Atoi(f[2])
					if err != nil || n < 0 || n > len(f[3:]) {
						break
					}
					failAt, w = n, f[3:]
				}
				b := st.tabs[k]
				if b == nil || !b.usable {
					out = "ok no-table"
					break
				}
				var prods []*grammar.Production
				var perr error
				var root parser.Node
				var pk string
				done := hx.WithTimeout(st.opTimeout(), func() {
					pk = hx.Try(func() {
						lx := &sliceLexer{toks: w, mode: st.lexMode, failAt: failAt}
						var p *lr.Parser
						if st.reuse {
							// one parser object per table, used for one parse after the other
							if p = st.parsers[k]; p == nil || p.T != b.T {
								p = &lr.Parser{T: b.T}
								st.parsers[k] = p
							} else {
								tags["parser-reused"] = true
							}
							p.L = lx
						} else {
							p = &lr.Parser{L: lx, T: b.T}
						}
						if f[0] == "ast" {
							root, perr = p.ParseAndBuildAST()
						} else {
							perr = p.Parse(nil, func(pr *grammar.Production) error { prods = append(prods, pr); return nil })
						}
					})
				})
				if f[0] == "parsefail" {
					switch {
					case !done:
						out, stop = "hang", true
						bad(i, "", "parse %s did not return (lexer failing at token %d of [%s])", k, failAt, shortW(w))
					case pk != "":
						out, stop = "panic", true
						bad(i, "", "parse %s panicked (%s) when the lexer failed at token %d of [%s]", k, pk, failAt, shortW(w))
					case perr == nil:
						out = "ok accept-after-lexer-error"
						bad(i, "", "parse %s accepted although the lexer reported a failure at token %d of [%s]", k, failAt, shortW(w))
					default:
						pos := -1
						var pe *parser.ParseError
						if errors.As(perr, &pe) {
							pos = pe.Pos.Offset - 1
						}
						out = "ok reject " + strconv.Itoa(pos)
						if errors.Is(perr, errLexer) {
							lexFailed = true
						}
					}
					break
				}
				switch {
				case !done:
					out, stop = "hang", true
					bad(i, "", "%s %s did not return on [%s]", f[0], k, shortW(w))
				case pk != "":
					out, stop = "panic", true
					bad(i, "", "%s %s panicked (%s) on [%s]", f[0], k, pk, shortW(w))
				case perr != nil:
					pos := -1
					var pe *parser.ParseError
					if errors.As(perr, &pe) {
						pos = pe.Pos.Offset - 1
					}
					out = "ok reject " + strconv.Itoa(pos)
				case f[0] == "parse":
					ss := make([]string, len(prods))
					for j, p := range prods {
						ss[j] = showProd(p)
					}
					out = "ok accept " + strings.Join(ss, ";")
				default:
					out = "ok ast " + showTree(root)
				}
				if stop {
					break
				}
				accepted := perr == nil
				if st.accepted[k] == nil {
					st.accepted[k] = map[string]bool{}
				}
				st.accepted[k][strings.Join(w, " ")] = accepted
				if b.plain && b.verdict == "table" {
					// a conflict-free table accepts exactly L(G)
					want := b.member(w)
					if accepted {
						sawAccept = true
					} else {
						sawReject = true
					}
					if accepted != want {
						bad(i, "", "%s table: accept=%v for [%s] but membership in L(G) is %v", k, accepted, shortW(w), want)
					} else if accepted && f[0] == "parse" {
						if msg := replay(b.canon(), prods, canonTokens(b.canon(), w)); msg != "" {
							bad(i, "", "%s: emitted productions reversed are not a rightmost derivation of [%s]: %s", k, shortW(w), msg)
						}
					} else if accepted {
						var y []string
						yieldOf(root, &y)
						ws := make([]string, len(w))
						for j, t := range w {
							ws[j] = stripQ(t)
						}
						if strings.Join(y, " ") != strings.Join(ws, " ") {
							bad(i, "", "%s: AST yield [%s] differs from the input [%s]", k, shortW(y), shortW(w))
						}
					}
					// all successful constructions accept the same strings
					for _, k2 := range kinds {
						if b2 := st.tabs[k2]; k2 != k && b2 != nil && b2.plain && b2.verdict == "table" && b2.gen == b.gen {
							if a2, seen := st.accepted[k2][strings.Join(w, " ")]; seen && a2 != accepted {
								bad(i, "", "%s and %s disagree on [%s]", k, k2, shortW(w))
							}
						}
					}
				}
				if !b.plain && b.verdict == "table" && isOperatorGrammar(b.g) {
					// the resolved parser groups operators as declared
					ref := climb(st.ref, w)
					listed := true
					for _, t := range w {
						if t != "id" && refLevelOf(st.ref, "t:"+stripQ(t)) < 0 {
							listed = false
						}
					}
					switch {
					case ref == nil && accepted && listed:
						bad(i, "", "%s accepted [%s], which is not an expression", k, strings.Join(w, " "))
					case ref != nil && !accepted:
						bad(i, "", "%s rejected the expression [%s]", k, strings.Join(w, " "))
					case ref != nil && f[0] == "ast":
						resolvedCmp = true
						if got := showTree(root); got != ref.String() {
							bad(i, "", "%s groups [%s] as %s, declared precedence gives %s", k, strings.Join(w, " "), got, ref.String())
						}
					}
				}
			}
		case "resolve", "compare":
			bar := -1
			for j, w := range f {
				if w == "|" {
					bar = j
				}
			}
			if bar != 2 {
				break
			}
			a := stripQ(f[1])
			var acts []*lr.Action
			okA := true
			for _, w := range f[bar+1:] {
				act, ok := mkAction(st.g, w)
				if !ok {
					okA = false
					break
				}
				for _, y := range acts {
					if y.Equal(act) {
						okA = false
					}
				}
				acts = append(acts, act)
			}
			if !okA {
				break
			}
			if f[0] == "compare" {
				if len(acts) != 2 || acts[0].Type == lr.ACCEPT || acts[1].Type == lr.ACCEPT {
					break
				}
				mk := func(x *lr.Action) *lr.ActionHandlePair {
					if x.Type == lr.SHIFT {
						return &lr.ActionHandlePair{Action: x, Handle: lr.PrecedenceHandleForTerminal(grammar.Terminal(a))}
					}
					return &lr.ActionHandlePair{Action: x, Handle: lr.PrecedenceHandleForProduction(x.Production)}
				}
				var cmp int
				var err error
				kind := hx.Try(func() { cmp, err = st.levels.Compare(mk(acts[0]), mk(acts[1])) })
				switch {
				case kind != "":
					out, stop = "panic", true
					bad(i, "", "Compare panicked (%s)", kind)
				case err != nil:
					out = "ok error"
				default:
					out = "ok " + strconv.Itoa(cmp)
				}
				if kind == "" {
					want := refPrefer(st.ref, a, acts[0], acts[1])
					if want != 0 {
						decided = true
					}
					got := cmp
					if err != nil {
						got = 0
					}
					if got != want {
						bad(i, "", "Compare(%s, %s) on %s = %s, the declared levels give %d", showAction(acts[0]), showAction(acts[1]), a, out, want)
					}
				}
				break
			}
			if len(acts) < 2 {
				break
			}
			// resolveConflict through the public API: a one-cell table, actions inserted in the given order,
			// iteration forced to insertion order
			var got string
			kind := hx.Try(func() {
				T := lr.NewParsingTable([]lr.State{0}, []grammar.Terminal{grammar.Terminal(a)}, nil, st.levels)
				for _, act := range acts {
					T.AddACTION(0, grammar.Terminal(a), act)
				}
				set.VerifSetShuffleSource(identitySource{})
				err := T.ResolveConflicts()
				seedShuffles(seed + int64(i) + 1)
				if err != nil {
					got = "error"
					return
				}
				act, err := T.ACTION(0, grammar.Terminal(a))
				if err != nil {
					got = "error"
				} else {
					got = showAction(act)
				}
			})
			if kind != "" {
				seedShuffles(seed + int64(i) + 1)
				out, stop = "panic", true
				bad(i, "", "resolveConflict panicked (%s) on %s", kind, op)
				break
			}
			out = "ok " + got
			if st.levels.Verify() == nil {
				want := refResolve(st.ref, a, acts)
				if want == "" {
					want = "error"
				} else {
					decided = true
				}
				if got != want {
					bad(i, "", "resolveConflict(%s) = %s, the declared levels give %s", op, got, want)
				}
			}
		case "chain":
			// the Model evaluates the simulation certificate (per-core lookahead inclusion) between the three tables;
			// it is expected to hold for every reduced grammar; the verdict chain itself is checked at the end of the case
			out = "ok chain"
			for _, k := range kinds {
				if b := st.tabs[k]; b == nil || !b.plain {
					out = "ok no-table"
				}
			}
		case "climb":
			if e := climb(st.ref, f[1:]); e != nil {
				out = "ok " + e.String()
			} else {
				out = "ok reject"
			}
		}
		res.Outs = append(res.Outs, out)
		if stop {
			tags["stopped"] = true
			break
		}
	}

	// inclusion chain over the constructions built without precedence levels
	verdictOf := func(k string) string {
		if b := st.tabs[k]; b != nil && b.plain && b.gen == st.gen {
			return b.verdict
		}
		return ""
	}
	vs, vl, vc := verdictOf("slr"), verdictOf("lalr"), verdictOf("lr1")
	last := len(res.Outs) - 1
	if vs == "table" && vl == "conflict" {
		bad(last, "", "SLR succeeded but LALR reports a conflict")
	}
	if vl == "table" && vc == "conflict" {
		bad(last, "", "LALR succeeded but canonical LR(1) reports a conflict")
	}
	if vs == "table" && vc == "conflict" {
		bad(last, "", "SLR succeeded but canonical LR(1) reports a conflict")
	}
	if (vs == "conflict" && vl == "table") || (vl == "conflict" && vc == "table") {
		boundary = true
		tags["boundary:"+vs+"/"+vl+"/"+vc] = true
	}
	for _, k := range kinds {
		if b := st.tabs[k]; b != nil {
			mode := "plain"
			if !b.plain {
				mode = "prec"
			}
			tags[k+"="+b.verdict+"("+mode+")"] = true
		}
	}
	for _, p := range st.g.Prods {
		if len(p.Body) == 0 {
			tags["eps-production"] = true
		}
	}
	if sawAccept {
		tags["accepted-some"] = true
	}
	if sawReject {
		tags["rejected-some"] = true
	}
	if resolvedCmp {
		tags["tree-vs-climbing-reference"] = true
	}
	if decided {
		tags["precedence-decision"] = true
	}
	if lexFailed {
		tags["lexer-failure-reported"] = true
	}
	if st.lexMode != "" && st.lexMode != "plain" {
		tags["lex="+st.lexMode] = true
	}
	res.Nontrivial = (sawAccept && sawReject) || boundary || (resolvedCmp && tags["resolved-cells"]) || decided
	for t := range tags {
		res.Tags = append(res.Tags, t)
	}
	sort.Strings(res.Tags)
	return res
}

// build runs BuildParsingTable for one kind (with the case's precedence levels, if any).
func (st *state) build(i int, k string, bad func(int, string, string, ...any), tags map[string]bool) (string, bool) {
	delete(st.tabs, k)
	delete(st.accepted, k)
	delete(st.parsers, k)
	G := st.theCFG()
	if st.keep {
		tags["cfg=keep"] = true
		if st.edited {
			tags["grammar-edited-between-builds"] = true
		}
	}
	if st.layout != "fresh" {
		tags["layout="+st.layout] = true
	}
	defer func() {
		// whatever the construction answered: it must not have written to the grammar it was given
		if kind := hx.Try(func() {
			if shown, want := showLive(G), st.canon().Show(); shown != want {
				bad(i, "", "build %s changed the grammar it was given (bodies allocated as layout=%s): it now reads %s, the caller built %s", k, st.layout, shown, want)
			}
		}); kind != "" {
			bad(i, "", "the grammar handed to build %s cannot be read any more (%s)", k, kind)
		}
	}()
	run := func(levels lr.PrecedenceLevels) (T *lr.ParsingTable, err error, fail string) {
		var pk string
		done := hx.WithTimeout(st.opTimeout(), func() {
			pk = hx.Try(func() { T, err = builders[k](G, levels) })
		})
		if !done {
			return nil, nil, "hang"
		}
		if pk != "" {
			return nil, nil, "panic"
		}
		return T, err, ""
	}
	T, err, fail := run(st.levels)
	if fail != "" {
		bad(i, "", "build %s: %s on %s", k, fail, st.g.Show())
		return fail, true
	}
	if err != nil {
		if _, isConflict := err.(lr.AggregatedConflictError); !isConflict {
			return "ok badprec", false
		}
	}
	verdict := "table"
	if err != nil {
		verdict = "conflict"
	}
	if len(st.levels) == 0 {
		if st.expectTable && verdict != "table" {
			msg := strings.Join(strings.Fields(err.Error()), " ")
			if len(msg) > 300 {
				msg = msg[:300] + "…"
			}
			bad(i, "", "build %s reports a conflict on a grammar that is SLR(1) by construction (%s)", k, msg)
		}
		st.tabs[k] = &built{T: T, raw: T, verdict: verdict, usable: true, plain: true, g: cloneGX(st.g), gen: st.gen}
		return "ok " + verdict + " " + showTable(T), false
	}
	// with precedence levels: compare every resolved cell with the reference rule; cells whose outcome depends on
	// the iteration order of the action set are reported as such
	raw, _, fail := run(nil)
	if fail != "" {
		bad(i, "", "build %s without levels: %s", k, fail)
		return fail, true
	}
	orderDependent := false
	for _, s := range raw.States {
		for _, a := range raw.Terminals {
			acts := cellActions(raw, s, a)
			if len(acts) <= 1 {
				continue
			}
			got := cellActions(T, s, a)
			gotS := ""
			if len(got) == 1 {
				gotS = showAction(got[0])
			}
			if len(acts) > 5 {
				orderDependent = true
				continue
			}
			outs := refOutcomes(st.ref, string(a), acts)
			if len(outs) > 1 {
				orderDependent = true
				tags["order-dependent-cell"] = true
			}
			if !outs[gotS] {
				bad(i, "", "%s ACTION[%d,%s]: {%s} resolved to %q, the declared levels allow %v", k, s, tname(a), showCell(acts), gotS, keys(outs))
			}
			if gotS != "" {
				tags["resolved-cells"] = true
			}
		}
	}
	if orderDependent {
		st.tabs[k] = &built{T: T, raw: raw, verdict: "order-dependent", usable: false, g: cloneGX(st.g), gen: st.gen}
		return "ok order-dependent", false
	}
	st.tabs[k] = &built{T: T, raw: raw, verdict: verdict, usable: true, g: cloneGX(st.g), gen: st.gen}
	return "ok " + verdict + " " + showTable(T), false
}

// shortW renders a token string for a message, abbreviating long ones.
func shortW(w []string) string {
	if len(w) <= 24 {
		return strings.Join(w, " ")
	}
	return strings.Join(w[:10], " ") + fmt.Sprintf(" … (%d tokens) … ", len(w)) + strings.Join(w[len(w)-6:], " ")
}

func keys(m map[string]bool) []string {
	var ks []string
	for k := range m {
		if k == "" {
			k = "error"
		}
		ks = append(ks, k)
	}
	sort.Strings(ks)
	return ks
}
