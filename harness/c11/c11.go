// Package c11: SLR / LALR / canonical LR(1) table construction, the LR driver and precedence resolution
// (parser/lr/**) against independent oracles: the exact bounded language (gx.LangK), a step-by-step replay
// of the emitted derivation, the inclusion chain SLR ⊆ LALR ⊆ LR(1), agreement of the constructions,
// a table validator and a precedence-climbing reference parser.
package c11

import (
	"errors"
	"fmt"
	"io"
	"sort"
	"strconv"
	"strings"
	"time"

	"github.com/moorara/algo/grammar"
	"github.com/moorara/algo/lexer"
	"github.com/moorara/algo/parser"
	"github.com/moorara/algo/parser/lr"
	"github.com/moorara/algo/parser/lr/canonical"
	"github.com/moorara/algo/parser/lr/lookahead"
	"github.com/moorara/algo/parser/lr/simple"
	"github.com/moorara/algo/set"
	"github.com/moorara/algo/symboltable"

	"verifharness/gx"
	"verifharness/hx"
)

const Rule = "cases = (grammar, optional precedence levels, op list) drawn from VERIF_SEED: random *reduced* grammars " +
	"(gx.Random filtered by gx.Reduced; ε-productions, unit and left-recursive alternatives, common prefixes), a hand-written " +
	"family on the LR(0)/SLR/LALR/LR(1) boundaries, operator grammars E→E op E|id with up to 4 operators and all kinds of " +
	"level/associativity assignments, and direct resolveConflict/Compare cases; ops = build/dump/check for the three " +
	"constructions, parse+ast of ALL token strings up to a length bound (members and non-members) or of random expressions. " +
	"non-trivial = a construction produced a conflict-free table on which at least one string was accepted and one rejected, " +
	"or the constructions differed (boundary), or precedence resolved at least one conflict cell and a tree was compared with " +
	"the precedence-climbing reference, or a resolve/compare op reached a decision between two listed handles; " +
	"distinct = distinct (header, op list)"

var kinds = []string{"slr", "lalr", "lr1"}

type builder func(*grammar.CFG, lr.PrecedenceLevels) (*lr.ParsingTable, error)

var builders = map[string]builder{
	"slr":  simple.BuildParsingTable,
	"lalr": lookahead.BuildParsingTable,
	"lr1":  canonical.BuildParsingTable,
}

// ---------------------------------------------------------------- shuffle control

// identitySource makes rand.Shuffle the identity permutation (int31n(n) returns n-1 for every n), so that
// an unordered set is traversed in insertion order.
type identitySource struct{}

func (identitySource) Int63() int64 { return 1<<63 - 1 }
func (identitySource) Seed(int64)   {}

func seedShuffles(seed int64) {
	set.VerifSetShuffleSeed(seed)
	symboltable.VerifSetShuffleSeed(seed)
}

// ---------------------------------------------------------------- names
//
// The grammar protocol decides "non-terminal iff listed in nonterms" by name, so a terminal that has the same name as
// a non-terminal (legal for the library: Terminal("S") and NonTerminal("S") are different symbols) is spelled 'S
// in case files; the quote is stripped when the library symbol is made, on both sides (Go here, Lean in the driver).

func stripQ(s string) string { return strings.TrimPrefix(s, "'") }

// gxName is the case-file spelling of a library symbol.
func gxName(g gx.G, s grammar.Symbol) string {
	if s.IsTerminal() && g.IsNonTerm(s.Name()) {
		return "'" + s.Name()
	}
	return s.Name()
}

// toCFG builds the library grammar (gx.G.ToCFG with the quote convention).
func toCFG(g gx.G) *grammar.CFG {
	ts := make([]grammar.Terminal, len(g.Terms))
	for i, t := range g.Terms {
		ts[i] = grammar.Terminal(stripQ(t))
	}
	ns := make([]grammar.NonTerminal, len(g.NonTerms))
	for i, n := range g.NonTerms {
		ns[i] = grammar.NonTerminal(n)
	}
	ps := make([]*grammar.Production, len(g.Prods))
	for i, p := range g.Prods {
		body := grammar.String[grammar.Symbol]{}
		for _, x := range p.Body {
			if g.IsNonTerm(x) {
				body = append(body, grammar.NonTerminal(x))
			} else {
				body = append(body, grammar.Terminal(stripQ(x)))
			}
		}
		ps[i] = &grammar.Production{Head: grammar.NonTerminal(p.Head), Body: body}
	}
	return grammar.NewCFG(ts, ns, ps, grammar.NonTerminal(g.Start))
}

// ---------------------------------------------------------------- lexer

type sliceLexer struct {
	toks []string
	i    int
}

func (l *sliceLexer) NextToken() (lexer.Token, error) {
	// Offset = token index + 1 (Parser.nextToken keeps the position of the token returned together with io.EOF)
	if l.i >= len(l.toks) {
		return lexer.Token{Pos: lexer.Position{Offset: len(l.toks) + 1}}, io.EOF
	}
	t := l.toks[l.i]
	l.i++
	return lexer.Token{Terminal: grammar.Terminal(stripQ(t)), Lexeme: t, Pos: lexer.Position{Offset: l.i}}, nil
}

// ---------------------------------------------------------------- rendering (byte-identical to the Lean driver)

func tname(t grammar.Terminal) string {
	if t == grammar.Endmarker {
		return "$"
	}
	return string(t)
}

func showProd(p *grammar.Production) string {
	ss := make([]string, len(p.Body))
	for i, s := range p.Body {
		ss[i] = s.Name()
	}
	return string(p.Head) + "→" + strings.Join(ss, ".")
}

func showAction(a *lr.Action) string {
	switch a.Type {
	case lr.SHIFT:
		return "s" + strconv.Itoa(int(a.State))
	case lr.REDUCE:
		return "r(" + showProd(a.Production) + ")"
	case lr.ACCEPT:
		return "acc"
	}
	return "err"
}

// cellActions reads ACTION[s,a] through the public API: the single action, all conflicting actions, or none.
func cellActions(T *lr.ParsingTable, s lr.State, a grammar.Terminal) []*lr.Action {
	act, err := T.ACTION(s, a)
	if err == nil {
		return []*lr.Action{act}
	}
	var ce *lr.ConflictError
	if errors.As(err, &ce) {
		var out []*lr.Action
		for x := range ce.Actions.All() {
			out = append(out, x)
		}
		sort.Slice(out, func(i, j int) bool { return showAction(out[i]) < showAction(out[j]) })
		return out
	}
	return nil
}

func showCell(acts []*lr.Action) string {
	ss := make([]string, len(acts))
	for i, a := range acts {
		ss[i] = showAction(a)
	}
	sort.Strings(ss)
	return strings.Join(ss, "/")
}

func showTable(T *lr.ParsingTable) string {
	var b strings.Builder
	fmt.Fprintf(&b, "n=%d", len(T.States))
	for _, s := range T.States {
		var acts, gts []string
		for _, a := range T.Terminals {
			if c := cellActions(T, s, a); len(c) > 0 {
				acts = append(acts, tname(a)+"="+showCell(c))
			}
		}
		for _, A := range T.NonTerminals {
			if t, err := T.GOTO(s, A); err == nil {
				gts = append(gts, string(A)+"=>"+strconv.Itoa(int(t)))
			}
		}
		sort.Strings(acts)
		sort.Strings(gts)
		fmt.Fprintf(&b, " %d:%s", int(s), strings.Join(append(acts, gts...), ","))
	}
	return b.String()
}

func showItem(it lr.Item) string {
	var p *grammar.Production
	var dot int
	la := ""
	switch v := it.(type) {
	case *lr.Item0:
		p, dot = v.Production, v.Dot
	case *lr.Item1:
		p, dot = v.Production, v.Dot
		la = "," + tname(v.Lookahead)
	}
	ss := make([]string, len(p.Body))
	for i, s := range p.Body {
		ss[i] = s.Name()
	}
	return string(p.Head) + "→" + strings.Join(ss[:dot], ".") + "•" + strings.Join(ss[dot:], ".") + la
}

// stateItems returns the item sets of the states of a construction, in state order, through the public API
// (for LALR: the closures of the kernels, as BuildParsingTable uses them).
func stateItems(kind string, G *grammar.CFG) [][]lr.Item {
	var S lr.StateMap
	switch kind {
	case "slr":
		S = lr.BuildStateMap(lr.NewGrammarWithLR0(G).Canonical())
	case "lr1":
		S = lr.BuildStateMap(lr.NewGrammarWithLR1(G).Canonical())
	case "lalr":
		G1 := lr.NewGrammarWithLR1Kernel(G)
		K := lr.BuildStateMap(lookahead.ComputeLALR1Kernels(G))
		for s := range K {
			var items []lr.Item
			for it := range G1.CLOSURE(K.ItemSet(lr.State(s))).All() {
				items = append(items, it)
			}
			sort.Slice(items, func(i, j int) bool { return lr.CmpItem(items[i], items[j]) < 0 })
			S = append(S, items)
		}
	}
	return S
}

func showStates(S [][]lr.Item) string {
	parts := make([]string, len(S))
	for s, items := range S {
		ss := make([]string, len(items))
		for i, it := range items {
			ss[i] = showItem(it)
		}
		parts[s] = strconv.Itoa(s) + ":" + strings.Join(ss, ";")
	}
	return strings.Join(parts, " ")
}

func showTree(n parser.Node) string {
	switch v := n.(type) {
	case *parser.LeafNode:
		return tname(v.Terminal)
	case *parser.InternalNode:
		ss := []string{string(v.NonTerminal)}
		for _, c := range v.Children {
			ss = append(ss, showTree(c))
		}
		return "(" + strings.Join(ss, " ") + ")"
	}
	return "nil"
}

func yieldOf(n parser.Node, out *[]string) {
	switch v := n.(type) {
	case *parser.LeafNode:
		*out = append(*out, string(v.Terminal))
	case *parser.InternalNode:
		for _, c := range v.Children {
			yieldOf(c, out)
		}
	}
}

// ---------------------------------------------------------------- op argument parsing

func mkProd(g gx.G, w string) (*grammar.Production, bool) {
	if !strings.HasPrefix(w, "[") || !strings.HasSuffix(w, "]") {
		return nil, false
	}
	hb := strings.SplitN(w[1:len(w)-1], ":", 2) // the head has no colon; the body may contain the terminal ":"
	if len(hb) != 2 {
		return nil, false
	}
	body := grammar.String[grammar.Symbol]{}
	for _, s := range strings.Split(hb[1], ",") {
		if s == "" {
			continue
		}
		if g.IsNonTerm(s) {
			body = append(body, grammar.NonTerminal(s))
		} else {
			body = append(body, grammar.Terminal(stripQ(s)))
		}
	}
	return &grammar.Production{Head: grammar.NonTerminal(hb[0]), Body: body}, true
}

func mkAction(g gx.G, w string) (*lr.Action, bool) {
	switch {
	case w == "acc":
		return &lr.Action{Type: lr.ACCEPT}, true
	case strings.HasPrefix(w, "s"):
		n, err := strconv.Atoi(w[1:])
		if err != nil {
			return nil, false
		}
		return &lr.Action{Type: lr.SHIFT, State: lr.State(n)}, true
	case strings.HasPrefix(w, "r"):
		p, ok := mkProd(g, w[1:])
		if !ok {
			return nil, false
		}
		return &lr.Action{Type: lr.REDUCE, Production: p}, true
	}
	return nil, false
}

// ---------------------------------------------------------------- reference of the precedence rule (oracle)

// refLevel is one declared level; a handle is "t:<terminal>" or "p:<production>".
type refLevel struct {
	assoc   string
	handles map[string]bool
}

func refHandle(a string, act *lr.Action) (string, bool) {
	switch act.Type {
	case lr.SHIFT:
		return "t:" + a, true
	case lr.REDUCE:
		for _, s := range act.Production.Body {
			if s.IsTerminal() {
				return "t:" + s.Name(), true
			}
		}
		return "p:" + showProd(act.Production), true
	}
	return "", false
}

func refLevelOf(ls []refLevel, h string) int {
	for i, l := range ls {
		if l.handles[h] {
			return i
		}
	}
	return -1
}

// refPrefer: between two different (action, handle) pairs, +1 = the first wins, -1 = the second wins, 0 = no
// decision (error).  Stated from the documentation of yacc-style precedence, not from the code:
// the handle listed earlier wins; on the same level LEFT prefers the reduce, RIGHT the shift; NONE, unlisted
// handles and two reduces (or two shifts) of one level give no decision.
func refPrefer(ls []refLevel, a string, x, y *lr.Action) int {
	hx1, ok1 := refHandle(a, x)
	hy1, ok2 := refHandle(a, y)
	if !ok1 || !ok2 {
		return 0
	}
	lx, ly := refLevelOf(ls, hx1), refLevelOf(ls, hy1)
	if lx < 0 || ly < 0 {
		return 0
	}
	if lx != ly {
		if lx < ly {
			return 1
		}
		return -1
	}
	xs, ys := x.Type == lr.SHIFT, y.Type == lr.SHIFT
	if xs == ys {
		return 0
	}
	switch ls[lx].assoc {
	case "left":
		if xs {
			return -1
		}
		return 1
	case "right":
		if xs {
			return 1
		}
		return -1
	}
	return 0
}

// refResolve: the running-maximum scan over the actions in the given order; "" = no decision.
func refResolve(ls []refLevel, a string, acts []*lr.Action) string {
	for _, x := range acts {
		if _, ok := refHandle(a, x); !ok {
			return ""
		}
	}
	best := acts[0]
	for _, x := range acts {
		if x.Equal(best) {
			continue
		}
		switch refPrefer(ls, a, x, best) {
		case 0:
			return ""
		case 1:
			best = x
		}
	}
	return showAction(best)
}

func permutations(n int, f func([]int)) {
	idx := make([]int, n)
	for i := range idx {
		idx[i] = i
	}
	var rec func(k int)
	rec = func(k int) {
		if k == n {
			f(idx)
			return
		}
		for i := k; i < n; i++ {
			idx[k], idx[i] = idx[i], idx[k]
			rec(k + 1)
			idx[k], idx[i] = idx[i], idx[k]
		}
	}
	rec(0)
}

// refOutcomes: the set of outcomes of refResolve over all iteration orders.
func refOutcomes(ls []refLevel, a string, acts []*lr.Action) map[string]bool {
	out := map[string]bool{}
	permutations(len(acts), func(idx []int) {
		p := make([]*lr.Action, len(acts))
		for i, k := range idx {
			p[i] = acts[k]
		}
		out[refResolve(ls, a, p)] = true
	})
	return out
}

// ---------------------------------------------------------------- precedence climbing reference (oracle)

type expr struct {
	l, r *expr
	op   string
}

func (e *expr) String() string {
	if e.l == nil {
		return "(E id)"
	}
	return "(E " + e.l.String() + " " + e.op + " " + e.r.String() + ")"
}

// climb parses  id (op id)*  grouping by declared strength; nil = not an expression or an operator that is
// unlisted / non-associative.
func climb(ls []refLevel, toks []string) *expr {
	pos := 0
	bad := false
	var parseE func(min int) *expr
	parseE = func(min int) *expr {
		if pos >= len(toks) || toks[pos] != "id" {
			bad = true
			return nil
		}
		pos++
		lhs := &expr{}
		for pos < len(toks) && !bad {
			op := toks[pos]
			lv := refLevelOf(ls, "t:"+stripQ(op))
			if lv < 0 || ls[lv].assoc == "none" {
				bad = true
				return nil
			}
			s := len(ls) - lv
			if s < min {
				break
			}
			pos++
			next := s + 1
			if ls[lv].assoc == "right" {
				next = s
			}
			rhs := parseE(next)
			if bad {
				return nil
			}
			lhs = &expr{l: lhs, r: rhs, op: op}
		}
		return lhs
	}
	e := parseE(0)
	if bad || pos != len(toks) {
		return nil
	}
	return e
}

// ---------------------------------------------------------------- derivation replay (oracle)

// replay checks that prods (in emission order), applied in reverse, each to the rightmost non-terminal, lead
// from the start symbol to w.
func replay(g gx.G, prods []*grammar.Production, w []string) string {
	form := []string{g.Start}
	for i := len(prods) - 1; i >= 0; i-- {
		p := prods[i]
		k := -1
		for j := len(form) - 1; j >= 0; j-- {
			if g.IsNonTerm(form[j]) {
				k = j
				break
			}
		}
		if k < 0 {
			return "no non-terminal left for " + showProd(p)
		}
		if form[k] != string(p.Head) {
			return fmt.Sprintf("rightmost non-terminal is %s, production is %s", form[k], showProd(p))
		}
		found := false
		for _, q := range g.Prods {
			if q.Head == string(p.Head) && len(q.Body) == len(p.Body) {
				eq := true
				for x := range q.Body {
					if q.Body[x] != gxName(g, p.Body[x]) {
						eq = false
					}
				}
				if eq {
					found = true
				}
			}
		}
		if !found {
			return "not a production of the grammar: " + showProd(p)
		}
		nf := append([]string{}, form[:k]...)
		for _, s := range p.Body {
			nf = append(nf, gxName(g, s))
		}
		form = append(nf, form[k+1:]...)
	}
	if strings.Join(form, " ") != strings.Join(w, " ") {
		return "derivation ends in [" + strings.Join(form, " ") + "]"
	}
	return ""
}

// ---------------------------------------------------------------- executing one case

type built struct {
	T       *lr.ParsingTable
	raw     *lr.ParsingTable // before ResolveConflicts (= T when there are no precedence levels)
	verdict string           // table | conflict
	usable  bool
	plain   bool // built without precedence levels
}

type state struct {
	g      gx.G
	levels lr.PrecedenceLevels
	ref    []refLevel
	tabs   map[string]*built
	lang   map[int]map[string]bool
	// accepted[kind][word] for the agreement oracle
	accepted map[string]map[string]bool
}

func (st *state) member(w []string) bool {
	n := len(w)
	if n < 5 {
		n = 5
	}
	if st.lang[n] == nil {
		st.lang[n] = st.g.LangK(n)
	}
	return st.lang[n][strings.Join(w, " ")]
}

func isOperatorGrammar(g gx.G) bool {
	if len(g.NonTerms) != 1 || g.NonTerms[0] != "E" || g.Start != "E" {
		return false
	}
	sawID := false
	for _, p := range g.Prods {
		switch {
		case len(p.Body) == 1 && p.Body[0] == "id":
			sawID = true
		case len(p.Body) == 3 && p.Body[0] == "E" && p.Body[2] == "E" && p.Body[1] != "E" && p.Body[1] != "id":
		default:
			return false
		}
	}
	return sawID
}

// validGrammar: the well-formedness the library's Verify() asks for (stated independently); the property
// quantifies over valid grammars only.
func validGrammar(g gx.G) bool {
	isT := map[string]bool{}
	for _, t := range g.Terms {
		isT[t] = true
		if g.IsNonTerm(t) || t == string(grammar.Endmarker) {
			return false
		}
	}
	if !g.IsNonTerm(g.Start) || g.IsNonTerm(g.Start+"′") {
		return false
	}
	has := map[string]bool{}
	for _, p := range g.Prods {
		if !g.IsNonTerm(p.Head) {
			return false
		}
		has[p.Head] = true
		for _, s := range p.Body {
			if !isT[s] && !g.IsNonTerm(s) {
				return false
			}
		}
	}
	for _, n := range g.NonTerms {
		if !has[n] {
			return false
		}
	}
	return true
}

const opTimeout = 10 * time.Second

// Exec runs one case on the real parser/lr packages.
func Exec(c hx.Case) hx.Result {
	res := hx.Result{BadOp: -1}
	bad := func(i int, sig string, format string, a ...any) {
		if res.BadOp < 0 {
			res.BadOp = i
			res.What = fmt.Sprintf(format, a...)
			res.Sig = sig
		}
	}
	tags := map[string]bool{}
	seed := int64(1)
	if v := hx.HeaderGet(c.Header, "shuffle"); v != "" {
		if n, err := strconv.ParseInt(v, 10, 64); err == nil {
			seed = n
		}
	}
	seedShuffles(seed)
	st := &state{tabs: map[string]*built{}, lang: map[int]map[string]bool{}, accepted: map[string]map[string]bool{}}
	sawAccept, sawReject, boundary, resolvedCmp, decided := false, false, false, false, false

	for i, op := range c.Ops {
		f := strings.Fields(op)
		if len(f) == 0 {
			res.Outs = append(res.Outs, "bad-op")
			continue
		}
		out := "bad-op"
		stop := false
		switch f[0] {
		case "terms":
			st.g.Terms = append(st.g.Terms, f[1:]...)
			out = "ok"
		case "nonterms":
			st.g.NonTerms = append(st.g.NonTerms, f[1:]...)
			out = "ok"
		case "start":
			if len(f) == 2 {
				st.g.Start = f[1]
				out = "ok"
			}
		case "prod":
			if len(f) >= 3 && f[2] == ":" {
				st.g.Prods = append(st.g.Prods, gx.P{Head: f[1], Body: append([]string{}, f[3:]...)})
				out = "ok"
			}
		case "prec":
			if len(f) >= 2 {
				var as lr.Associativity
				okA := true
				switch f[1] {
				case "left":
					as = lr.LEFT
				case "right":
					as = lr.RIGHT
				case "none":
					as = lr.NONE
				default:
					okA = false
				}
				if okA {
					hs := lr.NewPrecedenceHandles()
					rl := refLevel{assoc: f[1], handles: map[string]bool{}}
					for _, w := range f[2:] {
						if p, ok := mkProd(st.g, w); ok {
							hs.Add(&lr.PrecedenceHandle{Production: p})
							rl.handles["p:"+showProd(p)] = true
						} else {
							hs.Add(lr.PrecedenceHandleForTerminal(grammar.Terminal(stripQ(w))))
							rl.handles["t:"+stripQ(w)] = true
						}
					}
					st.levels = append(st.levels, &lr.PrecedenceLevel{Associativity: as, Handles: hs})
					st.ref = append(st.ref, rl)
					out = "ok"
				}
			}
		case "build":
			if len(f) == 2 && builders[f[1]] != nil {
				if !validGrammar(st.g) {
					out = "ok invalid-grammar"
					break
				}
				out, stop = st.build(i, f[1], bad, tags)
			}
		case "dump":
			if len(f) == 2 && builders[f[1]] != nil {
				if st.tabs[f[1]] == nil {
					out = "ok no-table"
				} else {
					var s string
					kind := hx.Try(func() { s = showStates(stateItems(f[1], toCFG(st.g))) })
					if kind != "" {
						out, stop = "panic", true
						bad(i, "", "dump %s panicked (%s)", f[1], kind)
					} else {
						out = "ok " + s
					}
				}
			}
		case "check":
			if len(f) == 2 && builders[f[1]] != nil {
				if b := st.tabs[f[1]]; b == nil {
					out = "ok no-table"
				} else {
					why := ""
					kind := hx.Try(func() { why = st.validate(f[1]) })
					switch {
					case kind != "":
						out, stop = "panic", true
						bad(i, "", "validator for %s panicked (%s)", f[1], kind)
					case why == "":
						out = "ok valid"
					default:
						out = "ok invalid " + why
						bad(i, "", "%s table fails the validator: %s", f[1], why)
					}
				}
			}
		case "parse", "ast":
			if len(f) >= 2 && builders[f[1]] != nil {
				k, w := f[1], f[2:]
				b := st.tabs[k]
				if b == nil || !b.usable {
					out = "ok no-table"
					break
				}
				var prods []*grammar.Production
				var perr error
				var root parser.Node
				var pk string
				done := hx.WithTimeout(opTimeout, func() {
					pk = hx.Try(func() {
						p := &lr.Parser{L: &sliceLexer{toks: w}, T: b.T}
						if f[0] == "parse" {
							perr = p.Parse(nil, func(pr *grammar.Production) error { prods = append(prods, pr); return nil })
						} else {
							root, perr = p.ParseAndBuildAST()
						}
					})
				})
				switch {
				case !done:
					out, stop = "hang", true
					bad(i, "", "%s %s did not return on %v", f[0], k, w)
				case pk != "":
					out, stop = "panic", true
					bad(i, "", "%s %s panicked (%s) on %v", f[0], k, pk, w)
				case perr != nil:
					pos := -1
					var pe *parser.ParseError
					if errors.As(perr, &pe) {
						pos = pe.Pos.Offset - 1
					}
					out = "ok reject " + strconv.Itoa(pos)
				case f[0] == "parse":
					ss := make([]string, len(prods))
					for j, p := range prods {
						ss[j] = showProd(p)
					}
					out = "ok accept " + strings.Join(ss, ";")
				default:
					out = "ok ast " + showTree(root)
				}
				if stop {
					break
				}
				accepted := perr == nil
				if st.accepted[k] == nil {
					st.accepted[k] = map[string]bool{}
				}
				st.accepted[k][strings.Join(w, " ")] = accepted
				if b.plain && b.verdict == "table" {
					// a conflict-free table accepts exactly L(G)
					want := st.member(w)
					if accepted {
						sawAccept = true
					} else {
						sawReject = true
					}
					if accepted != want {
						bad(i, "", "%s table: accept=%v for [%s] but membership in L(G) is %v", k, accepted, strings.Join(w, " "), want)
					} else if accepted && f[0] == "parse" {
						if msg := replay(st.g, prods, w); msg != "" {
							bad(i, "", "%s: emitted productions reversed are not a rightmost derivation of [%s]: %s", k, strings.Join(w, " "), msg)
						}
					} else if accepted {
						var y []string
						yieldOf(root, &y)
						ws := make([]string, len(w))
						for j, t := range w {
							ws[j] = stripQ(t)
						}
						if strings.Join(y, " ") != strings.Join(ws, " ") {
							bad(i, "", "%s: AST yield [%s] differs from the input [%s]", k, strings.Join(y, " "), strings.Join(w, " "))
						}
					}
					// all successful constructions accept the same strings
					for _, k2 := range kinds {
						if b2 := st.tabs[k2]; k2 != k && b2 != nil && b2.plain && b2.verdict == "table" {
							if a2, seen := st.accepted[k2][strings.Join(w, " ")]; seen && a2 != accepted {
								bad(i, "", "%s and %s disagree on [%s]", k, k2, strings.Join(w, " "))
							}
						}
					}
				}
				if !b.plain && b.verdict == "table" && isOperatorGrammar(st.g) {
					// the resolved parser groups operators as declared
					ref := climb(st.ref, w)
					listed := true
					for _, t := range w {
						if t != "id" && refLevelOf(st.ref, "t:"+stripQ(t)) < 0 {
							listed = false
						}
					}
					switch {
					case ref == nil && accepted && listed:
						bad(i, "", "%s accepted [%s], which is not an expression", k, strings.Join(w, " "))
					case ref != nil && !accepted:
						bad(i, "", "%s rejected the expression [%s]", k, strings.Join(w, " "))
					case ref != nil && f[0] == "ast":
						resolvedCmp = true
						if got := showTree(root); got != ref.String() {
							bad(i, "", "%s groups [%s] as %s, declared precedence gives %s", k, strings.Join(w, " "), got, ref.String())
						}
					}
				}
			}
		case "resolve", "compare":
			bar := -1
			for j, w := range f {
				if w == "|" {
					bar = j
				}
			}
			if bar != 2 {
				break
			}
			a := stripQ(f[1])
			var acts []*lr.Action
			okA := true
			for _, w := range f[bar+1:] {
				act, ok := mkAction(st.g, w)
				if !ok {
					okA = false
					break
				}
				for _, y := range acts {
					if y.Equal(act) {
						okA = false
					}
				}
				acts = append(acts, act)
			}
			if !okA {
				break
			}
			if f[0] == "compare" {
				if len(acts) != 2 || acts[0].Type == lr.ACCEPT || acts[1].Type == lr.ACCEPT {
					break
				}
				mk := func(x *lr.Action) *lr.ActionHandlePair {
					if x.Type == lr.SHIFT {
						return &lr.ActionHandlePair{Action: x, Handle: lr.PrecedenceHandleForTerminal(grammar.Terminal(a))}
					}
					return &lr.ActionHandlePair{Action: x, Handle: lr.PrecedenceHandleForProduction(x.Production)}
				}
				var cmp int
				var err error
				kind := hx.Try(func() { cmp, err = st.levels.Compare(mk(acts[0]), mk(acts[1])) })
				switch {
				case kind != "":
					out, stop = "panic", true
					bad(i, "", "Compare panicked (%s)", kind)
				case err != nil:
					out = "ok error"
				default:
					out = "ok " + strconv.Itoa(cmp)
				}
				if kind == "" {
					want := refPrefer(st.ref, a, acts[0], acts[1])
					if want != 0 {
						decided = true
					}
					got := cmp
					if err != nil {
						got = 0
					}
					if got != want {
						bad(i, "", "Compare(%s, %s) on %s = %s, the declared levels give %d", showAction(acts[0]), showAction(acts[1]), a, out, want)
					}
				}
				break
			}
			if len(acts) < 2 {
				break
			}
			// resolveConflict through the public API: a one-cell table, actions inserted in the given order,
			// iteration forced to insertion order
			var got string
			kind := hx.Try(func() {
				T := lr.NewParsingTable([]lr.State{0}, []grammar.Terminal{grammar.Terminal(a)}, nil, st.levels)
				for _, act := range acts {
					T.AddACTION(0, grammar.Terminal(a), act)
				}
				set.VerifSetShuffleSource(identitySource{})
				err := T.ResolveConflicts()
				seedShuffles(seed + int64(i) + 1)
				if err != nil {
					got = "error"
					return
				}
				act, err := T.ACTION(0, grammar.Terminal(a))
				if err != nil {
					got = "error"
				} else {
					got = showAction(act)
				}
			})
			if kind != "" {
				seedShuffles(seed + int64(i) + 1)
				out, stop = "panic", true
				bad(i, "", "resolveConflict panicked (%s) on %s", kind, op)
				break
			}
			out = "ok " + got
			if st.levels.Verify() == nil {
				want := refResolve(st.ref, a, acts)
				if want == "" {
					want = "error"
				} else {
					decided = true
				}
				if got != want {
					bad(i, "", "resolveConflict(%s) = %s, the declared levels give %s", op, got, want)
				}
			}
		case "chain":
			// the Model evaluates the simulation certificate (per-core lookahead inclusion) between the three tables;
			// it is expected to hold for every reduced grammar; the verdict chain itself is checked at the end of the case
			out = "ok chain"
			for _, k := range kinds {
				if b := st.tabs[k]; b == nil || !b.plain {
					out = "ok no-table"
				}
			}
		case "climb":
			if e := climb(st.ref, f[1:]); e != nil {
				out = "ok " + e.String()
			} else {
				out = "ok reject"
			}
		}
		res.Outs = append(res.Outs, out)
		if stop {
			tags["stopped"] = true
			break
		}
	}

	// inclusion chain over the constructions built without precedence levels
	verdictOf := func(k string) string {
		if b := st.tabs[k]; b != nil && b.plain {
			return b.verdict
		}
		return ""
	}
	vs, vl, vc := verdictOf("slr"), verdictOf("lalr"), verdictOf("lr1")
	last := len(res.Outs) - 1
	if vs == "table" && vl == "conflict" {
		bad(last, "", "SLR succeeded but LALR reports a conflict")
	}
	if vl == "table" && vc == "conflict" {
		bad(last, "", "LALR succeeded but canonical LR(1) reports a conflict")
	}
	if vs == "table" && vc == "conflict" {
		bad(last, "", "SLR succeeded but canonical LR(1) reports a conflict")
	}
	if (vs == "conflict" && vl == "table") || (vl == "conflict" && vc == "table") {
		boundary = true
		tags["boundary:"+vs+"/"+vl+"/"+vc] = true
	}
	for _, k := range kinds {
		if b := st.tabs[k]; b != nil {
			mode := "plain"
			if !b.plain {
				mode = "prec"
			}
			tags[k+"="+b.verdict+"("+mode+")"] = true
		}
	}
	for _, p := range st.g.Prods {
		if len(p.Body) == 0 {
			tags["eps-production"] = true
		}
	}
	if sawAccept {
		tags["accepted-some"] = true
	}
	if sawReject {
		tags["rejected-some"] = true
	}
	if resolvedCmp {
		tags["tree-vs-climbing-reference"] = true
	}
	if decided {
		tags["precedence-decision"] = true
	}
	res.Nontrivial = (sawAccept && sawReject) || boundary || (resolvedCmp && tags["resolved-cells"]) || decided
	for t := range tags {
		res.Tags = append(res.Tags, t)
	}
	sort.Strings(res.Tags)
	return res
}

// build runs BuildParsingTable for one kind (with the case's precedence levels, if any).
func (st *state) build(i int, k string, bad func(int, string, string, ...any), tags map[string]bool) (string, bool) {
	delete(st.tabs, k)
	delete(st.accepted, k)
	G := toCFG(st.g)
	run := func(levels lr.PrecedenceLevels) (T *lr.ParsingTable, err error, fail string) {
		var pk string
		done := hx.WithTimeout(opTimeout, func() {
			pk = hx.Try(func() { T, err = builders[k](G, levels) })
		})
		if !done {
			return nil, nil, "hang"
		}
		if pk != "" {
			return nil, nil, "panic"
		}
		return T, err, ""
	}
	T, err, fail := run(st.levels)
	if fail != "" {
		bad(i, "", "build %s: %s on %s", k, fail, st.g.Show())
		return fail, true
	}
	if err != nil {
		if _, isConflict := err.(lr.AggregatedConflictError); !isConflict {
			return "ok badprec", false
		}
	}
	verdict := "table"
	if err != nil {
		verdict = "conflict"
	}
	if len(st.levels) == 0 {
		st.tabs[k] = &built{T: T, raw: T, verdict: verdict, usable: true, plain: true}
		return "ok " + verdict + " " + showTable(T), false
	}
	// with precedence levels: compare every resolved cell with the reference rule; cells whose outcome depends on
	// the iteration order of the action set are reported as such
	raw, _, fail := run(nil)
	if fail != "" {
		bad(i, "", "build %s without levels: %s", k, fail)
		return fail, true
	}
	orderDependent := false
	for _, s := range raw.States {
		for _, a := range raw.Terminals {
			acts := cellActions(raw, s, a)
			if len(acts) <= 1 {
				continue
			}
			got := cellActions(T, s, a)
			gotS := ""
			if len(got) == 1 {
				gotS = showAction(got[0])
			}
			if len(acts) > 5 {
				orderDependent = true
				continue
			}
			outs := refOutcomes(st.ref, tname(a), acts)
			if len(outs) > 1 {
				orderDependent = true
				tags["order-dependent-cell"] = true
			}
			if !outs[gotS] {
				bad(i, "", "%s ACTION[%d,%s]: {%s} resolved to %q, the declared levels allow %v", k, s, tname(a), showCell(acts), gotS, keys(outs))
			}
			if gotS != "" {
				tags["resolved-cells"] = true
			}
		}
	}
	if orderDependent {
		st.tabs[k] = &built{T: T, raw: raw, verdict: "order-dependent", usable: false}
		return "ok order-dependent", false
	}
	st.tabs[k] = &built{T: T, raw: raw, verdict: verdict, usable: true}
	return "ok " + verdict + " " + showTable(T), false
}

func keys(m map[string]bool) []string {
	var ks []string
	for k := range m {
		if k == "" {
			k = "error"
		}
		ks = append(ks, k)
	}
	sort.Strings(ks)
	return ks
}
