package c11

import (
	"fmt"

	"github.com/moorara/algo/grammar"
	"github.com/moorara/algo/parser/lr"
)

// core of an item: production, dot position and (for LR(1) items) the lookahead.
type core struct {
	p   *grammar.Production
	dot int
	la  string // "" for LR(0) items
}

func coreOf(it lr.Item) core {
	switch v := it.(type) {
	case *lr.Item0:
		return core{v.Production, v.Dot, ""}
	case *lr.Item1:
		return core{v.Production, v.Dot, string(v.Lookahead)}
	}
	return core{}
}

// validate is an independent re-statement (in Go, on the implementation's own item sets and raw table) of
// the conditions of the Lean validator `Spec.tableCheck` that do not need FIRST:
// every transition target ≠ 0 and its kernel items are justified by the source state; every reduce is by a
// grammar production whose complete item is in the state; accept only on $ in a state with S′→S•; state 0 has
// only dot-0 items and is the only state with S′→•S; $ is never shifted; every symbol after a dot has a
// transition to a state that holds the advanced item; every complete LR(1) item has its reduce action.
func (st *state) validate(kind string) string {
	b := st.tabs[kind]
	G := st.cfgOf(b)
	S := stateItems(kind, G)
	T := b.raw
	if len(S) != len(T.States) {
		return fmt.Sprintf("%d item sets for %d states", len(S), len(T.States))
	}
	isProd := func(p *grammar.Production) bool {
		for q := range G.Productions.All() {
			if q.Equal(p) {
				return true
			}
		}
		return false
	}
	var startP *grammar.Production // S′ → S
	for _, it := range S[0] {
		c := coreOf(it)
		if c.dot != 0 {
			return "state 0 has an item with the dot inside"
		}
		if !isProd(c.p) && len(c.p.Body) == 1 && c.p.Body[0].Equal(G.Start) {
			startP = c.p
		}
	}
	if startP == nil {
		return "state 0 lacks the initial item"
	}
	has := func(s lr.State, p *grammar.Production, dot int, la string, anyLA bool) bool {
		if s < 0 || int(s) >= len(S) {
			return false
		}
		for _, it := range S[s] {
			c := coreOf(it)
			if c.dot == dot && c.p.Equal(p) && (anyLA || c.la == la) {
				return true
			}
		}
		return false
	}
	justified := func(src, dst lr.State, X grammar.Symbol) string {
		if dst == 0 {
			return "a transition leads to state 0"
		}
		if dst < 0 || int(dst) >= len(S) {
			return fmt.Sprintf("transition to a state %d that does not exist", dst)
		}
		for _, it := range S[dst] {
			c := coreOf(it)
			if c.dot == 0 {
				continue
			}
			if !c.p.Body[c.dot-1].Equal(X) || !has(src, c.p, c.dot-1, "", true) {
				return fmt.Sprintf("item %s of state %d is not justified by state %d on %s", showItem(it), dst, src, X.Name())
			}
		}
		return ""
	}
	for s, items := range S {
		s := lr.State(s)
		for _, it := range items {
			c := coreOf(it)
			if s != 0 && c.dot == 0 && c.p.Equal(startP) {
				return fmt.Sprintf("state %d holds the initial item", s)
			}
			if c.dot < len(c.p.Body) {
				// advance
				switch X := c.p.Body[c.dot].(type) {
				case grammar.Terminal:
					ok := false
					for _, a := range cellActions(T, s, X) {
						if a.Type == lr.SHIFT && has(a.State, c.p, c.dot+1, c.la, false) {
							ok = true
						}
					}
					if !ok {
						return fmt.Sprintf("no shift for %s in state %d", showItem(it), s)
					}
				case grammar.NonTerminal:
					t, err := T.GOTO(s, X)
					if err != nil || !has(t, c.p, c.dot+1, c.la, false) {
						return fmt.Sprintf("no goto for %s in state %d", showItem(it), s)
					}
				}
				continue
			}
			// complete item
			if c.p.Equal(startP) {
				ok := false
				for _, a := range cellActions(T, s, grammar.Endmarker) {
					if a.Type == lr.ACCEPT {
						ok = true
					}
				}
				if !ok {
					return fmt.Sprintf("no accept in state %d", s)
				}
			} else if c.la != "" {
				ok := false
				for _, a := range cellActions(T, s, grammar.Terminal(c.la)) {
					if a.Type == lr.REDUCE && a.Production.Equal(c.p) {
						ok = true
					}
				}
				if !ok {
					return fmt.Sprintf("no reduce for %s in state %d", showItem(it), s)
				}
			}
		}
	}
	for _, s := range T.States {
		for _, a := range T.Terminals {
			for _, act := range cellActions(T, s, a) {
				switch act.Type {
				case lr.SHIFT:
					if a == grammar.Endmarker {
						return "the endmarker is shifted"
					}
					if why := justified(s, act.State, a); why != "" {
						return why
					}
				case lr.REDUCE:
					if !isProd(act.Production) || !has(s, act.Production, len(act.Production.Body), "", true) {
						return fmt.Sprintf("reduce %s in state %d without its complete item", showProd(act.Production), s)
					}
				case lr.ACCEPT:
					if a != grammar.Endmarker || !has(s, startP, 1, "", true) {
						return fmt.Sprintf("accept in ACTION[%d,%s]", s, tname(a))
					}
				}
			}
		}
		for _, A := range T.NonTerminals {
			if t, err := T.GOTO(s, A); err == nil {
				if why := justified(s, t, A); why != "" {
					return why
				}
			}
		}
	}
	return ""
}
