package c11

import (
	"fmt"
	"strings"

	"github.com/moorara/algo/parser/lr"

	"verifharness/gx"
	"verifharness/hx"
)

// boundary is a hand-written family on the LR(0) / SLR / LALR / LR(1) / not-LR(1) boundaries.
var boundary = []string{
	// LR(0)
	"S -> a S b | c",
	"S -> A ; A -> B ; B -> b",
	// SLR(1), not LR(0)
	"E -> E + T | T ; T -> T * F | F ; F -> ( E ) | id",
	"L -> L , x | x",
	"S -> a S b |",
	"S -> A B ; A -> a A | ; B -> b B |",
	"S -> A B C ; A -> a | ; B -> b | ; C -> c |",
	// LALR(1), not SLR(1)
	"S -> L = R | R ; L -> * R | id ; R -> L",
	"S -> A a | b A c | d c | b d a ; A -> d",
	// LR(1), not LALR(1)
	"S -> a A d | b B d | a B e | b A e ; A -> c ; B -> c",
	"S -> a A a | b A b | a B b | b B a ; A -> c ; B -> c",
	// unambiguous, not LR(1)
	"S -> a S a | b S b |",
	"S -> a S a | a",
	// ambiguous
	"S -> S S | a",
	"E -> E + E | id",
	"S -> i S | i S e S | x",
	// the D17 witnesses (LALR state lookup by superset) and relatives
	"S -> a S | a a a",
	"S -> a | b b S | b b b",
	"S -> a a S | a a a | b",
	// the D18 witnesses (ACCEPT in a conflict)
	"S -> S S |",
	"S -> S |",
	"S -> S a S | S |",
	// a self-looping state with two kernel items (LALR lookaheads must propagate along GOTO(I,X) = I)
	"S -> A d | C e ; A -> x B ; B -> A | C ; C -> x",
	"S -> A d | C e | A f ; A -> x B | y ; B -> A | C ; C -> x | y",
	// terminals that have the same name as a non-terminal (spelled 'S in case files)
	"S -> 'S A | a ; A -> 'A S | b",
	"S -> A 'A | 'S ; A -> a A |",
	// ε and unit productions, nullable prefixes
	"S -> A S b | c ; A -> a |",
	"S -> A A ; A -> a A | b",
	"S -> A b ; A -> B ; B -> a B |",
}

func parseBoundary(s string) gx.G {
	g := gx.G{}
	seenT := map[string]bool{}
	var rules [][2]string
	for _, r := range strings.Split(s, ";") {
		hb := strings.SplitN(r, "->", 2)
		h := strings.TrimSpace(hb[0])
		if !g.IsNonTerm(h) {
			g.NonTerms = append(g.NonTerms, h)
		}
		rules = append(rules, [2]string{h, hb[1]})
	}
	g.Start = g.NonTerms[0]
	for _, r := range rules {
		for _, alt := range strings.Split(r[1], "|") {
			body := strings.Fields(alt)
			for _, x := range body {
				if !g.IsNonTerm(x) && !seenT[x] {
					seenT[x] = true
					g.Terms = append(g.Terms, x)
				}
			}
			g.Prods = append(g.Prods, gx.P{Head: r[0], Body: body})
		}
	}
	return g
}

// wordBound: the largest k ≤ 6 such that the number of strings of length ≤ k stays below limit.
func wordBound(nterms, limit int) int {
	k, total, pow := 0, 1, 1
	for k < 6 {
		pow *= nterms
		if total+pow > limit {
			break
		}
		total += pow
		k++
	}
	return k
}

// plainCase: grammar, the three builds, dumps/checks, and every string up to the bound on every construction.
func plainCase(g gx.G, shuffle int, limit int, dump bool) hx.Case {
	c := hx.Case{Header: fmt.Sprintf("comp=lr shuffle=%d", shuffle)}
	c.Ops = append(c.Ops, g.Lines()...)
	ok := map[string]bool{}
	for _, k := range kinds {
		c.Ops = append(c.Ops, "build "+k)
		var err error
		var T *lr.ParsingTable
		if hx.Try(func() { T, err = builders[k](toCFG(g), nil) }) == "" && err == nil && T != nil {
			ok[k] = true
		}
	}
	for _, k := range kinds {
		if dump {
			c.Ops = append(c.Ops, "dump "+k)
		}
		c.Ops = append(c.Ops, "check "+k)
	}
	c.Ops = append(c.Ops, "chain")
	nok := 0
	for _, k := range kinds {
		if ok[k] {
			nok++
		}
	}
	if nok == 0 {
		// a few parses on the conflicted tables (they stop at the first conflicting cell)
		for _, w := range g.Words(2) {
			c.Ops = append(c.Ops, strings.TrimSpace("parse lr1 "+w))
		}
		return c
	}
	words := g.Words(wordBound(len(g.Terms), limit/nok))
	lang := g.LangK(6)
	for _, k := range kinds {
		if !ok[k] {
			continue
		}
		for _, w := range words {
			c.Ops = append(c.Ops, strings.TrimSpace("parse "+k+" "+w))
			if lang[w] {
				c.Ops = append(c.Ops, strings.TrimSpace("ast "+k+" "+w))
			}
		}
	}
	return c
}

var opNames = []string{"+", "-", "*", "/", "^", "<"}

// exprCase: E → E op E | id with the given levels (ops not in any level stay unlisted).
func exprCase(ops []string, levels [][]string, assoc []string, exprs [][]string, shuffle int) hx.Case {
	c := hx.Case{Header: fmt.Sprintf("comp=expr shuffle=%d", shuffle)}
	c.Ops = append(c.Ops, "terms id "+strings.Join(ops, " "), "nonterms E", "start E")
	for _, o := range ops {
		c.Ops = append(c.Ops, "prod E : E "+o+" E")
	}
	c.Ops = append(c.Ops, "prod E : id")
	for i, l := range levels {
		c.Ops = append(c.Ops, "prec "+assoc[i]+" "+strings.Join(l, " "))
	}
	for _, k := range kinds {
		c.Ops = append(c.Ops, "build "+k)
	}
	c.Ops = append(c.Ops, "check slr")
	for _, e := range exprs {
		w := strings.Join(e, " ")
		c.Ops = append(c.Ops, strings.TrimSpace("climb "+w))
		for _, k := range kinds {
			c.Ops = append(c.Ops, strings.TrimSpace("ast "+k+" "+w))
		}
		c.Ops = append(c.Ops, strings.TrimSpace("parse lalr "+w))
	}
	return c
}

func randomExprs(r *hx.Rand, ops []string, n int) [][]string {
	var out [][]string
	for i := 0; i < n; i++ {
		m := r.Range(1, 6)
		e := []string{"id"}
		for j := 1; j < m; j++ {
			e = append(e, hx.Pick(r, ops), "id")
		}
		out = append(out, e)
	}
	// malformed
	out = append(out, []string{}, []string{"id", "id"}, []string{ops[0], "id"}, []string{"id", ops[0]})
	return out
}

// orderedPartitions enumerates all ways to put xs into a sequence of non-empty levels.
func orderedPartitions(xs []string, f func([][]string)) {
	var rec func(i int, cur [][]string)
	rec = func(i int, cur [][]string) {
		if i == len(xs) {
			cp := make([][]string, len(cur))
			for k := range cur {
				cp[k] = append([]string{}, cur[k]...)
			}
			f(cp)
			return
		}
		for k := range cur {
			cur[k] = append(cur[k], xs[i])
			rec(i+1, cur)
			cur[k] = cur[k][:len(cur[k])-1]
		}
		for pos := 0; pos <= len(cur); pos++ {
			next := append(append(append([][]string{}, cur[:pos]...), []string{xs[i]}), cur[pos:]...)
			rec(i+1, next)
		}
	}
	rec(0, nil)
}

var resolveProds = []string{"[E:E,+,E]", "[E:E,*,E]", "[E:E,E]", "[E:T]", "[T:a]", "[T:]", "[E:-,E]", "[T:T,b,E]",
	"[E:E,?,E,:,E]", "[E:a,E,b]", "[T:b,T,a]", "[E:E,:,E,?,E]"}

// resolveCase: direct resolveConflict / Compare ops on random levels and action lists.
func resolveCase(r *hx.Rand, shuffle int) hx.Case {
	c := hx.Case{Header: fmt.Sprintf("comp=resolve shuffle=%d", shuffle)}
	c.Ops = append(c.Ops, "terms a b + * - ? :", "nonterms E T", "start E", "prod E : T", "prod T : a")
	handles := []string{"a", "b", "+", "*", "-", "?", ":", "[E:E,E]", "[E:T]", "[T:]"}
	perm := append([]string{}, handles...)
	for i := len(perm) - 1; i > 0; i-- {
		j := r.Intn(i + 1)
		perm[i], perm[j] = perm[j], perm[i]
	}
	perm = perm[:r.Range(2, len(perm))]
	for len(perm) > 0 {
		n := r.Range(1, 3)
		if n > len(perm) {
			n = len(perm)
		}
		c.Ops = append(c.Ops, "prec "+hx.Pick(r, []string{"left", "left", "right", "right", "none"})+" "+strings.Join(perm[:n], " "))
		perm = perm[n:]
	}
	if r.Chance(1, 12) { // an invalid level list: a handle listed twice
		c.Ops = append(c.Ops, "prec left "+hx.Pick(r, handles)+" "+hx.Pick(r, handles))
	}
	mkAct := func() string {
		switch x := r.Intn(10); {
		case x < 3:
			return fmt.Sprintf("s%d", r.Intn(4))
		case x < 9:
			return "r" + hx.Pick(r, resolveProds)
		default:
			return "acc"
		}
	}
	for k := r.Range(4, 10); k > 0; k-- {
		term := hx.Pick(r, []string{"a", "b", "+", "*", "-", "?", ":"})
		n := r.Range(2, 4)
		seen := map[string]bool{}
		var acts []string
		nshift := 0
		for len(acts) < n {
			a := mkAct()
			if seen[a] || (strings.HasPrefix(a, "s") && nshift > 0) {
				continue
			}
			if strings.HasPrefix(a, "s") {
				nshift++
			}
			seen[a] = true
			acts = append(acts, a)
		}
		c.Ops = append(c.Ops, "resolve "+term+" | "+strings.Join(acts, " "))
		if acts[0] != "acc" && acts[1] != "acc" {
			c.Ops = append(c.Ops, "compare "+term+" | "+acts[0]+" "+acts[1], "compare "+term+" | "+acts[1]+" "+acts[0])
		}
	}
	return c
}

// precGrammarCase: a random reduced grammar with random levels over its terminals and terminal-free
// productions: builds only (ResolveConflicts on arbitrary tables, multi-way cells included).
func precGrammarCase(r *hx.Rand, g gx.G, shuffle int) hx.Case {
	c := hx.Case{Header: fmt.Sprintf("comp=lrprec shuffle=%d", shuffle)}
	c.Ops = append(c.Ops, g.Lines()...)
	var handles []string
	handles = append(handles, g.Terms...)
	for _, p := range g.Prods {
		hasT := false
		for _, s := range p.Body {
			if !g.IsNonTerm(s) {
				hasT = true
			}
		}
		if !hasT {
			handles = append(handles, "["+p.Head+":"+strings.Join(p.Body, ",")+"]")
		}
	}
	for i := len(handles) - 1; i > 0; i-- {
		j := r.Intn(i + 1)
		handles[i], handles[j] = handles[j], handles[i]
	}
	if r.Chance(1, 3) {
		handles = handles[:r.Range(1, len(handles))]
	}
	for len(handles) > 0 {
		n := r.Range(1, 3)
		if n > len(handles) {
			n = len(handles)
		}
		c.Ops = append(c.Ops, "prec "+hx.Pick(r, []string{"left", "right", "left", "right", "none"})+" "+strings.Join(handles[:n], " "))
		handles = handles[n:]
	}
	for _, k := range kinds {
		c.Ops = append(c.Ops, "build "+k)
	}
	return c
}

// quoteSome renames (with probability 1/5) one terminal to the name of a non-terminal, spelled 'N.
func quoteSome(r *hx.Rand, g gx.G) gx.G {
	if !r.Chance(1, 5) || len(g.Terms) == 0 {
		return g
	}
	old := hx.Pick(r, g.Terms)
	nw := "'" + hx.Pick(r, g.NonTerms)
	out := gx.G{Start: g.Start, NonTerms: g.NonTerms}
	for _, t := range g.Terms {
		if t == old {
			t = nw
		}
		out.Terms = append(out.Terms, t)
	}
	for _, p := range g.Prods {
		q := gx.P{Head: p.Head}
		for _, x := range p.Body {
			if x == old {
				x = nw
			}
			q.Body = append(q.Body, x)
		}
		out.Prods = append(out.Prods, q)
	}
	return out
}

func randomReduced(r *hx.Rand, o gx.GenOpts) gx.G {
	for {
		g := gx.Random(r, o)
		if g.Reduced() {
			return quoteSome(r, g)
		}
	}
}

// ternaryCase: E → E ? E : E | E op E | id with random levels over ?, : and the binary operators (the handle of
// the ternary production is its FIRST terminal).
func ternaryCase(r *hx.Rand, shuffle int) hx.Case {
	c := hx.Case{Header: fmt.Sprintf("comp=ternary shuffle=%d", shuffle)}
	bin := []string{"+", "*"}[:r.Range(0, 2)]
	first, second := "?", ":"
	if r.Chance(1, 4) {
		first, second = ":", "?"
	}
	c.Ops = append(c.Ops, "terms id "+first+" "+second+" "+strings.Join(bin, " "), "nonterms E", "start E")
	c.Ops = append(c.Ops, "prod E : E "+first+" E "+second+" E")
	for _, o := range bin {
		c.Ops = append(c.Ops, "prod E : E "+o+" E")
	}
	c.Ops = append(c.Ops, "prod E : id")
	hs := append([]string{first, second}, bin...)
	for i := len(hs) - 1; i > 0; i-- {
		j := r.Intn(i + 1)
		hs[i], hs[j] = hs[j], hs[i]
	}
	if r.Chance(1, 6) {
		hs = hs[:len(hs)-1]
	}
	for len(hs) > 0 {
		n := r.Range(1, 2)
		if n > len(hs) {
			n = len(hs)
		}
		c.Ops = append(c.Ops, "prec "+hx.Pick(r, []string{"left", "right", "left", "right", "none"})+" "+strings.Join(hs[:n], " "))
		hs = hs[n:]
	}
	for _, k := range kinds {
		c.Ops = append(c.Ops, "build "+k)
	}
	c.Ops = append(c.Ops, "check slr")
	for i := 0; i < 4; i++ {
		e := []string{"id"}
		for j := r.Range(0, 3); j > 0; j-- {
			if r.Chance(1, 2) || len(bin) == 0 {
				e = append(e, first, "id", second, "id")
			} else {
				e = append(e, hx.Pick(r, bin), "id")
			}
		}
		c.Ops = append(c.Ops, "parse slr "+strings.Join(e, " "), "ast lalr "+strings.Join(e, " "))
	}
	return c
}

func Main(run *hx.Run) {
	run.Stats.Rule = Rule
	for _, f := range hx.CorpusFiles("C11") {
		cs, _ := hx.ReadReplay(f)
		for _, c := range cs {
			run.Do(hx.HeaderGet(c.Header, "comp"), c, Exec)
		}
	}
	shuffle := 1
	next := func() int { shuffle++; return shuffle }
	// the thorough tier spends most of its time on the exhaustive families below: cap the random part at 6x
	scale := func(n int) int {
		v := run.Scale(n)
		if run.Thorough() && v > 6*n {
			v = 6 * n
		}
		return v
	}

	// hand-written boundary family, every string up to the bound, with state dumps
	for _, s := range boundary {
		g := parseBoundary(s)
		run.Do("lr", plainCase(g, next(), 400, true), Exec)
	}

	// random reduced grammars
	r := run.R.Fork("lr")
	small := gx.GenOpts{MaxNonTerms: 3, MaxTerms: 2, MaxAlts: 3, MaxBody: 3, EpsChance: 15, UnitChance: 10, LeftRec: 15, CommonPref: 25}
	for k, n := 0, scale(80); k < n; k++ {
		o := gx.DefaultOpts()
		if k%3 != 0 {
			o = small
		}
		g := randomReduced(r, o)
		run.Do("lr", plainCase(g, next(), 400, k%4 == 0), Exec)
	}

	// operator grammars with random level assignments
	re := run.R.Fork("expr")
	for k, n := 0, scale(40); k < n; k++ {
		nops := re.Range(1, 4)
		perm := append([]string{}, opNames...)
		for i := len(perm) - 1; i > 0; i-- {
			j := re.Intn(i + 1)
			perm[i], perm[j] = perm[j], perm[i]
		}
		ops := perm[:nops]
		var levels [][]string
		var assoc []string
		listed := ops
		if re.Chance(1, 10) && nops > 1 {
			listed = ops[:nops-1] // one operator without precedence: the table keeps a conflict
		}
		for _, o := range listed {
			if len(levels) > 0 && re.Chance(1, 3) {
				levels[len(levels)-1] = append(levels[len(levels)-1], o)
			} else {
				levels = append(levels, []string{o})
				assoc = append(assoc, hx.Pick(re, []string{"left", "left", "left", "right", "right", "none"}))
			}
		}
		run.Do("expr", exprCase(ops, levels, assoc, randomExprs(re, ops, 8), next()), Exec)
	}

	// ternary operator with precedence levels
	rt3 := run.R.Fork("ternary")
	for k, n := 0, scale(25); k < n; k++ {
		run.Do("ternary", ternaryCase(rt3, next()), Exec)
	}

	// resolveConflict / Compare directly
	rr := run.R.Fork("resolve")
	for k, n := 0, scale(100); k < n; k++ {
		run.Do("resolve", resolveCase(rr, next()), Exec)
	}

	// random grammars with random levels
	rp := run.R.Fork("lrprec")
	for k, n := 0, scale(40); k < n; k++ {
		run.Do("lrprec", precGrammarCase(rp, randomReduced(rp, small), next()), Exec)
	}

	if run.Thorough() {
		// every assignment of ≤3 operators to ordered levels with every associativity, and of 4 operators with
		// left/right only, each with random expressions
		rt := run.R.Fork("expr-exhaustive")
		count := 0
		for nops := 1; nops <= 4; nops++ {
			ops := opNames[:nops]
			assocs := []string{"left", "right", "none"}
			if nops == 4 {
				assocs = assocs[:2]
			}
			orderedPartitions(ops, func(levels [][]string) {
				idx := make([]int, len(levels))
				for {
					as := make([]string, len(levels))
					for i, k := range idx {
						as[i] = assocs[k]
					}
					run.Do("expr", exprCase(ops, levels, as, randomExprs(rt, ops, 6), next()), Exec)
					count++
					i := len(idx) - 1
					for i >= 0 {
						idx[i]++
						if idx[i] < len(assocs) {
							break
						}
						idx[i] = 0
						i--
					}
					if i < 0 {
						break
					}
				}
			})
		}
		// every grammar with the single non-terminal S over {a,b} whose alternatives are 1..3 bodies of length ≤ 2
		// out of a fixed pool, plus ε
		pool := [][]string{{}, {"a"}, {"b"}, {"S"}, {"a", "a"}, {"a", "b"}, {"a", "S"}, {"b", "a"}, {"b", "b"}, {"b", "S"}, {"S", "a"}, {"S", "b"}, {"S", "S"},
			{"a", "S", "b"}, {"a", "S", "a"}, {"S", "a", "S"}}
		enum := 0
		for i := 0; i < len(pool); i++ {
			for j := i; j < len(pool); j++ {
				for k := j; k < len(pool); k++ {
					g := gx.G{Terms: []string{"a", "b"}, NonTerms: []string{"S"}, Start: "S"}
					seen := map[int]bool{}
					for _, x := range []int{i, j, k} {
						if !seen[x] {
							seen[x] = true
							g.Prods = append(g.Prods, gx.P{Head: "S", Body: pool[x]})
						}
					}
					if !g.Reduced() {
						continue
					}
					enum++
					run.Do("lr", plainCase(g, next(), 300, false), Exec)
				}
			}
		}
		run.Stats.Extra["exhaustive_part"] = fmt.Sprintf("%d operator-grammar level assignments (all for <=3 operators, left/right for 4); "+
			"%d one-non-terminal grammars (all choices of <=3 alternatives from a pool of 16 bodies), all strings up to the bound", count, enum)
	}
}
