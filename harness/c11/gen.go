package c11

import (
	"fmt"
	"os"
	"strconv"
	"strings"
	"time"

	"github.com/moorara/algo/parser/lr"

	"verifharness/c10"
	"verifharness/gx"
	"verifharness/hx"
)

// boundary is a hand-written family on the LR(0) / SLR / LALR / LR(1) / not-LR(1) boundaries.
var boundary = []string{
	// LR(0)
	"S -> a S b | c",
	"S -> A ; A -> B ; B -> b",
	// SLR(1), not LR(0)
	"E -> E + T | T ; T -> T * F | F ; F -> ( E ) | id",
	"L -> L , x | x",
	"S -> a S b |",
	"S -> A B ; A -> a A | ; B -> b B |",
	"S -> A B C ; A -> a | ; B -> b | ; C -> c |",
	// LALR(1), not SLR(1)
	"S -> L = R | R ; L -> * R | id ; R -> L",
	"S -> A a | b A c | d c | b d a ; A -> d",
	// LR(1), not LALR(1)
	"S -> a A d | b B d | a B e | b A e ; A -> c ; B -> c",
	"S -> a A a | b A b | a B b | b B a ; A -> c ; B -> c",
	// unambiguous, not LR(1)
	"S -> a S a | b S b |",
	"S -> a S a | a",
	// ambiguous
	"S -> S S | a",
	"E -> E + E | id",
	"S -> i S | i S e S | x",
	// the D17 witnesses (LALR state lookup by superset) and relatives
	"S -> a S | a a a",
	"S -> a | b b S | b b b",
	"S -> a a S | a a a | b",
	// the D18 witnesses (ACCEPT in a conflict)
	"S -> S S |",
	"S -> S |",
	"S -> S a S | S |",
	// a self-looping state with two kernel items (LALR lookaheads must propagate along GOTO(I,X) = I)
	"S -> A d | C e ; A -> x B ; B -> A | C ; C -> x",
	"S -> A d | C e | A f ; A -> x B | y ; B -> A | C ; C -> x | y",
	// terminals that have the same name as a non-terminal (spelled 'S in case files)
	"S -> 'S A | a ; A -> 'A S | b",
	"S -> A 'A | 'S ; A -> a A |",
	// ε and unit productions, nullable prefixes
	"S -> A S b | c ; A -> a |",
	"S -> A A ; A -> a A | b",
	"S -> A b ; A -> B ; B -> a B |",
}

func parseBoundary(s string) gx.G {
	g := gx.G{}
	seenT := map[string]bool{}
	var rules [][2]string
	for _, r := range strings.Split(s, ";") {
		hb := strings.SplitN(r, "->", 2)
		h := strings.TrimSpace(hb[0])
		if !g.IsNonTerm(h) {
			g.NonTerms = append(g.NonTerms, h)
		}
		rules = append(rules, [2]string{h, hb[1]})
	}
	g.Start = g.NonTerms[0]
	for _, r := range rules {
		for _, alt := range strings.Split(r[1], "|") {
			body := strings.Fields(alt)
			for _, x := range body {
				if !g.IsNonTerm(x) && !seenT[x] {
					seenT[x] = true
					g.Terms = append(g.Terms, x)
				}
			}
			g.Prods = append(g.Prods, gx.P{Head: r[0], Body: body})
		}
	}
	return g
}

// wordBound: the largest k ≤ 6 such that the number of strings of length ≤ k stays below limit.
func wordBound(nterms, limit int) int {
	k, total, pow := 0, 1, 1
	for k < 6 {
		pow *= nterms
		if total+pow > limit {
			break
		}
		total += pow
		k++
	}
	return k
}

// plainCase: grammar, the three builds, dumps/checks, and every string up to the bound on every construction.
func plainCase(g gx.G, shuffle int, limit int, dump bool) hx.Case {
	c := hx.Case{Header: fmt.Sprintf("comp=lr shuffle=%d", shuffle)}
	c.Ops = append(c.Ops, g.Lines()...)
	ok := map[string]bool{}
	for _, k := range kinds {
		c.Ops = append(c.Ops, "build "+k)
		var err error
		var T *lr.ParsingTable
		if hx.Try(func() { T, err = builders[k](toCFG(g), nil) }) == "" && err == nil && T != nil {
			ok[k] = true
		}
	}
	for _, k := range kinds {
		if dump {
			c.Ops = append(c.Ops, "dump "+k)
		}
		c.Ops = append(c.Ops, "check "+k)
	}
	c.Ops = append(c.Ops, "chain")
	nok := 0
	for _, k := range kinds {
		if ok[k] {
			nok++
		}
	}
	if nok == 0 {
		// a few parses on the conflicted tables (they stop at the first conflicting cell)
		for _, w := range g.Words(2) {
			c.Ops = append(c.Ops, strings.TrimSpace("parse lr1 "+w))
		}
		return c
	}
	words := g.Words(wordBound(len(g.Terms), limit/nok))
	lang := g.LangK(6)
	for _, k := range kinds {
		if !ok[k] {
			continue
		}
		for _, w := range words {
			c.Ops = append(c.Ops, strings.TrimSpace("parse "+k+" "+w))
			if lang[w] {
				c.Ops = append(c.Ops, strings.TrimSpace("ast "+k+" "+w))
			}
		}
	}
	return c
}

var opNames = []string{"+", "-", "*", "/", "^", "<"}

// exprCase: E → E op E | id with the given levels (ops not in any level stay unlisted).
func exprCase(ops []string, levels [][]string, assoc []string, exprs [][]string, shuffle int) hx.Case {
	c := hx.Case{Header: fmt.Sprintf("comp=expr shuffle=%d", shuffle)}
	c.Ops = append(c.Ops, "terms id "+strings.Join(ops, " "), "nonterms E", "start E")
	for _, o := range ops {
		c.Ops = append(c.Ops, "prod E : E "+o+" E")
	}
	c.Ops = append(c.Ops, "prod E : id")
	for i, l := range levels {
		c.Ops = append(c.Ops, "prec "+assoc[i]+" "+strings.Join(l, " "))
	}
	for _, k := range kinds {
		c.Ops = append(c.Ops, "build "+k)
	}
	c.Ops = append(c.Ops, "check slr")
	for _, e := range exprs {
		w := strings.Join(e, " ")
		c.Ops = append(c.Ops, strings.TrimSpace("climb "+w))
		for _, k := range kinds {
			c.Ops = append(c.Ops, strings.TrimSpace("ast "+k+" "+w))
		}
		c.Ops = append(c.Ops, strings.TrimSpace("parse lalr "+w))
	}
	return c
}

func randomExprs(r *hx.Rand, ops []string, n int) [][]string {
	var out [][]string
	for i := 0; i < n; i++ {
		m := r.Range(1, 6)
		e := []string{"id"}
		for j := 1; j < m; j++ {
			e = append(e, hx.Pick(r, ops), "id")
		}
		out = append(out, e)
	}
	// malformed
	out = append(out, []string{}, []string{"id", "id"}, []string{ops[0], "id"}, []string{"id", ops[0]})
	return out
}

// orderedPartitions enumerates all ways to put xs into a sequence of non-empty levels.
func orderedPartitions(xs []string, f func([][]string)) {
	var rec func(i int, cur [][]string)
	rec = func(i int, cur [][]string) {
		if i == len(xs) {
			cp := make([][]string, len(cur))
			for k := range cur {
				cp[k] = append([]string{}, cur[k]...)
			}
			f(cp)
			return
		}
		for k := range cur {
			cur[k] = append(cur[k], xs[i])
			rec(i+1, cur)
			cur[k] = cur[k][:len(cur[k])-1]
		}
		for pos := 0; pos <= len(cur); pos++ {
			next := append(append(append([][]string{}, cur[:pos]...), []string{xs[i]}), cur[pos:]...)
			rec(i+1, next)
		}
	}
	rec(0, nil)
}

var resolveProds = []string{"[E:E,+,E]", "[E:E,*,E]", "[E:E,E]", "[E:T]", "[T:a]", "[T:]", "[E:-,E]", "[T:T,b,E]",
	"[E:E,?,E,:,E]", "[E:a,E,b]", "[T:b,T,a]", "[E:E,:,E,?,E]"}

// resolveCase: direct resolveConflict / Compare ops on random levels and action lists.
func resolveCase(r *hx.Rand, shuffle int) hx.Case {
	c := hx.Case{Header: fmt.Sprintf("comp=resolve shuffle=%d", shuffle)}
	c.Ops = append(c.Ops, "terms a b + * - ? :", "nonterms E T", "start E", "prod E : T", "prod T : a")
	handles := []string{"a", "b", "+", "*", "-", "?", ":", "[E:E,E]", "[E:T]", "[T:]"}
	perm := append([]string{}, handles...)
	for i := len(perm) - 1; i > 0; i-- {
		j := r.Intn(i + 1)
		perm[i], perm[j] = perm[j], perm[i]
	}
	perm = perm[:r.Range(2, len(perm))]
	for len(perm) > 0 {
		n := r.Range(1, 3)
		if n > len(perm) {
			n = len(perm)
		}
		c.Ops = append(c.Ops, "prec "+hx.Pick(r, []string{"left", "left", "right", "right", "none"})+" "+strings.Join(perm[:n], " "))
		perm = perm[n:]
	}
	if r.Chance(1, 12) { // an invalid level list: a handle listed twice
		c.Ops = append(c.Ops, "prec left "+hx.Pick(r, handles)+" "+hx.Pick(r, handles))
	}
	mkAct := func() string {
		switch x := r.Intn(10); {
		case x < 3:
			return fmt.Sprintf("s%d", r.Intn(4))
		case x < 9:
			return "r" + hx.Pick(r, resolveProds)
		default:
			return "acc"
		}
	}
	for k := r.Range(4, 10); k > 0; k-- {
		term := hx.Pick(r, []string{"a", "b", "+", "*", "-", "?", ":"})
		n := r.Range(2, 4)
		seen := map[string]bool{}
		var acts []string
		nshift := 0
		for len(acts) < n {
			a := mkAct()
			if seen[a] || (strings.HasPrefix(a, "s") && nshift > 0) {
				continue
			}
			if strings.HasPrefix(a, "s") {
				nshift++
			}
			seen[a] = true
			acts = append(acts, a)
		}
		c.Ops = append(c.Ops, "resolve "+term+" | "+strings.Join(acts, " "))
		if acts[0] != "acc" && acts[1] != "acc" {
			c.Ops = append(c.Ops, "compare "+term+" | "+acts[0]+" "+acts[1], "compare "+term+" | "+acts[1]+" "+acts[0])
		}
	}
	return c
}

// precGrammarCase: a random reduced grammar with random levels over its terminals and terminal-free
// productions: builds only (ResolveConflicts on arbitrary tables, multi-way cells included).
func precGrammarCase(r *hx.Rand, g gx.G, shuffle int) hx.Case {
	c := hx.Case{Header: fmt.Sprintf("comp=lrprec shuffle=%d", shuffle)}
	c.Ops = append(c.Ops, g.Lines()...)
	var handles []string
	handles = append(handles, g.Terms...)
	for _, p := range g.Prods {
		hasT := false
		for _, s := range p.Body {
			if !g.IsNonTerm(s) {
				hasT = true
			}
		}
		if !hasT {
			handles = append(handles, "["+p.Head+":"+strings.Join(p.Body, ",")+"]")
		}
	}
	for i := len(handles) - 1; i > 0; i-- {
		j := r.Intn(i + 1)
		handles[i], handles[j] = handles[j], handles[i]
	}
	if r.Chance(1, 3) {
		handles = handles[:r.Range(1, len(handles))]
	}
	for len(handles) > 0 {
		n := r.Range(1, 3)
		if n > len(handles) {
			n = len(handles)
		}
		c.Ops = append(c.Ops, "prec "+hx.Pick(r, []string{"left", "right", "left", "right", "none"})+" "+strings.Join(handles[:n], " "))
		handles = handles[n:]
	}
	for _, k := range kinds {
		c.Ops = append(c.Ops, "build "+k)
	}
	return c
}

// quoteSome renames (with probability 1/5) one terminal to the name of a non-terminal, spelled 'N.
func quoteSome(r *hx.Rand, g gx.G) gx.G {
	if !r.Chance(1, 5) || len(g.Terms) == 0 {
		return g
	}
	old := hx.Pick(r, g.Terms)
	nw := "'" + hx.Pick(r, g.NonTerms)
	out := gx.G{Start: g.Start, NonTerms: g.NonTerms}
	for _, t := range g.Terms {
		if t == old {
			t = nw
		}
		out.Terms = append(out.Terms, t)
	}
	for _, p := range g.Prods {
		q := gx.P{Head: p.Head}
		for _, x := range p.Body {
			if x == old {
				x = nw
			}
			q.Body = append(q.Body, x)
		}
		out.Prods = append(out.Prods, q)
	}
	return out
}

// plainNames undoes quoteSome (c10.Rename expects plain words).
func plainNames(g gx.G) gx.G {
	h := cloneGX(g)
	fix := func(w string) string {
		if strings.HasPrefix(w, "'") {
			return "q" + w[1:]
		}
		return w
	}
	for i, t := range h.Terms {
		h.Terms[i] = fix(t)
	}
	for _, p := range h.Prods {
		for i, x := range p.Body {
			p.Body[i] = fix(x)
		}
	}
	return h
}

func randomReduced(r *hx.Rand, o gx.GenOpts) gx.G {
	for {
		g := gx.Random(r, o)
		if g.Reduced() {
			return quoteSome(r, g)
		}
	}
}

// ternaryCase: E → E ? E : E | E op E | id with random levels over ?, : and the binary operators (the handle of
// the ternary production is its FIRST terminal).
func ternaryCase(r *hx.Rand, shuffle int) hx.Case {
	c := hx.Case{Header: fmt.Sprintf("comp=ternary shuffle=%d", shuffle)}
	bin := []string{"+", "*"}[:r.Range(0, 2)]
	first, second := "?", ":"
	if r.Chance(1, 4) {
		first, second = ":", "?"
	}
	c.Ops = append(c.Ops, "terms id "+first+" "+second+" "+strings.Join(bin, " "), "nonterms E", "start E")
	c.Ops = append(c.Ops, "prod E : E "+first+" E "+second+" E")
	for _, o := range bin {
		c.Ops = append(c.Ops, "prod E : E "+o+" E")
	}
	c.Ops = append(c.Ops, "prod E : id")
	hs := append([]string{first, second}, bin...)
	for i := len(hs) - 1; i > 0; i-- {
		j := r.Intn(i + 1)
		hs[i], hs[j] = hs[j], hs[i]
	}
	if r.Chance(1, 6) {
		hs = hs[:len(hs)-1]
	}
	for len(hs) > 0 {
		n := r.Range(1, 2)
		if n > len(hs) {
			n = len(hs)
		}
		c.Ops = append(c.Ops, "prec "+hx.Pick(r, []string{"left", "right", "left", "right", "none"})+" "+strings.Join(hs[:n], " "))
		hs = hs[n:]
	}
	for _, k := range kinds {
		c.Ops = append(c.Ops, "build "+k)
	}
	c.Ops = append(c.Ops, "check slr")
	for i := 0; i < 4; i++ {
		e := []string{"id"}
		for j := r.Range(0, 3); j > 0; j-- {
			if r.Chance(1, 2) || len(bin) == 0 {
				e = append(e, first, "id", second, "id")
			} else {
				e = append(e, hx.Pick(r, bin), "id")
			}
		}
		c.Ops = append(c.Ops, "parse slr "+strings.Join(e, " "), "ast lalr "+strings.Join(e, " "))
	}
	return c
}

// sizeSweep: the threshold-sweep families of size.go.  Quick: every dimension at 63/64/65 (which of the three rotates with
// the seed) with the Model, the kernel-item dimension at 257+ (oracle only) on every run, one more dimension at 257 (which
// one rotates with the seed), the cheap dimensions (precedence levels, input length, stack depth) at 1023/1024/1025 and
// 2049; thorough: every dimension at 1, 2, 63, 64, 65 and 255, 256, 257, the cheap ones up to 65537.
func sizeSweep(run *hx.Run, next func() int) {
	all := []string{"slr", "lalr", "lr1"}
	seed := int(run.Seed % 1000)
	r := run.R.Fork("lrsize")
	small := []int{63, 64, 65}
	pick := small[seed%3]
	do := func(fam string, n int, ks []string, checks, asts, noModel bool) {
		timed(run, "lrsize", sizeCase(fam, n, ks, next(), checks, asts, noModel), Exec)
	}
	if !run.Thorough() {
		lowPick := []int{31, 32, 33}[seed%3]
		do("kw", pick, all, true, true, false)
		do("fan", pick, all, true, true, false)
		do("la", pick, []string{"lalr", "lr1"}, true, true, false)
		do("body", pick, all, false, true, false)
		do("chain", lowPick, all, true, true, false)                 // LALR on a unit chain of 65 takes a second, of 129 five
		do("eps", []int{15, 16, 17}[seed%3], all, true, true, false) // LR(1) on 64 nullable symbols in a row takes five
		for _, n := range []int{1023, 1024, 1025} {
			do([]string{"right", "left", "paren"}[(seed+n)%3], n, []string{all[(seed+n)%3]}, false, true, false)
		}
		do("paren", 2049, []string{"lalr"}, false, true, false)
		timed(run, "resolve", precSizeCase([]int{64, 65, 257}[seed%3], next()), Exec)
		// (operator grammars are the library's worst case: 6 operators take 1.4 s, 8 take 7 s, 9 take 13 s, 12 more than the
		// watchdog allows; the random expr family above has up to 4)
		timed(run, "expr", manyOpsCase(r, 5, next(), false), Exec)
		// The rest is skipped in the statement-coverage measurement of bin/check, which replays the quick tier with an
		// instrumented binary: the cases above execute the same statements.
		if os.Getenv("GOCOVERDIR") != "" && run.Budget <= 1 { // (with an enlarged budget — changed code — nothing is left out)
			return
		}
		// the kernel-item dimension beyond 256 (ComputeLALR1Kernels indexes kernel items by their position in the state)
		do("kw", []int{257, 258, 260}[seed%3], []string{"lalr"}, false, false, true)
		// one more dimension beyond 256, cheapest constructions only
		switch seed % 3 {
		case 0:
			do("fan", 257, []string{"slr"}, false, false, true)
		case 1:
			do("la", 257, []string{"lr1"}, false, false, true)
		case 2:
			do("chain", 257, []string{"slr"}, false, false, true)
		}
		do("left", 65537, []string{"slr"}, false, false, false)
		timed(run, "resolve", precSizeCase([]int{1024, 1025, 1023}[seed%3], next()), Exec)
		return
	}
	for _, fam := range []string{"kw", "fan", "la", "chain", "body"} {
		for _, n := range []int{1, 2, 63, 64, 65} {
			if fam == "chain" && n > 33 {
				do(fam, n, []string{"slr", "lr1"}, true, true, false)
				continue
			}
			do(fam, n, all, fam != "body", true, false)
		}
	}
	for _, n := range []int{1, 2, 15, 16, 17, 31, 32, 33} {
		do("eps", n, all, true, true, false)
	}
	do("eps", 64, []string{"slr"}, false, true, false)
	do("eps", 65, []string{"lr1"}, false, false, true)
	for _, n := range []int{31, 32, 33} {
		do("chain", n, all, true, true, false)
	}
	do("chain", 65, []string{"lalr"}, false, false, true)
	// around 256: the kernel-item dimension with every construction (257 with the Model: half a minute of driver time),
	// the others with the constructions that stay in the seconds there
	do("kw", 255, []string{"lalr"}, false, false, true)
	do("kw", 256, all, false, false, true)
	do("kw", 257, all, false, false, false)
	do("kw", 258, []string{"lalr"}, false, false, true)
	do("kw", 300, []string{"slr", "lalr"}, false, false, true)
	do("fan", 255, []string{"slr"}, false, false, true)
	do("fan", 256, all, false, false, false)
	do("fan", 257, []string{"lalr", "lr1"}, false, false, true)
	for _, n := range []int{255, 256, 257} {
		do("la", n, []string{"slr", "lr1"}, false, false, n != 257)
	}
	for _, n := range []int{256, 257} {
		do("chain", n, []string{"slr", "lr1"}, false, false, true)
		do("body", n, []string{[]string{"slr", "lalr", "lr1"}[n%3]}, false, false, true)
	}
	do("fan", 1025, []string{"slr"}, false, false, true)
	for _, fam := range []string{"right", "left", "paren"} {
		for i, n := range []int{0, 1, 1023, 1024, 1025, 2047, 2048, 2049, 4097} {
			do(fam, n, []string{all[i%3]}, false, true, false)
		}
		// (the Model's driver takes half a minute and more for 65537 tokens on the two that nest)
		do(fam, 65537, []string{"slr"}, false, false, fam != "left")
		do(fam, 70000, []string{"lalr"}, false, false, true)
	}
	for _, n := range []int{1, 2, 63, 64, 65, 255, 256, 257, 1023, 1024, 1025} {
		timed(run, "resolve", precSizeCase(n, next()), Exec)
	}
	for _, n := range []int{5, 6, 7, 8} {
		timed(run, "expr", manyOpsCase(r, n, next(), n == 8), Exec)
	}
}

// timed is run.Do with the seconds spent per component recorded in the statistics (`seconds_by_component`; for the
// size sweep per family and size as well: `seconds_by_size_case`).
func timed(run *hx.Run, component string, c hx.Case, exec hx.Exec) hx.Result {
	t0 := time.Now()
	res := run.Do(component, c, exec)
	d := time.Since(t0).Seconds()
	add := func(key, k string) {
		m, _ := run.Stats.Extra[key].(map[string]float64)
		if m == nil {
			m = map[string]float64{}
			run.Stats.Extra[key] = m
		}
		m[k] = float64(int((m[k]+d)*100+0.5)) / 100
	}
	add("seconds_by_component", component)
	if v := hx.HeaderGet(c.Header, "size"); v != "" {
		add("seconds_by_size_case", v)
	}
	return res
}

func Main(run *hx.Run) {
	run.Stats.Rule = Rule
	// development aid: VERIF_C11_SIZE=fam:n:kind,kind[:nomodel] runs that one threshold case only
	if spec := os.Getenv("VERIF_C11_SIZE"); spec != "" {
		f := strings.Split(spec, ":")
		if n, err := strconv.Atoi(f[1]); err == nil && f[0] == "ops" {
			t0 := time.Now()
			res := timed(run, "expr", manyOpsCase(run.R.Fork("x"), n, 1, false), Exec)
			fmt.Printf("%s: %.2fs bad=%d %s\n", spec, time.Since(t0).Seconds(), res.BadOp, res.What)
		} else if err == nil && len(f) >= 3 {
			t0 := time.Now()
			res := timed(run, "lrsize", sizeCase(f[0], n, strings.Split(f[2], ","), 1, len(f) > 4, len(f) > 4, len(f) > 3 && f[3] == "nomodel"), Exec)
			fmt.Printf("%s: %.2fs bad=%d %s\n", spec, time.Since(t0).Seconds(), res.BadOp, res.What)
		}
		return
	}
	for _, f := range hx.CorpusFiles("C11") {
		cs, _ := hx.ReadReplay(f)
		for _, c := range cs {
			timed(run, hx.HeaderGet(c.Header, "comp"), c, Exec)
		}
	}
	shuffle := 1
	next := func() int { shuffle++; return shuffle }
	// the thorough tier spends most of its time on the exhaustive families below: cap the random part at 6x
	scale := func(n int) int {
		v := run.Scale(n)
		if run.Thorough() && v > 6*n {
			v = 6 * n
		}
		return v
	}

	// hand-written boundary family, every string up to the bound, with state dumps
	for _, s := range boundary {
		g := parseBoundary(s)
		timed(run, "lr", plainCase(g, next(), 400, true), Exec)
	}

	// second hardening round: hash-bucket coincidences, alternatives that print alike, every input length, gadgets at size
	round2(run, next)

	// random reduced grammars
	r := run.R.Fork("lr")
	small := gx.GenOpts{MaxNonTerms: 3, MaxTerms: 2, MaxAlts: 3, MaxBody: 3, EpsChance: 15, UnitChance: 10, LeftRec: 15, CommonPref: 25}
	for k, n := 0, scale(80); k < n; k++ {
		o := gx.DefaultOpts()
		if k%3 != 0 {
			o = small
		}
		g := randomReduced(r, o)
		c := plainCase(g, next(), 400, k%4 == 0)
		// Axis 3: two grammars out of five get their symbols renamed into one of the name schemes of harness/c10
		// (names that are concatenations of each other, look like written terminals, end in the primes `augment`
		// appends, are empty / blank / the endmarker's "$" / ε, contain spaces, or coincide between the two kinds)
		if h, scheme := c10.MaybeRename(r, plainNames(g), k); scheme != "plain" && validGrammar(h) && h.Reduced() {
			c = plainCase(h, next(), 400, k%4 == 0)
			c.Header += " names=" + scheme
		}
		timed(run, "lr", c, Exec)
	}

	// Axis 2: the same grammar object for every construction, bodies that share backing arrays, the grammar edited in
	// place between constructions, parser objects reused, the end of input signalled in other legal ways, a failing lexer
	ru := run.R.Fork("lruse")
	for _, s := range sharedBodies {
		for _, layout := range []string{"arena", "prefix"} {
			timed(run, "lruse", useCase(ru, parseBoundary(s), next(), layout), Exec)
		}
	}
	shared := gx.GenOpts{MaxNonTerms: 3, MaxTerms: 3, MaxAlts: 3, MaxBody: 3, EpsChance: 15, UnitChance: 20, LeftRec: 15, CommonPref: 60}
	for k, n := 0, scale(18); k < n; k++ {
		o := shared
		if k%3 == 0 {
			o = small
		}
		timed(run, "lruse", useCase(ru, randomReduced(ru, o), next(), ""), Exec)
	}
	for k, n := 0, scale(3); k < n; k++ {
		timed(run, "lruse", useCase(ru, parseBoundary(hx.Pick(ru, boundary)), next(), ""), Exec)
	}

	// operator grammars with random level assignments
	re := run.R.Fork("expr")
	for k, n := 0, scale(40); k < n; k++ {
		nops := re.Range(1, 4)
		perm := append([]string{}, opNames...)
		for i := len(perm) - 1; i > 0; i-- {
			j := re.Intn(i + 1)
			perm[i], perm[j] = perm[j], perm[i]
		}
		ops := perm[:nops]
		var levels [][]string
		var assoc []string
		listed := ops
		if re.Chance(1, 10) && nops > 1 {
			listed = ops[:nops-1] // one operator without precedence: the table keeps a conflict
		}
		for _, o := range listed {
			if len(levels) > 0 && re.Chance(1, 3) {
				levels[len(levels)-1] = append(levels[len(levels)-1], o)
			} else {
				levels = append(levels, []string{o})
				assoc = append(assoc, hx.Pick(re, []string{"left", "left", "left", "right", "right", "none"}))
			}
		}
		timed(run, "expr", exprCase(ops, levels, assoc, randomExprs(re, ops, 8), next()), Exec)
	}

	// ternary operator with precedence levels
	rt3 := run.R.Fork("ternary")
	for k, n := 0, scale(25); k < n; k++ {
		timed(run, "ternary", ternaryCase(rt3, next()), Exec)
	}

	// resolveConflict / Compare directly
	rr := run.R.Fork("resolve")
	for k, n := 0, scale(100); k < n; k++ {
		timed(run, "resolve", resolveCase(rr, next()), Exec)
	}

	// random grammars with random levels
	rp := run.R.Fork("lrprec")
	for k, n := 0, scale(40); k < n; k++ {
		timed(run, "lrprec", precGrammarCase(rp, randomReduced(rp, small), next()), Exec)
	}

	// Axis 1: size thresholds
	sizeSweep(run, next)

	if run.Thorough() {
		// every assignment of ≤3 operators to ordered levels with every associativity, and of 4 operators with
		// left/right only, each with random expressions
		rt := run.R.Fork("expr-exhaustive")
		count := 0
		for nops := 1; nops <= 4; nops++ {
			ops := opNames[:nops]
			assocs := []string{"left", "right", "none"}
			if nops == 4 {
				assocs = assocs[:2]
			}
			orderedPartitions(ops, func(levels [][]string) {
				idx := make([]int, len(levels))
				for {
					as := make([]string, len(levels))
					for i, k := range idx {
						as[i] = assocs[k]
					}
					timed(run, "expr", exprCase(ops, levels, as, randomExprs(rt, ops, 6), next()), Exec)
					count++
					i := len(idx) - 1
					for i >= 0 {
						idx[i]++
						if idx[i] < len(assocs) {
							break
						}
						idx[i] = 0
						i--
					}
					if i < 0 {
						break
					}
				}
			})
		}
		// every grammar with the single non-terminal S over {a,b} whose alternatives are 1..3 bodies of length ≤ 2
		// out of a fixed pool, plus ε
		pool := [][]string{{}, {"a"}, {"b"}, {"S"}, {"a", "a"}, {"a", "b"}, {"a", "S"}, {"b", "a"}, {"b", "b"}, {"b", "S"}, {"S", "a"}, {"S", "b"}, {"S", "S"},
			{"a", "S", "b"}, {"a", "S", "a"}, {"S", "a", "S"}}
		enum := 0
		for i := 0; i < len(pool); i++ {
			for j := i; j < len(pool); j++ {
				for k := j; k < len(pool); k++ {
					g := gx.G{Terms: []string{"a", "b"}, NonTerms: []string{"S"}, Start: "S"}
					seen := map[int]bool{}
					for _, x := range []int{i, j, k} {
						if !seen[x] {
							seen[x] = true
							g.Prods = append(g.Prods, gx.P{Head: "S", Body: pool[x]})
						}
					}
					if !g.Reduced() {
						continue
					}
					enum++
					timed(run, "lr", plainCase(g, next(), 300, false), Exec)
				}
			}
		}
		run.Stats.Extra["exhaustive_part"] = fmt.Sprintf("%d operator-grammar level assignments (all for <=3 operators, left/right for 4); "+
			"%d one-non-terminal grammars (all choices of <=3 alternatives from a pool of 16 bodies), all strings up to the bound", count, enum)
	}
}
