package c11

import (
	"fmt"
	"sort"
	"strings"

	"verifharness/gx"
	"verifharness/hx"
)

// ---------------------------------------------------------------- second hardening round
//
// (a) bucket: one LR state whose ACTION row (terminals) or GOTO row (non-terminals) holds 17–23 keys that share one probe
//     path of the 31-slot quadratic table the row starts as (34–50 keys on one path of the 67-slot table it grows into).  The
//     names are found by gx.SameBucketNames, which CALLS grammar.HashTerminal / HashNonTerminal.  A probe path visits 16 (34)
//     different slots only: the rows terminate because they grow at load factor 1/2.  Every build and every parse runs under
//     the watchdog of Exec, so a Put/Get that never returns becomes the replay.
// (b) alike: two alternatives of one head whose bodies are DIFFERENT strings of symbols with the same number of terminals,
//     the same number of non-terminals and the same String() rendering (non-terminal names with blanks: [«A B», «C»] and
//     [«A», «B C»]; a non-terminal named like a written terminal: [«"a"», b] and [a, «"b"»]).  grammar.CmpProduction, and with
//     it CmpItem and cmpItemSet, answer 0 for such a pair: whatever identifies items, productions or states through those
//     orderings confuses them.  The state numbers of such grammars depend on the iteration order of the item sets (ties of
//     BuildStateMap's sort), so these cases are oracle-only (hx.Case.NoModel): membership, derivation replay, yield, the
//     chain, the agreement of the constructions, the validator, `expect=table` (the families are LL(1), hence SLR(1)).
// (c) every input length 0..200 (not only around powers of two) for the three input-length families.
// (d) a violation shape at the sizes of the sweep: the keyword table with the classic LR(1)-not-LALR(1) and
//     LALR(1)-not-SLR(1) gadgets next to it (verdicts conflict / table at 64 and 257 kernel items).

// bucketCase: shape 0: S → t (state 0 shifts every t); 1: S → a A, A → t (a non-initial state); 2: S → A t, A → x (the row
// of the state after A shifts every t, the row of A → x• reduces on every t); 3: S → N, N → t_N (GOTO row of state 0 holds
// every N; terminals from the bucket as well).
func bucketCase(shape, m, n int, shuffle int) hx.Case {
	ts := gx.SameBucketNames("term", "t", []int{m}, n)
	g := gx.G{Start: "S", NonTerms: []string{"S"}}
	var ws [][]string
	probe := []int{0, 1, n / 2, 15, 16, 17, n - 2, n - 1}
	switch shape {
	case 0:
		g.Terms = ts
		for _, t := range ts {
			g.Prods = append(g.Prods, gx.P{Head: "S", Body: []string{t}})
		}
		for _, k := range probe {
			if k >= 0 && k < n {
				ws = append(ws, []string{ts[k]}, []string{ts[k], ts[0]})
			}
		}
	case 1:
		g.NonTerms = append(g.NonTerms, "A")
		g.Terms = append([]string{"a"}, ts...)
		g.Prods = append(g.Prods, gx.P{Head: "S", Body: []string{"a", "A"}})
		for _, t := range ts {
			g.Prods = append(g.Prods, gx.P{Head: "A", Body: []string{t}})
		}
		for _, k := range probe {
			if k >= 0 && k < n {
				ws = append(ws, []string{"a", ts[k]}, []string{ts[k]})
			}
		}
	case 2:
		g.NonTerms = append(g.NonTerms, "A")
		g.Terms = append([]string{"x"}, ts...)
		for _, t := range ts {
			g.Prods = append(g.Prods, gx.P{Head: "S", Body: []string{"A", t}})
		}
		g.Prods = append(g.Prods, gx.P{Head: "A", Body: []string{"x"}})
		for _, k := range probe {
			if k >= 0 && k < n {
				ws = append(ws, []string{"x", ts[k]}, []string{"x"})
			}
		}
	default:
		ns := gx.SameBucketNames("nonterm", "N", []int{m}, n)
		g.NonTerms = append(g.NonTerms, ns...)
		g.Terms = ts
		for i, N := range ns {
			g.Prods = append(g.Prods, gx.P{Head: "S", Body: []string{N}}, gx.P{Head: N, Body: []string{ts[i]}})
		}
		for _, k := range probe {
			if k >= 0 && k < n {
				ws = append(ws, []string{ts[k]}, []string{ts[k], ts[k]})
			}
		}
	}
	ws = append(ws, []string{}, []string{"nosuchtoken"})
	c := hx.Case{Header: fmt.Sprintf("comp=lrsize shuffle=%d size=bucket%d-of-%d:%d expect=table", shuffle, shape, m, n)}
	c.Ops = append(c.Ops, g.Lines()...)
	for _, k := range kinds {
		c.Ops = append(c.Ops, "build "+k)
	}
	c.Ops = append(c.Ops, "check slr", "check lalr", "check lr1", "chain")
	for _, k := range kinds {
		for _, w := range ws {
			c.Ops = append(c.Ops, strings.TrimSpace("parse "+k+" "+strings.Join(w, " ")), strings.TrimSpace("ast "+k+" "+strings.Join(w, " ")))
		}
	}
	return c
}

// alikeGrammar: S → pre G1 … Gk post for several splits of one word list into the same number of groups; a group is a
// non-terminal named by its words joined with blanks, with one production to a terminal of its own.  All alternatives print
// alike and have equal symbol counts; the grammar is LL(1) (the alternatives form a trie over the groups).
func alikeGrammar(r *hx.Rand) gx.G {
	words := []string{"A", "B", "C", "D"}[:r.Range(3, 4)]
	groups := r.Range(2, len(words)-1)
	// all splits of the words into `groups` non-empty consecutive groups
	var splits [][][]string
	var rec func(from int, cur [][]string)
	rec = func(from int, cur [][]string) {
		if len(cur) == groups {
			if from == len(words) {
				splits = append(splits, append([][]string{}, cur...))
			}
			return
		}
		for to := from + 1; to <= len(words); to++ {
			rec(to, append(cur, words[from:to]))
		}
	}
	rec(0, nil)
	for i := len(splits) - 1; i > 0; i-- {
		j := r.Intn(i + 1)
		splits[i], splits[j] = splits[j], splits[i]
	}
	splits = splits[:r.Range(2, len(splits))]
	g := gx.G{Start: "S", NonTerms: []string{"S"}}
	var pre, post []string
	if r.Chance(2, 3) {
		pre = []string{"t"}
		g.Terms = append(g.Terms, "t")
	}
	if r.Chance(1, 3) {
		post = []string{"u"}
		g.Terms = append(g.Terms, "u")
	}
	seen := map[string]bool{}
	for _, sp := range splits {
		body := append([]string{}, pre...)
		for _, grp := range sp {
			w := gx.EncName(strings.Join(grp, " "))
			if !seen[w] {
				seen[w] = true
				g.NonTerms = append(g.NonTerms, w)
				t := "x" + fmt.Sprint(len(g.NonTerms))
				g.Terms = append(g.Terms, t)
				g.Prods = append(g.Prods, gx.P{Head: w, Body: []string{t}})
				if r.Chance(1, 4) { // a second alternative of the group, so that a reduce has a neighbour
					g.Prods = append(g.Prods, gx.P{Head: w, Body: []string{t, t}})
				}
			}
			body = append(body, w)
		}
		g.Prods = append(g.Prods, gx.P{Head: "S", Body: append(body, post...)})
	}
	return g
}

// alikeQuoted: a non-terminal named like a written terminal: S → u «"a"» b | u a «"b"» (both print  "u" "a" "b", one
// non-terminal and two terminals each).
func alikeQuoted(r *hx.Rand) gx.G {
	qa, qb := gx.EncName(`"a"`), gx.EncName(`"b"`)
	g := gx.G{Start: "S", NonTerms: []string{"S", qa, qb}, Terms: []string{"u", "a", "b", "p", "q"}}
	g.Prods = []gx.P{{Head: "S", Body: []string{"u", qa, "b"}}, {Head: "S", Body: []string{"u", "a", qb}},
		{Head: qa, Body: []string{"p"}}, {Head: qb, Body: []string{"q"}}}
	if r.Bool() {
		g.Prods = append(g.Prods, gx.P{Head: qa, Body: []string{"p", qa}})
	}
	return g
}

// alikeCase: the three constructions, the chain, every sentence of the (finite or small) language and its
// one-token mutations on every construction.
func alikeCase(g gx.G, shuffle int, kind string) hx.Case {
	c := hx.Case{Header: fmt.Sprintf("comp=lralike shuffle=%d names=%s expect=table", shuffle, kind), NoModel: true}
	c.Ops = append(c.Ops, g.Lines()...)
	for _, k := range kinds {
		c.Ops = append(c.Ops, "build "+k)
	}
	// (no `check`: the validator recomputes the item sets, and with tied productions BuildStateMap numbers the tied states
	// by the iteration order of the sets, which differs from call to call)
	var sentences []string
	for w := range g.LangK(6) {
		sentences = append(sentences, w)
	}
	sort.Strings(sentences)
	if len(sentences) > 12 {
		sentences = sentences[:12]
	}
	words := map[string]bool{"": true}
	for _, s := range sentences {
		words[s] = true
		f := strings.Fields(s)
		for i := range f {
			words[strings.Join(append(append([]string{}, f[:i]...), f[i+1:]...), " ")] = true
			for _, t := range g.Terms[:min(3, len(g.Terms))] {
				m := append([]string{}, f...)
				m[i] = t
				words[strings.Join(m, " ")] = true
			}
		}
	}
	var ws []string
	for w := range words {
		ws = append(ws, w)
	}
	sort.Strings(ws)
	if len(ws) > 60 {
		ws = ws[:60]
	}
	for _, k := range kinds {
		for _, w := range ws {
			c.Ops = append(c.Ops, strings.TrimSpace("parse "+k+" "+w), strings.TrimSpace("ast "+k+" "+w))
		}
	}
	return c
}

// everyLengthCase: every input length 0..upTo on one of the input-length families, members and a near-miss.
func everyLengthCase(fam string, upTo int, kind string, shuffle int) hx.Case {
	g, _ := sizeFams[fam].build(1)
	c := hx.Case{Header: fmt.Sprintf("comp=lrsize shuffle=%d size=%s:0..%d expect=table", shuffle, fam, upTo)}
	c.Ops = append(c.Ops, g.Lines()...)
	c.Ops = append(c.Ops, "build "+kind)
	for n := 0; n <= upTo; n++ {
		_, ws := sizeFams[fam].build(n)
		c.Ops = append(c.Ops, strings.TrimSpace("parse "+kind+" "+strings.Join(ws[0], " ")), strings.TrimSpace("ast "+kind+" "+strings.Join(ws[0], " ")),
			strings.TrimSpace("parse "+kind+" "+strings.Join(ws[1], " ")))
	}
	return c
}

// kwGadgetCase: the keyword table with n alternatives next to a gadget that puts the grammar on a boundary:
// "lr1": LR(1) but not LALR(1) (S → p Q d | q R d | p R e | q Q e ; Q → z ; R → z);
// "lalr": LALR(1) but not SLR(1) (S → Q g | h Q i | z i | h z g ; Q → z).
func kwGadgetCase(n int, gadget string, ks []string, shuffle int, noModel bool) hx.Case {
	g, ws := sizeFams["kw"].build(n)
	switch gadget {
	case "lr1":
		g.NonTerms = append(g.NonTerms, "Q", "R")
		g.Terms = append(g.Terms, "p", "q", "z", "g", "h")
		g.Prods = append(g.Prods, gx.P{Head: "S", Body: []string{"p", "Q", "g"}}, gx.P{Head: "S", Body: []string{"q", "R", "g"}},
			gx.P{Head: "S", Body: []string{"p", "R", "h"}}, gx.P{Head: "S", Body: []string{"q", "Q", "h"}},
			gx.P{Head: "Q", Body: []string{"z"}}, gx.P{Head: "R", Body: []string{"z"}})
		ws = append(ws, []string{"p", "z", "g"}, []string{"q", "z", "g"}, []string{"p", "z", "h"}, []string{"q", "z", "h"}, []string{"p", "z"}, []string{"z", "g"})
	default:
		g.NonTerms = append(g.NonTerms, "Q")
		g.Terms = append(g.Terms, "z", "g", "h", "i")
		g.Prods = append(g.Prods, gx.P{Head: "S", Body: []string{"Q", "g"}}, gx.P{Head: "S", Body: []string{"h", "Q", "i"}},
			gx.P{Head: "S", Body: []string{"z", "i"}}, gx.P{Head: "S", Body: []string{"h", "z", "g"}}, gx.P{Head: "Q", Body: []string{"z"}})
		ws = append(ws, []string{"z", "g"}, []string{"h", "z", "i"}, []string{"z", "i"}, []string{"h", "z", "g"}, []string{"z"}, []string{"h", "z"})
	}
	c := hx.Case{Header: fmt.Sprintf("comp=lrsize shuffle=%d size=kw+%s-gadget:%d", shuffle, gadget, n), NoModel: noModel}
	c.Ops = append(c.Ops, g.Lines()...)
	for _, k := range ks {
		c.Ops = append(c.Ops, "build "+k)
	}
	if len(ks) == 3 && !noModel {
		c.Ops = append(c.Ops, "chain")
	}
	// parses on the construction the gadget leaves conflict-free
	last := ks[len(ks)-1]
	for _, w := range ws {
		c.Ops = append(c.Ops, strings.TrimSpace("parse "+last+" "+strings.Join(w, " ")))
	}
	return c
}

// round2 runs the families of the second hardening round.
func round2(run *hx.Run, next func() int) {
	seed := int(run.Seed % 1000)
	r := run.R.Fork("round2")
	// (a) one probe path of the 31-slot rows: 17..23 keys; of the 67-slot rows: 34..50 keys
	n31 := []int{17, 18, 19, 20, 21, 22, 23}
	if run.Huge() {
		for shape := 0; shape < 4; shape++ {
			for _, n := range n31 {
				timed(run, "lrsize", bucketCase(shape, 31, n, next()), Exec)
			}
			for _, n := range []int{34, 35, 40, 50} {
				timed(run, "lrsize", bucketCase(shape, 67, n, next()), Exec)
			}
		}
	} else {
		for shape := 0; shape < 4; shape++ {
			timed(run, "lrsize", bucketCase(shape, 31, n31[(seed+2*shape)%7], next()), Exec)
		}
		timed(run, "lrsize", bucketCase(seed%4, 31, 23, next()), Exec)
		timed(run, "lrsize", bucketCase((seed+1)%4, 67, []int{34, 36, 50}[seed%3], next()), Exec)
	}
	// (b) alternatives that print alike with equal symbol counts
	for k, n := 0, run.Scale(10); k < n; k++ {
		if k%5 == 4 {
			timed(run, "lralike", alikeCase(alikeQuoted(r), next(), "alike-quoted"), Exec)
		} else {
			timed(run, "lralike", alikeCase(alikeGrammar(r), next(), "alike-blanks"), Exec)
		}
	}
	// (c) every input length
	fams := []string{"right", "left", "paren"}
	if run.Huge() {
		for i, fam := range fams {
			timed(run, "lrsize", everyLengthCase(fam, 200, kinds[i], next()), Exec)
		}
	} else {
		timed(run, "lrsize", everyLengthCase(fams[seed%3], 200, kinds[(seed/3)%3], next()), Exec)
	}
	// (d) boundary gadgets at the sizes of the sweep
	pick := []int{63, 64, 65}[seed%3]
	timed(run, "lrsize", kwGadgetCase(pick, []string{"lr1", "lalr"}[seed%2], kinds, next(), false), Exec)
	if run.Thorough() {
		timed(run, "lrsize", kwGadgetCase(pick, []string{"lr1", "lalr"}[(seed+1)%2], kinds, next(), false), Exec)
		timed(run, "lrsize", kwGadgetCase(257, "lr1", []string{"lalr", "lr1"}, next(), true), Exec)
		timed(run, "lrsize", kwGadgetCase(257, "lalr", []string{"slr", "lalr"}, next(), true), Exec)
		// every small size of the table families
		for n := 1; n <= 48; n++ {
			for _, fam := range []string{"kw", "fan", "la"} {
				timed(run, "lrsize", sizeCase(fam, n, kinds, next(), false, true, false), Exec)
			}
		}
	}
}
