package c08

// helpers.go: the ops on the helpers the transformations rest on (C08 and C09 share them) — the three comparators that
// fix the orders in which OrderNonTerminals / OrderProductionSet / LeftFactor / BIN walk their inputs, the hash
// functions, WriteString, CFG.Symbols / Equal / IsCNF / Verify, Productions.AnyMatch / AllMatch / SelectMatch — run on
// the real package, printed as Driver/C08.lean prints the Model's answers, and judged by small independent
// re-statements of what their doc comments say.

import (
	"errors"
	"fmt"
	"hash/fnv"
	"sort"
	"strconv"
	"strings"

	"github.com/moorara/algo/grammar"

	"verifharness/gx"
	"verifharness/hx"
)

// endm is the name of the reserved endmarker terminal (rendered as `$`).
const endm = "\uEEEE"

// IsHelperOp: the first word of a helper op.
func IsHelperOp(w string) bool {
	switch w {
	case "verify", "iscnf", "symbols", "eq", "match", "order", "orderprods", "cmp", "hash", "write", "lcp", "strops":
		return true
	}
	return false
}

// ArgSym turns a word of an op argument into a symbol: 'x is the terminal x, ^Z the non-terminal Z (declared or
// not), any other word a non-terminal iff declared.
func ArgSym(g gx.G, w string) grammar.Symbol {
	switch {
	case strings.HasPrefix(w, Q):
		return grammar.Terminal(NameOf(w))
	case strings.HasPrefix(w, "^"):
		return grammar.NonTerminal(NameOf(w))
	case g.IsNonTerm(w):
		return grammar.NonTerminal(NameOf(w))
	}
	return grammar.Terminal(NameOf(w))
}

func argBody(g gx.G, ws []string) grammar.String[grammar.Symbol] {
	b := grammar.String[grammar.Symbol]{}
	for _, w := range ws {
		b = append(b, ArgSym(g, w))
	}
	return b
}

func tname(g gx.G, t grammar.Terminal) string {
	if t == grammar.Endmarker {
		return t.Name() // "$"
	}
	if w := WordOf(string(t)); g.IsNonTerm(w) {
		return Q + w
	} else {
		return w
	}
}

func showProdQ(g gx.G, p *grammar.Production) string {
	if len(p.Body) == 0 {
		return WordOf(string(p.Head)) + "→ε"
	}
	ws := make([]string, len(p.Body))
	for i, s := range p.Body {
		if t, ok := s.(grammar.Terminal); ok {
			ws[i] = tname(g, t)
		} else {
			ws[i] = WordOf(s.Name())
		}
	}
	return WordOf(string(p.Head)) + "→" + strings.Join(ws, " ")
}

func showBodyQ(g gx.G, b grammar.String[grammar.Symbol]) string {
	if len(b) == 0 {
		return "ε"
	}
	ws := make([]string, len(b))
	for i, s := range b {
		if t, ok := s.(grammar.Terminal); ok {
			ws[i] = tname(g, t)
		} else {
			ws[i] = WordOf(s.Name())
		}
	}
	return strings.Join(ws, " ")
}

func showProdsQ(g gx.G, ps []*grammar.Production) string {
	ks := make([]string, len(ps))
	for i, p := range ps {
		ks[i] = showProdQ(g, p)
	}
	sort.Strings(ks)
	return "[" + strings.Join(ks, "; ") + "]"
}

func splitBar(ws []string) (l, r []string) {
	for i, w := range ws {
		if w == "|" {
			return ws[:i], ws[i+1:]
		}
	}
	return ws, nil
}

// ---------------------------------------------------------------- independent re-statements

// render is Symbol.String() as documented: `$` for the endmarker, the quoted name for a terminal, the name for a
// non-terminal.
func render(s grammar.Symbol) string {
	if t, ok := s.(grammar.Terminal); ok {
		if string(t) == endm {
			return "$"
		}
		return strconv.Quote(string(t))
	}
	return s.Name()
}

func renderBody(b grammar.String[grammar.Symbol]) string {
	if len(b) == 0 {
		return "ε"
	}
	ws := make([]string, len(b))
	for i, s := range b {
		ws[i] = render(s)
	}
	return strings.Join(ws, " ")
}

func sign(less, greater bool) int {
	if less {
		return -1
	}
	if greater {
		return 1
	}
	return 0
}

// refCmpBody: more non-terminals first, then more terminals, then the renderings (doc comment of cmpString).
func refCmpBody(l, r grammar.String[grammar.Symbol]) int {
	cnt := func(b grammar.String[grammar.Symbol]) (n, t int) {
		for _, s := range b {
			if s.IsTerminal() {
				t++
			} else {
				n++
			}
		}
		return
	}
	ln, lt := cnt(l)
	rn, rt := cnt(r)
	if ln != rn {
		return sign(ln > rn, ln < rn)
	}
	if lt != rt {
		return sign(lt > rt, lt < rt)
	}
	a, b := renderBody(l), renderBody(r)
	return sign(a < b, a > b)
}

func refCmpSym(l, r grammar.Symbol) int {
	if l.IsTerminal() != r.IsTerminal() {
		return sign(l.IsTerminal(), r.IsTerminal())
	}
	return sign(render(l) < render(r), render(l) > render(r))
}

func refCmpProd(l, r *grammar.Production) int {
	if l.Head != r.Head {
		return sign(l.Head < r.Head, l.Head > r.Head)
	}
	return refCmpBody(l.Body, r.Body)
}

func refHash(parts ...string) uint64 {
	h := fnv.New64()
	for _, p := range parts {
		h.Write([]byte(p))
	}
	return h.Sum64()
}

// halfWriter accepts everything until its Write number failAt, of which it takes half and reports an error.
type halfWriter struct {
	n, failAt int
}

var errWrite = errors.New("injected write error")

func (w *halfWriter) Write(p []byte) (int, error) {
	w.n++
	if w.n-1 == w.failAt {
		return len(p) / 2, errWrite
	}
	return len(p), nil
}

// refPred: the named predicates of the `match` op on the plain grammar value.
func refPred(g gx.G, name string) (func(gx.P) bool, bool) {
	switch name {
	case "empty":
		return func(p gx.P) bool { return len(p.Body) == 0 }, true
	case "single":
		return func(p gx.P) bool { return len(p.Body) == 1 && !isTermWord(g, p.Body[0]) }, true
	case "leftrec":
		return func(p gx.P) bool { return len(p.Body) > 0 && !isTermWord(g, p.Body[0]) && strings.TrimPrefix(p.Body[0], "^") == p.Head }, true
	case "binary":
		return func(p gx.P) bool { return len(p.Body) == 2 && !isTermWord(g, p.Body[0]) && !isTermWord(g, p.Body[1]) }, true
	case "termprod":
		return func(p gx.P) bool { return len(p.Body) == 1 && isTermWord(g, p.Body[0]) }, true
	case "true":
		return func(gx.P) bool { return true }, true
	case "false":
		return func(gx.P) bool { return false }, true
	}
	if strings.HasPrefix(name, "head=") {
		return func(p gx.P) bool { return p.Head == name[5:] }, true
	}
	return nil, false
}

func libPred(name string) func(*grammar.Production) bool {
	switch name {
	case "empty":
		return (*grammar.Production).IsEmpty
	case "single":
		return (*grammar.Production).IsSingle
	case "leftrec":
		return (*grammar.Production).IsLeftRecursive
	case "binary":
		return func(p *grammar.Production) bool { b, _ := p.IsCNF(); return b }
	case "termprod":
		return func(p *grammar.Production) bool { _, t := p.IsCNF(); return t }
	case "true":
		return func(*grammar.Production) bool { return true }
	case "false":
		return func(*grammar.Production) bool { return false }
	}
	return func(p *grammar.Production) bool { return string(p.Head) == NameOf(strings.TrimPrefix(name, "head=")) }
}

func prodKeyP(p gx.P) string {
	if len(p.Body) == 0 {
		return p.Head + "→ε"
	}
	ws := make([]string, len(p.Body))
	for i, w := range p.Body {
		ws[i] = strings.TrimPrefix(w, "^")
		if w == endm {
			ws[i] = "$"
		}
	}
	return p.Head + "→" + strings.Join(ws, " ")
}

// WithEndmarker declares the reserved endmarker as a terminal of g and uses it at the end of a new alternative of the
// start symbol (a grammar Verify() accepts; String() / Name() render the symbol as `$`).
func WithEndmarker(g gx.G) gx.G {
	h := gx.G{Terms: append(append([]string{}, g.Terms...), endm), NonTerms: append([]string{}, g.NonTerms...), Start: g.Start}
	h.Prods = append(append([]gx.P{}, g.Prods...), gx.P{Head: g.Start, Body: []string{g.Terms[0], endm}})
	return h
}

// ShowVerify renders the error of Verify() as the Lean drivers render verifyErrors: a sorted multiset of kinds.
func ShowVerify(g gx.G, err error) string {
	if err == nil {
		return "ok valid"
	}
	me, ok := err.(interface{ Unwrap() []error })
	if !ok {
		return "ok invalid [?" + err.Error() + "]"
	}
	between := func(msg, pre, suf string) (string, bool) {
		if strings.HasPrefix(msg, pre) && strings.HasSuffix(msg, suf) && len(msg) >= len(pre)+len(suf) {
			return msg[len(pre) : len(msg)-len(suf)], true
		}
		return "", false
	}
	var items []string
	for _, e := range me.Unwrap() {
		msg := e.Error()
		if _, ok := between(msg, "start symbol ", " not in the set of non-terminal symbols"); ok {
			items = append(items, "start")
		} else if _, ok := between(msg, "no production rule for start symbol ", ""); ok {
			items = append(items, "start-prod")
		} else if n, ok := between(msg, "no production rule for non-terminal symbol ", ""); ok {
			items = append(items, "no-prod:"+n)
		} else if n, ok := between(msg, "production head ", " not in the set of non-terminal symbols"); ok {
			items = append(items, "head:"+n)
		} else if n, ok := between(msg, "non-terminal symbol ", " not in the set of non-terminal symbols"); ok {
			items = append(items, "nonterm:"+n)
		} else if t, ok := between(msg, "terminal symbol ", " not in the set of terminal symbols"); ok {
			if u, err := strconv.Unquote(t); err == nil {
				t = u
			}
			items = append(items, "term:"+tname(g, grammar.Terminal(t)))
		} else {
			items = append(items, "?"+msg)
		}
	}
	sort.Strings(items)
	return "ok invalid [" + strings.Join(items, "; ") + "]"
}

// VerifyOracle: what a well-formed grammar is, one complaint per offence (sorted).
func VerifyOracle(g gx.G) string {
	var items []string
	hasProd := map[string]bool{}
	for _, p := range g.Prods {
		hasProd[p.Head] = true
	}
	if !g.IsNonTerm(g.Start) {
		items = append(items, "start")
	}
	if !hasProd[g.Start] {
		items = append(items, "start-prod")
	}
	seen := map[string]bool{}
	for _, n := range g.NonTerms {
		if !hasProd[n] && !seen[n] {
			items = append(items, "no-prod:"+n)
		}
		seen[n] = true
	}
	declT := map[string]bool{}
	for _, t := range g.Terms {
		declT[t] = true
	}
	for _, p := range g.Prods {
		if !g.IsNonTerm(p.Head) {
			items = append(items, "head:"+p.Head)
		}
		for _, w := range p.Body {
			switch {
			case strings.HasPrefix(w, "^"):
				if !g.IsNonTerm(w[1:]) {
					items = append(items, "nonterm:"+w[1:])
				}
			case g.IsNonTerm(w) && !strings.HasPrefix(w, Q):
			case !declT[w]:
				items = append(items, "term:"+w)
			}
		}
	}
	if len(items) == 0 {
		return "ok valid"
	}
	sort.Strings(items)
	return "ok invalid [" + strings.Join(items, "; ") + "]"
}

// HelperOp runs one helper op on the real package. out is the line to print ("" = not a well-formed helper op),
// what describes a disagreement with the independent re-statement ("" = none), tags the branches reached.
func HelperOp(g gx.G, f []string) (out, what string, tags []string) {
	complain := func(format string, a ...any) {
		if what == "" {
			what = fmt.Sprintf(format, a...)
		}
	}
	tag := func(t string) { tags = append(tags, t) }
	cfg := ToCFG(g)
	switch {
	case len(f) == 1 && f[0] == "verify":
		out = ShowVerify(g, cfg.Verify())
		if want := VerifyOracle(g); out != want {
			complain("Verify() reports %s, the definition of a well-formed grammar gives %s", out, want)
		}
		if out != "ok valid" {
			for _, it := range strings.Split(strings.TrimSuffix(strings.TrimPrefix(out, "ok invalid ["), "]"), "; ") {
				tag("verify:" + strings.SplitN(it, ":", 2)[0])
			}
		}
	case len(f) == 1 && f[0] == "iscnf":
		err := cfg.IsCNF()
		var want []string
		for _, p := range g.Prods {
			loose := (len(p.Body) == 0 && p.Head == g.Start) || (len(p.Body) == 1 && isTermWord(g, p.Body[0])) ||
				(len(p.Body) == 2 && !isTermWord(g, p.Body[0]) && !isTermWord(g, p.Body[1]))
			if !loose {
				want = append(want, prodKeyP(p))
			}
		}
		sort.Strings(want)
		if err == nil {
			out = "ok true"
			tag("iscnf:true")
		} else {
			var ps []*grammar.Production
			if me, ok := err.(interface{ Unwrap() []error }); ok {
				for _, e := range me.Unwrap() {
					var ce *grammar.CNFError
					if errors.As(e, &ce) {
						ps = append(ps, ce.P)
					} else {
						complain("IsCNF() returned an error that is not a CNFError: %v", e)
					}
				}
			}
			out = "ok false " + showProdsQ(g, ps)
			tag("iscnf:false")
		}
		if wantLine := "ok true"; len(want) > 0 || out != wantLine {
			if len(want) > 0 {
				wantLine = "ok false [" + strings.Join(want, "; ") + "]"
			}
			if out != wantLine {
				complain("IsCNF() answers %s; the productions that are neither A→BC, A→a nor S→ε are %s", out, wantLine)
			}
		}
	case len(f) == 1 && f[0] == "symbols":
		var got, want []string
		for s := range cfg.Symbols().All() {
			if t, ok := s.(grammar.Terminal); ok {
				got = append(got, "t:"+tname(g, t))
			} else {
				got = append(got, "n:"+s.Name())
			}
		}
		for _, t := range g.Terms {
			if t == endm {
				t = "$"
			}
			want = append(want, "t:"+t)
		}
		for _, n := range g.NonTerms {
			want = append(want, "n:"+n)
		}
		sort.Strings(got)
		sort.Strings(want)
		out = "ok [" + strings.Join(got, " ") + "]"
		if strings.Join(got, " ") != strings.Join(want, " ") {
			complain("Symbols() = %v, declared are %v", got, want)
		}
	case len(f) == 2 && f[0] == "eq" && (IsOp(f[1]) || f[1] == "id"):
		res := cfg
		if f[1] != "id" {
			r, kind, _, hung := Timed(f[1], cfg)
			if hung {
				return "hang", "", tags
			}
			if kind != "" {
				return "panic", "", tags
			}
			res = r
		}
		eq, qe := cfg.Equal(res), res.Equal(cfg)
		out = "ok " + strconv.FormatBool(eq)
		if same := FromCFG(cfg).Show() == FromCFG(res).Show(); eq != same || qe != same {
			complain("Equal = %v / %v (the other way round), but the canonical renderings are equal: %v", eq, qe, same)
		}
		tag("equal:" + strconv.FormatBool(eq))
	case len(f) == 2 && f[0] == "match":
		rp, ok := refPred(g, f[1])
		if !ok {
			return "", "", nil
		}
		lp := libPred(f[1])
		anyM, allM := cfg.Productions.AnyMatch(lp), cfg.Productions.AllMatch(lp)
		var sel []*grammar.Production
		for p := range cfg.Productions.SelectMatch(lp).All() {
			sel = append(sel, p)
		}
		out = fmt.Sprintf("ok any=%v all=%v select=%s", anyM, allM, showProdsQ(g, sel))
		var want []string
		for _, p := range g.Prods {
			if rp(p) {
				want = append(want, prodKeyP(p))
			}
		}
		sort.Strings(want)
		if w := fmt.Sprintf("ok any=%v all=%v select=[%s]", len(want) > 0, len(want) == len(g.Prods), strings.Join(want, "; ")); out != w {
			complain("match %s: %s, filtering the production list gives %s", f[1], out, w)
		}
		if !allM {
			tag("allmatch:false")
		}
	case len(f) == 1 && f[0] == "order":
		ts := cfg.OrderTerminals()
		vis, unvis, all := cfg.OrderNonTerminals()
		tw := make([]string, len(ts))
		for i, t := range ts {
			tw[i] = tname(g, t)
			if i > 0 && ts[i-1] >= t {
				complain("OrderTerminals() is not ascending: %v", ts)
			}
		}
		nw := make([]string, len(all))
		seen := map[string]bool{}
		for i, n := range all {
			nw[i] = string(n)
			if seen[nw[i]] {
				complain("OrderNonTerminals() lists %s twice", n)
			}
			seen[nw[i]] = true
		}
		for _, n := range g.NonTerms {
			if !seen[n] {
				complain("OrderNonTerminals() misses the declared non-terminal %s", n)
			}
		}
		if len(vis)+len(unvis) != len(all) || len(ts) != len(g.Terms) || (len(all) > 0 && string(all[0]) != g.Start) {
			complain("OrderNonTerminals() = %v | %v | %v for start symbol %s", vis, unvis, all, g.Start)
		}
		out = "ok terms=[" + strings.Join(tw, " ") + "] nonterms=[" + strings.Join(nw, " ") + "]"
	case len(f) == 1 && f[0] == "orderprods":
		heads := map[string]bool{}
		for _, p := range g.Prods {
			heads[p.Head] = true
		}
		var parts []string
		for _, A := range hx.SortedKeys(heads) {
			ps := grammar.OrderProductionSet(cfg.Productions.Get(grammar.NonTerminal(A)))
			ks := make([]string, len(ps))
			for i, p := range ps {
				ks[i] = showProdQ(g, p)
				if i > 0 && refCmpProd(ps[i-1], p) > 0 {
					complain("OrderProductionSet(%s) is not in the documented order at %s", A, ks[i])
				}
			}
			parts = append(parts, A+": "+strings.Join(ks, " | "))
		}
		out = "ok " + strings.Join(parts, "; ")
	case len(f) == 4 && f[0] == "cmp" && f[1] == "sym":
		l, r := ArgSym(g, f[2]), ArgSym(g, f[3])
		got := grammar.CmpSymbol(l, r)
		out = "ok " + strconv.Itoa(got)
		if want := refCmpSym(l, r); got != want {
			complain("CmpSymbol(%s, %s) = %d, terminals first and then by rendering gives %d", render(l), render(r), got, want)
		}
		tag("cmp:sym")
	case len(f) >= 2 && f[0] == "cmp" && f[1] == "str":
		lw, rw := splitBar(f[2:])
		l, r := argBody(g, lw), argBody(g, rw)
		got := grammar.CmpString(l, r)
		out = "ok " + strconv.Itoa(got)
		if want := refCmpBody(l, r); got != want {
			complain("CmpString(%s, %s) = %d, the documented criteria give %d", renderBody(l), renderBody(r), got, want)
		}
		tag("cmp:str:" + strconv.Itoa(got))
	case len(f) >= 2 && f[0] == "cmp" && f[1] == "prod":
		lw, rw := splitBar(f[2:])
		if len(lw) < 2 || len(rw) < 2 || lw[1] != ":" || rw[1] != ":" {
			return "", "", nil
		}
		l := &grammar.Production{Head: grammar.NonTerminal(lw[0]), Body: argBody(g, lw[2:])}
		r := &grammar.Production{Head: grammar.NonTerminal(rw[0]), Body: argBody(g, rw[2:])}
		got := grammar.CmpProduction(l, r)
		out = "ok " + strconv.Itoa(got)
		if want := refCmpProd(l, r); got != want {
			complain("CmpProduction(%s, %s) = %d, the documented criteria give %d", l, r, got, want)
		}
		tag("cmp:prod")
	case len(f) == 3 && f[0] == "hash" && f[1] == "sym":
		s := ArgSym(g, f[2])
		got := grammar.HashSymbol(s)
		out = "ok " + strconv.FormatUint(got, 10)
		if want := refHash(render(s)); got != want {
			complain("HashSymbol(%s) = %d, FNV-1 of the rendering is %d", render(s), got, want)
		}
		tag("hash:sym")
	case len(f) >= 2 && f[0] == "hash" && f[1] == "str":
		b := argBody(g, f[2:])
		got := grammar.HashString(b)
		out = "ok " + strconv.FormatUint(got, 10)
		var parts []string
		for _, s := range b {
			parts = append(parts, render(s))
		}
		if want := refHash(parts...); got != want {
			complain("HashString(%s) = %d, FNV-1 of the renderings is %d", renderBody(b), got, want)
		}
		tag("hash:str")
	case len(f) >= 4 && f[0] == "hash" && f[1] == "prod" && f[3] == ":":
		p := &grammar.Production{Head: grammar.NonTerminal(f[2]), Body: argBody(g, f[4:])}
		got := grammar.HashProduction(p)
		out = "ok " + strconv.FormatUint(got, 10)
		parts := []string{f[2]}
		for _, s := range p.Body {
			parts = append(parts, render(s))
		}
		if want := refHash(parts...); got != want {
			complain("HashProduction(%s) = %d, FNV-1 of head and body renderings is %d", p, got, want)
		}
		tag("hash:prod")
	case len(f) == 3 && f[0] == "hash" && (f[1] == "term" || f[1] == "nonterm"):
		var got uint64
		name := f[2]
		if f[1] == "term" {
			name = Bare(name)
			got = grammar.HashTerminal(grammar.Terminal(name))
		} else {
			got = grammar.HashNonTerminal(grammar.NonTerminal(name))
		}
		out = "ok " + strconv.FormatUint(got, 10)
		if want := refHash(name); got != want {
			complain("Hash of the name %q = %d, FNV-1 of its bytes is %d", name, got, want)
		}
		tag("hash:name")
	case len(f) == 2 && f[0] == "lcp" && f[1] == "none":
		got := grammar.LongestCommonPrefixOf()
		out = "ok " + showBodyQ(g, got)
		if len(got) != 0 {
			complain("LongestCommonPrefixOf() of no strings = %s", out)
		}
		tag("lcp")
	case f[0] == "lcp":
		var bodies []grammar.String[grammar.Symbol]
		rest := f[1:]
		for {
			l, r := splitBar(rest)
			bodies = append(bodies, argBody(g, l))
			if len(l) == len(rest) {
				break
			}
			rest = r
		}
		got := grammar.LongestCommonPrefixOf(bodies...)
		out = "ok " + showBodyQ(g, got)
		// independent: the longest k such that all bodies agree on their first k symbols
		k := len(bodies[0])
		for _, b := range bodies[1:] {
			j := 0
			for j < k && j < len(b) && b[j].Equal(bodies[0][j]) {
				j++
			}
			k = j
		}
		if want := showBodyQ(g, bodies[0][:k]); out != "ok "+want {
			complain("LongestCommonPrefixOf = %s, the bodies agree on exactly %s", out, want)
		}
		tag("lcp")
	case f[0] == "strops":
		lw, rw := splitBar(f[1:])
		a, b := argBody(g, lw), argBody(g, rw)
		pre := a.Prepend(b...)
		anyT := a.AnyMatch(func(s grammar.Symbol) bool { return s.IsTerminal() })
		out = fmt.Sprintf("ok prefix=%v suffix=%v prepend=%s anyterm=%v", a.HasPrefix(b), a.HasSuffix(b), showBodyQ(g, pre), anyT)
		wantPre, wantSuf, wantAny := len(b) <= len(a), len(b) <= len(a), false
		for i := range b {
			if wantPre && !a[i].Equal(b[i]) {
				wantPre = false
			}
			if wantSuf && !a[len(a)-len(b)+i].Equal(b[i]) {
				wantSuf = false
			}
		}
		for _, s := range a {
			if _, ok := s.(grammar.Terminal); ok {
				wantAny = true
			}
		}
		if want := fmt.Sprintf("ok prefix=%v suffix=%v prepend=%s anyterm=%v", wantPre, wantSuf, showBodyQ(g, append(append(grammar.String[grammar.Symbol]{}, b...), a...)), wantAny); out != want {
			complain("strops: %s, symbol by symbol comparison gives %s", out, want)
		}
		tag("strops")
	case len(f) >= 3 && f[0] == "write" && f[2] == ":":
		k, err := strconv.Atoi(f[1])
		if err != nil {
			return "", "", nil
		}
		b := argBody(g, f[3:])
		n, werr := grammar.WriteString(&halfWriter{failAt: k}, b)
		out = fmt.Sprintf("ok n=%d err=%v", n, werr != nil)
		want, wantErr := 0, false
		for i, s := range b {
			if i == k {
				want += len(render(s)) / 2
				wantErr = true
				break
			}
			want += len(render(s))
		}
		if n != want || (werr != nil) != wantErr || (werr != nil && !errors.Is(werr, errWrite)) {
			complain("WriteString on a writer failing at its write %d: n=%d err=%v, expected n=%d err=%v", k, n, werr, want, wantErr)
		}
		if werr != nil {
			tag("write:error")
		}
	}
	return out, what, tags
}

// HelperQueries: helper ops for grammar g — every comparator on pairs drawn from the grammar's own symbols, bodies and
// productions (incl. equal operands, the empty body, the endmarker terminal, a terminal named like a non-terminal), the
// hashes, WriteString with a failing writer, and the queries.
func HelperQueries(r *hx.Rand, g gx.G) []string {
	word := func(w string) string { return w } // words of g are already in case-file form
	syms := append(append([]string{}, g.NonTerms...), g.Terms...)
	syms = append(syms, endm, "^Z", "z")
	if len(g.NonTerms) > 0 {
		syms = append(syms, Q+g.NonTerms[0])
	}
	body := func(p gx.P) string { return strings.Join(p.Body, " ") }
	ops := []string{"verify", "iscnf", "symbols", "order", "orderprods", "eq id"}
	for _, pr := range []string{"empty", "single", "leftrec", "binary", "termprod", "true", "false", "head=" + hx.Pick(r, g.NonTerms), "head=Z"} {
		ops = append(ops, "match "+pr)
	}
	for k := 0; k < 6; k++ {
		ops = append(ops, "cmp sym "+word(hx.Pick(r, syms))+" "+word(hx.Pick(r, syms)))
	}
	x := hx.Pick(r, syms)
	ops = append(ops, "cmp sym "+x+" "+x, "hash sym "+hx.Pick(r, syms), "hash sym "+endm, "hash term "+hx.Pick(r, g.Terms), "hash term "+endm, "hash nonterm "+hx.Pick(r, g.NonTerms))
	if len(g.Prods) > 0 {
		for k := 0; k < 6; k++ {
			p, q := hx.Pick(r, g.Prods), hx.Pick(r, g.Prods)
			ops = append(ops, strings.TrimRight("cmp str "+body(p)+" | "+body(q), " "))
			ops = append(ops, strings.TrimRight("cmp prod "+p.Head+" : "+body(p)+" | "+q.Head+" : "+body(q), " "))
		}
		p := hx.Pick(r, g.Prods)
		ops = append(ops, strings.TrimRight("cmp str "+body(p)+" | "+body(p), " "), "cmp str |", "cmp str | "+hx.Pick(r, syms),
			strings.TrimRight("cmp prod "+p.Head+" : "+body(p)+" | "+p.Head+" : "+body(p), " "),
			strings.TrimRight("cmp str "+endm+" "+body(p)+" | "+hx.Pick(r, g.Terms)+" "+body(p), " "),
			strings.TrimRight("hash str "+body(p), " "), "hash str", strings.TrimRight("hash prod "+p.Head+" : "+body(p), " "),
			strings.TrimRight("hash prod "+p.Head+" : "+endm+" "+body(p), " "))
		for k := 0; k < 3; k++ {
			q := hx.Pick(r, g.Prods)
			ops = append(ops, strings.TrimRight(fmt.Sprintf("write %d : %s", r.Intn(len(q.Body)+2), body(q)), " "))
		}
		for k := 0; k < 4; k++ {
			p, q := hx.Pick(r, g.Prods), hx.Pick(r, g.Prods)
			cut := func(b []string) string { return strings.Join(b[:r.Intn(len(b)+1)], " ") }
			ops = append(ops, strings.TrimRight("lcp "+body(p)+" | "+body(q)+" | "+body(p)+" "+hx.Pick(r, syms), " "),
				strings.TrimRight("strops "+body(p)+" | "+cut(p.Body), " "),
				strings.TrimRight("strops "+body(p)+" | "+strings.Join(p.Body[r.Intn(len(p.Body)+1):], " "), " "),
				strings.TrimRight("strops "+body(p)+" | "+body(q), " "))
		}
		ops = append(ops, strings.TrimRight("lcp "+body(p), " "), "lcp |", "lcp none", strings.TrimRight("lcp "+body(p)+" | "+body(p), " "))
	}
	return ops
}
