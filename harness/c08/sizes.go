package c08

// sizes.go: threshold-sweep families (shared by C08 and C09).  Everything is small except ONE dimension, which is put at
// 63, 64, 65 (quick) and 127-129, 255-257 (thorough): the length of a body and the index of a nullable symbol in it, the
// number of non-terminals (a chain, with the left-recursive / unit-cyclic / nullable ones late in OrderNonTerminals' order),
// the number of terminals, of alternatives of one head, of productions, of unit productions in a closure, of nullable and of
// unreachable symbols.  A uint64 used as a bit set, a uint8 counter or a "switch strategy above this size" in any of the
// transformations changes the result on one side of such a threshold only.

import (
	"fmt"

	"verifharness/gx"
)

// SizeCase is one grammar of a family with the transformations worth running on it.
type SizeCase struct {
	Mix string
	G   gx.G
	Ops []string
	// NoModel08 / NoModel09: at this size the executable Lean Model (lists, written for proofs) or the Lean decision procedures
	// of C09's post-conditions would dominate the run; the case is judged by the Go oracle only (hx.Case.NoModel).
	NoModel08, NoModel09 bool
}

// Thresholds lists the thresholds the swept dimension is put around (t−1, t, t+1, t+2, …).
func Thresholds(thorough bool) []int {
	if thorough {
		return []int{2, 64, 128, 256, 1024}
	}
	return []int{64}
}

func rep(w string, n int) []string {
	out := make([]string, n)
	for i := range out {
		out[i] = w
	}
	return out
}

// LongBodyNullable is S → k … k with the nullable non-terminal O (O → o | ε) at the given indices of a body of n symbols,
// and, when via is set, O nullable only through a second non-terminal (O → o | P, P → ε).
func LongBodyNullable(n int, at []int, via bool) gx.G {
	body := rep("k", n)
	for _, i := range at {
		if i >= 0 && i < n {
			body[i] = "O"
		}
	}
	g := gx.G{Terms: []string{"k", "o"}, NonTerms: []string{"S", "O"}, Start: "S"}
	g.Prods = []gx.P{{Head: "S", Body: body}, {Head: "O", Body: []string{"o"}}}
	if via {
		g.NonTerms = append(g.NonTerms, "P")
		g.Prods = append(g.Prods, gx.P{Head: "O", Body: []string{"P"}}, gx.P{Head: "P"})
	} else {
		g.Prods = append(g.Prods, gx.P{Head: "O"})
	}
	return g
}

func pname(i int) string { return fmt.Sprintf("P%03d", i) }

// ChainThen is a chain of n prologue non-terminals P000 → p P001 → … reached first from the start symbol (so they come first
// in OrderNonTerminals' order), followed by a small cluster of non-terminals given by prods (heads in `cluster`, entry
// cluster[0]); with early set the cluster hangs off the start symbol instead and the chain follows it.
func ChainThen(n int, cluster []string, terms []string, prods []gx.P, early bool) gx.G {
	g := gx.G{Terms: append([]string{"p", "q"}, terms...), Start: pname(0)}
	for i := 0; i < n; i++ {
		g.NonTerms = append(g.NonTerms, pname(i))
	}
	g.NonTerms = append(g.NonTerms, cluster...)
	for i := 0; i+1 < n; i++ {
		g.Prods = append(g.Prods, gx.P{Head: pname(i), Body: []string{"p", pname(i + 1)}})
	}
	if early {
		// the cluster is discovered right after the start symbol: Z000 sorts before P001 in cmpProduction's order? No —
		// discovery follows the sorted productions of visited heads; a body [entry, P001] names the entry first
		g.Prods[0] = gx.P{Head: pname(0), Body: []string{cluster[0], pname(1)}}
		g.Prods = append(g.Prods, gx.P{Head: pname(n - 1), Body: []string{"q"}})
	} else {
		g.Prods = append(g.Prods, gx.P{Head: pname(n - 1), Body: []string{"p", cluster[0]}})
	}
	g.Prods = append(g.Prods, prods...)
	return g
}

// the clusters: indirect left recursion A → B a | c, B → A b | d; direct A → A a | c; a three-cycle with a nullable
// prefix; a unit cycle; left recursion that needs substitution through a chain member
func clusters() []struct {
	name  string
	nts   []string
	terms []string
	prods []gx.P
} {
	return []struct {
		name  string
		nts   []string
		terms []string
		prods []gx.P
	}{
		{"indirect-lr", []string{"A", "B"}, []string{"a", "b", "c", "d"}, []gx.P{
			{Head: "A", Body: []string{"B", "a"}}, {Head: "A", Body: []string{"c"}},
			{Head: "B", Body: []string{"A", "b"}}, {Head: "B", Body: []string{"d"}}}},
		{"direct-lr", []string{"A"}, []string{"a", "c"}, []gx.P{
			{Head: "A", Body: []string{"A", "a"}}, {Head: "A", Body: []string{"c"}}}},
		{"three-cycle", []string{"A", "B", "C"}, []string{"a", "b", "c", "d"}, []gx.P{
			{Head: "A", Body: []string{"B", "a"}}, {Head: "A", Body: []string{"d"}},
			{Head: "B", Body: []string{"C", "b"}}, {Head: "B", Body: []string{"b"}},
			{Head: "C", Body: []string{"A", "c"}}, {Head: "C"}}},
		{"unit-cycle", []string{"A", "B"}, []string{"a", "b"}, []gx.P{
			{Head: "A", Body: []string{"B"}}, {Head: "A", Body: []string{"a"}},
			{Head: "B", Body: []string{"A"}}, {Head: "B", Body: []string{"b", "B"}}, {Head: "B"}}},
		{"common-prefix", []string{"A"}, []string{"a", "b", "c"}, []gx.P{
			{Head: "A", Body: []string{"a", "b"}}, {Head: "A", Body: []string{"a"}}, {Head: "A", Body: []string{"c"}}}},
	}
}

// ManyAlternatives is S → t₁ | … | tₙ (n terminals, n alternatives, n productions) plus an unreachable U → u tᵢ for every
// tenth i.
func ManyAlternatives(n int) gx.G {
	g := gx.G{Terms: []string{"u"}, NonTerms: []string{"S", "U"}, Start: "S"}
	for i := 0; i < n; i++ {
		t := fmt.Sprintf("t%03d", i)
		g.Terms = append(g.Terms, t)
		g.Prods = append(g.Prods, gx.P{Head: "S", Body: []string{t}})
		if i%10 == 0 {
			g.Prods = append(g.Prods, gx.P{Head: "U", Body: []string{"u", t}})
		}
	}
	return g
}

// CommonPrefixAlternatives is S → a x₁ | … | a xₙ | b S | ε: one prefix group of n alternatives.
func CommonPrefixAlternatives(n int) gx.G {
	g := gx.G{Terms: []string{"a", "b"}, NonTerms: []string{"S"}, Start: "S"}
	for i := 0; i < n; i++ {
		t := fmt.Sprintf("x%03d", i)
		g.Terms = append(g.Terms, t)
		g.Prods = append(g.Prods, gx.P{Head: "S", Body: []string{"a", t}})
	}
	g.Prods = append(g.Prods, gx.P{Head: "S", Body: []string{"b", "S"}}, gx.P{Head: "S"})
	return g
}

// UnitChain is U000 → U001 → … → U(n-1) → a | b U000 with a unit edge back from the last to the middle and S = U000: a
// unit closure with n members.
func UnitChain(n int) gx.G {
	u := func(i int) string { return fmt.Sprintf("U%03d", i) }
	g := gx.G{Terms: []string{"a", "b"}, Start: u(0)}
	for i := 0; i < n; i++ {
		g.NonTerms = append(g.NonTerms, u(i))
		if i+1 < n {
			g.Prods = append(g.Prods, gx.P{Head: u(i), Body: []string{u(i + 1)}})
		}
	}
	g.Prods = append(g.Prods, gx.P{Head: u(n - 1), Body: []string{"a"}}, gx.P{Head: u(n - 1), Body: []string{"b", u(0)}},
		gx.P{Head: u(n - 1), Body: []string{u(n / 2)}}, gx.P{Head: u(n / 2), Body: []string{"b"}})
	return g
}

// ManyNullable is S₀ → N₀ c S₁ | d, S₁ → N₁ c S₂ | d, …, Sₙ → b with Nᵢ → a | ε: n nullable non-terminals, each at index 0 of a
// body (no unit productions arise, so the grammar stays linear in n under every transformation).
func ManyNullable(n int) gx.G {
	s := func(i int) string { return fmt.Sprintf("S%03d", i) }
	nn := func(i int) string { return fmt.Sprintf("N%03d", i) }
	g := gx.G{Terms: []string{"a", "b", "c", "d"}, Start: s(0)}
	for i := 0; i < n; i++ {
		g.NonTerms = append(g.NonTerms, s(i), nn(i))
		g.Prods = append(g.Prods, gx.P{Head: s(i), Body: []string{nn(i), "c", s(i + 1)}}, gx.P{Head: s(i), Body: []string{"d"}},
			gx.P{Head: nn(i), Body: []string{"a"}}, gx.P{Head: nn(i)})
	}
	g.NonTerms = append(g.NonTerms, s(n))
	g.Prods = append(g.Prods, gx.P{Head: s(n), Body: []string{"b"}})
	return g
}

// ManyUnreachable is S → a S | b plus n unreachable non-terminals Xᵢ → xᵢ Xᵢ₊₁ (with a terminal of its own each) that point
// back into S.
func ManyUnreachable(n int) gx.G {
	g := gx.G{Terms: []string{"a", "b"}, NonTerms: []string{"S"}, Start: "S"}
	g.Prods = []gx.P{{Head: "S", Body: []string{"a", "S"}}, {Head: "S", Body: []string{"b"}}}
	for i := 0; i < n; i++ {
		x, t := fmt.Sprintf("X%03d", i), fmt.Sprintf("x%03d", i)
		g.NonTerms = append(g.NonTerms, x)
		g.Terms = append(g.Terms, t)
		next := "S"
		if i+1 < n {
			next = fmt.Sprintf("X%03d", i+1)
		}
		g.Prods = append(g.Prods, gx.P{Head: x, Body: []string{t, next}})
	}
	return g
}

var allSeven = []string{"emptyfree", "singlefree", "unreachable", "cycles", "leftrec", "leftfactor", "cnf"}

// SizeCases builds the families.  Transformations that cannot return at a size (BIN has 99 numeric suffixes) or whose
// cost explodes there are left out of that case's list.
func SizeCases(thorough bool) []SizeCase {
	var out []SizeCase
	var no08, no09 bool
	add := func(mix string, g gx.G, ops ...string) { out = append(out, SizeCase{mix, Norm(g), ops, no08, no09}) }
	for _, t := range Thresholds(thorough) {
		if t >= 1024 {
			// far beyond what the executable Models were written for: implementation and Go oracle only, a few cases per dimension
			no08, no09 = true, true
			for _, l := range []int{t - 1, t, t + 1} {
				for _, at := range [][]int{{t - 2}, {t - 1}, {t}, {0, l - 1}} {
					if at[len(at)-1] < l {
						add(fmt.Sprintf("size-body-%d", t), LongBodyNullable(l, at, false), "emptyfree", "cycles")
					}
				}
			}
			cl := clusters()
			add(fmt.Sprintf("size-chain-%d-%s", t, cl[0].name), ChainThen(t, cl[0].nts, cl[0].terms, cl[0].prods, false), "leftrec", "cycles")
			add(fmt.Sprintf("size-chain-%d-%s", t, cl[0].name), ChainThen(t+1, cl[0].nts, cl[0].terms, cl[0].prods, false), "leftrec")
			add(fmt.Sprintf("size-chain-%d-%s", t, cl[1].name), ChainThen(t, cl[1].nts, cl[1].terms, cl[1].prods, false), "leftrec")
			add(fmt.Sprintf("size-alternatives-%d", t), ManyAlternatives(t+1), allSeven...)
			add(fmt.Sprintf("size-prefix-group-%d", t), CommonPrefixAlternatives(t+1), "leftfactor", "emptyfree", "cnf")
			// (a unit chain of 1025 members: EliminateSingleProductions itself needs more than 20 s — its closure loop is
			// cubic or worse —, so that dimension stops at 257)
			add(fmt.Sprintf("size-nullable-%d", t), ManyNullable(t+1), "emptyfree")
			add(fmt.Sprintf("size-unreachable-%d", t), ManyUnreachable(t+1), "unreachable", "cycles")
			continue
		}
		no08, no09 = false, false
		// ---- length of a body / index of a nullable symbol in it
		for _, l := range []int{t - 1, t, t + 1, t + 2, t + 6} {
			if l < 3 {
				continue
			}
			positions := [][]int{{0}, {l - 1}, {t - 1}, {t}, {t + 1}, {0, t}, {t - 1, t, l - 1}, {l / 2}}
			for pi, at := range positions {
				ok := true
				for _, i := range at {
					if i < 0 || i >= l {
						ok = false
					}
				}
				if !ok || (pi > 0 && len(at) == 1 && at[0] == 0) {
					continue
				}
				ops := []string{"emptyfree", "cycles", "leftrec", "singlefree", "unreachable", "leftfactor"}
				if l <= 100 { // BIN needs l − 2 fresh names for one head and has 99
					ops = append(ops, "cnf", "cnfbin", "cnfterm")
				}
				add(fmt.Sprintf("size-body-%d", t), LongBodyNullable(l, at, pi%3 == 2), ops...)
			}
		}
		// ---- number of non-terminals: a chain, the interesting cluster late (or early, for contrast) in the order
		no09 = t >= 256
		for ci, c := range clusters() {
			ms := []int{t, t + 1}
			if ci < 2 {
				ms = []int{t - 1, t, t + 1, t + 2}
			}
			for _, m := range ms {
				if m >= 2 {
					add(fmt.Sprintf("size-chain-%d-%s", t, c.name), ChainThen(m, c.nts, c.terms, c.prods, false), allSeven...)
				}
			}
			if ci < 2 || thorough {
				add(fmt.Sprintf("size-chain-%d-%s-early", t, c.name), ChainThen(t+1, c.nts, c.terms, c.prods, true), allSeven...)
			}
		}
		no09 = false
		for _, m := range []int{t - 1, t, t + 1} {
			if m < 2 {
				continue
			}
			no08, no09 = false, false
			// ---- number of terminals / alternatives / productions
			add(fmt.Sprintf("size-alternatives-%d", t), ManyAlternatives(m), allSeven...)
			add(fmt.Sprintf("size-prefix-group-%d", t), CommonPrefixAlternatives(m), allSeven...)
			// ---- size of a unit closure, number of nullable symbols, number of unreachable symbols
			no08, no09 = t >= 128, t >= 128 // the Model's unit closure is quartic in the length of a unit chain
			add(fmt.Sprintf("size-unit-closure-%d", t), UnitChain(m), "singlefree", "cycles", "leftrec", "cnf", "unreachable", "emptyfree")
			no08, no09 = false, t >= 128
			add(fmt.Sprintf("size-nullable-%d", t), ManyNullable(m), "emptyfree", "cycles", "leftrec", "cnf", "singlefree")
			no08, no09 = false, false
			add(fmt.Sprintf("size-unreachable-%d", t), ManyUnreachable(m), "unreachable", "cycles", "leftrec", "cnf", "emptyfree")
		}
	}
	return out
}

// ---------------------------------------------------------------- second round: hash buckets, every size, shapes at sizes

// BucketHeads is H₀ → a H₁ | b, H₁ → a H₂ | b, …, Hₙ₋₁ → a | b H₀ (n heads, two alternatives each; with unit set the first
// alternative of every third head is the unit production Hᵢ → Hᵢ₊₁) over the given head names.
func BucketHeads(names []string, unit bool) gx.G {
	g := gx.G{Terms: []string{"a", "b"}, Start: gx.EncName(names[0])}
	n := len(names)
	for i, h := range names {
		w := gx.EncName(h)
		g.NonTerms = append(g.NonTerms, w)
		if i+1 < n {
			next := gx.EncName(names[i+1])
			if unit && i%3 == 1 {
				g.Prods = append(g.Prods, gx.P{Head: w, Body: []string{next}})
			} else {
				g.Prods = append(g.Prods, gx.P{Head: w, Body: []string{"a", next}})
			}
			g.Prods = append(g.Prods, gx.P{Head: w, Body: []string{"b"}})
		} else {
			g.Prods = append(g.Prods, gx.P{Head: w, Body: []string{"a"}}, gx.P{Head: w, Body: []string{"b", gx.EncName(names[0])}})
		}
	}
	return g
}

// BucketCases: grammars whose production heads (the keys of the Productions table, hashed by grammar.HashNonTerminal) share
// one probe path of the 31-slot quadratic-probing table the table starts from (17-24 heads; a path has 16 slots, so the table
// must have grown before the 17th), resp. of the 31- and the 67-slot table (34-40 heads), and terminals that do the same for
// the tables keyed by symbols.
func BucketCases() []SizeCase {
	var out []SizeCase
	for _, n := range []int{16, 17, 20, 23, 24} {
		names := gx.SameBucketNames("nonterm", "N", []int{31}, n)
		out = append(out, SizeCase{Mix: fmt.Sprintf("bucket-31-heads-%d", n), G: Norm(BucketHeads(names, false)), Ops: allSeven})
		out = append(out, SizeCase{Mix: fmt.Sprintf("bucket-31-heads-%d-units", n), G: Norm(BucketHeads(names, true)), Ops: allSeven})
	}
	for _, n := range []int{34, 40} {
		names := gx.SameBucketNames("nonterm", "M", []int{31, 67}, n)
		out = append(out, SizeCase{Mix: fmt.Sprintf("bucket-31-67-heads-%d", n), G: Norm(BucketHeads(names, n == 40)), Ops: allSeven})
	}
	for _, n := range []int{17, 23} {
		// terminals that share a bucket as symbols (tables keyed by HashSymbol: FIRST by symbol, the symbols of a grammar)
		ts := gx.SameBucketNames("symbol-term", "t", []int{31}, n)
		g := gx.G{NonTerms: []string{"S", "A"}, Start: "S"}
		for i, t := range ts {
			w := gx.EncName(t)
			g.Terms = append(g.Terms, w)
			hd := "S"
			if i%2 == 1 {
				hd = "A"
			}
			g.Prods = append(g.Prods, gx.P{Head: hd, Body: []string{w, "A"}})
		}
		g.Prods = append(g.Prods, gx.P{Head: "A"}, gx.P{Head: "S", Body: []string{"A"}})
		out = append(out, SizeCase{Mix: fmt.Sprintf("bucket-31-terminals-%d", n), G: Norm(g), Ops: allSeven})
	}
	return out
}

// UnitChainDown is UnitChain with the names against the order: U(n-1) is the start symbol and the unit productions run from
// the alphabetically last non-terminal to the first (OrderNonTerminals, cmpProduction and the closure loop meet them in the
// opposite order).
func UnitChainDown(n int) gx.G {
	u := func(i int) string { return fmt.Sprintf("U%03d", n-1-i) }
	g := gx.G{Terms: []string{"a", "b"}, Start: u(0)}
	for i := 0; i < n; i++ {
		g.NonTerms = append(g.NonTerms, u(i))
		if i+1 < n {
			g.Prods = append(g.Prods, gx.P{Head: u(i), Body: []string{u(i + 1)}})
		}
	}
	g.Prods = append(g.Prods, gx.P{Head: u(n - 1), Body: []string{"a"}}, gx.P{Head: u(n - 1), Body: []string{"b", u(0)}},
		gx.P{Head: u(n / 2), Body: []string{"b"}})
	return g
}

// LeftRecursionRing is R₀ → R₁ p | q, R₁ → R₂ p, …, Rₙ₋₁ → R₀ p | q: indirect left recursion through all n non-terminals, the
// last of which closes the ring (the substitution walks the whole order).
func LeftRecursionRing(n int) gx.G {
	r := func(i int) string { return fmt.Sprintf("R%03d", i) }
	g := gx.G{Terms: []string{"p", "q"}, Start: r(0)}
	for i := 0; i < n; i++ {
		g.NonTerms = append(g.NonTerms, r(i))
		g.Prods = append(g.Prods, gx.P{Head: r(i), Body: []string{r((i + 1) % n), "p"}})
	}
	g.Prods = append(g.Prods, gx.P{Head: r(0), Body: []string{"q"}}, gx.P{Head: r(n - 1), Body: []string{"q"}})
	return g
}

// PrintAlikeUnderOneHead: two bodies with the same numbers of non-terminals and terminals and the same rendering — [X, «Y Z»]
// and [«X Y», Z] — that live under DIFFERENT heads of the input and come under one head in the result: through a unit chain
// of n members (EliminateSingleProductions) and, differing by a nullable symbol inside a body of l symbols
// (EliminateEmptyProductions).
func PrintAlikeUnderOneHead(n, l int) gx.G {
	xy, yz := gx.EncName("X Y"), gx.EncName("Y Z")
	u := func(i int) string { return fmt.Sprintf("U%03d", i) }
	g := gx.G{Terms: []string{"k", "n", "x", "y", "z"}, NonTerms: []string{"X", "Z", xy, yz, "N"}, Start: u(0)}
	for i := 0; i < n; i++ {
		g.NonTerms = append(g.NonTerms, u(i))
		if i+1 < n {
			g.Prods = append(g.Prods, gx.P{Head: u(i), Body: []string{u(i + 1)}})
		}
	}
	pre := rep("k", l)
	g.Prods = append(g.Prods,
		gx.P{Head: u(0), Body: []string{xy, "Z"}}, gx.P{Head: u(n - 1), Body: []string{"X", yz}},
		gx.P{Head: u(0), Body: append(append([]string{}, pre...), xy, "N", "Z")}, gx.P{Head: u(0), Body: append(append([]string{}, pre...), "X", "N", yz)},
		gx.P{Head: "X", Body: []string{"x"}}, gx.P{Head: "Z", Body: []string{"z"}}, gx.P{Head: xy, Body: []string{"x", "y"}},
		gx.P{Head: yz, Body: []string{"y", "y", "z"}}, gx.P{Head: "N", Body: []string{"n"}}, gx.P{Head: "N"})
	return g
}

// ConcatNullable is S → k … k A B AB (l symbols before) with A, B and the separate non-terminal AB all nullable: the variants
// [A B] and [AB] of the body are different strings that are WRITTEN alike (no separator) and hashed alike.
func ConcatNullable(l int) gx.G {
	g := gx.G{Terms: []string{"k", "a", "b", "c"}, NonTerms: []string{"S", "A", "B", "AB"}, Start: "S"}
	g.Prods = []gx.P{{Head: "S", Body: append(rep("k", l), "A", "B", "AB")},
		{Head: "A", Body: []string{"a"}}, {Head: "A"}, {Head: "B", Body: []string{"b"}}, {Head: "B"},
		{Head: "AB", Body: []string{"c"}}, {Head: "AB"}}
	return g
}

// ShapeCases: each transformation's special shapes at the sweep sizes (two dimensions at once).
func ShapeCases(thorough bool) []SizeCase {
	var out []SizeCase
	add := func(mix string, g gx.G, no08, no09 bool, ops ...string) {
		out = append(out, SizeCase{mix, Norm(g), ops, no08, no09})
	}
	// results whose grammars cannot depend on hash iteration: names with blanks only go to the transformations that do not sort
	plain := []string{"emptyfree", "singlefree", "cycles", "unreachable"}
	for _, t := range Thresholds(thorough) {
		if t >= 1024 {
			continue
		}
		big := t >= 128
		for _, m := range []int{t - 1, t, t + 1} {
			if m < 3 {
				continue
			}
			add(fmt.Sprintf("shape-unit-chain-down-%d", t), UnitChainDown(m), big, big, "singlefree", "cycles", "leftrec", "cnf", "unreachable")
			add(fmt.Sprintf("shape-lr-ring-%d", t), LeftRecursionRing(m), false, big, "leftrec", "cycles", "emptyfree", "leftfactor")
			add(fmt.Sprintf("shape-print-alike-%d", t), PrintAlikeUnderOneHead(m, 2), big, big, plain...)
			add(fmt.Sprintf("shape-print-alike-long-%d", t), PrintAlikeUnderOneHead(3, m), false, false, plain...)
			add(fmt.Sprintf("shape-concat-nullable-%d", t), ConcatNullable(m), false, false, "emptyfree", "cycles", "leftrec", "singlefree")
			add(fmt.Sprintf("shape-nullable-both-ends-%d", t), LongBodyNullable(m, []int{0, m - 1}, false), false, false, "emptyfree", "cycles", "leftrec", "leftfactor")
			add(fmt.Sprintf("shape-nullable-both-ends-%d", t), LongBodyNullable(m, []int{0, 1, m - 2, m - 1}, true), false, false, "emptyfree", "cycles")
		}
	}
	return out
}

// DenseCases: EVERY size from 0 to 200 of the cheap dimensions on the cheap transformations (thresholds such as 9, 24, 57-60,
// 84 that come from the code and are no power of two).  Quick tier: every size with one transformation per family, the
// choice rotating with the size and the seed; thorough: every transformation at every size.
func DenseCases(seed uint64, thorough bool) []SizeCase {
	var out []SizeCase
	pick := func(n int, ops []string) []string {
		if thorough {
			return ops
		}
		return []string{ops[(n+int(seed%1000))%len(ops)]}
	}
	for n := 0; n <= 200; n++ {
		if n >= 1 {
			out = append(out, SizeCase{Mix: "dense-alternatives", G: Norm(ManyAlternatives(n)), Ops: pick(n, []string{"emptyfree", "singlefree", "unreachable", "leftfactor", "cycles", "cnf"})})
			out = append(out, SizeCase{Mix: "dense-prefix-group", G: Norm(CommonPrefixAlternatives(n)), Ops: pick(n, []string{"leftfactor", "emptyfree", "unreachable", "singlefree"})})
			out = append(out, SizeCase{Mix: "dense-unreachable", G: Norm(ManyUnreachable(n)), Ops: pick(n, []string{"unreachable", "emptyfree", "singlefree", "cycles"})})
		}
		if n >= 2 {
			cl := clusters()[n%2]
			out = append(out, SizeCase{Mix: "dense-chain-" + cl.name, G: Norm(ChainThen(n, cl.nts, cl.terms, cl.prods, false)),
				Ops: pick(n, []string{"leftrec", "unreachable", "singlefree", "emptyfree", "cycles", "leftfactor"}),
				// Lean's decision procedures for C09's post-conditions are cubic in the number of non-terminals
				NoModel09: n > 96 && n%8 != 0})
		}
		if n >= 3 {
			ops := []string{"emptyfree", "cycles", "leftfactor", "singlefree"}
			if n <= 100 {
				ops = append(ops, "cnfbin", "cnf")
			}
			out = append(out, SizeCase{Mix: "dense-body", G: Norm(LongBodyNullable(n, []int{n - 1}, false)), Ops: pick(n, ops)})
			out = append(out, SizeCase{Mix: "dense-body", G: Norm(LongBodyNullable(n, []int{0, n / 2}, n%2 == 0)), Ops: pick(n+1, ops)})
		}
	}
	return out
}
