// Package c08: CFG transformations preserve the language (grammar package).
//
// xf.go holds what C08 and C09 share: applying a transformation by name to the real code, the
// independent structural analyses of a grammar, the hygiene condition and the case generators.
package c08

import (
	"fmt"
	"sort"
	"strings"

	"github.com/moorara/algo/grammar"

	"verifharness/gx"
	"verifharness/hx"
)

// Ops are the seven public transformations (op names of the line protocol).
var Ops = []string{"emptyfree", "singlefree", "unreachable", "cycles", "leftrec", "leftfactor", "cnf"}

// StepOps are the three unexported steps of ChomskyNormalForm, reached through grammar/cfg_verif.go.
var StepOps = []string{"cnfstart", "cnfterm", "cnfbin"}

func IsOp(s string) bool {
	for _, o := range Ops {
		if o == s {
			return true
		}
	}
	for _, o := range StepOps {
		if o == s {
			return true
		}
	}
	return false
}

// Apply runs one transformation of the real package on c. kind is hx.Try's classification of a
// panic ("" = returned), msg the panic text.
func Apply(op string, c *grammar.CFG) (out *grammar.CFG, kind, msg string) {
	defer func() {
		if r := recover(); r != nil {
			msg = fmt.Sprint(r)
			out = nil
			switch {
			case strings.Contains(msg, "index out of range"), strings.Contains(msg, "slice bounds out of range"):
				kind = "index"
			case strings.Contains(msg, "nil pointer"), strings.Contains(msg, "invalid memory address"):
				kind = "nil"
			default:
				kind = "explicit"
			}
		}
	}()
	switch op {
	case "emptyfree":
		out = c.EliminateEmptyProductions()
	case "singlefree":
		out = c.EliminateSingleProductions()
	case "unreachable":
		out = c.EliminateUnreachableProductions()
	case "cycles":
		out = c.EliminateCycles()
	case "leftrec":
		out = c.EliminateLeftRecursion()
	case "leftfactor":
		out = c.LeftFactor()
	case "cnf":
		out = c.ChomskyNormalForm()
	case "cnfstart":
		out = grammar.VerifEliminateStartSymbolFromRight(c)
	case "cnfterm":
		out = grammar.VerifEliminateNonSolitaryTerminals(c)
	case "cnfbin":
		out = grammar.VerifEliminateNonBinaryProductions(c)
	case "clone": // only the history component (history.go) uses it
		out = c.Clone()
	default:
		panic("unknown op " + op)
	}
	return out, "", ""
}

// ---------------------------------------------------------------- names and words
//
// The library tells Terminal("if") and NonTerminal("if") apart by type and accepts ANY Go string as a name; the shared
// line protocol has words.  C08/C09 use the word format of C10 (harness/gx/names.go: EncName / DecName, the same functions as harness/c10; the Lean drivers decode
// with Model/NameCodec.lean): a word is [marker] + EncName(name); the marker ' says terminal, ^ says non-terminal (declared
// or not); without a marker a word is a non-terminal iff it is listed in `nonterms`.  The canonical form (used inside the
// harness, in case files and in the printed result grammars on both sides) writes the quote exactly when the bare word is a
// declared non-terminal of that grammar; sentences are printed with bare words.  EncName escapes blanks, %, a leading ' or ^,
// the arrow, the empty name and the names $ and ε, so a name with blanks is still ONE word and words are in 1-1
// correspondence with names; the raw endmarker character (U+EEEE) stands for itself.

const Q = "'"

// Bare strips the terminal quote (the result is still a word).
func Bare(w string) string { return strings.TrimPrefix(w, Q) }

// NameOf is the name a word (with or without marker) stands for.
func NameOf(w string) string {
	return gx.DecName(strings.TrimPrefix(strings.TrimPrefix(w, Q), "^"))
}

// WordOf is the canonical bare word of a name.
func WordOf(name string) string { return gx.EncName(name) }

func canonBare(w string) string { return gx.EncName(gx.DecName(w)) }

func isTermWord(g gx.G, w string) bool {
	return !strings.HasPrefix(w, "^") && (strings.HasPrefix(w, Q) || !g.IsNonTerm(w))
}

// Norm rewrites every word into canonical form.
func Norm(g gx.G) gx.G {
	h := gx.G{Start: canonBare(g.Start)}
	for _, n := range g.NonTerms {
		h.NonTerms = append(h.NonTerms, canonBare(n))
	}
	tw := func(w string) string {
		if b := canonBare(Bare(w)); h.IsNonTerm(b) {
			return Q + b
		} else {
			return b
		}
	}
	canon := func(w string) string {
		switch {
		case strings.HasPrefix(w, "^"):
			if b := canonBare(w[1:]); h.IsNonTerm(b) {
				return b
			} else {
				return "^" + b
			}
		case strings.HasPrefix(w, Q):
			return tw(w)
		case h.IsNonTerm(canonBare(w)):
			return canonBare(w)
		}
		return tw(w)
	}
	for _, t := range g.Terms {
		h.Terms = append(h.Terms, tw(t))
	}
	for _, p := range g.Prods {
		q := gx.P{Head: canonBare(strings.TrimPrefix(p.Head, "^"))}
		for _, w := range p.Body {
			q.Body = append(q.Body, canon(w))
		}
		h.Prods = append(h.Prods, q)
	}
	return h
}

// ToCFG builds the library grammar from a canonical gx.G (symbols get the names their words stand for).  The slices handed
// to NewCFG are the caller's: they are overwritten afterwards (the grammar must have copied what it needs).
func ToCFG(g gx.G) *grammar.CFG {
	ts := make([]grammar.Terminal, len(g.Terms))
	for i, t := range g.Terms {
		ts[i] = grammar.Terminal(NameOf(t))
	}
	ns := make([]grammar.NonTerminal, len(g.NonTerms))
	for i, n := range g.NonTerms {
		ns[i] = grammar.NonTerminal(NameOf(n))
	}
	ps := make([]*grammar.Production, len(g.Prods))
	for i, p := range g.Prods {
		body := grammar.String[grammar.Symbol]{}
		for _, w := range p.Body {
			switch {
			case strings.HasPrefix(w, "^"): // the non-terminal named by the rest, declared or not (malformed grammars)
				body = append(body, grammar.NonTerminal(NameOf(w)))
			case isTermWord(g, w):
				body = append(body, grammar.Terminal(NameOf(w)))
			default:
				body = append(body, grammar.NonTerminal(NameOf(w)))
			}
		}
		ps[i] = &grammar.Production{Head: grammar.NonTerminal(NameOf(p.Head)), Body: body}
	}
	c := grammar.NewCFG(ts, ns, ps, grammar.NonTerminal(NameOf(g.Start)))
	for i := range ts {
		ts[i] = "\x00overwritten"
	}
	for i := range ns {
		ns[i] = "\x00overwritten"
	}
	for i := range ps {
		ps[i] = nil
	}
	return c
}

// Builds reports whether NewCFG returns for g within the watchdog's time (every executor asks once per case, before it
// builds the grammar outside a watchdog: NewCFG fills hash tables, and a table that cannot place a key never returns).
func Builds(g gx.G) bool {
	return hx.WithTimeout(callTimeout, func() { ToCFG(g) })
}

// FromCFG reads a library grammar back into canonical form (sorted). It reads every set and every
// production's head and body symbol by symbol, so it is a deep, independent rendering of the value.
func FromCFG(c *grammar.CFG) gx.G {
	var g gx.G
	isN := map[string]bool{}
	for n := range c.NonTerminals.All() {
		w := WordOf(string(n))
		g.NonTerms = append(g.NonTerms, w)
		isN[w] = true
	}
	// a terminal whose word is a declared non-terminal carries the quote
	tw := func(t grammar.Terminal) string {
		if w := WordOf(string(t)); isN[w] {
			return Q + w
		} else {
			return w
		}
	}
	for t := range c.Terminals.All() {
		g.Terms = append(g.Terms, tw(t))
	}
	sort.Strings(g.Terms)
	sort.Strings(g.NonTerms)
	for p := range c.Productions.All() {
		q := gx.P{Head: WordOf(string(p.Head))}
		for _, s := range p.Body {
			if t, ok := s.(grammar.Terminal); ok {
				q.Body = append(q.Body, tw(t))
			} else {
				q.Body = append(q.Body, WordOf(s.Name()))
			}
		}
		g.Prods = append(g.Prods, q)
	}
	key := func(p gx.P) string {
		if len(p.Body) == 0 {
			return p.Head + "→ε"
		}
		return p.Head + "→" + strings.Join(p.Body, " ")
	}
	sort.Slice(g.Prods, func(i, j int) bool { return key(g.Prods[i]) < key(g.Prods[j]) })
	g.Start = WordOf(string(c.Start))
	return g
}

// NameExhausted: the documented panic of AddNewNonTerminal when every candidate name is taken.
func NameExhausted(msg string) bool {
	return strings.HasPrefix(msg, "Failed to generate a new non-terminal")
}

// ---------------------------------------------------------------- hygiene

// ReservedSuffixes are the suffixes AddNewNonTerminal appends (grammar/cfg.go primeSuffixes,
// alphabeticSuffixes, and the digits the numeric suffixes are made of).
var ReservedSuffixes = []string{"′", "″", "‴", "⁗", "ₙ", "ⁿ", "ᴺ", "₀", "₁", "₂", "₃", "₄", "₅", "₆", "₇", "₈", "₉"}

// Hygienic: no declared name ends in a reserved suffix (only used for the distribution histogram and
// for the hypotheses of the totality theorems; the oracles do not depend on it).
func Hygienic(g gx.G) bool {
	for _, s := range append(append([]string{}, g.Terms...), g.NonTerms...) {
		for _, suf := range ReservedSuffixes {
			if strings.HasSuffix(s, suf) {
				return false
			}
		}
	}
	return true
}

// ---------------------------------------------------------------- structural analyses (independent of /repo)

// Valid is Verify() re-stated: start declared, every non-terminal has a production, heads declared,
// body symbols declared.
func Valid(g gx.G) (bool, string) {
	nt := map[string]bool{}
	for _, n := range g.NonTerms {
		nt[n] = true
	}
	tm := map[string]bool{}
	for _, t := range g.Terms {
		tm[t] = true
	}
	if !nt[g.Start] {
		return false, "start symbol " + g.Start + " not declared"
	}
	has := map[string]bool{}
	for _, p := range g.Prods {
		has[p.Head] = true
		if !nt[p.Head] {
			return false, "head " + p.Head + " not declared"
		}
		for _, s := range p.Body {
			if !nt[s] && !tm[s] {
				return false, "body symbol " + s + " not declared"
			}
		}
	}
	for _, n := range g.NonTerms {
		if !has[n] {
			return false, "non-terminal " + n + " has no production"
		}
	}
	return true, ""
}

// EpsOnly lists the non-terminals all of whose productions are ε (sorted).
func EpsOnly(g gx.G) []string {
	nonEmpty := map[string]bool{}
	has := map[string]bool{}
	for _, p := range g.Prods {
		has[p.Head] = true
		if len(p.Body) > 0 {
			nonEmpty[p.Head] = true
		}
	}
	var out []string
	for _, n := range g.NonTerms {
		if has[n] && !nonEmpty[n] {
			out = append(out, n)
		}
	}
	sort.Strings(out)
	return out
}

func isUnit(g gx.G, p gx.P) bool { return len(p.Body) == 1 && g.IsNonTerm(p.Body[0]) }

// NoEmptyExceptFreshStart: the only ε-production allowed is start → ε for a start symbol that is not a
// declared non-terminal of orig (a new name) and occurs in no body.
func NoEmptyExceptFreshStart(orig, g gx.G) (bool, string) {
	for _, p := range g.Prods {
		if len(p.Body) > 0 {
			continue
		}
		if p.Head != g.Start {
			return false, p.Head + "→ε and " + p.Head + " is not the start symbol"
		}
		if orig.IsNonTerm(g.Start) {
			return false, "start→ε on " + g.Start + ", which is a non-terminal of the input, not a new name"
		}
		for _, q := range g.Prods {
			for _, s := range q.Body {
				if s == g.Start {
					return false, "start symbol with an ε-production occurs in a body"
				}
			}
		}
	}
	return true, ""
}

func NoUnit(g gx.G) (bool, string) {
	for _, p := range g.Prods {
		if isUnit(g, p) {
			return false, "unit production " + p.Head + "→" + p.Body[0]
		}
	}
	return true, ""
}

// AllReachable: every declared non-terminal and production head is reachable from the start symbol and
// every declared terminal occurs in some production.
func AllReachable(g gx.G) (bool, string) {
	r := g.Reachable()
	for _, n := range g.NonTerms {
		if !r[n] {
			return false, "non-terminal " + n + " unreachable"
		}
	}
	used := map[string]bool{}
	for _, p := range g.Prods {
		if !r[p.Head] {
			return false, "production of unreachable head " + p.Head
		}
		for _, s := range p.Body {
			used[s] = true
		}
	}
	for _, t := range g.Terms {
		if !used[t] {
			return false, "terminal " + t + " occurs in no production"
		}
	}
	return true, ""
}

// cyc reports a vertex on a cycle of the graph (edges[a] = successors), or "".
func cyc(verts []string, edges map[string]map[string]bool) string {
	// reach[a] = vertices reachable in ≥1 step
	for _, a := range verts {
		seen := map[string]bool{}
		stack := []string{}
		for b := range edges[a] {
			stack = append(stack, b)
		}
		for len(stack) > 0 {
			x := stack[len(stack)-1]
			stack = stack[:len(stack)-1]
			if seen[x] {
				continue
			}
			seen[x] = true
			if x == a {
				return a
			}
			for y := range edges[x] {
				stack = append(stack, y)
			}
		}
	}
	return ""
}

func allNullable(g gx.G, nul map[string]bool, ss []string) bool {
	for _, s := range ss {
		if !g.IsNonTerm(s) || !nul[s] {
			return false
		}
	}
	return true
}

// NoCycle: no derivation A ⇒⁺ A. Exact: A ⇒ αBβ with αβ ⇒* ε is an edge A→B; a cycle of edges is a
// derivation A ⇒⁺ A and conversely.
func NoCycle(g gx.G) (bool, string) {
	nul := g.Nullable()
	edges := map[string]map[string]bool{}
	for _, p := range g.Prods {
		for i, s := range p.Body {
			if g.IsNonTerm(s) && allNullable(g, nul, p.Body[:i]) && allNullable(g, nul, p.Body[i+1:]) {
				if edges[p.Head] == nil {
					edges[p.Head] = map[string]bool{}
				}
				edges[p.Head][s] = true
			}
		}
	}
	if a := cyc(g.NonTerms, edges); a != "" {
		return false, a + " ⇒⁺ " + a
	}
	return true, ""
}

// NoLeftRecursion: no derivation A ⇒⁺ Aα. Exact: A → αBβ with α ⇒* ε is a left-corner edge A→B.
func NoLeftRecursion(g gx.G) (bool, string) {
	nul := g.Nullable()
	edges := map[string]map[string]bool{}
	for _, p := range g.Prods {
		for i, s := range p.Body {
			if !allNullable(g, nul, p.Body[:i]) {
				break
			}
			if g.IsNonTerm(s) {
				if edges[p.Head] == nil {
					edges[p.Head] = map[string]bool{}
				}
				edges[p.Head][s] = true
			}
		}
	}
	if a := cyc(g.NonTerms, edges); a != "" {
		return false, a + " ⇒⁺ " + a + " …"
	}
	return true, ""
}

// LeftFactored: no non-terminal has two distinct alternatives with the same first symbol.
func LeftFactored(g gx.G) (bool, string) {
	type key struct{ h, s string }
	seen := map[key]string{}
	for _, p := range g.Prods {
		if len(p.Body) == 0 {
			continue
		}
		k := key{p.Head, p.Body[0]}
		b := strings.Join(p.Body, " ")
		if o, ok := seen[k]; ok && o != b {
			return false, p.Head + " has alternatives " + o + " and " + b
		}
		seen[k] = b
	}
	return true, ""
}

// CNF (strict, as the doc comment of IsCNF states it): A→BC with B, C non-terminals other than the
// start symbol, A→a, or start→ε.
func CNF(g gx.G) (bool, string) {
	for _, p := range g.Prods {
		switch {
		case len(p.Body) == 0 && p.Head == g.Start:
		case len(p.Body) == 1 && !g.IsNonTerm(p.Body[0]):
		case len(p.Body) == 2 && g.IsNonTerm(p.Body[0]) && g.IsNonTerm(p.Body[1]) && p.Body[0] != g.Start && p.Body[1] != g.Start:
		default:
			b := strings.Join(p.Body, " ")
			if b == "" {
				b = "ε"
			}
			return false, p.Head + "→" + b + " is not a CNF production"
		}
	}
	return true, ""
}

// LooseCNF is what (*CFG).IsCNF checks (it does not look for the start symbol in bodies).
func LooseCNF(g gx.G) bool {
	for _, p := range g.Prods {
		switch {
		case len(p.Body) == 0 && p.Head == g.Start:
		case len(p.Body) == 1 && !g.IsNonTerm(p.Body[0]):
		case len(p.Body) == 2 && g.IsNonTerm(p.Body[0]) && g.IsNonTerm(p.Body[1]):
		default:
			return false
		}
	}
	return true
}

// langCache memoises gx.LangK per (grammar, k): a grammar is used by ten cases in a row (one per
// transformation) and results often equal their input.
var langCache = map[string]map[string]bool{}

// LangOf is gx.LangK with a small memo.  Beyond the default bounds (k > OracleK: grammars whose shortest sentences are long)
// the enumeration is capped at 20000 sentences per non-terminal; BoundFor only picks such a k for an input whose language
// up to k is small, so hitting the cap on the result means the result has (many) more sentences, and the partial set
// returned differs from the input's.
func LangOf(g gx.G, k int) map[string]bool {
	key := fmt.Sprintf("%d|%s", k, g.Show())
	if l, ok := langCache[key]; ok {
		return l
	}
	if len(langCache) > 256 {
		langCache = map[string]map[string]bool{}
	}
	var l map[string]bool
	if k > OracleK {
		var ok bool
		if l, ok = g.LangKCap(k, 20000); !ok {
			l = map[string]bool{"(more than 20000 sentences)": true}
		}
	} else {
		l = g.LangK(k)
	}
	langCache[key] = l
	return l
}

// BareLang strips the terminal quotes from every word of every sentence.
func BareLang(l map[string]bool) map[string]bool {
	out := make(map[string]bool, len(l))
	for w := range l {
		if !strings.Contains(w, Q) {
			out[w] = true
			continue
		}
		f := strings.Fields(w)
		for i := range f {
			f[i] = Bare(f[i])
		}
		out[strings.Join(f, " ")] = true
	}
	return out
}

// BoundFor picks the length bound of the language comparison for input grammar g: 6, lowered to 5 or 4
// for grammars whose language is so dense (more than 60 / 200 sentences of length <= 4) that the
// fixpoint enumeration up to 6 would dominate the run.  When the shortest sentence of g is longer than that (bodies of 65
// symbols, chains of 130 non-terminals) the bound is the length of a shortest sentence plus 3, provided g has at most 300
// sentences up to there (otherwise the default stands, and the comparison is vacuous for that grammar).
func BoundFor(g gx.G) int {
	key := g.Show()
	if k, ok := boundCache[key]; ok {
		return k
	}
	if len(boundCache) > 256 {
		boundCache = map[string]int{}
	}
	k := boundFor(g)
	boundCache[key] = k
	return k
}

var boundCache = map[string]int{}

func boundFor(g gx.G) int {
	k := 4
	switch n := len(LangOf(g, 4)); {
	case n <= 60:
		k = 6
	case n <= 200:
		k = 5
	}
	if m, ok := g.MinLen()[g.Start]; ok && m > k && m <= 1200 { // L_k(g) is empty: no sentence is that short
		if l, ok := g.LangKCap(m+3, 300); ok && len(l) <= 300 {
			return m + 3
		}
	}
	return k
}

// SameLang compares the sentences of length ≤ k; on a difference it names one sentence.
func SameLang(a, b gx.G, k int) (bool, string) {
	la, lb := BareLang(LangOf(a, k)), BareLang(LangOf(b, k))
	var lost, gained []string
	for w := range la {
		if !lb[w] {
			lost = append(lost, w)
		}
	}
	for w := range lb {
		if !la[w] {
			gained = append(gained, w)
		}
	}
	if len(lost)+len(gained) == 0 {
		return true, ""
	}
	sort.Slice(lost, func(i, j int) bool {
		return len(lost[i]) < len(lost[j]) || len(lost[i]) == len(lost[j]) && lost[i] < lost[j]
	})
	sort.Slice(gained, func(i, j int) bool {
		return len(gained[i]) < len(gained[j]) || len(gained[i]) == len(gained[j]) && gained[i] < gained[j]
	})
	q := func(s string) string {
		if s == "" {
			return "ε"
		}
		return s
	}
	msg := ""
	if len(lost) > 0 {
		msg += fmt.Sprintf("%d sentence(s) lost, e.g. %q", len(lost), q(lost[0]))
	}
	if len(gained) > 0 {
		if msg != "" {
			msg += "; "
		}
		msg += fmt.Sprintf("%d sentence(s) gained, e.g. %q", len(gained), q(gained[0]))
	}
	return false, msg
}

// ---------------------------------------------------------------- bookkeeping

// SigLimiter runs cases through hx.Run.Do. hx records at most 20 violations per run; inadmissible steps that
// carry a known-finding signature would fill that list and crowd out any other violation (C09 has eight (component,
// signature) pairs). After the first recorded instance of one (component, signature) further instances are only counted in the histogram
// (tag "repeat:<signature>"); steps without a signature are never touched.
type SigLimiter struct {
	n map[string]int
}

func (s *SigLimiter) Do(run *hx.Run, comp string, c hx.Case, exec hx.Exec) hx.Result {
	if s.n == nil {
		s.n = map[string]int{}
	}
	wrapped := func(c hx.Case) hx.Result {
		r := exec(c)
		if r.BadOp >= 0 && r.Sig != "" && s.n[comp+"/"+r.Sig] >= 1 {
			r.Tags = append(r.Tags, "repeat:"+r.Sig)
			r.BadOp, r.What = -1, ""
		}
		return r
	}
	r := run.Do(comp, c, wrapped)
	if r.BadOp >= 0 && r.Sig != "" {
		s.n[comp+"/"+r.Sig]++
	}
	return r
}
