package c08

// names.go: grammars whose names already look like the ones AddNewNonTerminal generates (shared by C08 and C09).
//
// AddNewNonTerminal(prefix, suffixes...) strips the suffixes from the prefix (one strings.TrimSuffix per suffix, in
// list order — so "A₁₂" loses "₂" and keeps "A₁", while "A₂₁" loses both) and returns the first base+suffix that is not a
// declared non-terminal.  What makes the transformations sound is only that the returned name is not in the grammar; the
// grammars below make that matter: a base name together with subscripted / primed / ₙ-suffixed siblings (A, A₁, A₂, A′,
// A₁₂, aₙ, …) and bodies long enough for BIN to need intermediate non-terminals.

import (
	"sort"
	"strconv"
	"strings"

	"verifharness/gx"
	"verifharness/hx"
)

var (
	primeSufs   = []string{"′", "″", "‴", "⁗"}
	alphaSufs   = []string{"ₙ", "ⁿ", "ᴺ"}
	numericSufs = func() []string {
		d := []rune("₀₁₂₃₄₅₆₇₈₉")
		var out []string
		for i := 1; i <= 99; i++ {
			if i < 10 {
				out = append(out, string(d[i]))
			} else {
				out = append(out, string(d[i/10])+string(d[i%10]))
			}
		}
		return out
	}()
)

// candidates lists the names AddNewNonTerminal(name, sufs...) tries, in order (a re-statement of its doc comment and of
// the trimming loop; it only steers the generators).
func candidates(name string, sufs []string) []string {
	base := name
	for _, s := range sufs {
		base = strings.TrimSuffix(base, s)
	}
	out := make([]string, len(sufs))
	for i, s := range sufs {
		out[i] = base + s
	}
	return out
}

func disjointCandidates(names []string, sufs []string) bool {
	owner := map[string]string{}
	for _, n := range names {
		for _, c := range candidates(n, sufs) {
			if o, ok := owner[c]; ok && o != n {
				return false
			}
			owner[c] = n
		}
	}
	return true
}

// OrderSafe: the result grammar of op on g does not depend on the order in which the Go code happens to range over its
// hash tables.  All transformations but TERM and BIN draw their fresh names in a sorted order (OrderNonTerminals,
// OrderProductionSet, cmpString) or draw a single name.  TERM ranges over the (shuffled) productions and draws one name per
// terminal that occurs in a body other than A → a; BIN ranges over the (shuffled) heads and draws names for every head
// with a body of three or more symbols.  The names drawn for two terminals / two heads are independent of the order of the
// draws exactly when their candidate lists are disjoint — always the case for hygienic names, not for a and aₙ, or A and
// A₁.  Besides, EliminateLeftRecursion, LeftFactor and BIN (hence ChomskyNormalForm) walk non-terminals and alternatives in
// orders obtained by sorting with cmpProduction / cmpString, which compare String() renderings; with names that contain
// blanks or quotes two different bodies can render alike, the comparator answers 0 for them and their order is whatever the
// hash tables give (RenderInjective rules that out for the input and for every grammar derived from it).
// For an unsafe (grammar, op) the generators compare languages (C08) / post-conditions (C09) only, not result grammars.
func OrderSafe(g gx.G, op string) bool {
	if sortedOrderOp(op) && !RenderInjective(g) {
		return false
	}
	if op == "cnfterm" || op == "cnf" {
		draw := map[string]bool{}
		for _, p := range g.Prods {
			if len(p.Body) == 1 && isTermWord(g, p.Body[0]) {
				continue
			}
			for _, w := range p.Body {
				if isTermWord(g, w) {
					draw[NameOf(w)] = true
				}
			}
		}
		if !disjointCandidates(hx.SortedKeys(draw), alphaSufs) {
			return false
		}
	}
	if op == "cnfbin" || op == "cnf" {
		draw := map[string]bool{}
		for _, p := range g.Prods {
			if len(p.Body) >= 3 {
				draw[NameOf(p.Head)] = true
			}
		}
		if !disjointCandidates(hx.SortedKeys(draw), numericSufs) {
			return false
		}
	}
	return true
}

// SuffixedNames renames non-terminals of g (and now and then a terminal) to names built from one of g's own non-terminal
// names plus the suffixes AddNewNonTerminal appends, and makes sure that some non-terminal with such a sibling has a body
// of three to five symbols.  The result passes Verify() whenever g does (the renaming is injective).
func SuffixedNames(r *hx.Rand, g gx.G) gx.G {
	used := map[string]bool{}
	for _, n := range g.NonTerms {
		used[n] = true
	}
	for _, t := range g.Terms {
		used[Bare(t)] = true
	}
	base := hx.Pick(r, g.NonTerms)
	t0 := Bare(hx.Pick(r, g.Terms))
	common := []string{base + "₁", base + "₂", base + "₁", base + "₃", base + "′"}
	rare := []string{base + "″", base + "₁₂", base + "₂₁", base + "₁₀", base + "₁₁", base + "₉", base + "₉₉", base + "ₙ", base + "‴",
		t0 + "ₙ", t0 + "ⁿ", t0 + "ᴺ", t0 + "₁", base + "₁′", base + "′₁"}
	pickName := func() string {
		for try := 0; try < 12; try++ {
			var n string
			if r.Intn(3) != 0 {
				n = hx.Pick(r, common)
			} else {
				n = hx.Pick(r, rare)
			}
			if !used[n] {
				return n
			}
		}
		return ""
	}
	ren := map[string]string{}
	for _, n := range g.NonTerms {
		if n == base || r.Intn(3) == 0 {
			continue
		}
		if m := pickName(); m != "" {
			ren[n] = m
			used[m] = true
		}
	}
	h := gx.G{Start: g.Start}
	nt := func(n string) string {
		if m, ok := ren[n]; ok {
			return m
		}
		return n
	}
	// now and then a terminal with an alphabetic suffix (TERM strips it before it appends one)
	tren := map[string]string{}
	if r.Intn(4) == 0 {
		// … or a terminal called exactly what a transformation is about to call a new non-terminal: S′ next to a nullable or
		// right-hand-side start symbol S, A′ next to a left-recursive or common-prefix A, A₁ next to a long body of A
		m := t0 + hx.Pick(r, alphaSufs)
		switch r.Intn(4) {
		case 0:
			m = g.Start + "′"
		case 1:
			m = base + "′"
		case 2:
			m = base + "₁"
		}
		if !used[m] {
			tren[t0] = m
			used[m] = true
		}
	}
	word := func(w string) string {
		if isTermWord(g, w) {
			if m, ok := tren[Bare(w)]; ok {
				return m
			}
			return w
		}
		return nt(w)
	}
	h.Start = nt(g.Start)
	for _, n := range g.NonTerms {
		h.NonTerms = append(h.NonTerms, nt(n))
	}
	for _, t := range g.Terms {
		h.Terms = append(h.Terms, word(t))
	}
	for _, p := range g.Prods {
		q := gx.P{Head: nt(p.Head)}
		for _, w := range p.Body {
			q.Body = append(q.Body, word(w))
		}
		h.Prods = append(h.Prods, q)
	}
	if len(ren) == 0 {
		// a grammar with a single non-terminal (or bad luck): give the base name a subscripted sibling of its own
		if m := pickName(); m != "" {
			h.NonTerms = append(h.NonTerms, m)
			t := hx.Pick(r, h.Terms)
			h.Prods = append(h.Prods, gx.P{Head: m, Body: []string{t}})
			if r.Bool() {
				h.Prods = append(h.Prods, gx.P{Head: m, Body: []string{t, m}})
			}
			h.Prods = append(h.Prods, gx.P{Head: base, Body: []string{hx.Pick(r, h.Terms), m}})
		}
	}
	// a body of three to five symbols for the base name or for one of its siblings
	if r.Intn(4) != 0 {
		heads := []string{nt(base), nt(base)}
		for _, m := range ren {
			heads = append(heads, m)
		}
		sort.Strings(heads)
		hd := hx.Pick(r, heads)
		long := false
		var own []int
		for i, p := range h.Prods {
			if p.Head == hd {
				own = append(own, i)
				if len(p.Body) >= 3 {
					long = true
				}
			}
		}
		if !long && len(own) > 0 {
			syms := append(append([]string{}, h.NonTerms...), h.Terms...)
			syms = append(syms, h.Terms...) // terminals twice as likely: keeps the language from exploding
			i := hx.Pick(r, own)
			body := append([]string{}, h.Prods[i].Body...)
			for n := r.Range(3, 5); len(body) < n; {
				body = append(body, hx.Pick(r, syms))
			}
			if r.Bool() {
				h.Prods[i].Body = body
			} else {
				h.Prods = append(h.Prods, gx.P{Head: hd, Body: body})
			}
		}
	}
	seen := map[string]bool{}
	var ps []gx.P
	for _, p := range h.Prods {
		k := p.Head + "→" + strings.Join(p.Body, " ")
		if !seen[k] {
			seen[k] = true
			ps = append(ps, p)
		}
	}
	h.Prods = ps
	return Norm(h)
}

// SuffixedCases: the cases for one grammar with generated-looking names — for every transformation the usual case
// (`safe`: result grammar compared with the Model) when the result cannot depend on Go's iteration order, otherwise a case
// that only has ops whose answers do not mention the fresh names (`unsafe`: sentences up to a bound for C08, the
// post-conditions for C09).
func SuffixedCases(g gx.G, mix string, safe, unsafe func(g gx.G, mix, op string) hx.Case) (comps []string, cases []hx.Case) {
	for _, op := range OpsFor(g) {
		if OrderSafe(g, op) {
			comps, cases = append(comps, op), append(cases, safe(g, mix, op))
		} else {
			comps, cases = append(comps, op), append(cases, unsafe(g, mix+"-order-dependent", op))
		}
	}
	return
}

// sortedOrderOp: the transformation walks its input in an order obtained by sorting with cmpProduction / cmpString.
func sortedOrderOp(op string) bool {
	switch op {
	case "leftrec", "leftfactor", "cnfbin", "cnf":
		return true
	}
	return false
}

// RenderInjective: no two different strings of symbols over names like g's can have the same String() rendering (symbols
// joined by a blank, non-terminals bare, terminals %q).  Sufficient: no name is empty or contains a blank or a double quote,
// and no non-terminal is called $ (the endmarker's rendering) or ε (the empty string's).  Fresh names (a name of g plus a
// suffix) keep the condition.
func RenderInjective(g gx.G) bool {
	for _, w := range append(append([]string{}, g.NonTerms...), g.Terms...) {
		n := NameOf(w)
		if n == "" || strings.ContainsAny(n, " \"") {
			return false
		}
	}
	for _, w := range g.NonTerms {
		if n := NameOf(w); n == "$" || n == "ε" {
			return false
		}
	}
	return true
}

// rendered is Symbol.String() / String[Symbol].String() re-stated for canonical words.
func renderedWord(g gx.G, w string) string {
	if isTermWord(g, w) {
		if n := NameOf(w); n == endm {
			return "$"
		} else {
			return strconv.Quote(n)
		}
	}
	return NameOf(w)
}

func renderedBody(g gx.G, ws []string) string {
	if len(ws) == 0 {
		return "ε"
	}
	parts := make([]string, len(ws))
	for i, w := range ws {
		parts[i] = renderedWord(g, w)
	}
	return strings.Join(parts, " ")
}

// RenderedAlike lists groups of two or more different non-empty bodies of at most k symbols over g's symbols that String()
// renders alike (none for RenderInjective names).
func RenderedAlike(g gx.G, k int) [][][]string {
	syms := append(append([]string{}, g.NonTerms...), g.Terms...)
	by := map[string][][]string{}
	var order []string
	var walk func(cur []string)
	walk = func(cur []string) {
		if len(cur) > 0 {
			r := renderedBody(g, cur)
			if by[r] == nil {
				order = append(order, r)
			}
			by[r] = append(by[r], append([]string{}, cur...))
		}
		if len(cur) == k {
			return
		}
		for _, s := range syms {
			walk(append(cur, s))
		}
	}
	walk(nil)
	var out [][][]string
	for _, r := range order {
		if len(by[r]) > 1 {
			out = append(out, by[r])
		}
	}
	return out
}

// WithRenderedAlike gives one head of g two (or three) alternatives that are different strings of symbols with the same
// String() rendering — [A, «B A»] and [«A B», A] — neither of them a unit production.  ok=false when g's names allow none.
func WithRenderedAlike(r *hx.Rand, g gx.G) (gx.G, bool) {
	var groups [][][]string
	for _, grp := range RenderedAlike(g, 3) {
		var nonUnit [][]string
		for _, b := range grp {
			if !(len(b) == 1 && g.IsNonTerm(b[0])) {
				nonUnit = append(nonUnit, b)
			}
		}
		if len(nonUnit) >= 2 {
			groups = append(groups, nonUnit)
		}
	}
	if len(groups) == 0 {
		return g, false
	}
	grp := hx.Pick(r, groups)
	h := gx.G{Terms: append([]string{}, g.Terms...), NonTerms: append([]string{}, g.NonTerms...), Start: g.Start}
	h.Prods = append(h.Prods, g.Prods...)
	head := hx.Pick(r, g.NonTerms)
	if r.Bool() {
		head = g.Start
	}
	i := r.Intn(len(grp))
	j := (i + 1 + r.Intn(len(grp)-1)) % len(grp)
	h.Prods = append(h.Prods, gx.P{Head: head, Body: grp[i]}, gx.P{Head: head, Body: grp[j]})
	seen := map[string]bool{}
	var ps []gx.P
	for _, p := range h.Prods {
		k := p.Head + "→" + strings.Join(p.Body, " ")
		if !seen[k] {
			seen[k] = true
			ps = append(ps, p)
		}
	}
	h.Prods = ps
	return h, true
}

// WithShadowedTerminal declares a terminal that no reachable production uses (it occurs in an unreachable production, or in
// none) next to a non-terminal whose String() rendering is the terminal's: NonTerminal("\"z\"") for Terminal("z"),
// NonTerminal("$") for the endmarker.  The non-terminal is used in a production of the start symbol.
func WithShadowedTerminal(r *hx.Rand, g gx.G, endmarker bool) gx.G {
	h := gx.G{Terms: append([]string{}, g.Terms...), NonTerms: append([]string{}, g.NonTerms...), Start: g.Start}
	h.Prods = append(h.Prods, g.Prods...)
	t, n := "z", WordOf("\"z\"")
	if endmarker {
		t, n = endm, WordOf("$")
	}
	h.Terms = append(h.Terms, t)
	h.NonTerms = append(h.NonTerms, n)
	h.Prods = append(h.Prods, gx.P{Head: n, Body: []string{hx.Pick(r, g.Terms)}})
	if r.Bool() {
		h.Prods = append(h.Prods, gx.P{Head: n, Body: []string{hx.Pick(r, g.Terms), n}})
	}
	h.Prods = append(h.Prods, gx.P{Head: g.Start, Body: []string{hx.Pick(r, g.Terms), n}})
	if r.Intn(3) != 0 {
		// the terminal does occur — in a production no derivation from the start symbol reaches
		u := "Unreach"
		h.NonTerms = append(h.NonTerms, u)
		h.Prods = append(h.Prods, gx.P{Head: u, Body: []string{t, hx.Pick(r, g.NonTerms)}})
	}
	return Norm(h)
}

// NamedGrammar renames g (plain words) into scheme sc.
func NamedGrammar(r *hx.Rand, g gx.G, sc gx.NameScheme) gx.G {
	return Norm(gx.Rename(r, g, sc, r.Bool()))
}

// NamedGrammars draws the grammars of the `names` families: every scheme of gx.NameSchemes on random grammars (every other
// one with two alternatives of one head that are rendered alike, where the scheme allows it) and grammars with a terminal
// that only a like-rendered non-terminal keeps "in use".
func NamedGrammars(r *hx.Rand, perScheme, shadowed int, f func(mix string, g gx.G)) {
	for si, sc := range gx.NameSchemes {
		for k := 0; k < perScheme; k++ {
			g := NamedGrammar(r, GenGrammar(r, Mixes[(si+k)%len(Mixes)]), sc)
			mix := "names-" + sc.Name
			if k%2 == 1 {
				if h, ok := WithRenderedAlike(r, g); ok {
					g, mix = h, mix+"-rendered-alike"
				}
			}
			if ok, _ := Valid(g); ok {
				f(mix, g)
			}
		}
	}
	// two alternatives of one head that String() renders alike, on the schemes that have such bodies
	var colliding []gx.NameScheme
	for _, sc := range gx.NameSchemes {
		if sc.Name == "spaces" || sc.Name == "like-terminals" || sc.Name == "odd" {
			colliding = append(colliding, sc)
		}
	}
	for k := 0; k < 2*perScheme; k++ {
		sc := colliding[k%len(colliding)]
		g := Norm(gx.Rename(r, GenGrammar(r, Mixes[k%len(Mixes)]), sc, k%3 != 2))
		if h, ok := WithRenderedAlike(r, g); ok {
			if ok, _ := Valid(h); ok {
				f("names-"+sc.Name+"-rendered-alike", h)
			}
		}
	}
	for k := 0; k < shadowed; k++ {
		f("names-shadowed-terminal", WithShadowedTerminal(r, GenGrammar(r, Mixes[k%len(Mixes)]), k%2 == 1))
	}
}
