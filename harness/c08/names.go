package c08

// names.go: grammars whose names already look like the ones AddNewNonTerminal generates (shared by C08 and C09).
//
// AddNewNonTerminal(prefix, suffixes...) strips the suffixes from the prefix (one strings.TrimSuffix per suffix, in
// list order — so "A₁₂" loses "₂" and keeps "A₁", while "A₂₁" loses both) and returns the first base+suffix that is not a
// declared non-terminal.  What makes the transformations sound is only that the returned name is not in the grammar; the
// grammars below make that matter: a base name together with subscripted / primed / ₙ-suffixed siblings (A, A₁, A₂, A′,
// A₁₂, aₙ, …) and bodies long enough for BIN to need intermediate non-terminals.

import (
	"sort"
	"strings"

	"verifharness/gx"
	"verifharness/hx"
)

var (
	primeSufs   = []string{"′", "″", "‴", "⁗"}
	alphaSufs   = []string{"ₙ", "ⁿ", "ᴺ"}
	numericSufs = func() []string {
		d := []rune("₀₁₂₃₄₅₆₇₈₉")
		var out []string
		for i := 1; i <= 99; i++ {
			if i < 10 {
				out = append(out, string(d[i]))
			} else {
				out = append(out, string(d[i/10])+string(d[i%10]))
			}
		}
		return out
	}()
)

// candidates lists the names AddNewNonTerminal(name, sufs...) tries, in order (a re-statement of its doc comment and of
// the trimming loop; it only steers the generators).
func candidates(name string, sufs []string) []string {
	base := name
	for _, s := range sufs {
		base = strings.TrimSuffix(base, s)
	}
	out := make([]string, len(sufs))
	for i, s := range sufs {
		out[i] = base + s
	}
	return out
}

func disjointCandidates(names []string, sufs []string) bool {
	owner := map[string]string{}
	for _, n := range names {
		for _, c := range candidates(n, sufs) {
			if o, ok := owner[c]; ok && o != n {
				return false
			}
			owner[c] = n
		}
	}
	return true
}

// OrderSafe: the result grammar of op on g does not depend on the order in which the Go code happens to range over its
// hash tables.  All transformations but TERM and BIN draw their fresh names in a sorted order (OrderNonTerminals,
// OrderProductionSet, cmpString) or draw a single name.  TERM ranges over the (shuffled) productions and draws one name per
// terminal that occurs in a body other than A → a; BIN ranges over the (shuffled) heads and draws names for every head
// with a body of three or more symbols.  The names drawn for two terminals / two heads are independent of the order of the
// draws exactly when their candidate lists are disjoint — always the case for hygienic names, not for a and aₙ, or A and
// A₁.  For an unsafe (grammar, op) the generators compare languages only (`lang <op> <k>`), not result grammars.
func OrderSafe(g gx.G, op string) bool {
	if op == "cnfterm" || op == "cnf" {
		draw := map[string]bool{}
		for _, p := range g.Prods {
			if len(p.Body) == 1 && isTermWord(g, p.Body[0]) {
				continue
			}
			for _, w := range p.Body {
				if isTermWord(g, w) {
					draw[Bare(w)] = true
				}
			}
		}
		if !disjointCandidates(hx.SortedKeys(draw), alphaSufs) {
			return false
		}
	}
	if op == "cnfbin" || op == "cnf" {
		draw := map[string]bool{}
		for _, p := range g.Prods {
			if len(p.Body) >= 3 {
				draw[p.Head] = true
			}
		}
		if !disjointCandidates(hx.SortedKeys(draw), numericSufs) {
			return false
		}
	}
	return true
}

// SuffixedNames renames non-terminals of g (and now and then a terminal) to names built from one of g's own non-terminal
// names plus the suffixes AddNewNonTerminal appends, and makes sure that some non-terminal with such a sibling has a body
// of three to five symbols.  The result passes Verify() whenever g does (the renaming is injective).
func SuffixedNames(r *hx.Rand, g gx.G) gx.G {
	used := map[string]bool{}
	for _, n := range g.NonTerms {
		used[n] = true
	}
	for _, t := range g.Terms {
		used[Bare(t)] = true
	}
	base := hx.Pick(r, g.NonTerms)
	t0 := Bare(hx.Pick(r, g.Terms))
	common := []string{base + "₁", base + "₂", base + "₁", base + "₃", base + "′"}
	rare := []string{base + "″", base + "₁₂", base + "₂₁", base + "₁₀", base + "₁₁", base + "₉", base + "₉₉", base + "ₙ", base + "‴",
		t0 + "ₙ", t0 + "ⁿ", t0 + "ᴺ", t0 + "₁", base + "₁′", base + "′₁"}
	pickName := func() string {
		for try := 0; try < 12; try++ {
			var n string
			if r.Intn(3) != 0 {
				n = hx.Pick(r, common)
			} else {
				n = hx.Pick(r, rare)
			}
			if !used[n] {
				return n
			}
		}
		return ""
	}
	ren := map[string]string{}
	for _, n := range g.NonTerms {
		if n == base || r.Intn(3) == 0 {
			continue
		}
		if m := pickName(); m != "" {
			ren[n] = m
			used[m] = true
		}
	}
	h := gx.G{Start: g.Start}
	nt := func(n string) string {
		if m, ok := ren[n]; ok {
			return m
		}
		return n
	}
	// now and then a terminal with an alphabetic suffix (TERM strips it before it appends one)
	tren := map[string]string{}
	if r.Intn(5) == 0 {
		if m := t0 + hx.Pick(r, alphaSufs); !used[m] {
			tren[t0] = m
			used[m] = true
		}
	}
	word := func(w string) string {
		if isTermWord(g, w) {
			if m, ok := tren[Bare(w)]; ok {
				return m
			}
			return w
		}
		return nt(w)
	}
	h.Start = nt(g.Start)
	for _, n := range g.NonTerms {
		h.NonTerms = append(h.NonTerms, nt(n))
	}
	for _, t := range g.Terms {
		h.Terms = append(h.Terms, word(t))
	}
	for _, p := range g.Prods {
		q := gx.P{Head: nt(p.Head)}
		for _, w := range p.Body {
			q.Body = append(q.Body, word(w))
		}
		h.Prods = append(h.Prods, q)
	}
	if len(ren) == 0 {
		// a grammar with a single non-terminal (or bad luck): give the base name a subscripted sibling of its own
		if m := pickName(); m != "" {
			h.NonTerms = append(h.NonTerms, m)
			t := hx.Pick(r, h.Terms)
			h.Prods = append(h.Prods, gx.P{Head: m, Body: []string{t}})
			if r.Bool() {
				h.Prods = append(h.Prods, gx.P{Head: m, Body: []string{t, m}})
			}
			h.Prods = append(h.Prods, gx.P{Head: base, Body: []string{hx.Pick(r, h.Terms), m}})
		}
	}
	// a body of three to five symbols for the base name or for one of its siblings
	if r.Intn(4) != 0 {
		heads := []string{nt(base), nt(base)}
		for _, m := range ren {
			heads = append(heads, m)
		}
		sort.Strings(heads)
		hd := hx.Pick(r, heads)
		long := false
		var own []int
		for i, p := range h.Prods {
			if p.Head == hd {
				own = append(own, i)
				if len(p.Body) >= 3 {
					long = true
				}
			}
		}
		if !long && len(own) > 0 {
			syms := append(append([]string{}, h.NonTerms...), h.Terms...)
			syms = append(syms, h.Terms...) // terminals twice as likely: keeps the language from exploding
			i := hx.Pick(r, own)
			body := append([]string{}, h.Prods[i].Body...)
			for n := r.Range(3, 5); len(body) < n; {
				body = append(body, hx.Pick(r, syms))
			}
			if r.Bool() {
				h.Prods[i].Body = body
			} else {
				h.Prods = append(h.Prods, gx.P{Head: hd, Body: body})
			}
		}
	}
	seen := map[string]bool{}
	var ps []gx.P
	for _, p := range h.Prods {
		k := p.Head + "→" + strings.Join(p.Body, " ")
		if !seen[k] {
			seen[k] = true
			ps = append(ps, p)
		}
	}
	h.Prods = ps
	return Norm(h)
}

// SuffixedCases: the cases for one grammar with generated-looking names — for every transformation the usual case
// (`safe`: result grammar compared with the Model) when the result cannot depend on Go's iteration order, otherwise a case
// that only has ops whose answers do not mention the fresh names (`unsafe`: sentences up to a bound for C08, the
// post-conditions for C09).
func SuffixedCases(g gx.G, mix string, safe, unsafe func(g gx.G, mix, op string) hx.Case) (comps []string, cases []hx.Case) {
	for _, op := range OpsFor(g) {
		if OrderSafe(g, op) {
			comps, cases = append(comps, op), append(cases, safe(g, mix, op))
		} else {
			comps, cases = append(comps, op), append(cases, unsafe(g, mix+"-order-dependent", op))
		}
	}
	return
}
