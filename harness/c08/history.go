package c08

// history.go: the component `history` — histories over grammar OBJECTS.
//
// Every other case of C08/C09 builds a fresh *grammar.CFG from text, calls one transformation and throws the object
// away.  A history keeps a pool of live *grammar.CFG objects (slots 0, 1, 2, …; slot 0 is the described grammar) and runs
// a sequence of ops on them; the objects are really kept and reused from op to op — results of transformations become
// operands of later ops, owners edit their grammars through g.Productions / g.NonTerminals / g.Terminals between calls.
// Any state an object carries besides its four public fields (a memo, a cache, a set or production table shared between an
// operand and a result) therefore shows up: the Model side (Driver/C08.lean, Model/C08Hist.lean) is the pure functional
// Model applied to the values.
//
//	apply i T j          obj[j] = T(obj[i]); T one of the seven transformations, cnfstart / cnfterm / cnfbin, or clone
//	                     -> ok <result grammar> | panic | hang
//	addprod i H : α      obj[i].Productions.Add(H → α)       -> ok <grammar of obj[i]>
//	rmprod i H : α       obj[i].Productions.Remove(H → α)    -> ok <grammar of obj[i]>
//	addnt i N            obj[i].NonTerminals.Add(N)          -> ok <grammar of obj[i]>
//	addterm i t          obj[i].Terminals.Add(t)             -> ok <grammar of obj[i]>
//	nullable i           obj[i].NullableNonTerminals()       -> ok [A B]
//	nullable! i          the same, and the caller then scribbles on the set it got (adds a name, removes the members)
//	terms! i             obj[i].OrderTerminals(), then the caller overwrites the slice it got -> ok [a b]
//	iterate i            two iter.Pull iterators over obj[i].Productions.All() advanced alternately, one abandoned half-way, and
//	                     NonTerminals.All() nested inside itself -> ok prods=<n> pairs=<m*m>
//	analyse i            obj[i].ComputeFIRST() and ComputeFOLLOW (only on a Verify()-valid value) -> ok nullable=[A B]
//	prods i              -> ok <grammar of obj[i]>
//	lang i k             -> ok <n> <sentences of obj[i] up to length k>
//	eq i j               obj[i].Equal(obj[j])                -> ok true | false
//
// An op on an empty slot answers `ok undefined` (the shrinker deletes ops freely).  Body words: 'x is the terminal x, ^Z the
// non-terminal Z, any other word a non-terminal iff it is declared in obj[i] at that moment.
//
// The oracle keeps its own record of every object's value (a plain kinded grammar; edited by the oracle's own set
// semantics, read back symbol by symbol after a transformation) and demands, independent of the Model:
//   - apply: L_k(result) = L_k(operand as it is at the time of the call) for a Verify()-valid operand (clone: equal value);
//   - after EVERY op, every live object other than the one the op writes renders to exactly the value on record (deep
//     rendering): a transformation leaves its receiver alone, an edit of a result does not reach the operand it came from
//     and vice versa;
//   - edits produce the value with exactly that production / name added or removed;
//   - nullable: the least fixpoint, computed from the value on record at that moment.

import (
	"fmt"
	"iter"
	"sort"
	"strconv"
	"strings"

	"github.com/moorara/algo/grammar"

	"verifharness/gx"
	"verifharness/hx"
)

// MaxSlots bounds the slot numbers the generators use.
const MaxSlots = 6

type ksym struct {
	name string
	term bool
}

type kprod struct {
	head string
	body []ksym
}

// kg is a grammar value with explicit symbol kinds (canonical bare words: EncName of the names).
type kg struct {
	terms, nonterms []string
	prods           []kprod
	start           string
}

func (p kprod) key() string {
	var b strings.Builder
	b.WriteString(p.head)
	b.WriteString("→")
	for _, s := range p.body {
		if s.term {
			b.WriteString(" t:")
		} else {
			b.WriteString(" n:")
		}
		b.WriteString(s.name)
	}
	return b.String()
}

func has(xs []string, x string) bool {
	for _, y := range xs {
		if y == x {
			return true
		}
	}
	return false
}

// readCFG reads a library grammar symbol by symbol (kinds from the Go types).
func readCFG(c *grammar.CFG) kg {
	var v kg
	for t := range c.Terminals.All() {
		v.terms = append(v.terms, WordOf(string(t)))
	}
	for n := range c.NonTerminals.All() {
		v.nonterms = append(v.nonterms, WordOf(string(n)))
	}
	for p := range c.Productions.All() {
		q := kprod{head: WordOf(string(p.Head))}
		for _, s := range p.Body {
			_, isT := s.(grammar.Terminal)
			q.body = append(q.body, ksym{WordOf(s.Name()), isT})
		}
		v.prods = append(v.prods, q)
	}
	sort.Strings(v.terms)
	sort.Strings(v.nonterms)
	sort.Slice(v.prods, func(i, j int) bool { return v.prods[i].key() < v.prods[j].key() })
	v.start = WordOf(string(c.Start))
	return v
}

func kindOf(g gx.G) kg {
	v := kg{start: g.Start, nonterms: append([]string{}, g.NonTerms...)}
	for _, t := range g.Terms {
		v.terms = append(v.terms, Bare(t))
	}
	for _, p := range g.Prods {
		q := kprod{head: p.Head}
		for _, w := range p.Body {
			switch {
			case strings.HasPrefix(w, "^"):
				q.body = append(q.body, ksym{w[1:], false})
			case isTermWord(g, w):
				q.body = append(q.body, ksym{Bare(w), true})
			default:
				q.body = append(q.body, ksym{w, false})
			}
		}
		v.prods = append(v.prods, q)
	}
	return v
}

// GX renders the value in the canonical case-file form (a terminal is quoted iff its name is a declared non-terminal).
func (v kg) GX() gx.G {
	tw := func(t string) string {
		if has(v.nonterms, t) {
			return Q + t
		}
		return t
	}
	g := gx.G{Start: v.start, NonTerms: append([]string{}, v.nonterms...)}
	for _, t := range v.terms {
		g.Terms = append(g.Terms, tw(t))
	}
	for _, p := range v.prods {
		q := gx.P{Head: p.head}
		for _, s := range p.body {
			if s.term {
				q.Body = append(q.Body, tw(s.name))
			} else {
				q.Body = append(q.Body, s.name)
			}
		}
		g.Prods = append(g.Prods, q)
	}
	return g
}

func (v kg) clone() kg {
	w := kg{start: v.start, terms: append([]string{}, v.terms...), nonterms: append([]string{}, v.nonterms...)}
	w.prods = append([]kprod{}, v.prods...)
	return w
}

func (v kg) hasProd(p kprod) int {
	for i, q := range v.prods {
		if q.key() == p.key() {
			return i
		}
	}
	return -1
}

type histObj struct {
	c *grammar.CFG
	v kg // the oracle's record of the value
}

// Hist is the pool of live objects.
type Hist struct {
	objs map[int]*histObj
	tags map[string]bool
	// bookkeeping for the non-triviality rule and the histogram
	changedApplies, chained, edits int
	derived                        map[int]bool // slot holds a result of a transformation
	queried                        map[int]bool // NullableNonTerminals (or a transformation that calls it) ran on the object
}

func NewHist(g gx.G) *Hist {
	h := &Hist{objs: map[int]*histObj{}, tags: map[string]bool{}, derived: map[int]bool{}, queried: map[int]bool{}}
	h.objs[0] = &histObj{c: ToCFG(g), v: kindOf(g)}
	return h
}

// Value returns the oracle's record of slot i (for the generators).
func (h *Hist) Value(i int) (gx.G, bool) {
	o := h.objs[i]
	if o == nil {
		return gx.G{}, false
	}
	return o.v.GX(), true
}

func (h *Hist) Live() []int {
	var out []int
	for i := range h.objs {
		out = append(out, i)
	}
	sort.Ints(out)
	return out
}

// IsHistT: a transformation name of `apply`.
func IsHistT(t string) bool { return t == "clone" || IsOp(t) }

func usesNullable(t string) bool {
	switch t {
	case "emptyfree", "cycles", "leftrec", "cnf":
		return true
	}
	return false
}

// parseProd reads `H : α` against the value v.
func parseProd(v kg, f []string) (kprod, bool) {
	if len(f) < 2 || f[1] != ":" {
		return kprod{}, false
	}
	p := kprod{head: canonBare(f[0])}
	for _, w := range f[2:] {
		switch {
		case strings.HasPrefix(w, Q):
			p.body = append(p.body, ksym{canonBare(w[len(Q):]), true})
		case strings.HasPrefix(w, "^"):
			p.body = append(p.body, ksym{canonBare(w[1:]), false})
		case has(v.nonterms, canonBare(w)):
			p.body = append(p.body, ksym{canonBare(w), false})
		default:
			p.body = append(p.body, ksym{canonBare(w), true})
		}
	}
	return p, true
}

func (p kprod) lib() *grammar.Production {
	body := grammar.String[grammar.Symbol]{}
	for _, s := range p.body {
		if s.term {
			body = append(body, grammar.Terminal(NameOf(s.name)))
		} else {
			body = append(body, grammar.NonTerminal(NameOf(s.name)))
		}
	}
	return &grammar.Production{Head: grammar.NonTerminal(NameOf(p.head)), Body: body}
}

func showNames(ns []string) string {
	ns = append([]string{}, ns...)
	sort.Strings(ns)
	return "ok [" + strings.Join(ns, " ") + "]"
}

// StepResult is what one op did.
type StepResult struct {
	Out   string // the canonical output line ("" = not an op of this component)
	What  string // oracle's objection ("" = admitted)
	Sig   string
	Stop  bool   // the case ends here (panic / hang)
	Panic string // panic message, if any
}

// frame checks every live object except `written` against the oracle's record.
func (h *Hist) frame(op string, written int, receiver int, complain func(string, ...any)) {
	for _, x := range h.Live() {
		if x == written {
			continue
		}
		o := h.objs[x]
		if now, was := readCFG(o.c).GX().Show(), o.v.GX().Show(); now != was {
			if x == receiver {
				complain("`%s` changed its receiver (object %d): %s became %s", op, x, was, now)
			} else {
				complain("`%s` changed object %d, which it does not operate on (state shared between objects): %s became %s", op, x, was, now)
			}
			o.v = readCFG(o.c) // report once
		}
	}
}

// Step runs one op on the real objects and judges it.
func (h *Hist) Step(op string) (r StepResult) {
	complain := func(format string, a ...any) {
		if r.What == "" {
			r.What = fmt.Sprintf(format, a...)
		}
	}
	f := strings.Fields(op)
	if len(f) < 2 {
		return
	}
	i, err := strconv.Atoi(f[1])
	if err != nil || i < 0 {
		return
	}
	o := h.objs[i]
	undefined := func() StepResult { r.Out = "ok undefined"; return r }
	switch {
	case f[0] == "apply" && len(f) == 4 && IsHistT(f[2]):
		j, err := strconv.Atoi(f[3])
		if err != nil || j < 0 {
			return
		}
		if o == nil {
			return undefined()
		}
		t := f[2]
		pre := o.v.GX()
		valid, _ := Valid(pre)
		out, kind, msg, hung := Timed(t, o.c)
		h.tags["hist:apply="+t] = true
		if !valid {
			h.tags["hist:apply-on-invalid(oracle off)"] = true
		}
		if hung {
			r.Out, r.Stop = "hang", true
			complain("%s on object %d did not return within %v", t, i, callTimeout)
			return
		}
		if kind != "" {
			r.Out, r.Stop, r.Panic = "panic", true, msg
			h.tags["hist:panic:"+kind] = true
			if valid {
				if NameExhausted(msg) {
					r.Sig = "fresh-names-exhausted"
					complain("%s on object %d panicked: %s", t, i, msg)
				} else {
					complain("%s on object %d panicked (%s): %s", t, i, kind, msg)
				}
			}
			h.frame(op, -1, i, complain)
			return
		}
		res := readCFG(out)
		r.Out = "ok " + res.GX().Show()
		if valid {
			if t == "clone" {
				if res.GX().Show() != pre.Show() {
					complain("Clone of object %d is a different grammar: %s vs %s", i, res.GX().Show(), pre.Show())
				}
			} else {
				k := BoundFor(pre)
				if ok, why := SameLang(pre, res.GX(), k); !ok {
					complain("%s on object %d (as it is at the time of the call: %s) changed the language (sentences up to length %d): %s; result %s",
						t, i, pre.Show(), k, why, res.GX().Show())
				}
			}
		}
		if res.GX().Show() != pre.Show() {
			h.changedApplies++
			h.tags["hist:changed-by="+t] = true
		}
		if h.derived[i] {
			h.chained++
			h.tags["hist:operand-is-a-result"] = true
		}
		if h.queried[i] && usesNullable(t) {
			h.tags["hist:nullable-computed-twice-on-one-object"] = true
		}
		if usesNullable(t) {
			h.queried[i] = true
		}
		h.objs[j] = &histObj{c: out, v: res}
		h.derived[j] = true
		h.queried[j] = false
		h.frame(op, j, i, complain)
		return
	case (f[0] == "addprod" || f[0] == "rmprod") && len(f) >= 4 && f[3] == ":":
		if o == nil {
			return undefined()
		}
		p, ok := parseProd(o.v, f[2:])
		if !ok {
			return
		}
		var kind string
		if f[0] == "addprod" {
			kind = hx.Try(func() { o.c.Productions.Add(p.lib()) })
			if o.v.hasProd(p) < 0 {
				o.v = o.v.clone()
				o.v.prods = append(o.v.prods, p)
			}
		} else {
			kind = hx.Try(func() { o.c.Productions.Remove(p.lib()) })
			if k := o.v.hasProd(p); k >= 0 {
				o.v = o.v.clone()
				o.v.prods = append(o.v.prods[:k], o.v.prods[k+1:]...)
			}
		}
		h.edit(op, i, kind, &r, complain)
		return
	case (f[0] == "addnt" || f[0] == "addterm") && len(f) == 3:
		if o == nil {
			return undefined()
		}
		var kind string
		w := canonBare(Bare(f[2]))
		if f[0] == "addnt" {
			kind = hx.Try(func() { o.c.NonTerminals.Add(grammar.NonTerminal(NameOf(w))) })
			if !has(o.v.nonterms, w) {
				o.v = o.v.clone()
				o.v.nonterms = append(o.v.nonterms, w)
			}
		} else {
			kind = hx.Try(func() { o.c.Terminals.Add(grammar.Terminal(NameOf(w))) })
			if !has(o.v.terms, w) {
				o.v = o.v.clone()
				o.v.terms = append(o.v.terms, w)
			}
		}
		h.edit(op, i, kind, &r, complain)
		return
	case f[0] == "terms!" && len(f) == 2:
		if o == nil {
			return undefined()
		}
		var ws []string
		if kind := hx.Try(func() {
			ts := o.c.OrderTerminals()
			for _, t := range ts {
				ws = append(ws, tname(o.v.GX(), t))
			}
			for k := range ts { // the slice is the caller's now
				ts[k] = "\x00scribble"
			}
		}); kind != "" {
			r.Out, r.Stop = "panic", true
			complain("OrderTerminals on object %d panicked (%s)", i, kind)
			return
		}
		r.Out = "ok [" + strings.Join(ws, " ") + "]"
		names := append([]string{}, o.v.terms...)
		sort.Slice(names, func(a, b int) bool { return NameOf(names[a]) < NameOf(names[b]) })
		for k, w := range names {
			if has(o.v.nonterms, w) {
				names[k] = Q + w
			}
			if NameOf(w) == endm {
				names[k] = "$"
			}
		}
		if want := "ok [" + strings.Join(names, " ") + "]"; want != r.Out {
			complain("OrderTerminals on object %d answered %s, the terminals in name order are %s", i, r.Out[3:], want[3:])
		}
		h.tags["hist:terms!"] = true
		h.frame(op, -1, i, complain)
		return
	case f[0] == "iterate" && len(f) == 2:
		if o == nil {
			return undefined()
		}
		var np, pairs int
		if kind := hx.Try(func() {
			next1, stop1 := iter.Pull(o.c.Productions.All())
			next2, stop2 := iter.Pull(o.c.Productions.All())
			defer stop2()
			half := len(o.v.prods) / 2
			for k := 0; ; k++ {
				if k < half {
					next1()
				} else if k == half {
					stop1() // abandoned half-way
				}
				if _, ok := next2(); !ok {
					break
				}
				np++
			}
			for range o.c.NonTerminals.All() {
				for range o.c.NonTerminals.All() {
					pairs++
				}
			}
		}); kind != "" {
			r.Out, r.Stop = "panic", true
			complain("iterating object %d panicked (%s)", i, kind)
			return
		}
		r.Out = fmt.Sprintf("ok prods=%d pairs=%d", np, pairs)
		if want := fmt.Sprintf("ok prods=%d pairs=%d", len(o.v.prods), len(o.v.nonterms)*len(o.v.nonterms)); want != r.Out {
			complain("iterators over object %d yielded %s, the value on record has %s", i, r.Out[3:], want[3:])
		}
		h.tags["hist:iterate"] = true
		h.frame(op, -1, i, complain)
		return
	case (f[0] == "nullable" || f[0] == "nullable!") && len(f) == 2:
		if o == nil {
			return undefined()
		}
		var names []string
		kind := hx.Try(func() {
			set := o.c.NullableNonTerminals()
			for n := range set.All() {
				names = append(names, WordOf(string(n)))
			}
			if f[0] == "nullable!" { // the set is the caller's now
				for _, n := range names {
					set.Remove(grammar.NonTerminal(NameOf(n)))
				}
				set.Add(grammar.NonTerminal("\x00scribble"), grammar.NonTerminal(NameOf(o.v.start)))
			}
		})
		if kind != "" {
			r.Out, r.Stop = "panic", true
			if ok, _ := Valid(o.v.GX()); ok {
				complain("NullableNonTerminals on object %d panicked (%s)", i, kind)
			}
			return
		}
		r.Out = showNames(names)
		var want []string
		for n, b := range o.v.GX().Nullable() {
			if b {
				want = append(want, n)
			}
		}
		if ok, _ := Valid(o.v.GX()); ok {
			if w := showNames(want); w != r.Out {
				complain("NullableNonTerminals on object %d (%s) answered %s, the non-terminals that derive ε are %s", i, o.v.GX().Show(), r.Out[3:], w[3:])
			}
		}
		if h.queried[i] {
			h.tags["hist:nullable-computed-twice-on-one-object"] = true
		}
		h.queried[i] = true
		h.tags["hist:nullable"] = true
		h.frame(op, -1, i, complain)
		return
	case f[0] == "analyse" && len(f) == 2:
		if o == nil {
			return undefined()
		}
		if ok, _ := Valid(o.v.GX()); !ok {
			r.Out = "ok not-valid"
			return
		}
		var names []string
		kind := hx.Try(func() {
			first := o.c.ComputeFIRST()
			_ = o.c.ComputeFOLLOW(first)
			for n := range o.c.NonTerminals.All() {
				if first(grammar.String[grammar.Symbol]{n}).IncludesEmpty {
					names = append(names, WordOf(string(n)))
				}
			}
		})
		if kind != "" {
			r.Out, r.Stop = "panic", true
			complain("ComputeFIRST / ComputeFOLLOW on object %d panicked (%s) on a grammar that passes Verify()", i, kind)
			return
		}
		r.Out = "ok nullable=" + showNames(names)[3:]
		var want []string
		for n, b := range o.v.GX().Nullable() {
			if b {
				want = append(want, n)
			}
		}
		if w := "ok nullable=" + showNames(want)[3:]; w != r.Out {
			complain("FIRST on object %d (%s) has ε for %s, the non-terminals that derive ε are %s", i, o.v.GX().Show(), r.Out[12:], w[12:])
		}
		h.tags["hist:analyse"] = true
		h.frame(op, -1, i, complain)
		return
	case f[0] == "prods" && len(f) == 2:
		if o == nil {
			return undefined()
		}
		now := readCFG(o.c).GX().Show()
		r.Out = "ok " + now
		if was := o.v.GX().Show(); now != was {
			complain("object %d is %s, the value on record (after the ops so far) is %s", i, now, was)
			o.v = readCFG(o.c)
		}
		return
	case f[0] == "lang" && len(f) == 3:
		k, err := strconv.Atoi(f[2])
		if err != nil || k < 0 || k > 8 {
			return
		}
		if o == nil {
			return undefined()
		}
		r.Out = ShowLang(readCFG(o.c).GX(), k)
		if want := ShowLang(o.v.GX(), k); want != r.Out {
			complain("sentences of object %d up to length %d: %s, of the value on record: %s", i, k, r.Out, want)
		}
		return
	case f[0] == "eq" && len(f) == 3:
		j, err := strconv.Atoi(f[2])
		if err != nil || j < 0 {
			return
		}
		o2 := h.objs[j]
		if o == nil || o2 == nil {
			return undefined()
		}
		var eq bool
		if kind := hx.Try(func() { eq = o.c.Equal(o2.c) }); kind != "" {
			r.Out, r.Stop = "panic", true
			complain("Equal panicked (%s)", kind)
			return
		}
		r.Out = fmt.Sprintf("ok %v", eq)
		if want := o.v.GX().Show() == o2.v.GX().Show(); want != eq {
			complain("Equal(object %d, object %d) = %v, the values on record are %s and %s", i, j, eq, o.v.GX().Show(), o2.v.GX().Show())
		}
		return
	}
	return
}

// edit finishes an editing op on object i: output, exactness of the edit, frame.
func (h *Hist) edit(op string, i int, kind string, r *StepResult, complain func(string, ...any)) {
	o := h.objs[i]
	if kind != "" {
		r.Out, r.Stop = "panic", true
		complain("`%s` panicked (%s)", op, kind)
		return
	}
	now := readCFG(o.c).GX().Show()
	r.Out = "ok " + now
	if want := o.v.GX().Show(); now != want {
		complain("after `%s` object %d is %s, expected %s", op, i, now, want)
		o.v = readCFG(o.c)
	}
	h.edits++
	if h.derived[i] {
		h.tags["hist:edit-of-a-result"] = true
	} else {
		h.tags["hist:edit-of-an-operand"] = true
	}
	if h.queried[i] {
		h.tags["hist:edit-after-nullable-was-computed"] = true
	}
	h.frame(op, i, -1, complain)
}

// ExecHistory runs one history case.
func ExecHistory(c hx.Case) hx.Result {
	res := hx.Result{BadOp: -1}
	p := ParseCase(c)
	for i := 0; i < p.NDef; i++ {
		res.Outs = append(res.Outs, "ok")
	}
	if len(p.Ops) > 0 && !Builds(p.G) {
		res.Outs = append(res.Outs, "hang")
		res.BadOp, res.What = p.NDef, fmt.Sprintf("NewCFG did not return within %v for this grammar", callTimeout)
		return res
	}
	h := NewHist(p.G)
	if !Hygienic(p.G) {
		h.tags["in:names-with-reserved-suffix"] = true
	}
	for j, op := range p.Ops {
		r := h.Step(op)
		if r.Out == "" {
			res.Outs = append(res.Outs, "bad-op")
			continue
		}
		res.Outs = append(res.Outs, r.Out)
		if r.What != "" && res.BadOp < 0 {
			res.BadOp, res.What, res.Sig = p.NDef+j, r.What, r.Sig
		}
		if r.Stop {
			break
		}
	}
	res.Nontrivial = h.changedApplies >= 1 && (h.chained >= 1 || h.edits >= 1)
	h.tags["op=history"] = true
	for t := range h.tags {
		res.Tags = append(res.Tags, t)
	}
	return res
}

// ---------------------------------------------------------------- generators

func smallEnough(g gx.G) bool {
	total := 0
	for _, p := range g.Prods {
		total += len(p.Body) + 1
	}
	return len(g.Prods) <= 18 && total <= 70 && len(LangOf(g, 4)) <= 200
}

// randBody draws a body over the symbols of g (ε one time in four).
func randBody(r *hx.Rand, g gx.G, maxLen int) []string {
	if r.Intn(4) == 0 {
		return nil
	}
	syms := append(append([]string{}, g.NonTerms...), g.Terms...)
	syms = append(syms, g.Terms...)
	var b []string
	for n := r.Range(1, maxLen); len(b) < n; {
		b = append(b, hx.Pick(r, syms))
	}
	return b
}

// histGen builds a history op by op, running it on the real code as it goes so that later ops can refer to the values
// of earlier results.
type histGen struct {
	r   *hx.Rand
	h   *Hist
	ops []string
	end bool
}

func newHistGen(r *hx.Rand, g gx.G) *histGen {
	return &histGen{r: r, h: NewHist(g), ops: g.Lines()}
}

// emit runs op; an apply that ends in AddNewNonTerminal's documented panic is left out (a known finding of the
// single-transformation components), any other op is kept.
func (x *histGen) emit(format string, a ...any) bool {
	op := format
	if len(a) > 0 {
		op = fmt.Sprintf(format, a...)
	}
	if x.end {
		return false
	}
	// run on a scratch copy first? No: Step only rebinds slot j on success, and a panicking transformation works on its
	// own clone, so the pool stays usable after a dropped op.
	r := x.h.Step(op)
	if r.Out == "" {
		return false
	}
	if r.Stop && NameExhausted(r.Panic) {
		return false
	}
	x.ops = append(x.ops, op)
	if r.Stop {
		x.end = true
	}
	return true
}

func (x *histGen) pickT(v gx.G) string {
	all := append(append([]string{"clone"}, Ops...), StepOps...)
	for try := 0; try < 8; try++ {
		t := hx.Pick(x.r, all)
		if t == "leftrec" && !LeftRecFeasible(v) {
			continue
		}
		if !OrderSafe(v, t) {
			continue
		}
		return t
	}
	return "clone"
}

func (x *histGen) freeSlot() int {
	if x.r.Intn(5) == 0 {
		return x.r.Intn(MaxSlots)
	}
	for j := 0; j < MaxSlots; j++ {
		if _, ok := x.h.objs[j]; !ok {
			return j
		}
	}
	return x.r.Range(1, MaxSlots-1)
}

func prodLine(p gx.P) string {
	return strings.TrimRight(p.Head+" : "+strings.Join(p.Body, " "), " ")
}

// randomOp appends one random op.
func (x *histGen) randomOp() {
	r := x.r
	live := x.h.Live()
	i := hx.Pick(r, live)
	v, _ := x.h.Value(i)
	switch c := r.Intn(100); {
	case c < 38:
		if !smallEnough(v) {
			x.emit(fmt.Sprintf("prods %d", i))
			return
		}
		x.emit(fmt.Sprintf("apply %d %s %d", i, x.pickT(v), x.freeSlot()))
	case c < 47:
		x.emit(fmt.Sprintf("nullable %d", i))
	case c < 50:
		x.emit(hx.Pick(r, []string{"nullable! %d", "terms! %d", "iterate %d"}), i)
	case c < 54:
		x.emit(fmt.Sprintf("analyse %d", i))
	case c < 70:
		if len(v.NonTerms) == 0 || len(v.Terms) == 0 {
			return
		}
		x.emit(fmt.Sprintf("addprod %d %s", i, prodLine(gx.P{Head: hx.Pick(r, v.NonTerms), Body: randBody(r, v, 4)})))
	case c < 77:
		if len(v.Prods) == 0 {
			return
		}
		// mostly a production of a head that keeps another one (the grammar stays valid)
		cnt := map[string]int{}
		for _, p := range v.Prods {
			cnt[p.Head]++
		}
		p := hx.Pick(r, v.Prods)
		for try := 0; try < 6 && cnt[p.Head] < 2; try++ {
			p = hx.Pick(r, v.Prods)
		}
		x.emit(fmt.Sprintf("rmprod %d %s", i, prodLine(p)))
	case c < 81:
		// a new non-terminal, declared and given a production at once; then used
		n := hx.Pick(r, []string{"N", "N′", "A₁", "S′", "Sₙ", "M"})
		if v.IsNonTerm(n) || len(v.Terms) == 0 {
			return
		}
		for _, t := range v.Terms {
			if Bare(t) == n {
				return
			}
		}
		x.emit(fmt.Sprintf("addnt %d %s", i, n))
		x.emit(fmt.Sprintf("addprod %d %s", i, prodLine(gx.P{Head: n, Body: randBody(r, v, 3)})))
		if len(v.NonTerms) > 0 {
			x.emit(fmt.Sprintf("addprod %d %s", i, prodLine(gx.P{Head: hx.Pick(r, v.NonTerms), Body: []string{hx.Pick(r, v.Terms), n}})))
		}
	case c < 83:
		t := hx.Pick(r, []string{"e", "f"})
		x.emit(fmt.Sprintf("addterm %d %s", i, t))
	case c < 90:
		x.emit(fmt.Sprintf("prods %d", i))
	case c < 95:
		if smallEnough(v) {
			x.emit(fmt.Sprintf("lang %d %d", i, r.Range(2, 3)))
		}
	default:
		if r.Intn(3) == 0 {
			x.emit(fmt.Sprintf("eq %d %d", i, i)) // the same object twice
		} else {
			x.emit(fmt.Sprintf("eq %d %d", i, hx.Pick(r, live)))
		}
	}
}

func (x *histGen) result() hx.Case {
	return hx.Case{Header: "comp=history mix=" + x.mix(), Ops: x.ops}
}

func (x *histGen) mix() string { return "random" }

// WithPrefixAlternative gives some head of g an alternative that is a proper prefix of another one (H → X Y Z gets
// H → X Y) and one alternative that starts with a symbol of its own, so that LeftFactor has to introduce H′ → … | ε: a
// non-terminal that is nullable in the result and does not exist in the operand.
func WithPrefixAlternative(r *hx.Rand, g gx.G) gx.G {
	h := gx.G{Terms: append([]string{}, g.Terms...), NonTerms: append([]string{}, g.NonTerms...), Start: g.Start}
	h.Prods = append(h.Prods, g.Prods...)
	var cands []int
	for i, p := range h.Prods {
		if len(p.Body) >= 2 {
			cands = append(cands, i)
		}
	}
	if len(cands) == 0 {
		t := hx.Pick(r, h.Terms)
		h.Prods = append(h.Prods, gx.P{Head: h.Start, Body: []string{t, hx.Pick(r, h.Terms)}})
		cands = []int{len(h.Prods) - 1}
	}
	p := h.Prods[hx.Pick(r, cands)]
	h.Prods = append(h.Prods, gx.P{Head: p.Head, Body: append([]string{}, p.Body[:r.Range(1, len(p.Body)-1)]...)})
	// an alternative with a first symbol no other alternative of that head has
	firsts := map[string]bool{}
	for _, q := range h.Prods {
		if q.Head == p.Head && len(q.Body) > 0 {
			firsts[q.Body[0]] = true
		}
	}
	for _, t := range h.Terms {
		if !firsts[t] {
			h.Prods = append(h.Prods, gx.P{Head: p.Head, Body: []string{t}})
			break
		}
	}
	seen := map[string]bool{}
	var ps []gx.P
	for _, q := range h.Prods {
		k := q.Head + "→" + strings.Join(q.Body, " ")
		if !seen[k] {
			seen[k] = true
			ps = append(ps, q)
		}
	}
	h.Prods = ps
	return Norm(h)
}

// nonNullableHeads lists the non-terminals of v that do not derive ε.
func nonNullableHeads(v gx.G) []string {
	nul := v.Nullable()
	var out []string
	for _, n := range v.NonTerms {
		if !nul[n] {
			out = append(out, n)
		}
	}
	return out
}

// GenHistory draws one history.  kind 0: random ops; kind 1: something that computes the nullable set of an object, then
// a change of that object's (or its LeftFactor result's) rules that makes another non-terminal nullable, then the
// ε-dependent transformations on the changed object; kind 2: aliasing — a result and its operand are edited in turn and
// both are looked at after every edit.
func GenHistory(r *hx.Rand, g gx.G, kind, n int) hx.Case {
	x := newHistGen(r, g)
	mix := "random"
	epsT := func() string { return hx.Pick(r, []string{"emptyfree", "emptyfree", "cycles", "cnf", "leftrec"}) }
	applyIfFeasible := func(i int, t string, j int) {
		v, ok := x.h.Value(i)
		if !ok || !smallEnough(v) || (t == "leftrec" && !LeftRecFeasible(v)) || !OrderSafe(v, t) {
			t = "emptyfree"
		}
		x.emit(fmt.Sprintf("apply %d %s %d", i, t, j))
	}
	switch kind {
	case 1:
		mix = "nullable-then-change"
		// something that computes the nullable set of object 0
		switch r.Intn(6) {
		case 0:
			x.emit("nullable 0")
		case 1:
			x.emit("nullable! 0")
		case 2:
			x.emit("analyse 0")
		default:
			applyIfFeasible(0, epsT(), 1)
		}
		if r.Bool() {
			// the owner adds A → ε (or A → B with B nullable) to the grammar
			v, _ := x.h.Value(0)
			if nn := nonNullableHeads(v); len(nn) > 0 {
				x.emit(fmt.Sprintf("addprod 0 %s :", hx.Pick(r, nn)))
			}
			if r.Intn(3) == 0 {
				x.emit("nullable 0")
			}
			applyIfFeasible(0, epsT(), 2)
			x.emit(fmt.Sprintf("lang 2 %d", r.Range(2, 3)))
		} else {
			// LeftFactor edits a clone of the grammar and introduces A′ → … | ε
			x.emit("apply 0 leftfactor 2")
			if r.Intn(3) == 0 {
				x.emit("nullable 2")
			}
			applyIfFeasible(2, epsT(), 3)
			x.emit(fmt.Sprintf("lang 3 %d", r.Range(2, 3)))
		}
	case 2:
		mix = "aliasing"
		v, _ := x.h.Value(0)
		x.emit(fmt.Sprintf("apply 0 %s 1", x.pickT(v)))
		for k := 0; k < 3 && !x.end; k++ {
			for _, i := range []int{1, 0} {
				if w, ok := x.h.Value(i); ok && len(w.NonTerms) > 0 && len(w.Terms) > 0 {
					if r.Intn(4) == 0 && len(w.Prods) > 1 {
						x.emit(fmt.Sprintf("rmprod %d %s", i, prodLine(hx.Pick(r, w.Prods))))
					} else {
						x.emit(fmt.Sprintf("addprod %d %s", i, prodLine(gx.P{Head: hx.Pick(r, w.NonTerms), Body: randBody(r, w, 3)})))
					}
					x.emit(fmt.Sprintf("prods %d", 1-i))
				}
			}
			switch k {
			case 0:
				x.emit("apply 1 clone 2")
				x.emit("eq 1 2")
			case 1:
				// the sets of terminals and non-terminals are per object, too
				i := r.Intn(2)
				x.emit(fmt.Sprintf("addterm %d e", i))
				x.emit(fmt.Sprintf("prods %d", 1-i))
			case 2:
				i := r.Intn(2)
				if w, ok := x.h.Value(i); ok && !w.IsNonTerm("M") && len(w.Terms) > 0 {
					x.emit(fmt.Sprintf("addnt %d M", i))
					x.emit(fmt.Sprintf("addprod %d M : %s", i, hx.Pick(r, w.Terms)))
					x.emit(fmt.Sprintf("prods %d", 1-i))
				}
			}
		}
		x.emit("eq 0 1")
	}
	for len(x.ops)-len(g.Lines()) < n && !x.end {
		before := len(x.ops)
		x.randomOp()
		if len(x.ops) == before && r.Intn(8) == 0 {
			break
		}
	}
	c := x.result()
	c.Header = "comp=history mix=" + mix
	return c
}

// exhaustiveHistories: every sequence of three ops over a small alphabet (queries that compute the nullable set, the
// ε-dependent transformations, LeftFactor, edits of operand and result), on two fixed grammars.
func exhaustiveHistories(do func(hx.Case)) int {
	grammars := []gx.G{
		{Terms: []string{"a", "b", "c"}, NonTerms: []string{"S"}, Start: "S",
			Prods: []gx.P{{Head: "S", Body: []string{"a", "b"}}, {Head: "S", Body: []string{"a"}}, {Head: "S", Body: []string{"c"}}}},
		{Terms: []string{"a", "b"}, NonTerms: []string{"S", "A"}, Start: "S",
			Prods: []gx.P{{Head: "S", Body: []string{"A", "b"}}, {Head: "S", Body: []string{"A", "A"}}, {Head: "A", Body: []string{"a"}}}},
	}
	alphabet := []string{"nullable 0", "nullable 1", "apply 0 leftfactor 1", "apply 0 emptyfree 1", "apply 1 emptyfree 2", "apply 0 cycles 2",
		"apply 1 cnf 2", "apply 0 clone 1", "addprod 0 S :", "addprod 1 S : a S", "rmprod 1 S : a", "analyse 0"}
	n := 0
	for gi, g := range grammars {
		extra := []string{}
		if gi == 1 {
			extra = []string{"addprod 0 A :", "addprod 1 A :"}
		}
		al := append(append([]string{}, alphabet...), extra...)
		for _, a := range al {
			for _, b := range al {
				for _, c := range al {
					do(hx.Case{Header: "comp=history mix=exhaustive-3", Ops: append(g.Lines(), a, b, c, "prods 0", "prods 1", "prods 2")})
					n++
				}
			}
		}
	}
	return n
}

// histories is the history part of Main (C08).
func histories(run *hx.Run, lim *SigLimiter) {
	r := run.R.Fork("history")
	do := func(c hx.Case) { lim.Do(run, "history", c, Exec) }
	if run.Thorough() {
		n := exhaustiveHistories(do)
		run.Stats.Extra["exhaustive_histories"] = fmt.Sprintf("all %d histories of three ops over a 12-14 op alphabet on two grammars", n)
	}
	for k := 0; k < run.Scale(36); k++ {
		g := GenGrammar(r, Mixes[k%len(Mixes)])
		if k%4 == 3 {
			g = SuffixedNames(r, g)
		}
		do(GenHistory(r, g, 0, r.Range(6, 14)))
	}
	for k := 0; k < run.Scale(36); k++ {
		g := GenGrammar(r, Mixes[k%len(Mixes)])
		if k%2 == 0 {
			g = WithPrefixAlternative(r, g)
		}
		do(GenHistory(r, g, 1, r.Range(4, 8)))
	}
	for k := 0; k < run.Scale(20); k++ {
		do(GenHistory(r, GenGrammar(r, Mixes[k%len(Mixes)]), 2, r.Range(8, 12)))
	}
}
