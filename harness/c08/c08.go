package c08

import (
	"fmt"
	"sort"
	"strconv"
	"strings"
	"time"

	"github.com/moorara/algo/grammar"

	"verifharness/gx"
	"verifharness/hx"
)

const Rule = "case = (grammar, one transformation): the grammar description lines, the transformation op " +
	"(canonical result grammar, compared with the Lean Model byte for byte) and `lang` ops (bounded language " +
	"of input and result, compared with Lean's langK); oracle = gx.LangK: L_k(G) = L_k(T(G)) for k = 6 " +
	"(5 / 4 when L_4(G) has more than 60 / 200 sentences; exact bounded-language fixpoint, independent of " +
	"/repo); grammars: gx.Random under eight option mixes " +
	"(bodies up to 8, nullable symbols anywhere, unit cycles, direct/indirect left recursion, common prefixes) " +
	"+ terminals named like non-terminals ('X) + pipelines T1 then T2 for all ordered pairs (inputs that already " +
	"carry primed / subscripted names) + names that look generated (a base name with subscripted / primed / ₙ-suffixed siblings " +
	"A, A₁, A₂, A′, A₁₂, aₙ … and a body of 3-5 symbols for one of them; where the result grammar depends on Go's iteration order — " +
	"two heads / terminals that draw from overlapping lists of fresh names — sentences are compared instead of grammars) " +
	"+ bodies of 99-104 symbols (BIN's suffix limit) " +
	"+ names as a dimension (gx.NameSchemes: concatenations, words, non-terminals named like rendered terminals, reserved suffixes, the empty " +
	"name / ε / $ / blanks / the protocol's own markers, upper-case terminals; words are EncName-escaped names, decoded by both sides), two " +
	"alternatives of one head that String() renders alike, a terminal that only a like-rendered non-terminal keeps in use; where names " +
	"contain blanks or quotes cmpProduction ties make the result grammars of EliminateLeftRecursion / LeftFactor / BIN depend on hash " +
	"iteration, so sentences are compared there " +
	"+ threshold sweeps (harness/c08/sizes.go): ONE dimension at 63, 64, 65, 66, 70 (thorough also 2, 127-134, 255-262; 1023-1025 on the " +
	"implementation and the Go oracle only — hx.Case.NoModel, counted as oracle_only_cases, as are unit chains from 127 up, where the " +
	"Model's closure is quartic) with everything else small: length of a body with 1-3 nullable symbols at index 0 / t-1 / t / t+1 / last, " +
	"number of non-terminals (a chain, with a left-recursive / unit-cyclic / common-prefix cluster late or early in OrderNonTerminals' order), " +
	"of terminals = alternatives = productions, of alternatives in one prefix group, of members of a unit closure, of nullable and of " +
	"unreachable symbols; for grammars whose shortest sentence is longer than the default bound the oracle compares sentences up to that " +
	"length + 3 (when there are at most 300) " +
	"+ second round: EVERY size from 0 to 200 of the cheap dimensions (alternatives = terminals = productions, one prefix group, " +
	"unreachable symbols, a chain of non-terminals with a left-recursive cluster at its end, body length with nullable symbols at the end / at " +
	"0 and the middle) — quick: one transformation per size and family, rotating with size and seed; thorough: every transformation —, " +
	"production heads / terminals chosen by calling grammar.HashNonTerminal / HashSymbol so that 16-24 (34-40) of them share one probe path of " +
	"the 31-slot (and 67-slot) quadratic-probing table (gx.SameBucketNames), and each transformation's special shapes at the sweep sizes: unit " +
	"chains against the name order, left recursion through a ring of all n non-terminals, print-alike bodies under different heads that come " +
	"under one head (through n unit productions / inside bodies of n symbols), A B AB all nullable after n symbols, nullable symbols at both " +
	"ends of a body of n symbols; terminals called exactly what a transformation is about to call a fresh non-terminal (S′, A′, A₁, aₙ) " +
	"+ component history (harness/c08/history.go): a pool of live *grammar.CFG objects kept and reused from op to op — `apply i T j` " +
	"(the seven transformations, START / TERM / BIN, Clone; the result object is the operand of later ops), edits through " +
	"g.Productions.Add/Remove, g.NonTerminals.Add, g.Terminals.Add, NullableNonTerminals, ComputeFIRST+ComputeFOLLOW, Equal (also of an object with " +
	"itself), answers the caller scribbles on (the set NullableNonTerminals returns, the slice OrderTerminals returns, the slices handed to NewCFG), " +
	"two iter.Pull iterators over one object advanced alternately with one abandoned half-way and an iteration nested in itself, dumps and " +
	"bounded languages; the Model side is the pure Model applied to values (Model/C08Hist.lean); oracle: L_k(result) = L_k(operand as it " +
	"is at the time of the call), every live object other than the one an op writes renders exactly as recorded (deep rendering after " +
	"every op: no transformation touches its receiver, no edit of a result reaches its operand or vice versa), edits are exact, nullable " +
	"sets are the least fixpoint of the current value; histories: random, `nullable-then-change` (nullable set computed, then A → ε added " +
	"by the owner or A′ → ε by LeftFactor, then the ε-dependent transformations) and `aliasing` (operand and result edited in turn); " +
	"(thorough) all histories of three ops over a 12-14 op alphabet on two grammars " +
	"+ helper cases (the comparators / hashes / WriteString / Symbols / Equal / IsCNF / Verify / *Match of symbol.go, string.go, " +
	"production.go, cfg.go on valid grammars, on grammars with the endmarker terminal or a terminal named like a non-terminal and " +
	"on grammars broken in each way Verify() reports; each judged by an independent re-statement of its doc comment) " +
	"+ corpus + (thorough) every grammar over S,A / a,b with 1-2 alternatives of length <= 2 per non-terminal; " +
	"non-trivial = the transformation changed the grammar and L_k(G) has at least 3 sentences (history: some transformation changed " +
	"its operand and the history either chains transformations or edits an object); " +
	"distinct = distinct (grammar, op)"

// OracleK is the default length bound of the language comparison (see BoundFor).
const OracleK = 6

// Timeout for one transformation call (EliminateLeftRecursion can blow up exponentially; generators
// avoid such inputs, a corpus file could still contain one).
const callTimeout = 20 * time.Second

// Parsed is a case split into grammar and ops.
type Parsed struct {
	G    gx.G
	NDef int // number of leading description lines
	Ops  []string
}

func ParseCase(c hx.Case) Parsed {
	var p Parsed
	var desc []string
	for _, l := range c.Ops {
		f := strings.Fields(l)
		if len(f) > 0 && (f[0] == "terms" || f[0] == "nonterms" || f[0] == "start" || f[0] == "prod") && len(p.Ops) == 0 {
			desc = append(desc, l)
			p.NDef++
		} else {
			p.Ops = append(p.Ops, l)
		}
	}
	p.G, _ = gx.ParseLines(desc)
	p.G = Norm(p.G)
	return p
}

// Timed runs Apply under the watchdog. hung=true when the call did not return in time.
func Timed(op string, c *grammar.CFG) (out *grammar.CFG, kind, msg string, hung bool) {
	ok := hx.WithTimeout(callTimeout, func() { out, kind, msg = Apply(op, c) })
	if !ok {
		return nil, "", "", true
	}
	return
}

func showSentence(w string) string {
	if w == "" {
		return "ε"
	}
	return w
}

// ShowLang is the `lang` op's answer, byte-identical to the Lean driver's showLang.
func ShowLang(g gx.G, k int) string {
	l := BareLang(LangOf(g, k))
	ws := make([]string, 0, len(l))
	for w := range l {
		ws = append(ws, showSentence(w))
	}
	sort.Strings(ws)
	return fmt.Sprintf("ok %d %s", len(ws), strings.Join(ws, "|"))
}

// Features of an input grammar, for the distribution histogram.
func Features(g gx.G) []string {
	var t []string
	nul := g.Nullable()
	maxBody := 0
	hasEps, hasUnit, direct := false, false, false
	for _, p := range g.Prods {
		if len(p.Body) == 0 {
			hasEps = true
		}
		if isUnit(g, p) {
			hasUnit = true
		}
		if len(p.Body) > 0 && p.Body[0] == p.Head {
			direct = true
		}
		if len(p.Body) > maxBody {
			maxBody = len(p.Body)
		}
	}
	if hasEps {
		t = append(t, "in:eps-production")
	}
	if hasUnit {
		t = append(t, "in:unit-production")
	}
	if nul[g.Start] {
		t = append(t, "in:nullable-start")
	}
	if len(EpsOnly(g)) > 0 {
		t = append(t, "in:eps-only-nonterminal")
	}
	if ok, _ := NoCycle(g); !ok {
		t = append(t, "in:cyclic")
	}
	if direct {
		t = append(t, "in:direct-left-recursion")
	}
	if ok, _ := NoLeftRecursion(g); !ok && !direct {
		t = append(t, "in:indirect-left-recursion")
	}
	if ok, _ := LeftFactored(g); !ok {
		t = append(t, "in:common-prefix")
	}
	if maxBody >= 5 {
		t = append(t, "in:body>=5")
	}
	midNullable := false
	for _, p := range g.Prods {
		for i, s := range p.Body {
			if i > 0 && i < len(p.Body)-1 && nul[s] {
				midNullable = true
			}
		}
	}
	if midNullable {
		t = append(t, "in:nullable-mid-body")
	}
	if !g.Productive()[g.Start] {
		t = append(t, "in:empty-language")
	}
	return t
}

// Exec runs one case on the real grammar package and checks language preservation.
func Exec(c hx.Case) hx.Result {
	res := hx.Result{BadOp: -1}
	bad := func(i int, sig, format string, a ...any) {
		if res.BadOp < 0 {
			res.BadOp = i
			res.What = fmt.Sprintf(format, a...)
			res.Sig = sig
		}
	}
	if hx.HeaderGet(c.Header, "comp") == "history" {
		return ExecHistory(c)
	}
	p := ParseCase(c)
	g := p.G
	tags := map[string]bool{}
	for i := 0; i < p.NDef; i++ {
		res.Outs = append(res.Outs, "ok")
	}
	if len(p.Ops) > 0 && !Builds(g) {
		res.Outs = append(res.Outs, "hang")
		bad(p.NDef, "", "NewCFG did not return within %v for this grammar", callTimeout)
		return res
	}
	valid, _ := Valid(g)
	inScope := valid
	if !inScope {
		tags["input-not-valid(oracle off)"] = true
	}
	if !Hygienic(g) {
		tags["in:names-with-reserved-suffix"] = true
	}
	for _, t := range g.Terms {
		if strings.HasPrefix(t, Q) {
			tags["in:terminal-named-like-nonterminal"] = true
		}
	}
	for _, f := range Features(g) {
		tags[f] = true
	}
	k := BoundFor(g)
	tags[fmt.Sprintf("k=%d", k)] = true
	inLang := LangOf(g, k)
	changed := false
	for j, op := range p.Ops {
		i := p.NDef + j
		f := strings.Fields(op)
		switch {
		case len(f) == 1 && IsOp(f[0]):
			out, kind, msg, hung := Timed(f[0], ToCFG(g))
			tags["op="+f[0]] = true
			switch {
			case hung:
				res.Outs = append(res.Outs, "hang")
				bad(i, "", "%s did not return within %v", f[0], callTimeout)
				tags["hang"] = true
			case kind != "":
				res.Outs = append(res.Outs, "panic")
				tags["panic:"+kind] = true
				if inScope {
					if NameExhausted(msg) {
						bad(i, "fresh-names-exhausted", "%s panicked: %s", f[0], msg)
					} else {
						bad(i, "", "%s panicked (%s): %s", f[0], kind, msg)
					}
				}
			default:
				h := FromCFG(out)
				res.Outs = append(res.Outs, "ok "+h.Show())
				if h.Show() != g.Show() {
					changed = true
					tags["changed-by="+f[0]] = true
				}
				if inScope {
					if ok, why := SameLang(g, h, k); !ok {
						bad(i, "", "%s changed the language (sentences up to length %d): %s", f[0], k, why)
					}
				}
			}
		case len(f) == 3 && f[0] == "lang" && (IsOp(f[1]) || f[1] == "id"):
			k, _ := strconv.Atoi(f[2])
			h := g
			if f[1] != "id" {
				out, kind, _, hung := Timed(f[1], ToCFG(g))
				if hung {
					res.Outs = append(res.Outs, "hang")
					continue
				}
				if kind != "" {
					res.Outs = append(res.Outs, "panic")
					continue
				}
				h = FromCFG(out)
			}
			line := ShowLang(h, k)
			res.Outs = append(res.Outs, line)
			if inScope && line != ShowLang(g, k) {
				bad(i, "", "sentences up to length %d differ after %s: %s vs %s", k, f[1], ShowLang(g, k), line)
			}
		case IsHelperOp(f[0]):
			out, what, ts := HelperOp(g, f)
			if out == "" {
				res.Outs = append(res.Outs, "bad-op")
				continue
			}
			res.Outs = append(res.Outs, out)
			tags["op=helpers"] = true
			for _, t := range ts {
				tags[t] = true
			}
			if what != "" {
				bad(i, "", "%s: %s", op, what)
			}
		default:
			res.Outs = append(res.Outs, "bad-op")
		}
	}
	switch n := len(inLang); {
	case n == 0:
		tags["Lk=empty"] = true
	case n < 3:
		tags["Lk<3"] = true
	case n < 30:
		tags["Lk<30"] = true
	default:
		tags["Lk>=30"] = true
	}
	res.Nontrivial = changed && len(inLang) >= 3
	for t := range tags {
		res.Tags = append(res.Tags, t)
	}
	return res
}

// ---------------------------------------------------------------- generators (shared with C09)

type Mix struct {
	Name string
	O    gx.GenOpts
}

var Mixes = []Mix{
	{"default", gx.DefaultOpts()},
	{"tiny-dense", gx.GenOpts{MaxNonTerms: 3, MaxTerms: 2, MaxAlts: 3, MaxBody: 3, EpsChance: 25, UnitChance: 25, LeftRec: 20, CommonPref: 30}},
	{"long-bodies", gx.GenOpts{MaxNonTerms: 4, MaxTerms: 3, MaxAlts: 3, MaxBody: 8, EpsChance: 20, UnitChance: 5, LeftRec: 10, CommonPref: 30}},
	{"unit-cycles", gx.GenOpts{MaxNonTerms: 5, MaxTerms: 3, MaxAlts: 4, MaxBody: 4, EpsChance: 5, UnitChance: 35, LeftRec: 10, CommonPref: 10}},
	{"left-recursion", gx.GenOpts{MaxNonTerms: 4, MaxTerms: 3, MaxAlts: 3, MaxBody: 4, EpsChance: 10, UnitChance: 10, LeftRec: 50, CommonPref: 10}},
	{"common-prefixes", gx.GenOpts{MaxNonTerms: 3, MaxTerms: 4, MaxAlts: 5, MaxBody: 4, EpsChance: 5, UnitChance: 5, LeftRec: 5, CommonPref: 60}},
	{"nullable-heavy", gx.GenOpts{MaxNonTerms: 5, MaxTerms: 2, MaxAlts: 3, MaxBody: 6, EpsChance: 35, UnitChance: 10, LeftRec: 10, CommonPref: 10}},
	{"wide", gx.GenOpts{MaxNonTerms: 6, MaxTerms: 4, MaxAlts: 4, MaxBody: 5, EpsChance: 10, UnitChance: 10, LeftRec: 15, CommonPref: 20}},
}

// GenGrammar draws a Verify()-valid grammar; four times out of five it insists on a grammar whose
// language has at least two sentences of length <= 6 (degenerate ones like S -> S stay in the mix).
func GenGrammar(r *hx.Rand, m Mix) gx.G {
	want := r.Intn(5) != 0
	var g gx.G
	for try := 0; try < 8; try++ {
		g = gx.Random(r, m.O)
		if ok, _ := Valid(g); !ok {
			continue
		}
		if !want || len(LangOf(g, 4)) >= 2 {
			return g
		}
	}
	return g
}

// Malform breaks a valid grammar in one of the ways Verify() rejects (the oracle is off for such inputs;
// they exercise the Model's panic branches: method calls on the nil production set, writes to a nil map).
func Malform(r *hx.Rand, g gx.G) gx.G {
	h := gx.G{Terms: append([]string{}, g.Terms...), NonTerms: append([]string{}, g.NonTerms...), Start: g.Start}
	h.Prods = append(h.Prods, g.Prods...)
	switch r.Intn(4) {
	case 0: // a declared non-terminal without productions, used in a body
		h.NonTerms = append(h.NonTerms, "Z")
		h.Prods = append(h.Prods, gx.P{Head: g.Start, Body: []string{"Z", hx.Pick(r, g.Terms)}})
	case 1: // a declared non-terminal without productions, unused
		h.NonTerms = append(h.NonTerms, "Z")
	case 2: // drop every production of one non-terminal
		n := hx.Pick(r, g.NonTerms)
		var ps []gx.P
		for _, p := range h.Prods {
			if p.Head != n {
				ps = append(ps, p)
			}
		}
		h.Prods = ps
	case 3: // a unit production onto a declared non-terminal without productions
		h.NonTerms = append(h.NonTerms, "Z")
		h.Prods = append(h.Prods, gx.P{Head: hx.Pick(r, g.NonTerms), Body: []string{"Z"}})
	}
	return h
}

// MalformX breaks a valid grammar in one of the ways Verify() reports and the transformations are not defined on
// (cases with such grammars carry helper ops only): start symbol not declared, head not declared, undeclared terminal
// or undeclared non-terminal (^Z) in a body, no production for the start symbol, a non-terminal without production.
func MalformX(r *hx.Rand, g gx.G, kind int) gx.G {
	h := gx.G{Terms: append([]string{}, g.Terms...), NonTerms: append([]string{}, g.NonTerms...), Start: g.Start}
	for _, p := range g.Prods {
		h.Prods = append(h.Prods, gx.P{Head: p.Head, Body: append([]string{}, p.Body...)})
	}
	insert := func(w string) {
		if len(h.Prods) == 0 {
			h.Prods = append(h.Prods, gx.P{Head: hx.Pick(r, g.NonTerms)})
		}
		k := r.Intn(len(h.Prods))
		b := h.Prods[k].Body
		at := r.Intn(len(b) + 1)
		h.Prods[k].Body = append(append(append([]string{}, b[:at]...), w), b[at:]...)
	}
	switch kind % 6 {
	case 0:
		h.Start = "Z"
	case 1:
		h.Prods = append(h.Prods, gx.P{Head: "Z", Body: []string{hx.Pick(r, g.Terms)}})
	case 2:
		insert("z")
	case 3:
		insert("^Z")
	case 4:
		var ps []gx.P
		for _, p := range h.Prods {
			if p.Head != g.Start {
				ps = append(ps, p)
			}
		}
		if len(ps) == 0 {
			h.NonTerms = append(h.NonTerms, "Y")
			h.Prods = append(h.Prods, gx.P{Head: "Y", Body: []string{hx.Pick(r, g.Terms)}})
		} else {
			h.Prods = ps
		}
	case 5:
		h.NonTerms = append(h.NonTerms, "Y")
		insert("z")
	}
	return h
}

// KeywordNames gives a grammar the shape "non-terminal named after the keyword that introduces it": one
// terminal is renamed to the name of a non-terminal X (written 'X) and put in front of up to two productions
// of X, so that X → 'X … has a body that starts with a terminal called like its head.
func KeywordNames(r *hx.Rand, g gx.G) gx.G {
	x := hx.Pick(r, g.NonTerms)
	t := hx.Pick(r, g.Terms)
	h := gx.G{NonTerms: append([]string{}, g.NonTerms...), Start: g.Start}
	for _, u := range g.Terms {
		if u == t {
			u = Q + x
		}
		h.Terms = append(h.Terms, u)
	}
	fronted := 0
	for _, p := range g.Prods {
		q := gx.P{Head: p.Head}
		for _, w := range p.Body {
			if w == t && !g.IsNonTerm(w) {
				w = Q + x
			}
			q.Body = append(q.Body, w)
		}
		if p.Head == x && fronted < 2 && (len(q.Body) == 0 || q.Body[0] != Q+x) && r.Intn(3) != 0 {
			q.Body = append([]string{Q + x}, q.Body...)
			fronted++
		}
		h.Prods = append(h.Prods, q)
	}
	// drop duplicates the renaming may have produced
	seen := map[string]bool{}
	var ps []gx.P
	for _, p := range h.Prods {
		k := p.Head + "→" + strings.Join(p.Body, " ")
		if !seen[k] {
			seen[k] = true
			ps = append(ps, p)
		}
	}
	h.Prods = ps
	return Norm(h)
}

// Piped returns T₁(g) for every transformation T₁ that returns a Verify()-valid grammar of moderate size:
// the inputs of the second stage of a pipeline (names that already carry the suffixes AddNewNonTerminal
// appends).
func Piped(g gx.G) map[string]gx.G {
	out := map[string]gx.G{}
	for _, t1 := range Ops {
		if t1 == "leftrec" && !LeftRecFeasible(g) {
			continue
		}
		c, kind, _, hung := Timed(t1, ToCFG(g))
		if hung || kind != "" {
			continue
		}
		h := FromCFG(c)
		if ok, _ := Valid(h); !ok || len(h.Prods) > 24 || h.Show() == g.Show() {
			continue
		}
		out[t1] = h
	}
	return out
}

// LongBody is S → X … X (n symbols), A → a, with X = A (for BIN) or X = a (for CNF): n − 2 fresh names with
// base S are needed; AddNewNonTerminal has 99 numeric suffixes.
func LongBody(n int, terminal bool) gx.G {
	g := gx.G{Terms: []string{"a"}, NonTerms: []string{"S", "A"}, Start: "S"}
	x := "A"
	if terminal {
		x = "a"
	}
	body := make([]string, n)
	for i := range body {
		body[i] = x
	}
	g.Prods = []gx.P{{Head: "S", Body: body}, {Head: "A", Body: []string{"a"}}}
	if terminal {
		g.Prods = append(g.Prods, gx.P{Head: "S", Body: []string{"A"}})
	}
	return g
}

// LeftRecFeasible guards EliminateLeftRecursion's exponential substitution: the op is generated only when
// the cycle-free grammar it starts from is small.
func LeftRecFeasible(g gx.G) bool {
	out, kind, _ := Apply("cycles", ToCFG(g))
	if kind != "" {
		return true
	}
	h := FromCFG(out)
	total := 0
	for _, p := range h.Prods {
		total += len(p.Body) + 1
	}
	return len(h.Prods) <= 14 && total <= 60
}

// OpsFor lists the transformations to exercise on g.
func OpsFor(g gx.G) []string {
	var ops []string
	for _, op := range append(append([]string{}, Ops...), StepOps...) {
		if op == "leftrec" && !LeftRecFeasible(g) {
			continue
		}
		ops = append(ops, op)
	}
	return ops
}

// SmallShapes enumerates every grammar over non-terminals S, A and terminals a, b in which each
// non-terminal has one or two alternatives drawn from the bodies of length <= 2 over {S, A, a} plus b.
func SmallShapes(f func(gx.G)) {
	syms := []string{"S", "A", "a"}
	bodies := [][]string{{}, {"b"}}
	for _, x := range syms {
		bodies = append(bodies, []string{x})
	}
	for _, x := range syms {
		for _, y := range syms {
			bodies = append(bodies, []string{x, y})
		}
	}
	var alts [][][]string
	for i := range bodies {
		alts = append(alts, [][]string{bodies[i]})
		for j := i + 1; j < len(bodies); j++ {
			alts = append(alts, [][]string{bodies[i], bodies[j]})
		}
	}
	for _, sa := range alts {
		for _, aa := range alts {
			g := gx.G{Terms: []string{"a", "b"}, NonTerms: []string{"S", "A"}, Start: "S"}
			for _, b := range sa {
				g.Prods = append(g.Prods, gx.P{Head: "S", Body: b})
			}
			for _, b := range aa {
				g.Prods = append(g.Prods, gx.P{Head: "A", Body: b})
			}
			f(g)
		}
	}
}

func caseFor(g gx.G, mix, op string, langK int) hx.Case {
	ops := append(g.Lines(), op)
	if langK > 0 {
		ops = append(ops, fmt.Sprintf("lang id %d", langK), fmt.Sprintf("lang %s %d", op, langK))
	}
	return hx.Case{Header: fmt.Sprintf("comp=%s mix=%s", op, mix), Ops: ops}
}

// langOnlyCase compares sentences only (for a grammar / transformation whose result grammar depends on Go's iteration order).
func langOnlyCase(g gx.G, mix, op string) hx.Case {
	k := 4
	if len(LangOf(g, 4)) > 60 {
		k = 3
	}
	return hx.Case{Header: fmt.Sprintf("comp=%s mix=%s", op, mix), Ops: append(g.Lines(), fmt.Sprintf("lang %s %d", op, k))}
}

func Main(run *hx.Run) {
	run.Stats.Rule = Rule
	var lim SigLimiter
	for _, f := range hx.CorpusFiles("C08") {
		cs, _ := hx.ReadReplay(f)
		for _, c := range cs {
			lim.Do(run, hx.HeaderGet(c.Header, "comp"), c, Exec)
		}
	}
	for _, m := range Mixes {
		r := run.R.Fork(m.Name)
		n := run.Scale(28)
		for k := 0; k < n; k++ {
			g := GenGrammar(r, m)
			for _, op := range OpsFor(g) {
				langK := 0
				if r.Intn(4) == 0 {
					langK = r.Range(2, 3)
				}
				lim.Do(run, op, caseFor(g, m.Name, op, langK), Exec)
			}
		}
	}
	{
		// terminals named like non-terminals (if → 'if e stmt)
		r := run.R.Fork("keyword-names")
		for k := 0; k < run.Scale(14); k++ {
			g := KeywordNames(r, GenGrammar(r, Mixes[k%len(Mixes)]))
			for _, op := range OpsFor(g) {
				lim.Do(run, op, caseFor(g, "keyword-names", op, 0), Exec)
			}
		}
	}
	{
		// pipelines: every ordered pair (T₁, T₂); the second stage sees names that already carry suffixes
		r := run.R.Fork("pipelines")
		for k := 0; k < run.Scale(6); k++ {
			g := GenGrammar(r, Mixes[k%len(Mixes)])
			if r.Intn(4) == 0 {
				g = KeywordNames(r, g)
			}
			piped := Piped(g)
			for _, t1 := range Ops {
				h, ok := piped[t1]
				if !ok {
					continue
				}
				for _, t2 := range OpsFor(h) {
					lim.Do(run, t2, caseFor(h, "pipe-"+t1, t2, 0), Exec)
				}
			}
		}
	}
	{
		// names that already look generated: a base name with subscripted / primed / ₙ-suffixed siblings and a body long
		// enough for BIN to need intermediate non-terminals (freshness of AddNewNonTerminal's answer is what is at stake)
		r := run.R.Fork("suffixed-names")
		for k := 0; k < run.Scale(40); k++ {
			g := SuffixedNames(r, GenGrammar(r, Mixes[k%len(Mixes)]))
			comps, cases := SuffixedCases(g, "suffixed-names",
				func(g gx.G, mix, op string) hx.Case { return caseFor(g, mix, op, 0) }, langOnlyCase)
			for i := range cases {
				lim.Do(run, comps[i], cases[i], Exec)
			}
		}
	}
	{
		// names as a dimension: concatenations, words, names like rendered terminals, reserved suffixes, the empty name / ε / $ /
		// blanks / the protocol's own markers, upper-case terminals; two alternatives rendered alike; a terminal "kept in use" only by
		// a like-rendered non-terminal
		NamedGrammars(run.R.Fork("names"), run.Scale(5), run.Scale(10), func(mix string, g gx.G) {
			comps, cases := SuffixedCases(g, mix, func(g gx.G, mix, op string) hx.Case { return caseFor(g, mix, op, 0) }, langOnlyCase)
			for i := range cases {
				lim.Do(run, comps[i], cases[i], Exec)
			}
		})
	}
	histories(run, &lim)
	all := SizeCases(run.Thorough())
	all = append(all, BucketCases()...)                        // heads / terminals on one probe path of the 31-slot (and 67-slot) table
	all = append(all, ShapeCases(run.Thorough())...)           // each transformation's special shapes at the sweep sizes
	all = append(all, DenseCases(run.Seed, run.Thorough())...) // every size from 0 to 200 of the cheap dimensions
	for _, sc := range all {
		// threshold sweeps: one dimension at 63 / 64 / 65 (thorough: up to 257), everything else small
		for _, op := range sc.Ops {
			c := caseFor(sc.G, sc.Mix, op, 0)
			c.NoModel = sc.NoModel08
			lim.Do(run, op, c, Exec)
		}
	}
	{
		// bodies around the limit of BIN's 99 numeric suffixes (n − 2 fresh names for a body of n symbols)
		for n := 99; n <= 104; n++ {
			lim.Do(run, "cnfbin", caseFor(LongBody(n, false), "long-body", "cnfbin", 0), Exec)
			lim.Do(run, "cnf", caseFor(LongBody(n, true), "long-body", "cnf", 0), Exec)
		}
	}
	{
		// the helpers the transformations rest on: comparators (the orders the Model reproduces), hashes, WriteString,
		// Symbols / Equal / IsCNF / Verify / AnyMatch / AllMatch / SelectMatch; on valid grammars (every third with a
		// terminal named like a non-terminal) and on grammars broken in each of the ways Verify() reports
		r := run.R.Fork("helpers")
		for k := 0; k < run.Scale(40); k++ {
			g := GenGrammar(r, Mixes[k%len(Mixes)])
			if k%3 == 1 {
				g = KeywordNames(r, g)
			}
			if k%4 == 2 {
				g = WithEndmarker(g)
			}
			if k%2 == 1 {
				g = MalformX(r, g, k/2)
			}
			ops := append(g.Lines(), HelperQueries(r, g)...)
			if ok, _ := Valid(g); ok {
				for _, op := range OpsFor(g) {
					ops = append(ops, "eq "+op)
				}
			}
			lim.Do(run, "helpers", hx.Case{Header: "comp=helpers mix=helpers", Ops: ops}, Exec)
		}
	}
	{
		// grammars Verify() rejects: correspondence only (the property does not speak about them)
		r := run.R.Fork("malformed")
		for k := 0; k < run.Scale(12); k++ {
			g := Malform(r, GenGrammar(r, Mixes[k%len(Mixes)]))
			for _, op := range OpsFor(g) {
				lim.Do(run, op, caseFor(g, "malformed", op, 0), Exec)
			}
		}
	}
	if run.Thorough() {
		n := 0
		SmallShapes(func(g gx.G) {
			n++
			for _, op := range Ops {
				if op == "leftrec" && !LeftRecFeasible(g) {
					continue
				}
				lim.Do(run, op, caseFor(g, "small-shapes", op, 0), Exec)
			}
		})
		run.Stats.Extra["exhaustive_part"] = fmt.Sprintf("all %d grammars over S,A / a,b with 1-2 alternatives of length<=2 per non-terminal, seven transformations each", n)
	}
}
