// Package c07: every sort of /repo/sort and /repo/radixsort against "sorted permutation" /
// "native order" oracles, one slice per op line.
package c07

import (
	"encoding/hex"
	"fmt"
	"math"
	"math/rand"
	gosort "sort"
	"strconv"
	"strings"
	"time"

	"github.com/moorara/algo/generic"
	"github.com/moorara/algo/radixsort"
	"github.com/moorara/algo/sort"

	"verifharness/hx"
)

const Rule = "one op = one slice handed to one sort. Comparison sorts get key:id elements and a comparator on the " +
	"key only (asc, desc, the non-injective preorder key%3, and the un-normalised results a-b, 7*(a-b), b-a, 7*(b-a), 5*(a%3-b%3)), so a wrong permutation or a lost/duplicated element " +
	"is visible; radix sorts get 64-bit words (every byte position and both signs) or byte strings over " +
	"{00,61,62,7f,80,fe,ff} with shared prefixes. non-trivial = some op of the case had >= 2 elements not already in " +
	"order and, for MSD / 3-way radix sorts, more than CUTOFF+1 = 16 elements in the range (a counting or " +
	"partitioning pass ran); distinct = distinct (header, op list)"

type elem struct{ k, id int }

func sgn(a, b int) int {
	if a < b {
		return -1
	}
	if a > b {
		return 1
	}
	return 0
}

func cls(name string, k int) int {
	if name == "mod3" || name == "mod3x5" {
		return k % 3
	}
	return k
}

func cmpOf(name string) generic.CompareFunc[elem] {
	switch name {
	case "desc":
		return func(a, b elem) int { return sgn(b.k, a.k) }
	case "mod3":
		return func(a, b elem) int { return sgn(a.k%3, b.k%3) }
	// comparators whose results are NOT normalised to -1/0/+1 (only the sign is meaningful)
	case "diff":
		return func(a, b elem) int { return a.k - b.k }
	case "diff7":
		return func(a, b elem) int { return 7 * (a.k - b.k) }
	case "rdiff":
		return func(a, b elem) int { return b.k - a.k }
	case "rdiff7":
		return func(a, b elem) int { return 7 * (b.k - a.k) }
	case "mod3x5":
		return func(a, b elem) int { return (a.k%3 - b.k%3) * 5 }
	}
	return func(a, b elem) int { return sgn(a.k, b.k) }
}

func parseElems(ws []string) ([]elem, bool) {
	out := make([]elem, 0, len(ws))
	for _, w := range ws {
		p := strings.SplitN(w, ":", 2)
		if len(p) != 2 {
			return nil, false
		}
		k, e1 := strconv.Atoi(p[0])
		id, e2 := strconv.Atoi(p[1])
		if e1 != nil || e2 != nil {
			return nil, false
		}
		out = append(out, elem{k, id})
	}
	return out, true
}

func showElems(prefix string, a []elem) string {
	var b strings.Builder
	b.WriteString(prefix)
	for _, e := range a {
		b.WriteByte(' ')
		b.WriteString(strconv.Itoa(e.k))
		b.WriteByte(':')
		b.WriteString(strconv.Itoa(e.id))
	}
	return b.String()
}

func elemLess(a, b elem) bool { return a.k < b.k || (a.k == b.k && a.id < b.id) }

// canonRuns sorts every maximal run of adjacent cmp-equal elements by (key, id).
func canonRuns(cmp generic.CompareFunc[elem], a []elem) []elem {
	out := append([]elem{}, a...)
	i := 0
	for i < len(out) {
		j := i + 1
		for j < len(out) && cmp(out[j-1], out[j]) == 0 {
			j++
		}
		run := out[i:j]
		gosort.SliceStable(run, func(x, y int) bool { return elemLess(run[x], run[y]) })
		i = j
	}
	return out
}

// ---- oracles (independent of the code under test)

func sameMultiset[T comparable](a, b []T) bool {
	if len(a) != len(b) {
		return false
	}
	m := map[T]int{}
	for _, x := range a {
		m[x]++
	}
	for _, x := range b {
		m[x]--
		if m[x] < 0 {
			return false
		}
	}
	return true
}

func sortedBy[T any](a []T, cmp func(T, T) int) bool {
	for i := 1; i < len(a); i++ {
		if cmp(a[i-1], a[i]) > 0 {
			return false
		}
	}
	return true
}

func eqSlices[T comparable](a, b []T) bool {
	if len(a) != len(b) {
		return false
	}
	for i := range a {
		if a[i] != b[i] {
			return false
		}
	}
	return true
}

// ---- scripted math/rand source: r.Intn(n) returns the scripted value c whenever 0 <= c < n < 2^31

type scripted struct {
	vals []int
	i    int
}

func (s *scripted) Int63() int64 {
	if s.i >= len(s.vals) {
		s.i++
		return 0
	}
	v := s.vals[s.i]
	s.i++
	return int64(v) << 32
}
func (s *scripted) Seed(int64) {}

func scriptedOK(n int, cs []int) bool {
	if len(cs) != n {
		return false
	}
	tw := rand.New(&scripted{vals: cs})
	for i := 0; i < n; i++ {
		if cs[i] < 0 || cs[i] >= n-i || tw.Intn(n-i) != cs[i] {
			return false
		}
	}
	return true
}

// ---- strings / words

func parseStrs(ws []string) ([]string, bool) {
	out := make([]string, 0, len(ws))
	for _, w := range ws {
		if !strings.HasPrefix(w, "x") {
			return nil, false
		}
		b, err := hex.DecodeString(w[1:])
		if err != nil {
			return nil, false
		}
		out = append(out, string(b))
	}
	return out, true
}

func showStrs(a []string) string {
	var b strings.Builder
	b.WriteString("ok")
	for _, s := range a {
		b.WriteString(" x")
		b.WriteString(hex.EncodeToString([]byte(s)))
	}
	return b.String()
}

func parseInts(ws []string) ([]int, bool) {
	out := make([]int, 0, len(ws))
	for _, w := range ws {
		v, err := strconv.ParseInt(w, 10, 64)
		if err != nil {
			return nil, false
		}
		out = append(out, int(v))
	}
	return out, true
}

func parseUints(ws []string) ([]uint, bool) {
	out := make([]uint, 0, len(ws))
	for _, w := range ws {
		v, err := strconv.ParseUint(w, 10, 64)
		if err != nil {
			return nil, false
		}
		out = append(out, uint(v))
	}
	return out, true
}

func showInts(a []int) string {
	var b strings.Builder
	b.WriteString("ok")
	for _, v := range a {
		b.WriteByte(' ')
		b.WriteString(strconv.FormatInt(int64(v), 10))
	}
	return b.String()
}

func showUints(a []uint) string {
	var b strings.Builder
	b.WriteString("ok")
	for _, v := range a {
		b.WriteByte(' ')
		b.WriteString(strconv.FormatUint(uint64(v), 10))
	}
	return b.String()
}

type opResult struct {
	out        string
	bad        string // "" = admitted by the oracle
	nontrivial bool
	tags       []string
}

func inversions[T any](a []T, cmp func(T, T) int) bool { return !sortedBy(a, cmp) }

func cmpOrd[T int | uint | string](a, b T) int {
	if a < b {
		return -1
	}
	if a > b {
		return 1
	}
	return 0
}

// checkRange: the range [lo,hi] of `after` is a permutation of the same range of `before`, everything
// outside is untouched, and (when mustSort) the range is in native order.
func checkRange[T int | uint | string](before, after []T, lo, hi int, mustSort bool) string {
	if len(before) != len(after) {
		return "length changed"
	}
	for i := range before {
		if (i < lo || i > hi) && before[i] != after[i] {
			return fmt.Sprintf("element %d outside [%d,%d] changed", i, lo, hi)
		}
	}
	if hi >= lo {
		if !sameMultiset(before[lo:hi+1], after[lo:hi+1]) {
			return "range is not a permutation of the input range"
		}
		if mustSort && !sortedBy(after[lo:hi+1], cmpOrd[T]) {
			return "range is not in native order"
		}
	}
	return ""
}

func sharePrefixStr(a []string, lo, hi, d int) bool {
	for i := lo; i <= hi; i++ {
		if len(a[i]) < d || a[i][:d] != a[lo][:d] {
			return false
		}
	}
	return true
}

func shareTopBytes(a []uint64, lo, hi, d int) bool {
	if d <= 0 {
		return true
	}
	if d >= 8 {
		d = 8
	}
	sh := uint(64 - 8*d)
	for i := lo; i <= hi; i++ {
		if a[i]>>sh != a[lo]>>sh {
			return false
		}
	}
	return true
}

// runOp executes one op line on the real code. It may panic (caught by the caller).
func runOp(cmpName string, line string) opResult {
	f := strings.Fields(line)
	cmp := cmpOf(cmpName)
	r := opResult{out: "bad-op"}
	if len(f) == 0 {
		return r
	}
	switch {
	case f[0] == "sort" && len(f) >= 2:
		algo := f[1]
		rest := f[2:]
		r.tags = append(r.tags, "algo="+algo)
		switch algo {
		case "selection", "insertion", "shell", "merge", "mergerec", "quick3way", "heap", "quickcore", "quick":
			in, ok := parseElems(rest)
			if !ok {
				return r
			}
			a := append([]elem{}, in...)
			switch algo {
			case "selection":
				sort.Selection(a, cmp)
			case "insertion":
				sort.Insertion(a, cmp)
			case "shell":
				sort.Shell(a, cmp)
			case "merge":
				sort.Merge(a, cmp)
			case "mergerec":
				sort.MergeRec(a, cmp)
			case "quick3way":
				sort.Quick3Way(a, cmp)
			case "heap":
				sort.Heap(a, cmp)
			case "quickcore":
				sort.VerifQuickNoShuffle(a, cmp)
			case "quick":
				sort.Quick(a, cmp)
			}
			if algo == "quick" {
				r.out = showElems("ok", canonRuns(cmp, a))
			} else {
				r.out = showElems("ok", a)
			}
			if !sortedBy(a, cmp) {
				r.bad = algo + ": result is not sorted by the comparator"
			} else if !sameMultiset(in, a) {
				r.bad = algo + ": result is not a permutation of the input"
			}
			r.nontrivial = len(in) >= 2 && inversions(in, cmp)
			if len(in) > 16 {
				r.tags = append(r.tags, "len>16")
			}
		case "lsduint", "msduint":
			in, ok := parseUints(rest)
			if !ok {
				return r
			}
			a := append([]uint{}, in...)
			if algo == "lsduint" {
				radixsort.LSDUint(a)
			} else {
				radixsort.MSDUint(a)
			}
			r.out = showUints(a)
			want := append([]uint{}, in...)
			gosort.Slice(want, func(i, j int) bool { return want[i] < want[j] })
			if !eqSlices(a, want) {
				r.bad = algo + ": result differs from the native uint order"
			}
			r.nontrivial = len(in) >= 2 && inversions(in, cmpOrd[uint]) && (algo == "lsduint" || len(in) > 16)
			if len(in) > 16 {
				r.tags = append(r.tags, "len>16")
			}
		case "lsdint", "msdint":
			in, ok := parseInts(rest)
			if !ok {
				return r
			}
			a := append([]int{}, in...)
			if algo == "lsdint" {
				radixsort.LSDInt(a)
			} else {
				radixsort.MSDInt(a)
			}
			r.out = showInts(a)
			want := append([]int{}, in...)
			gosort.Ints(want)
			if !eqSlices(a, want) {
				r.bad = algo + ": result differs from the native int order"
			}
			neg, pos := false, false
			for _, v := range in {
				if v < 0 {
					neg = true
				} else {
					pos = true
				}
			}
			if neg && pos {
				r.tags = append(r.tags, "both-signs")
			}
			r.nontrivial = len(in) >= 2 && inversions(in, cmpOrd[int]) && (algo == "lsdint" || len(in) > 16)
			if len(in) > 16 {
				r.tags = append(r.tags, "len>16")
			}
		case "msdstring", "q3string":
			in, ok := parseStrs(rest)
			if !ok {
				return r
			}
			a := append([]string{}, in...)
			if algo == "msdstring" {
				radixsort.MSDString(a)
			} else {
				radixsort.Quick3WayString(a)
			}
			r.out = showStrs(a)
			want := append([]string{}, in...)
			gosort.Strings(want)
			if !eqSlices(a, want) {
				r.bad = algo + ": result differs from the native string order"
			}
			r.nontrivial = len(in) > 16 && inversions(in, cmpOrd[string])
			if len(in) > 16 {
				r.tags = append(r.tags, "len>16")
			}
			for _, s := range in {
				if strings.Contains(s, "\xff") {
					r.tags = append(r.tags, "has-0xff")
					break
				}
			}
		}
	case f[0] == "select" && len(f) >= 2:
		k, err := strconv.Atoi(f[1])
		in, ok := parseElems(f[2:])
		if err != nil || !ok {
			return r
		}
		r.tags = append(r.tags, "algo=select")
		a := append([]elem{}, in...)
		if k < 0 || k >= len(in) {
			r.tags = append(r.tags, "select-k-out-of-range")
		}
		v := sort.Select(a, k, cmp) // panics for k outside [0,n): outside the property's precondition
		r.out = "ok " + strconv.Itoa(cls(cmpName, v.k))
		less, leq, found := 0, 0, false
		for _, x := range in {
			if cmp(x, v) < 0 {
				less++
			}
			if cmp(x, v) <= 0 {
				leq++
			}
			if x == v {
				found = true
			}
		}
		switch {
		case !found:
			r.bad = "select: result is not an element of the input"
		case !(less <= k && k < leq):
			r.bad = fmt.Sprintf("select: result has %d smaller and %d smaller-or-equal elements, so it is not of rank %d", less, leq, k)
		case !sameMultiset(in, a):
			r.bad = "select: the slice is no longer a permutation of the input"
		}
		r.nontrivial = len(in) >= 2
	case f[0] == "partition" && len(f) >= 3:
		lo, e1 := strconv.Atoi(f[1])
		hi, e2 := strconv.Atoi(f[2])
		in, ok := parseElems(f[3:])
		if e1 != nil || e2 != nil || !ok {
			return r
		}
		r.tags = append(r.tags, "algo=partition")
		a := append([]elem{}, in...)
		j := sort.VerifPartition(a, lo, hi, cmp)
		r.out = showElems("ok "+strconv.Itoa(j), a)
		if 0 <= lo && lo <= hi && hi < len(in) {
			if !sameMultiset(in, a) {
				r.bad = "partition: not a permutation"
			} else if j < lo || j > hi {
				r.bad = "partition: pivot index outside the range"
			} else {
				for i := lo; i <= hi; i++ {
					if (i < j && cmp(a[i], a[j]) > 0) || (i > j && cmp(a[i], a[j]) < 0) {
						r.bad = fmt.Sprintf("partition: element %d on the wrong side of the pivot %d", i, j)
						break
					}
				}
			}
			r.nontrivial = hi-lo >= 1
		}
	case f[0] == "shuffle" && len(f) >= 2:
		in, ok := parseElems(f[2:])
		if !ok {
			return r
		}
		var cs []int
		if f[1] != "-" {
			for _, w := range strings.Split(f[1], ",") {
				v, err := strconv.Atoi(w)
				if err != nil {
					return r
				}
				cs = append(cs, v)
			}
		}
		if !scriptedOK(len(in), cs) {
			r.out = "bad-op scripted source does not reproduce the choices"
			return r
		}
		r.tags = append(r.tags, "algo=shuffle")
		a := append([]elem{}, in...)
		sort.Shuffle(a, rand.New(&scripted{vals: cs}))
		r.out = showElems("ok", a)
		if !sameMultiset(in, a) {
			r.bad = "shuffle: result is not a permutation of the input"
		}
		r.nontrivial = len(in) >= 2 && !eqSlices(in, a)
	case f[0] == "lsdstring" && len(f) >= 2:
		w, err := strconv.Atoi(f[1])
		in, ok := parseStrs(f[2:])
		if err != nil || !ok {
			return r
		}
		r.tags = append(r.tags, "algo=lsdstring")
		short, exact := false, true
		for _, s := range in {
			if len(s) < w {
				short = true
			}
			if len(s) != w {
				exact = false
			}
			if strings.Contains(s, "\xff") {
				r.tags = append(r.tags, "has-0xff")
			}
		}
		if short {
			r.tags = append(r.tags, "lsdstring-short-key") // outside the precondition: index panic expected
		}
		a := append([]string{}, in...)
		radixsort.LSDString(a, w)
		r.out = showStrs(a)
		want := append([]string{}, in...)
		if w > 0 && !short {
			gosort.SliceStable(want, func(i, j int) bool { return want[i][:w] < want[j][:w] })
		}
		if !short && !eqSlices(a, want) {
			if exact {
				r.bad = "lsdstring: result differs from the native string order"
			} else {
				r.bad = "lsdstring: result is not the stable sort by the first w bytes"
			}
		}
		r.nontrivial = len(in) >= 2 && w >= 1 && inversions(in, cmpOrd[string])
	case len(f) >= 4 && (f[0] == "msdintat" || f[0] == "msduintat" || f[0] == "msdstringat" || f[0] == "q3stringat"):
		lo, e1 := strconv.Atoi(f[1])
		hi, e2 := strconv.Atoi(f[2])
		d, e3 := strconv.Atoi(f[3])
		if e1 != nil || e2 != nil || e3 != nil {
			return r
		}
		r.tags = append(r.tags, "algo="+f[0])
		rest := f[4:]
		switch f[0] {
		case "msdintat":
			in, ok := parseInts(rest)
			if !ok {
				return r
			}
			a := append([]int{}, in...)
			radixsort.VerifMsdInt(a, lo, hi, d)
			r.out = showInts(a)
			u := make([]uint64, len(in))
			for i, v := range in {
				u[i] = uint64(v)
			}
			if 0 <= lo && hi < len(in) {
				r.bad = checkRange(in, a, lo, hi, shareTopBytes(u, lo, hi, d))
			}
		case "msduintat":
			in, ok := parseUints(rest)
			if !ok {
				return r
			}
			a := append([]uint{}, in...)
			radixsort.VerifMsdUint(a, lo, hi, d)
			r.out = showUints(a)
			u := make([]uint64, len(in))
			for i, v := range in {
				u[i] = uint64(v)
			}
			if 0 <= lo && hi < len(in) {
				r.bad = checkRange(in, a, lo, hi, shareTopBytes(u, lo, hi, d))
			}
		case "msdstringat", "q3stringat":
			in, ok := parseStrs(rest)
			if !ok {
				return r
			}
			a := append([]string{}, in...)
			if f[0] == "msdstringat" {
				radixsort.VerifMsdString(a, lo, hi, d)
			} else {
				radixsort.VerifQuick3WayString(a, lo, hi, d)
			}
			r.out = showStrs(a)
			if 0 <= lo && hi < len(in) {
				r.bad = checkRange(in, a, lo, hi, lo <= hi && sharePrefixStr(in, lo, hi, d))
			}
		}
		if r.bad != "" {
			r.bad = f[0] + ": " + r.bad
		}
		r.nontrivial = hi-lo > 16
		if d > 0 {
			r.tags = append(r.tags, "core-at-d>0")
		}
	}
	return r
}

// Exec runs one case (each op carries its own slice).
func Exec(c hx.Case) hx.Result {
	cmpName := hx.HeaderGet(c.Header, "cmp")
	if cmpName == "" {
		cmpName = "asc"
	}
	res := hx.Result{BadOp: -1}
	tags := map[string]bool{"cmp=" + cmpName: true}
	for i, op := range c.Ops {
		var r opResult
		kind := ""
		done := hx.WithTimeout(10*time.Second, func() {
			kind = hx.Try(func() { r = runOp(cmpName, op) })
		})
		if !done {
			res.Outs = append(res.Outs, "hang")
			if res.BadOp < 0 {
				res.BadOp, res.What = i, "did not return within 10 s: "+firstWords(op)
			}
			tags["hang"] = true
			break
		}
		if kind != "" {
			res.Outs = append(res.Outs, "panic")
			// a panic is admissible only outside the property's precondition
			// (Select with k outside [0,n), LSDString with a key shorter than w)
			if !expectedPanic(op) && res.BadOp < 0 {
				res.BadOp, res.What = i, fmt.Sprintf("panicked (%s): %s", kind, firstWords(op))
			}
			tags["panic"] = true
			break
		}
		res.Outs = append(res.Outs, r.out)
		if r.bad != "" && res.BadOp < 0 {
			res.BadOp, res.What = i, r.bad
		}
		if r.nontrivial {
			res.Nontrivial = true
		}
		for _, t := range r.tags {
			tags[t] = true
		}
	}
	for t := range tags {
		res.Tags = append(res.Tags, t)
	}
	return res
}

func firstWords(op string) string {
	if len(op) > 120 {
		return op[:120] + "…"
	}
	return op
}

func expectedPanic(op string) bool {
	f := strings.Fields(op)
	if len(f) < 2 {
		return false
	}
	switch f[0] {
	case "select":
		k, err := strconv.Atoi(f[1])
		return err == nil && (k < 0 || k >= len(f)-2)
	case "lsdstring":
		w, err := strconv.Atoi(f[1])
		if err != nil {
			return false
		}
		for _, s := range f[2:] {
			if (len(s)-1)/2 < w {
				return true
			}
		}
	}
	return false
}

// ---------------------------------------------------------------- generators

func elemsOp(keys []int) string {
	var b strings.Builder
	for i, k := range keys {
		if i > 0 {
			b.WriteByte(' ')
		}
		b.WriteString(strconv.Itoa(k))
		b.WriteByte(':')
		b.WriteString(strconv.Itoa(i))
	}
	return b.String()
}

func join(parts ...string) string {
	var out []string
	for _, p := range parts {
		if p != "" {
			out = append(out, p)
		}
	}
	return strings.Join(out, " ")
}

var lengths = []int{0, 1, 2, 3, 4, 5, 7, 8, 13, 14, 15, 16, 17, 18, 31, 32, 33, 40, 64}

func pickLen(r *hx.Rand) int {
	switch r.Intn(4) {
	case 0:
		return hx.Pick(r, lengths)
	case 1:
		return r.Range(14, 19)
	default:
		return r.Range(0, 64)
	}
}

func randKeys(r *hx.Rand, n int) []int {
	keys := make([]int, n)
	mode := r.Intn(6)
	for i := range keys {
		switch mode {
		case 0:
			keys[i] = r.Intn(3)
		case 1:
			keys[i] = r.Intn(7) - 3
		case 2:
			keys[i] = i // ascending
		case 3:
			keys[i] = n - i // descending
		case 4:
			keys[i] = r.Intn(n + 1)
		default:
			keys[i] = r.Intn(1000) - 500
		}
	}
	if mode == 2 && n > 2 && r.Bool() { // nearly sorted
		i, j := r.Intn(n), r.Intn(n)
		keys[i], keys[j] = keys[j], keys[i]
	}
	return keys
}

var cmpAlgos = []string{"selection", "insertion", "shell", "merge", "mergerec", "quick3way", "heap", "quickcore", "quick"}
var cmpNames = []string{"asc", "desc", "mod3", "diff", "diff7", "rdiff", "rdiff7", "mod3x5"}

var specialWords = []uint64{0, 1, 0x7f, 0x80, 0xff, 0x100, 0x7fffffffffffffff, 0x8000000000000000, 0xffffffffffffffff,
	0x8000000000000001, 0xfffffffffffffffe, 0x00ff00ff00ff00ff, 0xff00ff00ff00ff00, 0x0100000000000000, 0x0101010101010101,
	0x7f00000000000000, 0x8100000000000000, 0x00000000ffffffff, 0xffffffff00000000}

var byteVals = []uint64{0x00, 0x01, 0x7f, 0x80, 0xfe, 0xff}

func randWords(r *hx.Rand, n int) []uint64 {
	out := make([]uint64, n)
	mode := r.Intn(6)
	// cluster: values share their top `share` bytes so that MSD recursion goes deep
	share := r.Intn(8)
	base := r.U64()
	if r.Bool() {
		base = 0
		for p := 0; p < 8; p++ {
			base |= hx.Pick(r, byteVals) << (8 * uint(p))
		}
	}
	pos := uint(r.Intn(8)) // the byte position this slice exercises
	for i := range out {
		switch mode {
		case 0:
			out[i] = r.U64()
		case 1:
			out[i] = hx.Pick(r, specialWords)
		case 2: // one varying byte position, everything else fixed
			out[i] = (base &^ (0xff << (8 * pos))) | (uint64(r.Intn(256)) << (8 * pos))
		case 3: // shared top bytes, low bytes random
			lowBits := uint(64 - 8*share)
			low := r.U64()
			if lowBits < 64 {
				low &= (uint64(1) << lowBits) - 1
				out[i] = (base >> lowBits << lowBits) | low
			} else {
				out[i] = low
			}
		case 4: // small magnitudes around zero (sign boundary for int)
			out[i] = uint64(int64(r.Intn(41) - 20))
		default: // bytes from the boundary set
			var v uint64
			for p := 0; p < 8; p++ {
				v |= hx.Pick(r, byteVals) << (8 * uint(p))
			}
			out[i] = v
		}
	}
	return out
}

func wordsOp(ws []uint64, signed bool) string {
	ss := make([]string, len(ws))
	for i, v := range ws {
		if signed {
			ss[i] = strconv.FormatInt(int64(v), 10)
		} else {
			ss[i] = strconv.FormatUint(v, 10)
		}
	}
	return strings.Join(ss, " ")
}

var alphabet = []byte{0x00, 'a', 'b', 0x7f, 0x80, 0xfe, 0xff}

func randStr(r *hx.Rand, alpha []byte, n int) string {
	b := make([]byte, n)
	for i := range b {
		b[i] = hx.Pick(r, alpha)
	}
	return string(b)
}

// randStrs: strings with shared prefixes; fixed >= 0 forces that exact length.
func randStrs(r *hx.Rand, n, fixed int) []string {
	alpha := alphabet
	switch r.Intn(3) {
	case 0:
		alpha = []byte{'a', 0xff} // few letters: big buckets, deep recursion
	case 1:
		alpha = []byte{0x00, 'a', 0xff}
	}
	var pool []string
	for i := 0; i < 1+r.Intn(4); i++ {
		pool = append(pool, randStr(r, alpha, r.Intn(5)))
	}
	out := make([]string, n)
	for i := range out {
		s := ""
		if r.Chance(3, 4) {
			s = hx.Pick(r, pool)
		}
		s += randStr(r, alpha, r.Intn(4))
		if fixed >= 0 {
			for len(s) < fixed {
				s += string(hx.Pick(r, alpha))
			}
			s = s[:fixed]
		}
		out[i] = s
	}
	return out
}

func strsOp(ss []string) string {
	ws := make([]string, len(ss))
	for i, s := range ss {
		ws[i] = "x" + hex.EncodeToString([]byte(s))
	}
	return strings.Join(ws, " ")
}

func bigLen(r *hx.Rand) int {
	switch r.Intn(5) {
	case 0:
		return r.Range(15, 18)
	case 1:
		return r.Range(100, 300)
	case 2:
		return r.Range(0, 16)
	default:
		return r.Range(17, 80)
	}
}

func do(run *hx.Run, comp, cmp string, ops ...string) {
	run.Do(comp, hx.Case{Header: "comp=" + comp + " cmp=" + cmp, Ops: ops}, Exec)
}

// allArrays enumerates every key vector of length n over {0..vals-1}.
func allArrays(n, vals int, f func([]int)) {
	keys := make([]int, n)
	for {
		f(append([]int{}, keys...))
		i := n - 1
		for i >= 0 {
			keys[i]++
			if keys[i] < vals {
				break
			}
			keys[i] = 0
			i--
		}
		if i < 0 {
			return
		}
	}
}

func Main(run *hx.Run) {
	run.Stats.Rule = Rule
	for _, f := range hx.CorpusFiles("C07") {
		cs, _ := hx.ReadReplay(f)
		for _, c := range cs {
			run.Do(hx.HeaderGet(c.Header, "comp"), c, Exec)
		}
	}

	// ---- comparison sorts: random slices, lengths 0-64 crossing 15/16/17, three comparators
	for _, algo := range cmpAlgos {
		r := run.R.Fork(algo)
		for k := 0; k < run.Scale(32); k++ {
			cmp := cmpNames[k%len(cmpNames)]
			var ops []string
			for j := 0; j < 4; j++ {
				ops = append(ops, join("sort", algo, elemsOp(randKeys(r, pickLen(r)))))
			}
			do(run, algo, cmp, ops...)
		}
	}

	// ---- bounded exhaustive: every slice of length <= L over 3 values with identity payloads
	L := 4
	if run.Thorough() {
		L = 6
	}
	for _, algo := range cmpAlgos {
		for _, cmp := range cmpNames {
			if cmp != "asc" && cmp != "diff" && cmp != "mod3x5" && !run.Thorough() && algo != "quickcore" && algo != "heap" {
				continue
			}
			for n := 0; n <= L; n++ {
				var ops []string
				allArrays(n, 3, func(keys []int) {
					ops = append(ops, join("sort", algo, elemsOp(keys)))
					if len(ops) == 27 {
						do(run, algo, cmp, ops...)
						ops = nil
					}
				})
				if len(ops) > 0 {
					do(run, algo, cmp, ops...)
				}
			}
		}
	}
	run.Stats.Exhaustive = true
	run.Stats.Extra["exhaustive_part"] = fmt.Sprintf("all slices of length<=%d over 3 key values with identity payloads, 9 comparison sorts; "+
		"Select with every k on all slices of length<=%d; Shuffle with every choice vector up to length 4", L, L-1)

	// ---- Select: every k; partition on every range
	{
		r := run.R.Fork("select")
		for _, cmp := range cmpNames {
			for n := 1; n <= L-1; n++ {
				allArrays(n, 3, func(keys []int) {
					var ops []string
					for k := 0; k < n; k++ {
						ops = append(ops, join("select", strconv.Itoa(k), elemsOp(keys)))
					}
					do(run, "select", cmp, ops...)
				})
			}
		}
		for k := 0; k < run.Scale(40); k++ {
			n := r.Range(1, 40)
			keys := randKeys(r, n)
			var ops []string
			for kk := 0; kk < n; kk++ {
				if n <= 12 || r.Chance(1, 3) || kk == 0 || kk == n-1 {
					ops = append(ops, join("select", strconv.Itoa(kk), elemsOp(keys)))
				}
			}
			do(run, "select", cmpNames[k%len(cmpNames)], ops...)
		}
		// outside the precondition (k not in [0,n)): the index panic must agree with the Model
		do(run, "select", "asc", "select 0 5:0", "select 1 5:0")
		do(run, "select", "asc", "select -1 5:0 3:1")
		do(run, "select", "asc", "select 0")
		do(run, "select", "desc", "select 3 1:0 2:1 0:2")
		for k := 0; k < run.Scale(40); k++ {
			n := r.Range(1, 24)
			keys := randKeys(r, n)
			var ops []string
			for j := 0; j < 4; j++ {
				lo := r.Intn(n)
				hi := r.Range(lo, n-1)
				ops = append(ops, join("partition", strconv.Itoa(lo), strconv.Itoa(hi), elemsOp(keys)))
			}
			do(run, "partition", cmpNames[k%len(cmpNames)], ops...)
		}
	}

	// ---- Shuffle: scripted r.Intn results
	{
		r := run.R.Fork("shuffle")
		for k := 0; k < run.Scale(40); k++ {
			n := r.Range(0, 30)
			cs := make([]string, n)
			for i := range cs {
				cs[i] = strconv.Itoa(r.Intn(n - i))
			}
			c := "-"
			if n > 0 {
				c = strings.Join(cs, ",")
			}
			keys := make([]int, n)
			for i := range keys {
				keys[i] = i % 5
			}
			do(run, "shuffle", "asc", join("shuffle", c, elemsOp(keys)))
		}
		for n := 1; n <= 4; n++ { // every choice vector
			cs := make([]int, n)
			var rec func(i int)
			var ops []string
			rec = func(i int) {
				if i == n {
					ss := make([]string, n)
					for j, v := range cs {
						ss[j] = strconv.Itoa(v)
					}
					keys := make([]int, n)
					ops = append(ops, join("shuffle", strings.Join(ss, ","), elemsOp(keys)))
					return
				}
				for v := 0; v < n-i; v++ {
					cs[i] = v
					rec(i + 1)
				}
			}
			rec(0)
			do(run, "shuffle", "asc", ops...)
		}
	}

	// ---- radix sorts on machine words
	for _, algo := range []string{"lsduint", "lsdint", "msduint", "msdint"} {
		r := run.R.Fork(algo)
		signed := strings.HasSuffix(algo, "dint")
		for k := 0; k < run.Scale(60); k++ {
			var ops []string
			for j := 0; j < 3; j++ {
				ops = append(ops, join("sort", algo, wordsOp(randWords(r, bigLen(r)), signed)))
			}
			do(run, algo, "asc", ops...)
		}
		// every byte position: 17..40 words that differ only in byte p (and in the sign byte for p = 7)
		for p := uint(0); p < 8; p++ {
			n := r.Range(17, 40)
			ws := make([]uint64, n)
			base := r.U64()
			for i := range ws {
				ws[i] = (base &^ (0xff << (8 * p))) | (uint64(r.Intn(256)) << (8 * p))
			}
			do(run, algo, "asc", join("sort", algo, wordsOp(ws, signed)))
		}
		if strings.HasPrefix(algo, "msd") {
			at := algo + "at"
			for k := 0; k < run.Scale(40); k++ {
				n := r.Range(1, 90)
				ws := randWords(r, n)
				lo := r.Intn(n)
				hi := r.Range(lo, n-1)
				if r.Chance(1, 2) {
					lo, hi = 0, n-1
				}
				d := r.Intn(8)
				do(run, at, "asc", join(at, strconv.Itoa(lo), strconv.Itoa(hi), strconv.Itoa(d), wordsOp(ws, signed)))
			}
		}
	}
	// sign boundaries, exactly at the cutoff
	for _, n := range []int{15, 16, 17, 18} {
		ws := make([]uint64, n)
		for i := range ws {
			ws[i] = uint64(int64((i*7)%n - n/2))
		}
		do(run, "msdint", "asc", join("sort msdint", wordsOp(ws, true)), join("sort lsdint", wordsOp(ws, true)))
		us := make([]uint64, n)
		for i := range us {
			us[i] = uint64((i*7)%n%2)<<56 | uint64(n-i)
		}
		do(run, "msduint", "asc", join("sort msduint", wordsOp(us, false)), join("sort lsduint", wordsOp(us, false)))
	}
	do(run, "msdint", "asc", join("sort msdint", wordsOp([]uint64{math.MaxInt64, 1 << 63, 0, ^uint64(0), 1}, true)))

	// ---- radix sorts on strings
	for _, algo := range []string{"msdstring", "q3string"} {
		r := run.R.Fork(algo)
		for k := 0; k < run.Scale(60); k++ {
			var ops []string
			for j := 0; j < 3; j++ {
				ops = append(ops, join("sort", algo, strsOp(randStrs(r, bigLen(r), -1))))
			}
			do(run, algo, "asc", ops...)
		}
		at := algo + "at"
		for k := 0; k < run.Scale(40); k++ {
			n := r.Range(1, 90)
			ss := randStrs(r, n, -1)
			lo := r.Intn(n)
			hi := r.Range(lo, n-1)
			if r.Chance(1, 2) {
				lo, hi = 0, n-1
			}
			d := r.Intn(4)
			do(run, at, "asc", join(at, strconv.Itoa(lo), strconv.Itoa(hi), strconv.Itoa(d), strsOp(ss)))
		}
	}
	{
		r := run.R.Fork("lsdstring")
		for k := 0; k < run.Scale(80); k++ {
			w := r.Intn(6)
			n := r.Range(0, 48)
			ss := randStrs(r, n, w)
			if r.Chance(1, 5) { // longer keys: LSDString sorts stably by the first w bytes
				for i := range ss {
					if r.Bool() {
						ss[i] += randStr(r, alphabet, r.Range(1, 2))
					}
				}
			}
			do(run, "lsdstring", "asc", join("lsdstring", strconv.Itoa(w), strsOp(ss)))
		}
		// outside the precondition: a key shorter than w panics (index out of range) in the first pass
		do(run, "lsdstring", "asc", "lsdstring 2 x6162 x61 x6364")
		do(run, "lsdstring", "asc", "lsdstring 1 x")
	}
}
